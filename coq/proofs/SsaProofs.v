(* Soundness of the SSA validator (C14): a graph accepted by SsaCheck.infos_ok
   has, on every path from the entry block, every read naming the version most
   recently assigned on that path, and every phi finding the incoming version
   among its arguments. *)
From Coq Require Import ZArith NArith List Bool Lia.
Require Import Model.Base Model.Ir Model.SsaCheck Spec.SsaSpec Proofs.IrFacts.
Import ListNotations.

Definition meq (a b : vmap) : Prop := forall k, vget a k = vget b k.

Lemma meq_refl a : meq a a. Proof. intros k. reflexivity. Qed.
Lemma meq_trans a b c : meq a b -> meq b c -> meq a c.
Proof. intros H1 H2 k. rewrite H1. apply H2. Qed.
Lemma meq_sym a b : meq a b -> meq b a.
Proof. intros H k. symmetry. apply H. Qed.

Lemma meq_vset a b k n : meq a b -> meq (vset a k n) (vset b k n).
Proof. intros H k'. rewrite !vget_vset. destruct (key_eqb k k'); [reflexivity|apply H]. Qed.

Lemma meq_track a b s : meq a b -> meq (track a s) (track b s).
Proof.
  intros H. unfold track. destruct (stmt_def s) as [x|]; [|exact H].
  destruct (vn_version x); [apply meq_vset; exact H|exact H].
Qed.

Lemma read_ok_meq a b f v : meq a b -> read_ok a f v = read_ok b f v.
Proof. intros H. unfold read_ok. rewrite (H (key_of v)). reflexivity. Qed.

Lemma body_stmt_ok_meq a b s : meq a b -> body_stmt_ok a s = body_stmt_ok b s.
Proof.
  intros H. unfold body_stmt_ok. f_equal.
  induction (stmt_reads s) as [|v tl IH]; [reflexivity|]. cbn [forallb].
  rewrite (read_ok_meq a b _ v H), IH. reflexivity.
Qed.

Lemma body_run_meq ss : forall a b r, meq a b -> body_run a ss = Some r ->
  exists r', body_run b ss = Some r' /\ meq r r'.
Proof.
  induction ss as [|s tl IH]; intros a b r H; cbn [body_run].
  - intros [= <-]. eauto.
  - rewrite <- (body_stmt_ok_meq a b s H). destruct (body_stmt_ok a s); [|discriminate].
    apply IH. apply meq_track. exact H.
Qed.

Lemma apply_phis_meq phis : forall a b, meq a b -> meq (apply_phis a phis) (apply_phis b phis).
Proof.
  unfold apply_phis. induction phis as [|s tl IH]; intros a b H; cbn [fold_left]; [exact H|].
  apply IH. apply meq_track. exact H.
Qed.

(* the phi statements are exactly the statements with phi_parts *)
Lemma leading_phis_are_phis ss : forall phis body, leading_phis ss = (phis, body) ->
  Forall (fun s => is_phi_stmt s = true) phis.
Proof.
  induction ss as [|s tl IH]; intros phis body; cbn [leading_phis].
  - intros [= <- <-]. constructor.
  - destruct (is_phi_stmt s) eqn:E.
    + destruct (leading_phis tl) as [p b] eqn:El. intros [= <- <-]. constructor; [exact E|]. eapply IH; eauto.
    + intros [= <- <-]. constructor.
Qed.

Lemma is_phi_parts s : is_phi_stmt s = true -> exists x args, phi_parts s = Some (x, args).
Proof.
  destruct s; try discriminate. destruct rhe; try discriminate. cbn. eauto.
Qed.

Lemma phi_track m s x args : phi_parts s = Some (x, args) ->
  track m s = match vn_version x with Some n => vset m (key_of x) n | None => m end.
Proof.
  destruct s; try discriminate. destruct rhe; try discriminate. cbn. intros [= -> ->].
  unfold track. cbn [stmt_def]. destruct (vn_version x) eqn:E; [rewrite E|]; reflexivity.
Qed.

(* after the phis of a block, a phi'd key holds the phi's target and every
   other key is unchanged *)
Lemma vget_apply_phis phis : forall m k, phi_keys_nodup phis = true ->
  vget (apply_phis m phis) k =
  match find_phi phis k with
  | Some (x, _) => vn_version x
  | None => vget m k
  end.
Proof.
  unfold apply_phis. induction phis as [|s tl IH]; intros m k Hn; cbn [fold_left find_phi]; [reflexivity|].
  cbn [phi_keys_nodup] in Hn.
  destruct (phi_parts s) as [[x args]|] eqn:Ep; [|discriminate].
  destruct (vn_version x) as [n|] eqn:Ev; [|discriminate].
  destruct (find_phi tl (key_of x)) eqn:Ef; [discriminate|].
  rewrite (IH _ k Hn). rewrite (phi_track m s x args Ep), Ev.
  destruct (key_eqb (key_of x) k) eqn:Ek.
  - apply key_eqb_eq in Ek. subst k. rewrite Ef. rewrite vget_vset, key_eqb_refl. symmetry. exact Ev.
  - destruct (find_phi tl k) as [[y ?]|]; [reflexivity|]. rewrite vget_vset, Ek. reflexivity.
Qed.

Lemma find_phi_in phis : forall s x args, phi_keys_nodup phis = true -> In s phis ->
  phi_parts s = Some (x, args) -> find_phi phis (key_of x) = Some (x, args).
Proof.
  induction phis as [|s0 tl IH]; intros s x args Hn Hin Hp; [contradiction|].
  cbn [phi_keys_nodup] in Hn. cbn [find_phi].
  destruct (phi_parts s0) as [[x0 args0]|] eqn:Ep0; [|discriminate].
  destruct (vn_version x0) eqn:Ev0; [|discriminate].
  destruct (find_phi tl (key_of x0)) eqn:Ef0; [discriminate|].
  destruct Hin as [<-|Hin].
  - rewrite Hp in Ep0. injection Ep0 as <- <-. rewrite key_eqb_refl. reflexivity.
  - pose proof (IH s x args Hn Hin Hp) as Hf.
    destruct (key_eqb (key_of x0) (key_of x)) eqn:Ek.
    + apply key_eqb_eq in Ek. rewrite Ek in Ef0. congruence.
    + exact Hf.
Qed.

Lemma phi_key_list_in b s x args :
  In s (fst (leading_phis (b_stmts b))) -> phi_parts s = Some (x, args) -> In (key_of x) (phi_key_list b).
Proof.
  intros Hin Hp. unfold phi_key_list. apply in_flat_map. exists s. split; [exact Hin|]. rewrite Hp. left. reflexivity.
Qed.

Lemma find_phi_key_in phis : forall k x args, find_phi phis k = Some (x, args) ->
  In k (flat_map (fun s => match phi_parts s with Some (y, _) => [key_of y] | None => [] end) phis).
Proof.
  induction phis as [|s0 tl IH]; intros k x args Ef; [discriminate|].
  cbn [find_phi] in Ef. cbn [flat_map].
  destruct (phi_parts s0) as [[x0 a0]|].
  - destruct (key_eqb (key_of x0) k) eqn:Ek.
    + apply key_eqb_eq in Ek. left. exact Ek.
    + right. eauto.
  - eauto.
Qed.

Section Graph.
Variable c : cfg.
Variable infos : list binfo.
Hypothesis Hok : infos_ok infos c = true.

Lemma infos_len : length infos = length (c_blocks c).
Proof.
  pose proof Hok as Hk. unfold infos_ok in Hk. repeat (apply andb_true_iff in Hk as [Hk ?]).
  apply Nat.eqb_eq. exact Hk.
Qed.

Lemma block_facts i b : nth_error (c_blocks c) i = Some b ->
  exists info, nth_error infos i = Some info /\ block_ok info b = true.
Proof.
  intros Hb. pose proof infos_len as Hl.
  destruct (nth_error infos i) as [info|] eqn:Ei.
  - exists info. split; [reflexivity|].
    pose proof Hok as Hk. unfold infos_ok in Hk. repeat (apply andb_true_iff in Hk as [Hk ?]).
    rewrite forallb_forall in H1. apply (H1 (info, b)).
    clear -Ei Hb. revert infos Ei Hb. generalize (c_blocks c) as bs.
    induction i as [|i IH]; intros [|b0 bs] [|i0 is_]; cbn; try discriminate.
    + intros [= ->] [= ->]. left. reflexivity.
    + intros H1 H2. right. eapply IH; eauto.
  - exfalso. apply nth_error_None in Ei. assert (i < length (c_blocks c))%nat by (apply nth_error_Some; congruence). lia.
Qed.

Lemma edge_facts p bp s : nth_error (c_blocks c) p = Some bp -> In (N.of_nat s) (b_succs bp) ->
  b_index bp = N.of_nat p -> edge_ok infos (c_blocks c) p s = true.
Proof.
  intros Hb Hin Hidx.
  pose proof Hok as Hk. unfold infos_ok in Hk. apply andb_true_iff in Hk as [_ He].
  rewrite forallb_forall in He. specialize (He bp (nth_error_In _ _ Hb)).
  rewrite forallb_forall in He. specialize (He _ Hin).
  rewrite Hidx, !Nat2N.id in He. exact He.
Qed.

(* the central step: entering block s from p with a running map equivalent to
   p's exit map succeeds and ends equivalent to s's exit map *)
Lemma enter_step p s ip is_ bs_ L :
  nth_error infos p = Some ip -> nth_error infos s = Some is_ -> nth_error (c_blocks c) s = Some bs_ ->
  edge_ok infos (c_blocks c) p s = true -> block_ok is_ bs_ = true ->
  meq L (bi_out ip) ->
  exists L', enter_block L bs_ = Some L' /\ meq L' (bi_out is_).
Proof.
  intros Hip His Hbs He Hblk HL.
  unfold edge_ok in He. rewrite Hip, His, Hbs in He. rewrite forallb_forall in He.
  unfold block_ok in Hblk. unfold enter_block.
  destruct (leading_phis (b_stmts bs_)) as [phis body] eqn:Elp.
  apply andb_true_iff in Hblk as [Hnd Hbody].
  destruct (body_run (bi_in is_) body) as [o|] eqn:Ebr; [|discriminate].
  apply vmap_eqb_eq in Hbody. subst o.
  (* every key satisfies the edge condition *)
  assert (Hall : forall k, edge_key_ok ip is_ bs_ k = true).
  { intros k. unfold edge_key_ok at 1.
    destruct (vget (bi_out ip) k) as [n|] eqn:Eo.
    - assert (Hin : In k (map fst (bi_out ip) ++ map fst (bi_in is_) ++ phi_key_list bs_))
        by (apply in_or_app; left; eapply vget_some_in; eauto).
      specialize (He k Hin). unfold edge_key_ok in He. rewrite Eo in He. exact He.
    - rewrite Elp. cbn [fst].
      destruct (find_phi phis k) as [[x args]|] eqn:Ef.
      + (* k is a phi key: it is in the list *)
        assert (Hin : In k (map fst (bi_out ip) ++ map fst (bi_in is_) ++ phi_key_list bs_)).
        { apply in_or_app; right. apply in_or_app; right.
          unfold phi_key_list. rewrite Elp. cbn [fst]. eapply find_phi_key_in; eauto. }
        specialize (He k Hin). unfold edge_key_ok in He. rewrite Eo, Elp in He. cbn [fst] in He. rewrite Ef in He. exact He.
      + destruct (vget (bi_in is_) k) as [n|] eqn:Ei; [|reflexivity].
        assert (Hin : In k (map fst (bi_out ip) ++ map fst (bi_in is_) ++ phi_key_list bs_))
          by (apply in_or_app; right; apply in_or_app; left; eapply vget_some_in; eauto).
        specialize (He k Hin). unfold edge_key_ok in He. rewrite Eo, Elp in He. cbn [fst] in He.
        rewrite Ef, Ei in He. exact He. }
  (* the phis read one of their arguments *)
  assert (Hphis : forallb (phi_read_ok L) phis = true).
  { apply forallb_forall. intros s0 Hs0.
    pose proof (leading_phis_are_phis _ _ _ Elp) as Hf. rewrite Forall_forall in Hf.
    destruct (is_phi_parts s0 (Hf _ Hs0)) as (x & args & Hp).
    unfold phi_read_ok. rewrite Hp. rewrite (HL (key_of x)).
    specialize (Hall (key_of x)). unfold edge_key_ok in Hall. rewrite Elp in Hall. cbn [fst] in Hall.
    rewrite (find_phi_in phis s0 x args Hnd Hs0 Hp) in Hall.
    apply andb_true_iff in Hall as [Hall _]. exact Hall. }
  rewrite Hphis.
  (* after the phis the running map is the entry map of s *)
  assert (Hin : meq (apply_phis L phis) (bi_in is_)).
  { intros k. rewrite (vget_apply_phis phis L k Hnd).
    specialize (Hall k). unfold edge_key_ok in Hall. rewrite Elp in Hall. cbn [fst] in Hall.
    destruct (find_phi phis k) as [[x args]|].
    - apply andb_true_iff in Hall as [_ Hall]. apply optN_eqb_eq in Hall. symmetry. exact Hall.
    - apply optN_eqb_eq in Hall. rewrite (HL k). exact Hall. }
  destruct (body_run_meq body (bi_in is_) (apply_phis L phis) (bi_out is_) (meq_sym _ _ Hin) Ebr) as (r' & Hr & Hm).
  exists r'. split; [exact Hr|]. apply meq_sym. exact Hm.
Qed.

Hypothesis Hidx : forall i b, nth_error (c_blocks c) i = Some b -> b_index b = N.of_nat i.

Lemma walk_ok : forall pi p ip L,
  nth_error infos p = Some ip -> meq L (bi_out ip) -> is_walk c p pi ->
  exists L', exec_path c L pi = Some L'.
Proof.
  induction pi as [|s tl IH]; intros p ip L Hip HL Hw; cbn [exec_path]; [eauto|].
  cbn [is_walk] in Hw. destruct Hw as [(bp & Hbp & Hin) Hw].
  pose proof (edge_facts p bp s Hbp Hin (Hidx _ _ Hbp)) as He.
  assert (Hs : exists bs_, nth_error (c_blocks c) s = Some bs_).
  { unfold edge_ok in He. destruct (nth_error infos p); [|discriminate].
    destruct (nth_error infos s); [|discriminate].
    destruct (nth_error (c_blocks c) s) as [bq|]; [eauto|discriminate]. }
  destruct Hs as [bs_ Hbs]. rewrite Hbs.
  destruct (block_facts s bs_ Hbs) as (is_ & His & Hblk).
  destruct (enter_step p s ip is_ bs_ L Hip His Hbs He Hblk HL) as (L' & HL' & Hm).
  rewrite HL'. eapply IH; eauto.
Qed.

Lemma entry_facts : exists i0 b0,
  nth_error infos 0 = Some i0 /\ nth_error (c_blocks c) 0 = Some b0 /\
  bi_in i0 = params_map (c_params c) /\ fst (leading_phis (b_stmts b0)) = [].
Proof.
  pose proof Hok as Hk. unfold infos_ok in Hk.
  apply andb_true_iff in Hk as [Hk _]. apply andb_true_iff in Hk as [_ H0].
  destruct infos as [|i0 itl]; [discriminate|].
  destruct (c_blocks c) as [|b0 btl]; [discriminate|].
  apply andb_true_iff in H0 as [Hin0 Hnophi]. apply vmap_eqb_eq in Hin0.
  exists i0, b0. repeat split; try reflexivity; [exact Hin0|].
  destruct (fst (leading_phis (b_stmts b0))); [reflexivity|discriminate].
Qed.

(* every path from the entry block executes without a disagreeing read *)
Theorem paths_ok pi : path_from_entry c pi ->
  exists L, exec_path c (params_map (c_params c)) pi = Some L.
Proof.
  destruct pi as [|[|n] tl]; cbn [path_from_entry]; try contradiction. intros Hw.
  cbn [exec_path].
  destruct entry_facts as (i0 & b0 & Hi0 & Hb0 & Hin0 & Hnophi).
  rewrite Hb0.
  destruct (block_facts 0 b0 Hb0) as (i0' & Hi0' & Hblk).
  rewrite Hi0 in Hi0'. injection Hi0' as <-.
  unfold block_ok in Hblk. unfold enter_block.
  destruct (leading_phis (b_stmts b0)) as [phis body] eqn:Elp. cbn [fst] in Hnophi. subst phis.
  cbn [forallb apply_phis fold_left].
  apply andb_true_iff in Hblk as [_ Hbody].
  rewrite <- Hin0.
  destruct (body_run (bi_in i0) body) as [o|] eqn:Ebr; [|discriminate].
  apply vmap_eqb_eq in Hbody. subst o.
  exact (walk_ok tl 0 i0 (bi_out i0) Hi0 (meq_refl _) Hw).
Qed.
End Graph.

(* ---------- packaging for ssa_check ---------- *)
Lemma indices_ok_nth bs : forall k i b, indices_ok bs k = true -> nth_error bs i = Some b ->
  b_index b = N.of_nat (k + i).
Proof.
  induction bs as [|b0 tl IH]; intros k i b H Hn; [destruct i; discriminate|].
  cbn [indices_ok] in H. apply andb_true_iff in H as [H0 H1].
  destruct i as [|i]; cbn [nth_error] in Hn.
  - injection Hn as <-. apply N.eqb_eq in H0. rewrite H0. f_equal. lia.
  - rewrite (IH (S k) i b H1 Hn). f_equal. lia.
Qed.

Theorem ssa_check_paths_ok c idom pi :
  ssa_check c idom = true -> path_from_entry c pi ->
  exists L, exec_path c (params_map (c_params c)) pi = Some L.
Proof.
  intros Hc Hp. unfold ssa_check in Hc.
  apply andb_true_iff in Hc as [Hc _]. apply andb_true_iff in Hc as [Hc _].
  apply andb_true_iff in Hc as [Hshape Hinf].
  destruct (compute_infos (c_params c) idom (c_blocks c) []) as [infos|]; [|discriminate].
  apply (paths_ok c infos Hinf); [|exact Hp].
  intros i b Hb. unfold shape_ok in Hshape.
  repeat (apply andb_true_iff in Hshape as [Hshape ?]).
  exact (indices_ok_nth (c_blocks c) 0 i b Hshape Hb).
Qed.

Lemma vname_eqb_true_eq a b : vname_eqb a b = true -> a = b.
Proof.
  unfold vname_eqb. intros H. apply andb_true_iff in H as [H Hv]. apply andb_true_iff in H as [Hn Hs].
  apply ident_eqb_eq' in Hn. apply (opt_eqb_eq' ident_eqb ident_eqb_eq') in Hs. apply optN_eqb_eq in Hv.
  destruct a, b; cbn in *. congruence.
Qed.

Lemma vname_eqb_refl' a : vname_eqb a a = true.
Proof.
  unfold vname_eqb. rewrite !andb_true_iff. repeat split.
  - apply ident_eqb_eq'. reflexivity.
  - apply (opt_eqb_eq' ident_eqb ident_eqb_eq'). reflexivity.
  - apply optN_eqb_eq. reflexivity.
Qed.

Lemma nodup_v_NoDup l : nodup_v l = true -> NoDup l.
Proof.
  induction l as [|x tl IH]; cbn [nodup_v]; intros H; constructor.
  - apply andb_true_iff in H as [H _]. intros Hin. apply negb_true_iff in H.
    assert (existsb (vname_eqb x) tl = true) by (apply existsb_exists; exists x; split; [exact Hin|apply vname_eqb_refl']).
    congruence.
  - apply andb_true_iff in H as [_ H]. auto.
Qed.

(* at most one defining statement per versioned local *)
Theorem ssa_check_unique_defs c idom : ssa_check c idom = true -> NoDup (all_defs c).
Proof.
  intros Hc. unfold ssa_check in Hc. apply andb_true_iff in Hc as [Hc _]. apply andb_true_iff in Hc as [_ Hn].
  apply nodup_v_NoDup. exact Hn.
Qed.

(* versioned names are declared locals; signals and components stay unversioned *)
Theorem ssa_check_occurrences c idom v :
  ssa_check c idom = true -> In v (all_occurrences c) ->
  match vn_version v with
  | Some _ => decl_type c v = Some TLocal
  | None => decl_type c v <> Some TLocal
  end.
Proof.
  intros Hc Hin. unfold ssa_check in Hc. apply andb_true_iff in Hc as [_ Ho].
  rewrite forallb_forall in Ho. specialize (Ho v Hin). unfold occurrence_ok in Ho.
  destruct (vn_version v); destruct (decl_type c v) as [[]|]; try discriminate; congruence.
Qed.

(* phi statements stand only at the head of blocks: the body of an accepted
   block contains none *)
Lemma body_run_no_phi ss : forall m r, body_run m ss = Some r -> Forall (fun s => is_phi_stmt s = false) ss.
Proof.
  induction ss as [|s tl IH]; intros m r; cbn [body_run]; [constructor|].
  unfold body_stmt_ok. destruct (is_phi_stmt s) eqn:E; cbn [negb andb]; [discriminate|].
  destruct (forallb _ _); [|discriminate]. intros H. constructor; [exact E|]. eapply IH; eauto.
Qed.

Theorem ssa_check_phis_at_head c idom i b :
  ssa_check c idom = true -> nth_error (c_blocks c) i = Some b ->
  Forall (fun s => is_phi_stmt s = false) (snd (leading_phis (b_stmts b))).
Proof.
  intros Hc Hb. unfold ssa_check in Hc.
  apply andb_true_iff in Hc as [Hc _]. apply andb_true_iff in Hc as [Hc _].
  apply andb_true_iff in Hc as [_ Hinf].
  destruct (compute_infos (c_params c) idom (c_blocks c) []) as [infos|]; [|discriminate].
  destruct (block_facts c infos Hinf i b Hb) as (info & _ & Hblk).
  unfold block_ok in Hblk. destruct (leading_phis (b_stmts b)) as [phis body]. cbn [snd].
  apply andb_true_iff in Hblk as [_ Hbody].
  destruct (body_run (bi_in info) body) eqn:E; [|discriminate]. eapply body_run_no_phi; eauto.
Qed.

(* ---------- every read is preceded, on every path, by its definition ---------- *)
Definition sets (s : stmt) (k : key) (n : N) : Prop :=
  exists x, stmt_def s = Some x /\ key_of x = k /\ vn_version x = Some n.

Lemma track_vget m s k n : vget (track m s) k = Some n -> vget m k = Some n \/ sets s k n.
Proof.
  unfold track. destruct (stmt_def s) as [x|] eqn:Ed; [|auto].
  destruct (vn_version x) as [n'|] eqn:Ev; [|auto].
  rewrite vget_vset. destruct (key_eqb (key_of x) k) eqn:Ek; [|auto].
  intros [= <-]. right. exists x. apply key_eqb_eq in Ek. auto.
Qed.

Lemma apply_phis_vget phis : forall m k n, vget (apply_phis m phis) k = Some n ->
  vget m k = Some n \/ exists s, In s phis /\ sets s k n.
Proof.
  unfold apply_phis. induction phis as [|s tl IH]; intros m k n; cbn [fold_left]; [auto|].
  intros H. destruct (IH _ _ _ H) as [H1|(s' & Hin & Hs)].
  - destruct (track_vget _ _ _ _ H1) as [H2|H2]; [auto|]. right. exists s. split; [left; reflexivity|exact H2].
  - right. exists s'. split; [right; exact Hin|exact Hs].
Qed.

Lemma body_run_vget ss : forall m m' k n, body_run m ss = Some m' -> vget m' k = Some n ->
  vget m k = Some n \/ exists s, In s ss /\ sets s k n.
Proof.
  induction ss as [|s tl IH]; intros m m' k n; cbn [body_run].
  - intros [= <-]. auto.
  - destruct (body_stmt_ok m s); [|discriminate]. intros Hr Hv.
    destruct (IH _ _ _ _ Hr Hv) as [H1|(s' & Hin & Hs)].
    + destruct (track_vget _ _ _ _ H1) as [H2|H2]; [auto|]. right. exists s. split; [left; reflexivity|exact H2].
    + right. exists s'. split; [right; exact Hin|exact Hs].
Qed.

(* the running map in front of a statement of the body *)
Lemma body_run_split pre s post : forall m m', body_run m (pre ++ s :: post) = Some m' ->
  exists m1, body_run m pre = Some m1 /\ body_stmt_ok m1 s = true.
Proof.
  induction pre as [|x tl IH]; intros m m'; cbn [app body_run].
  - destruct (body_stmt_ok m s) eqn:E; [|discriminate]. intros _. exists m. auto.
  - destruct (body_stmt_ok m x); [|discriminate]. apply IH.
Qed.

Lemma leading_phis_app ss : forall phis body, leading_phis ss = (phis, body) -> ss = phis ++ body.
Proof.
  induction ss as [|s tl IH]; intros phis body; cbn [leading_phis].
  - intros [= <- <-]. reflexivity.
  - destruct (is_phi_stmt s).
    + destruct (leading_phis tl) as [p b] eqn:El. intros [= <- <-]. cbn [app]. f_equal. apply IH. reflexivity.
    + intros [= <- <-]. reflexivity.
Qed.

Lemma enter_block_vget L b L' k n : enter_block L b = Some L' -> vget L' k = Some n ->
  vget L k = Some n \/ exists s, In s (b_stmts b) /\ sets s k n.
Proof.
  unfold enter_block. destruct (leading_phis (b_stmts b)) as [phis body] eqn:El.
  destruct (forallb (phi_read_ok L) phis); [|discriminate]. intros Hr Hv.
  pose proof (leading_phis_app _ _ _ El) as Happ.
  destruct (body_run_vget _ _ _ _ _ Hr Hv) as [H1|(s & Hin & Hs)].
  - destruct (apply_phis_vget _ _ _ _ H1) as [H2|(s & Hin & Hs)]; [auto|].
    right. exists s. split; [rewrite Happ; apply in_or_app; left; exact Hin|exact Hs].
  - right. exists s. split; [rewrite Happ; apply in_or_app; right; exact Hin|exact Hs].
Qed.

Definition defined_on (c : cfg) (pi : list nat) (k : key) (n : N) : Prop :=
  exists j b s, In j pi /\ nth_error (c_blocks c) j = Some b /\ In s (b_stmts b) /\ sets s k n.

Lemma exec_path_vget c : forall pi L L' k n, exec_path c L pi = Some L' -> vget L' k = Some n ->
  vget L k = Some n \/ defined_on c pi k n.
Proof.
  induction pi as [|i tl IH]; intros L L' k n; cbn [exec_path].
  - intros [= <-]. auto.
  - destruct (nth_error (c_blocks c) i) as [b|] eqn:Eb; [|discriminate].
    destruct (enter_block L b) as [L1|] eqn:Ee; [|discriminate]. intros Hr Hv.
    destruct (IH _ _ _ _ Hr Hv) as [H1|(j & b' & s & Hj & Hb' & Hs & Hset)].
    + destruct (enter_block_vget _ _ _ _ _ Ee H1) as [H2|(s & Hin & Hs)]; [auto|].
      right. exists i, b, s. repeat split; auto. left. reflexivity.
    + right. exists j, b', s. repeat split; auto. right. exact Hj.
Qed.

Lemma exec_path_app c : forall pi1 pi2 L L', exec_path c L (pi1 ++ pi2) = Some L' ->
  exists L1, exec_path c L pi1 = Some L1 /\ exec_path c L1 pi2 = Some L'.
Proof.
  induction pi1 as [|i tl IH]; intros pi2 L L'; cbn [app exec_path].
  - intros H. exists L. auto.
  - destruct (nth_error (c_blocks c) i) as [b|]; [|discriminate].
    destruct (enter_block L b) as [L1|]; [|discriminate]. apply IH.
Qed.

(* On every path from the entry that ends in the block of the read, the version
   a read names has been assigned on that path (or is the parameter's version,
   or is the fresh base version of an element-wise update): hence the unique
   defining statement dominates the read. *)
Theorem ssa_check_read_defined_on_path c idom pi bi b s v n :
  ssa_check c idom = true -> path_from_entry c (pi ++ [bi]) ->
  nth_error (c_blocks c) bi = Some b -> In s (b_stmts b) -> is_phi_stmt s = false ->
  In v (stmt_reads s) -> vn_version v = Some n ->
  update_base s = Some v \/
  vget (params_map (c_params c)) (key_of v) = Some n \/
  defined_on c (pi ++ [bi]) (key_of v) n.
Proof.
  intros Hc Hp Hb Hs Hnphi Hv Hn.
  destruct (ssa_check_paths_ok c idom _ Hc Hp) as [Lf Hex].
  destruct (exec_path_app c pi [bi] _ _ Hex) as (L1 & Hpre & Hlast).
  cbn [exec_path] in Hlast. rewrite Hb in Hlast.
  destruct (enter_block L1 b) as [L2|] eqn:Ee; [|discriminate]. clear Hlast.
  unfold enter_block in Ee. destruct (leading_phis (b_stmts b)) as [phis body] eqn:El.
  destruct (forallb (phi_read_ok L1) phis) eqn:Ephi; [|discriminate].
  pose proof (leading_phis_app _ _ _ El) as Happ.
  (* s is in the body (it is not a phi) *)
  assert (Hsb : In s body).
  { rewrite Happ in Hs. apply in_app_or in Hs as [Hs|Hs]; [|exact Hs].
    pose proof (leading_phis_are_phis _ _ _ El) as Hf. rewrite Forall_forall in Hf. specialize (Hf s Hs). congruence. }
  apply in_split in Hsb as (pre & post & Hsplit). rewrite Hsplit in Ee.
  destruct (body_run_split pre s post _ _ Ee) as (m1 & Hm1 & Hok).
  unfold body_stmt_ok in Hok. apply andb_true_iff in Hok as [_ Hreads]. rewrite forallb_forall in Hreads.
  specialize (Hreads v Hv). unfold read_ok in Hreads. rewrite Hn in Hreads.
  destruct (vget m1 (key_of v)) as [n'|] eqn:Eg.
  - apply N.eqb_eq in Hreads. subst n'.
    (* trace the version back through the prefix of the body, the phis and the path *)
    destruct (body_run_vget _ _ _ _ _ Hm1 Eg) as [H1|(s' & Hin & Hset)].
    + destruct (apply_phis_vget _ _ _ _ H1) as [H2|(s' & Hin & Hset)].
      * destruct (exec_path_vget c pi _ _ _ _ Hpre H2) as [H3|(j & b' & s' & Hj & Hb' & Hs' & Hset)].
        -- right. left. exact H3.
        -- right. right. exists j, b', s'. repeat split; auto. apply in_or_app. left. exact Hj.
      * right. right. exists bi, b, s'. repeat split; auto.
        -- apply in_or_app. right. left. reflexivity.
        -- rewrite Happ. apply in_or_app. left. exact Hin.
    + right. right. exists bi, b, s'. repeat split; auto.
      * apply in_or_app. right. left. reflexivity.
      * rewrite Happ, Hsplit. apply in_or_app. right. apply in_or_app. left. exact Hin.
  - destruct (update_base s) as [w|] eqn:Eu; [|discriminate]. left. f_equal.
    apply vname_eqb_true_eq. exact Hreads.
Qed.
