(* Lemmas about Model.Desugar (mirror of syntax_sugar_remover.rs /
   syntax_sugar_traits.rs) against Spec.ExpandSpec. *)
From Coq Require Import ZArith NArith List Bool String Lia.
Require Import Model.Ast Model.Desugar Spec.ExpandSpec.
Import ListNotations.
Local Open Scope list_scope.

(* ======================================================================= *)
(* A. induction principles for the nested syntax trees                      *)
(* ======================================================================= *)

Definition access_all (P : expression -> Prop) (a : access) : Prop :=
  match a with ArrayAccess i => P i | ComponentAccess _ => True end.

Section ExprInd.
  Variable P : expression -> Prop.
  Hypothesis HInfix : forall m l o r, P l -> P r -> P (InfixOp m l o r).
  Hypothesis HPrefix : forall m o r, P r -> P (PrefixOp m o r).
  Hypothesis HSwitch : forall m c t f, P c -> P t -> P f -> P (InlineSwitchOp m c t f).
  Hypothesis HPar : forall m r, P r -> P (ParallelOp m r).
  Hypothesis HVar : forall m n acc, Forall (access_all P) acc -> P (Variable_ m n acc).
  Hypothesis HNum : forall m v, P (Number m v).
  Hypothesis HCall : forall m id args, Forall P args -> P (Call m id args).
  Hypothesis HAnon : forall m id par ps ss names, Forall P ps -> Forall P ss ->
    P (AnonymousComponent m id par ps ss names).
  Hypothesis HArr : forall m vs, Forall P vs -> P (ArrayInLine m vs).
  Hypothesis HTuple : forall m vs, Forall P vs -> P (Tuple m vs).

  Fixpoint expression_ind' (e : expression) : P e :=
    let list_ind := fix go (l : list expression) : Forall P l :=
      match l with
      | [] => Forall_nil _
      | x :: r => Forall_cons _ (expression_ind' x) (go r)
      end in
    match e with
    | InfixOp m l o r => HInfix m l o r (expression_ind' l) (expression_ind' r)
    | PrefixOp m o r => HPrefix m o r (expression_ind' r)
    | InlineSwitchOp m c t f =>
        HSwitch m c t f (expression_ind' c) (expression_ind' t) (expression_ind' f)
    | ParallelOp m r => HPar m r (expression_ind' r)
    | Variable_ m n acc =>
        HVar m n acc
          ((fix go (l : list access) : Forall (access_all P) l :=
              match l with
              | [] => Forall_nil _
              | a :: r =>
                  Forall_cons _
                    (match a as a0 return access_all P a0 with
                     | ArrayAccess i => expression_ind' i
                     | ComponentAccess _ => I
                     end) (go r)
              end) acc)
    | Number m v => HNum m v
    | Call m id args => HCall m id args (list_ind args)
    | AnonymousComponent m id par ps ss names => HAnon m id par ps ss names (list_ind ps) (list_ind ss)
    | ArrayInLine m vs => HArr m vs (list_ind vs)
    | Tuple m vs => HTuple m vs (list_ind vs)
    end.
End ExprInd.

Section StmtInd.
  Variable P : statement -> Prop.
  Hypothesis HIf : forall m c i e, P i -> (forall e', e = Some e' -> P e') -> P (IfThenElse m c i e).
  Hypothesis HWhile : forall m c b, P b -> P (While m c b).
  Hypothesis HReturn : forall m v, P (Return m v).
  Hypothesis HInit : forall m t l, Forall P l -> P (InitializationBlock m t l).
  Hypothesis HDecl : forall m t n d c, P (Declaration m t n d c).
  Hypothesis HSub : forall m v a o r, P (Substitution m v a o r).
  Hypothesis HMSub : forall m l o r, P (MultiSubstitution m l o r).
  Hypothesis HCeq : forall m l r, P (ConstraintEquality m l r).
  Hypothesis HLog : forall m a, P (LogCall m a).
  Hypothesis HBlock : forall m l, Forall P l -> P (Block m l).
  Hypothesis HAssert : forall m a, P (Assert m a).

  Fixpoint statement_ind' (s : statement) : P s :=
    let list_ind := fix go (l : list statement) : Forall P l :=
      match l with
      | [] => Forall_nil _
      | x :: r => Forall_cons _ (statement_ind' x) (go r)
      end in
    match s with
    | IfThenElse m c i e =>
        HIf m c i e (statement_ind' i)
          (match e as e0 return forall e', e0 = Some e' -> P e' with
           | Some x => fun e' H => match H in _ = y return match y with Some z => P z | None => True end
                                   with eq_refl => statement_ind' x end
           | None => fun e' H => match H in _ = y return match y with Some z => P z | None => True end
                                 with eq_refl => I end
           end)
    | While m c b => HWhile m c b (statement_ind' b)
    | Return m v => HReturn m v
    | InitializationBlock m t l => HInit m t l (list_ind l)
    | Declaration m t n d c => HDecl m t n d c
    | Substitution m v a o r => HSub m v a o r
    | MultiSubstitution m l o r => HMSub m l o r
    | ConstraintEquality m l r => HCeq m l r
    | LogCall m a => HLog m a
    | Block m l => HBlock m l (list_ind l)
    | Assert m a => HAssert m a
    end.
End StmtInd.

(* ======================================================================= *)
(* B. ContainsExpression is a complete traversal                             *)
(* ======================================================================= *)

Lemma fold_left_orb : forall {A} (f : A -> bool) l b,
  fold_left (fun res a => f a || res) l b = existsb f l || b.
Proof.
  induction l as [|x l IH]; intros b; simpl.
  - reflexivity.
  - rewrite IH. destruct (f x), (existsb f l), b; reflexivity.
Qed.

Lemma existsb_flat_map : forall {A B} (p : B -> bool) (g : A -> list B) l,
  existsb p (flat_map g l) = existsb (fun x => existsb p (g x)) l.
Proof.
  induction l as [|x l IH]; simpl; [reflexivity|].
  rewrite existsb_app, IH. reflexivity.
Qed.

Lemma existsb_ext_Forall : forall {A} (f g : A -> bool) l,
  Forall (fun x => f x = g x) l -> existsb f l = existsb g l.
Proof.
  induction 1; simpl; [reflexivity|]. rewrite H, IHForall. reflexivity.
Qed.

Lemma access_fold_existsb : forall (f : expression -> bool) acc,
  access_fold f acc =
  existsb (fun a => match a with ArrayAccess i => f i | ComponentAccess _ => false end) acc.
Proof.
  intros f acc. unfold access_fold.
  assert (H : forall b,
    fold_left (fun res a => match a with ArrayAccess i => f i || res | ComponentAccess _ => res end) acc b =
    existsb (fun a => match a with ArrayAccess i => f i | ComponentAccess _ => false end) acc || b).
  { induction acc as [|a acc IH]; intros b; simpl; [reflexivity|].
    rewrite IH. destruct a as [s|i]; simpl.
    - reflexivity.
    - destruct (f i), (existsb _ acc), b; reflexivity. }
  rewrite H. apply orb_false_r.
Qed.

(* contains_expr visits exactly the sub-expressions *)
Lemma contains_expr_existsb : forall matcher e,
  contains_expr matcher e = existsb matcher (sub_exprs e).
Proof.
  intros matcher. induction e using expression_ind'; simpl;
    destruct (matcher _) eqn:Hm; simpl; try reflexivity;
    rewrite ?fold_left_orb, ?access_fold_existsb, ?existsb_app, ?existsb_flat_map, ?orb_false_r.
  - rewrite IHe1, IHe2. apply orb_comm.
  - exact IHe.
  - rewrite IHe1, IHe2, IHe3. destruct (existsb _ (sub_exprs e1)), (existsb _ (sub_exprs e2)), (existsb _ (sub_exprs e3)); reflexivity.
  - exact IHe.
  - apply existsb_ext_Forall. eapply Forall_impl; [|exact H].
    intros [s|i]; simpl; auto.
  - apply existsb_ext_Forall. exact H.
  - rewrite (existsb_ext_Forall _ _ _ H), (existsb_ext_Forall _ _ _ H0). apply orb_comm.
  - apply existsb_ext_Forall. exact H.
  - apply existsb_ext_Forall. exact H.
Qed.

Lemma contains_expr_stmt_existsb : forall matcher s,
  contains_expr_stmt matcher s = existsb matcher (stmt_exprs s).
Proof.
  intros matcher. induction s using statement_ind'; simpl;
    rewrite ?fold_left_orb, ?access_fold_existsb, ?existsb_app, ?existsb_flat_map, ?orb_false_r,
            ?contains_expr_existsb.
  - rewrite IHs. destruct e as [e'|].
    + rewrite (H e' eq_refl).
      destruct (existsb _ (sub_exprs c)), (existsb _ (stmt_exprs s)), (existsb _ (stmt_exprs e')); reflexivity.
    + simpl. rewrite orb_false_r. apply orb_comm.
  - rewrite IHs. apply orb_comm.
  - reflexivity.
  - apply existsb_ext_Forall. exact H.
  - apply existsb_ext_Forall. apply Forall_forall. intros. apply contains_expr_existsb.
  - unfold access_exprs. rewrite existsb_flat_map. rewrite orb_comm. f_equal.
    apply existsb_ext_Forall. apply Forall_forall. intros [?|i] _; simpl; auto using contains_expr_existsb.
  - apply orb_comm.
  - apply orb_comm.
  - apply existsb_ext_Forall. apply Forall_forall. intros [?|x] _; simpl; auto using contains_expr_existsb.
  - apply existsb_ext_Forall. exact H.
  - reflexivity.
Qed.

(* contains_expr m s = false -> no sub-expression of s satisfies m *)
Lemma contains_expr_complete : forall matcher e,
  contains_expr matcher e = false -> forall x, In x (sub_exprs e) -> matcher x = false.
Proof.
  intros matcher e H x Hx. rewrite contains_expr_existsb in H.
  destruct (matcher x) eqn:E; [|reflexivity].
  assert (existsb matcher (sub_exprs e) = true) by (apply existsb_exists; eauto). congruence.
Qed.

Lemma contains_expr_sound : forall matcher e,
  contains_expr matcher e = true -> exists x, In x (sub_exprs e) /\ matcher x = true.
Proof. intros matcher e H. rewrite contains_expr_existsb in H. apply existsb_exists in H. exact H. Qed.

Lemma contains_expr_stmt_complete : forall matcher s,
  contains_expr_stmt matcher s = false -> forall x, In x (stmt_exprs s) -> matcher x = false.
Proof.
  intros matcher s H x Hx. rewrite contains_expr_stmt_existsb in H.
  destruct (matcher x) eqn:E; [|reflexivity].
  assert (existsb matcher (stmt_exprs s) = true) by (apply existsb_exists; eauto). congruence.
Qed.

Lemma contains_expr_stmt_sound : forall matcher s,
  contains_expr_stmt matcher s = true -> exists x, In x (stmt_exprs s) /\ matcher x = true.
Proof. intros matcher s H. rewrite contains_expr_stmt_existsb in H. apply existsb_exists in H. exact H. Qed.

(* ======================================================================= *)
(* C. small facts about outcomes                                             *)
(* ======================================================================= *)

Lemma dbind_ok : forall {A B} (m : dres A) (f : A -> dres B) b,
  dbind m f = DOk b -> exists a, m = DOk a /\ f a = DOk b.
Proof. intros A B [a|r|s|] f b H; simpl in H; try discriminate. eauto. Qed.

Lemma fail_not_ok : forall {A} c m msg (a : A), fail c m msg <> DOk a.
Proof. intros A c m msg a. unfold fail, mk_report. destruct (m_file m); simpl; discriminate. Qed.

Ltac inv_ok :=
  repeat match goal with
  | H : dbind _ _ = DOk _ |- _ =>
      let a := fresh "a" in let Ha := fresh "Ha" in
      apply dbind_ok in H; destruct H as [a [Ha H]]
  | H : fail _ _ _ = DOk _ |- _ => exfalso; exact (fail_not_ok _ _ _ _ H)
  | H : DOk _ = DOk _ |- _ => inversion H; subst; clear H
  | H : DErr _ = DOk _ |- _ => discriminate H
  | H : DPanic _ = DOk _ |- _ => discriminate H
  | H : DOutOfFuel = DOk _ |- _ => discriminate H
  | a : (_ * _)%type |- _ => destruct a
  end.

Lemma existsb_false_Forall : forall {A} (p : A -> bool) l,
  existsb p l = false <-> Forall (fun x => p x = false) l.
Proof.
  induction l as [|x l IH]; simpl.
  - split; auto.
  - rewrite orb_false_iff, IH. split; [intros [? ?]; auto | intros H; inversion H; auto].
Qed.

Lemma find_none_Forall : forall {A} (p : A -> bool) l,
  find p l = None <-> Forall (fun x => p x = false) l.
Proof.
  induction l as [|x l IH]; simpl.
  - split; auto.
  - destruct (p x) eqn:E.
    + split; [discriminate | intros H; inversion H; congruence].
    + rewrite IH. split; [auto | intros H; inversion H; auto].
Qed.

(* ======================================================================= *)
(* D. "clean" trees                                                          *)
(* ======================================================================= *)

(* no sub-expression satisfies m *)
Definition CL (m : expression -> bool) (e : expression) : Prop := contains_expr m e = false.
Definition CLs (m : expression -> bool) (s : statement) : Prop := contains_expr_stmt m s = false.
Notation NA := (CL is_anonymous_component).
Notation NT := (CL is_tuple).
Notation NAs := (CLs is_anonymous_component).
Notation NTs := (CLs is_tuple).

Definition CLacc (m : expression -> bool) (acc : list access) : Prop :=
  Forall (access_all (CL m)) acc.

Lemma CL_unfold : forall m e, CL m e <-> existsb m (sub_exprs e) = false.
Proof. intros. unfold CL. rewrite contains_expr_existsb. tauto. Qed.
Lemma CLs_unfold : forall m s, CLs m s <-> existsb m (stmt_exprs s) = false.
Proof. intros. unfold CLs. rewrite contains_expr_stmt_existsb. tauto. Qed.

Lemma CL_list : forall m l,
  existsb m (flat_map sub_exprs l) = false <-> Forall (CL m) l.
Proof.
  intros. rewrite existsb_flat_map, existsb_false_Forall.
  split; apply Forall_impl; intros a; rewrite CL_unfold; auto.
Qed.

Lemma CLs_list : forall m l,
  existsb m (flat_map stmt_exprs l) = false <-> Forall (CLs m) l.
Proof.
  intros. rewrite existsb_flat_map, existsb_false_Forall.
  split; apply Forall_impl; intros a; rewrite CLs_unfold; auto.
Qed.

Lemma CLacc_unfold : forall m acc, existsb m (access_exprs acc) = false <-> CLacc m acc.
Proof.
  intros. unfold access_exprs, CLacc. rewrite existsb_flat_map, existsb_false_Forall.
  split; apply Forall_impl; intros [s|i]; simpl; rewrite ?CL_unfold; auto.
Qed.

Lemma CL_var : forall m mm n acc, m (Variable_ mm n acc) = false ->
  (CL m (Variable_ mm n acc) <-> CLacc m acc).
Proof.
  intros. rewrite CL_unfold. simpl. rewrite H. simpl. apply CLacc_unfold.
Qed.

Lemma CLs_sub : forall m mm v acc o r,
  CLs m (Substitution mm v acc o r) <-> CLacc m acc /\ CL m r.
Proof.
  intros. rewrite CLs_unfold. simpl. rewrite existsb_app, orb_false_iff, CLacc_unfold, <- CL_unfold. tauto.
Qed.

Lemma CLs_block : forall m mm l, CLs m (Block mm l) <-> Forall (CLs m) l.
Proof. intros. rewrite CLs_unfold. simpl. apply CLs_list. Qed.
Lemma CLs_init : forall m mm t l, CLs m (InitializationBlock mm t l) <-> Forall (CLs m) l.
Proof. intros. rewrite CLs_unfold. simpl. apply CLs_list. Qed.
Lemma CLs_decl : forall m mm t n d c, CLs m (Declaration mm t n d c) <-> Forall (CL m) d.
Proof. intros. rewrite CLs_unfold. simpl. apply CL_list. Qed.
Lemma CLs_msub : forall m mm l o r, CLs m (MultiSubstitution mm l o r) <-> CL m l /\ CL m r.
Proof. intros. rewrite CLs_unfold. simpl. rewrite existsb_app, orb_false_iff, <- !CL_unfold. tauto. Qed.
Lemma CLs_ceq : forall m mm l r, CLs m (ConstraintEquality mm l r) <-> CL m l /\ CL m r.
Proof. intros. rewrite CLs_unfold. simpl. rewrite existsb_app, orb_false_iff, <- !CL_unfold. tauto. Qed.
Lemma CLs_while : forall m mm c b, CLs m (While mm c b) <-> CL m c /\ CLs m b.
Proof. intros. rewrite CLs_unfold. simpl. rewrite existsb_app, orb_false_iff, <- CL_unfold, <- CLs_unfold. tauto. Qed.
Lemma CLs_if : forall m mm c i e,
  CLs m (IfThenElse mm c i e) <-> CL m c /\ CLs m i /\ (forall e', e = Some e' -> CLs m e').
Proof.
  intros. rewrite CLs_unfold. simpl. rewrite !existsb_app, !orb_false_iff, <- CL_unfold, <- CLs_unfold.
  destruct e as [e'|].
  - rewrite <- CLs_unfold. split; [intros (?&?&?); repeat split; auto; intros ? [= <-]; auto | intros (?&?&H); auto].
  - simpl. split; [intros (?&?&?); repeat split; auto; discriminate | intros (?&?&?); auto].
Qed.
Lemma CLs_return : forall m mm v, CLs m (Return mm v) <-> CL m v.
Proof. intros. rewrite CLs_unfold, CL_unfold. simpl. tauto. Qed.
Lemma CLs_assert : forall m mm v, CLs m (Assert mm v) <-> CL m v.
Proof. intros. rewrite CLs_unfold, CL_unfold. simpl. tauto. Qed.
Definition log_all (P : expression -> Prop) (a : log_argument) : Prop :=
  match a with LogExp e => P e | LogStr _ => True end.
Lemma CLs_log : forall m mm args, CLs m (LogCall mm args) <-> Forall (log_all (CL m)) args.
Proof.
  intros. rewrite CLs_unfold. simpl. rewrite existsb_flat_map, existsb_false_Forall.
  split; apply Forall_impl; intros [s|e]; simpl; rewrite ?CL_unfold; auto.
Qed.

Lemma CL_node : forall m e, CL m e -> m e = false.
Proof. intros m e H. apply CL_unfold in H. destruct e; simpl in H; apply orb_false_iff in H; tauto. Qed.

(* ======================================================================= *)
(* E. pass 1 removes every anonymous component                               *)
(* ======================================================================= *)

Definition va_ok (va : option expression) : Prop :=
  match va with Some v => NA v | None => True end.

Definition rae_ok (r : dres (list statement * list statement * expression)) : Prop :=
  forall stmts decls e', r = DOk (stmts, decls, e') ->
    NA e' /\ Forall NAs stmts /\ Forall NAs decls.

Lemma acc_prefix_na : forall va, va_ok va -> CLacc is_anonymous_component (acc_prefix va).
Proof. intros [v|] H; simpl; constructor; simpl; auto. Qed.

Lemma CLacc_app : forall m a b, CLacc m (a ++ b) <-> CLacc m a /\ CLacc m b.
Proof. intros. unfold CLacc. apply Forall_app. Qed.

Lemma CLacc_comp : forall m s, CLacc m [ComponentAccess s].
Proof. intros. constructor; simpl; auto. Qed.

Lemma assign_inputs_na : forall va m id results sel inputs i ss ds ss' ds',
  va_ok va -> Forall rae_ok results -> Forall NAs ss -> Forall NAs ds ->
  assign_inputs va m id results sel inputs i ss ds = DOk (ss', ds') ->
  Forall NAs ss' /\ Forall NAs ds'.
Proof.
  intros va m id results sel inputs. induction inputs as [|inp rest IH]; intros i ss ds ss' ds' Hva Hres Hss Hds H; simpl in H.
  - inv_ok. auto.
  - destruct (nth_error sel i) as [[pos o]|]; [|discriminate].
    destruct (nth_error results pos) as [r|] eqn:Hr; [|discriminate].
    apply nth_error_In in Hr. pose proof (proj1 (Forall_forall _ _) Hres _ Hr) as Hr'.
    inv_ok. destruct (contains_anon e) eqn:Hc; inv_ok.
    destruct (Hr' _ _ _ Ha) as (He & Hl & Hl0).
    eapply IH; [exact Hva | exact Hres | | | exact H].
    + rewrite !Forall_app. repeat split; auto. constructor; auto.
      apply CLs_sub. split; auto. apply CLacc_app. split; [apply acc_prefix_na; auto | apply CLacc_comp].
    + rewrite Forall_app. auto.
Qed.

Lemma out_exp_na : forall va m id o, va_ok va ->
  NA (Variable_ m id (acc_prefix va ++ [ComponentAccess o])).
Proof.
  intros. apply CL_var; [reflexivity|]. apply CLacc_app. split; [apply acc_prefix_na; auto | apply CLacc_comp].
Qed.

Lemma NA_tuple : forall m vs, Forall NA vs -> NA (Tuple m vs).
Proof. intros. apply CL_unfold. simpl. apply CL_list. auto. Qed.

Lemma anon_component_na : forall env lib va m id par ps ss names results,
  va_ok va -> Forall rae_ok results ->
  rae_ok (anon_component env lib va m id par ps ss names results).
Proof.
  intros env lib va m id par ps ss names results Hva Hres stmts decls e' H.
  unfold anon_component in H.
  destruct (lookup_template id env) as [template|]; [|inv_ok].
  inv_ok. destruct (contains_anon (Call m id ps)) eqn:Hcall; inv_ok.
  match type of H with (if ?c then _ else _) = _ => destruct c end; inv_ok.
  eapply assign_inputs_na in Ha1; eauto.
  - destruct Ha1 as [H1 H2].
    assert (Hb : Forall NAs [Block m l]) by (constructor; auto; apply CLs_block; auto).
    destruct (ti_outputs template) as [|o [|o2 outs]]; inv_ok; repeat split; auto;
      first [ apply out_exp_na; auto
            | apply NA_tuple; repeat (apply Forall_cons; [apply out_exp_na; auto|]);
              apply Forall_map; apply Forall_forall; intros; apply out_exp_na; auto ].
  - constructor; auto. apply CLs_sub. split; [apply acc_prefix_na; auto|].
    destruct par; auto.
  - destruct va as [v|]; constructor; auto; apply CLs_decl; auto.
Qed.

Lemma collect_tuple_na : forall results ss ds vs ss' ds' vs',
  Forall rae_ok results -> Forall NAs ss -> Forall NAs ds -> Forall NA vs ->
  collect_tuple results ss ds vs = DOk (ss', ds', vs') ->
  Forall NAs ss' /\ Forall NAs ds' /\ Forall NA vs'.
Proof.
  induction results as [|r rest IH]; intros ss ds vs ss' ds' vs' Hres Hss Hds Hvs H; simpl in H.
  - inv_ok. auto.
  - inversion Hres; subst. inv_ok. destruct (H2 _ _ _ Ha) as (?&?&?).
    eapply IH; [exact H3 | | | | exact H]; rewrite Forall_app; auto.
Qed.

Lemma rae_ok_plain : forall e, NA e -> rae_ok (DOk ([], [], e)).
Proof. intros e H s d e' E. inv_ok. auto. Qed.

Definition rae_P env lib va (e : expression) : Prop :=
  rae_ok (remove_anonymous_from_expression env lib va e) /\
  match e with
  | AnonymousComponent _ _ _ _ ss _ =>
      Forall rae_ok (map (remove_anonymous_from_expression env lib va) ss)
  | _ => True
  end.

Lemma NA_parallel : forall m e, NA e -> NA (ParallelOp m e).
Proof. intros m e H. apply CL_unfold. simpl. apply CL_unfold in H. exact H. Qed.

Lemma rae_na_strong : forall env lib va e, va_ok va -> rae_P env lib va e.
Proof.
  intros env lib va e Hva. induction e using expression_ind'; (split; [|try exact I]); simpl.
  - (* InfixOp *)
    destruct (contains_anon e1 || contains_anon e2) eqn:Hc; [intros ? ? ? E; inv_ok|].
    apply rae_ok_plain. apply orb_false_iff in Hc. destruct Hc as [H1 H2].
    apply CL_unfold. simpl. rewrite existsb_app. apply CL_unfold in H1, H2. rewrite H1, H2. reflexivity.
  - destruct (contains_anon e) eqn:Hc; [intros ? ? ? E; inv_ok|].
    apply rae_ok_plain. apply CL_unfold. simpl. apply CL_unfold in Hc. exact Hc.
  - destruct (contains_anon e1 || contains_anon e2 || contains_anon e3) eqn:Hc; [intros ? ? ? E; inv_ok|].
    apply rae_ok_plain. apply orb_false_iff in Hc. destruct Hc as [Hc H3]. apply orb_false_iff in Hc. destruct Hc as [H1 H2].
    apply CL_unfold. simpl. rewrite !existsb_app. apply CL_unfold in H1, H2, H3. rewrite H1, H2, H3. reflexivity.
  - (* ParallelOp *)
    destruct (negb (is_call e) && negb (is_anonymous_component e) && contains_anon e) eqn:C1; [intros ? ? ? E; inv_ok|].
    destruct (is_call e && contains_anon e) eqn:C2; [intros ? ? ? E; inv_ok|].
    destruct (is_anonymous_component e) eqn:Ea.
    + destruct e; try discriminate. apply anon_component_na; auto. exact (proj2 IHe).
    + assert (Hc : contains_anon e = false).
      { destruct (is_call e); simpl in C1, C2; auto. }
      destruct e; try discriminate; apply rae_ok_plain; apply NA_parallel; exact Hc.
  - change (access_fold (fun x : expression => contains_anon x) acc) with (contains_anon (Variable_ m n acc)).
    destruct (contains_anon (Variable_ m n acc)) eqn:Hc; [intros ? ? ? E; inv_ok|].
    apply rae_ok_plain. exact Hc.
  - apply rae_ok_plain. reflexivity.
  - unfold first_such. destruct (find contains_anon args) eqn:Hf; [intros ? ? ? E; inv_ok|].
    apply rae_ok_plain. apply find_none_Forall in Hf. apply CL_unfold. simpl. apply CL_list. exact Hf.
  - apply anon_component_na; auto. apply Forall_map. eapply Forall_impl; [|exact H0]. intros a Ha; exact (proj1 Ha).
  - apply Forall_map. eapply Forall_impl; [|exact H0]. intros a Ha; exact (proj1 Ha).
  - unfold first_such. destruct (find contains_anon vs) eqn:Hf; [intros ? ? ? E; inv_ok|].
    apply rae_ok_plain. apply find_none_Forall in Hf. apply CL_unfold. simpl. apply CL_list. exact Hf.
  - intros ss ds e' E. inv_ok.
    eapply collect_tuple_na in Ha; eauto.
    + destruct Ha as (?&?&?). repeat split; auto. apply NA_tuple; auto.
    + apply Forall_map. eapply Forall_impl; [|exact H]. intros a Ha'; exact (proj1 Ha').
Qed.

Lemma rae_na : forall env lib va e, va_ok va ->
  rae_ok (remove_anonymous_from_expression env lib va e).
Proof. intros. apply rae_na_strong; auto. Qed.

Definition ras_ok (r : dres (statement * list statement)) : Prop :=
  forall s' d, r = DOk (s', d) -> NAs s' /\ Forall NAs d.

Lemma ras_list_na : forall (f : statement -> dres (statement * list statement)) l ns ds ns' ds',
  Forall (fun s => ras_ok (f s)) l -> Forall NAs ns -> Forall NAs ds ->
  ras_list f l ns ds = DOk (ns', ds') -> Forall NAs ns' /\ Forall NAs ds'.
Proof.
  intros f. induction l as [|s rest IH]; intros ns ds ns' ds' Hl Hns Hds H; simpl in H.
  - inv_ok. auto.
  - inversion Hl; subst. inv_ok. destruct (H2 _ _ Ha) as [? ?].
    eapply IH; [exact H3 | | | exact H]; rewrite Forall_app; auto.
Qed.

(* build_log_call keeps the expression arguments *)
Lemma split_string_S : forall fuel c str',
  split_string (S fuel) (String c str') =
  let cur := String c str' in
  let k := back_off cur (Nat.min sub_len (String.length cur)) in
  dbind (split_string fuel (drop_bytes k cur)) (fun v => DOk (LogStr (take_bytes k cur) :: v)).
Proof. reflexivity. Qed.

Lemma split_string_strs : forall (P : expression -> Prop) fuel s v,
  split_string fuel s = DOk v -> Forall (log_all P) v.
Proof.
  intros P. induction fuel as [|fuel IHf]; intros s v H.
  - destruct s; simpl in H; inv_ok. apply Forall_nil.
  - destruct s as [|c s']; [simpl in H; inv_ok; apply Forall_nil|].
    rewrite split_string_S in H. cbv zeta in H. inv_ok.
    apply Forall_cons; [exact I|]. eapply IHf; eauto.
Qed.

Arguments split_string : simpl never.

Lemma build_log_args_all : forall (P : expression -> Prop) args v,
  build_log_args args = DOk v -> Forall (log_all P) args -> Forall (log_all P) v.
Proof.
  intros P. induction args as [|a rest IH]; intros v H Hall; simpl in H.
  - inv_ok. apply Forall_nil.
  - inversion Hall; subst. destruct a as [s|e]; inv_ok.
    + apply Forall_app. split; [eapply split_string_strs; eassumption | eapply IH; eassumption].
    + apply Forall_cons; [assumption | eapply IH; eassumption].
Qed.

Lemma access_first_such_none : forall p acc,
  access_first_such p acc = None ->
  Forall (fun a => match a with ArrayAccess i => p i = false | ComponentAccess _ => True end) acc.
Proof.
  intros p acc H. unfold access_first_such in H.
  destruct (find _ acc) as [a|] eqn:Hf.
  - apply find_some in Hf. destruct Hf as [_ Hp]. destruct a; [discriminate Hp | discriminate H].
  - apply find_none_Forall in Hf. eapply Forall_impl; [|exact Hf]. intros [s|i]; simpl; auto.
Qed.

Lemma ras_na : forall env lib s va, va_ok va ->
  ras_ok (remove_anonymous_from_statement env lib va s).
Proof.
  intros env lib. induction s using statement_ind'; intros va Hva s1 d1 Hr; simpl in Hr.
  - (* IfThenElse *)
    destruct (contains_anon c) eqn:Hc; inv_ok.
    destruct (IHs va Hva _ _ Ha) as [? ?].
    destruct e as [e'|]; inv_ok.
    + destruct (H e' eq_refl va Hva _ _ Ha0) as [? ?]. split; [|apply Forall_app; auto].
      apply CLs_if. repeat split; auto. intros ? [= <-]; auto.
    + split; auto. apply CLs_if. repeat split; auto. discriminate.
  - (* While *)
    destruct (contains_anon c) eqn:Hc; inv_ok.
    assert (Hva' : va_ok (Some (Variable_ m a []))) by reflexivity.
    destruct (IHs _ Hva' _ _ Ha0) as [? ?].
    destruct (existsb (decl_uses_counter a) l); inv_ok.
    + split.
      * apply CLs_while; split; auto; apply CLs_block; repeat constructor; auto.
      * repeat constructor; auto.
    + split; auto. apply CLs_while. auto.
  - destruct (contains_anon v) eqn:Hc; inv_ok. split; auto.
  - inv_ok. eapply ras_list_na in Ha; eauto.
    + destruct Ha. split; auto. apply CLs_init; auto.
    + eapply Forall_impl; [|exact H]. intros a Ha'. apply Ha'; auto.
  - unfold first_such in Hr. destruct (find contains_anon d) eqn:Hf; inv_ok.
    split; auto. apply CLs_decl. apply find_none_Forall in Hf. exact Hf.
  - (* Substitution *)
    destruct (access_first_such contains_anon a) eqn:Hacc; inv_ok.
    destruct (rae_na env lib va r Hva _ _ _ Ha) as (He & Hl & Hl0).
    assert (Hsub : NAs (Substitution m v a o e)).
    { apply CLs_sub. split; auto. apply access_first_such_none in Hacc.
      eapply Forall_impl; [|exact Hacc]. intros [?|i]; simpl; auto. }
    destruct (is_nil l); inv_ok; split; auto.
    apply CLs_block. apply Forall_app. auto.
  - (* MultiSubstitution *)
    destruct (contains_anon l) eqn:Hc; inv_ok.
    destruct (rae_na env lib va r Hva _ _ _ Ha) as (He & Hl & Hl0).
    assert (Hsub : NAs (MultiSubstitution m l o e)) by (apply CLs_msub; auto).
    destruct (is_nil l0); inv_ok; split; auto.
    apply CLs_block. apply Forall_app. auto.
  - destruct (contains_anon l || contains_anon r) eqn:Hc; inv_ok.
    apply orb_false_iff in Hc. split; auto. apply CLs_ceq. exact Hc.
  - (* LogCall *)
    destruct (existsb (log_arg_contains is_anonymous_component) a) eqn:Hc; inv_ok.
    unfold build_log_call in Ha. inv_ok. split; auto.
    apply CLs_log. eapply build_log_args_all; eauto.
    apply existsb_false_Forall in Hc. eapply Forall_impl; [|exact Hc]. intros [?|x]; simpl; auto.
  - inv_ok. eapply ras_list_na in Ha; eauto.
    + destruct Ha. split; auto. apply CLs_block; auto.
    + eapply Forall_impl; [|exact H]. intros a Ha'. apply Ha'; auto.
  - destruct (contains_anon a) eqn:Hc; inv_ok. split; auto.
Qed.

(* ======================================================================= *)
(* G. pass 2 removes every tuple and every multi-assignment                  *)
(* ======================================================================= *)

Lemma CL_tuple_inv : forall m mm vs, CL m (Tuple mm vs) -> Forall (CL m) vs.
Proof. intros m mm vs H. apply CL_unfold in H. simpl in H. apply orb_false_iff in H. apply CL_list. tauto. Qed.

Lemma rte_nontuple : forall e e', is_tuple e = false ->
  remove_tuple_from_expression e = DOk e' -> e' = e /\ NT e.
Proof.
  intros e e' Ht H. destruct e; try discriminate Ht; cbn [remove_tuple_from_expression] in H.
  - destruct (contains_tuple e1 || contains_tuple e2) eqn:Hc; inv_ok. split; auto.
    apply orb_false_iff in Hc. destruct Hc as [H1 H2].
    apply CL_unfold. simpl. rewrite existsb_app. apply CL_unfold in H1, H2. rewrite H1, H2. reflexivity.
  - destruct (contains_tuple e) eqn:Hc; inv_ok. split; auto; apply CL_unfold; simpl; apply CL_unfold in Hc; exact Hc.
  - destruct (contains_tuple e1 || contains_tuple e2 || contains_tuple e3) eqn:Hc; inv_ok. split; auto.
    apply orb_false_iff in Hc. destruct Hc as [Hc H3]. apply orb_false_iff in Hc. destruct Hc as [H1 H2].
    apply CL_unfold. simpl. rewrite !existsb_app. apply CL_unfold in H1, H2, H3. rewrite H1, H2, H3. reflexivity.
  - destruct (contains_tuple e) eqn:Hc; inv_ok. split; auto; apply CL_unfold; simpl; apply CL_unfold in Hc; exact Hc.
  - destruct (contains_tuple (Variable_ m name acc)) eqn:Hc; inv_ok. split; auto.
  - inv_ok. split; auto.
  - destruct (existsb contains_tuple args) eqn:Hc; inv_ok. split; auto.
    apply CL_unfold. simpl. apply CL_list. apply existsb_false_Forall in Hc. exact Hc.
  - discriminate H.
  - destruct (existsb contains_tuple values) eqn:Hc; inv_ok. split; auto.
    apply CL_unfold. simpl. apply CL_list. apply existsb_false_Forall in Hc. exact Hc.
Qed.

(* the result of remove_tuple_from_expression: tuple free, or one flat tuple *)
Definition flat (e : expression) : Prop :=
  NT e \/ exists m vs, e = Tuple m vs /\ Forall NT vs.

Definition rte_ok (r : dres expression) : Prop := forall v, r = DOk v -> NA v /\ flat v.

Lemma unfold_values_spec : forall results acc acc',
  Forall rte_ok results -> Forall NT acc -> Forall NA acc ->
  unfold_values results acc = DOk acc' -> Forall NT acc' /\ Forall NA acc'.
Proof.
  induction results as [|r rest IH]; intros acc acc' Hres Ht Ha H; simpl in H.
  - inv_ok. auto.
  - inversion Hres; subst. inv_ok. destruct (H2 _ Ha0) as [Hna Hfl].
    destruct (is_tuple a) eqn:Et.
    + destruct a; try discriminate Et.
      destruct Hfl as [Hnt | (m' & vs & E & Hvs)].
      * apply CL_node in Hnt. discriminate Hnt.
      * inversion E; subst. eapply IH; [exact H3 | | | exact H]; apply Forall_app; split; auto.
        eapply CL_tuple_inv; eauto.
    + assert (Hnt : NT a).
      { destruct Hfl as [?|(m' & vs & E & _)]; auto. subst. discriminate Et. }
      assert (H' : unfold_values rest (acc ++ [a]) = DOk acc') by (destruct a; auto; discriminate Et).
      eapply IH; [exact H3 | | | exact H']; apply Forall_app; split; auto.
Qed.

Lemma rte_spec : forall e, NA e -> rte_ok (remove_tuple_from_expression e).
Proof.
  induction e using expression_ind'; intros Hna v0 Hr;
    try (apply rte_nontuple in Hr; [|reflexivity]; destruct Hr as [-> Hnt]; split; [exact Hna | left; exact Hnt]).
  cbn [remove_tuple_from_expression] in Hr. inv_ok.
  eapply unfold_values_spec in Ha; [| |constructor|constructor].
  - destruct Ha as [Ht Hn]. split; [apply NA_tuple; auto|]. right. eauto.
  - apply Forall_map. apply CL_tuple_inv in Hna.
    rewrite Forall_forall in *. intros x Hx. apply H; auto.
Qed.

Definition no_msub (s : statement) : Prop :=
  forallb (fun t => negb (is_multi_substitution t)) (sub_stmts s) = true.

Definition clean_stmt (s : statement) : Prop := NAs s /\ NTs s /\ no_msub s.

Lemma no_msub_list : forall l,
  forallb (fun t => negb (is_multi_substitution t)) (flat_map sub_stmts l) = true <-> Forall no_msub l.
Proof.
  induction l as [|x l IH]; simpl.
  - split; auto.
  - rewrite forallb_app, andb_true_iff, IH. split; [intros [? ?]; constructor; auto | intros H; inversion H; auto].
Qed.

Lemma no_msub_block : forall m l, no_msub (Block m l) <-> Forall no_msub l.
Proof. intros. unfold no_msub at 1. simpl. apply no_msub_list. Qed.
Lemma no_msub_init : forall m t l, no_msub (InitializationBlock m t l) <-> Forall no_msub l.
Proof. intros. unfold no_msub at 1. simpl. apply no_msub_list. Qed.

Lemma clean_block : forall m l, Forall clean_stmt l -> clean_stmt (Block m l).
Proof.
  intros m l H. repeat split.
  - apply CLs_block. eapply Forall_impl; [|exact H]. intros a Ha; apply Ha.
  - apply CLs_block. eapply Forall_impl; [|exact H]. intros a Ha; apply Ha.
  - apply no_msub_block. eapply Forall_impl; [|exact H]. intros a Ha; apply Ha.
Qed.
Lemma clean_init : forall m t l, Forall clean_stmt l -> clean_stmt (InitializationBlock m t l).
Proof.
  intros m t l H. repeat split.
  - apply CLs_init. eapply Forall_impl; [|exact H]. intros a Ha; apply Ha.
  - apply CLs_init. eapply Forall_impl; [|exact H]. intros a Ha; apply Ha.
  - apply no_msub_init. eapply Forall_impl; [|exact H]. intros a Ha; apply Ha.
Qed.

Lemma tuple_substs_spec : forall m o ls rs acc acc',
  Forall NT ls -> Forall NA ls -> Forall NT rs -> Forall NA rs -> Forall clean_stmt acc ->
  tuple_substs m o ls rs acc = DOk acc' -> Forall clean_stmt acc'.
Proof.
  intros m o. induction ls as [|l ls IH]; intros rs acc acc' Hlt Hla Hrt Hra Hacc H; simpl in H.
  - inv_ok. auto.
  - apply Forall_cons_iff in Hlt, Hla. destruct Hlt as [Hl1 Hlt], Hla as [Hl2 Hla].
    destruct l; try (exfalso; exact (fail_not_ok _ _ _ _ H)).
    destruct rs as [|r rs]; [discriminate|].
    apply Forall_cons_iff in Hrt, Hra. destruct Hrt as [Hr1 Hrt], Hra as [Hr2 Hra].
    apply (proj1 (CL_var _ _ _ _ eq_refl)) in Hl1. apply (proj1 (CL_var _ _ _ _ eq_refl)) in Hl2.
    eapply IH; [.. | exact H]; auto.
    destruct (String.eqb name "_"); auto. apply Forall_app. split; auto. constructor; auto.
    repeat split; try (apply CLs_sub; split; auto).
Qed.

Lemma sep_log_spec : forall e, NA e ->
  Forall (log_all (fun x => NA x /\ is_tuple x = false)) (sep_log e).
Proof.
  induction e using expression_ind'; intros Hna; simpl;
    try (constructor; [simpl; split; [exact Hna | reflexivity] | constructor]).
  constructor; [exact I|]. apply Forall_app. split; [|constructor; [exact I | constructor]].
  apply CL_tuple_inv in Hna. induction vs as [|x vs IHvs]; simpl; [constructor|].
  inversion H; inversion Hna; subst. apply Forall_app. split; auto.
Qed.

Lemma check_log_args_spec : forall args,
  Forall (log_all (fun x => NA x /\ is_tuple x = false)) args ->
  check_log_args args = DOk tt ->
  Forall (log_all NT) args /\ Forall (log_all NA) args.
Proof.
  induction args as [|a rest IH]; intros Hall H; simpl in H.
  - split; constructor.
  - inversion Hall; subst. destruct a as [s|x].
    + destruct (IH H3 H). split; constructor; simpl; auto.
    + inv_ok. simpl in H2. destruct H2 as [Hna Hnt].
      apply rte_nontuple in Ha; auto. destruct Ha as [_ Ht].
      destruct (IH H3 H). split; constructor; simpl; auto.
Qed.

Lemma log_new_args_spec : forall args acc acc',
  Forall (log_all NA) args -> Forall (log_all NT) acc -> Forall (log_all NA) acc ->
  log_new_args args acc = DOk acc' -> Forall (log_all NT) acc' /\ Forall (log_all NA) acc'.
Proof.
  induction args as [|a rest IH]; intros acc acc' Hna Ht Hn H; simpl in H.
  - inv_ok. auto.
  - inversion Hna; subst. destruct a as [s|x].
    + eapply IH; [exact H3 | | | exact H]; apply Forall_app; split; auto; constructor; simpl; auto.
    + inv_ok. destruct a. unfold separate_tuple_for_log_call in *. simpl in *. rewrite app_nil_r in *.
      apply check_log_args_spec in Ha; [|apply sep_log_spec; auto]. destruct Ha.
      eapply IH; [exact H3 | | | exact H]; apply Forall_app; split; auto.
Qed.

Definition rts_ok (r : dres statement) : Prop := forall s', r = DOk s' -> clean_stmt s'.

Lemma rts_list_spec : forall (f : statement -> dres statement) l acc acc',
  Forall (fun s => rts_ok (f s)) l -> Forall clean_stmt acc ->
  rts_list f l acc = DOk acc' -> Forall clean_stmt acc'.
Proof.
  intros f. induction l as [|s rest IH]; intros acc acc' Hl Hacc H; simpl in H.
  - inv_ok. auto.
  - inversion Hl; subst. inv_ok. eapply IH; [exact H3 | | exact H]. apply Forall_app. split; auto.
Qed.

Lemma clean_leaf : forall s, NAs s -> NTs s -> sub_stmts s = [s] -> is_multi_substitution s = false ->
  clean_stmt s.
Proof. intros s H1 H2 H3 H4. repeat split; auto. unfold no_msub. rewrite H3. simpl. rewrite H4. reflexivity. Qed.

Lemma rts_spec : forall s, NAs s -> rts_ok (remove_tuples_from_statement s).
Proof.
  induction s using statement_ind'; intros Hna s' Hr; cbn [remove_tuples_from_statement] in Hr.
  - (* IfThenElse *)
    apply CLs_if in Hna. destruct Hna as (Hc & Hi & He).
    destruct (contains_tuple c) eqn:Hct; inv_ok.
    pose proof (IHs Hi _ Ha) as (Ci1 & Ci2 & Ci3).
    destruct e as [e'|]; inv_ok.
    + pose proof (H e' eq_refl (He _ eq_refl) _ Ha0) as (Ce1 & Ce2 & Ce3).
      repeat split.
      * apply CLs_if; repeat split; auto; intros ? [= <-]; auto.
      * apply CLs_if; repeat split; auto; intros ? [= <-]; auto.
      * unfold no_msub in *. simpl. rewrite forallb_app. simpl in *. rewrite Ci3, Ce3. reflexivity.
    + repeat split.
      * apply CLs_if; repeat split; auto; discriminate.
      * apply CLs_if; repeat split; auto; discriminate.
      * unfold no_msub in *. simpl. rewrite app_nil_r. exact Ci3.
  - (* While *)
    apply CLs_while in Hna. destruct Hna as (Hc & Hb).
    destruct (contains_tuple c) eqn:Hct; inv_ok.
    pose proof (IHs Hb _ Ha) as (C1 & C2 & C3).
    repeat split; try (apply CLs_while; auto). exact C3.
  - destruct (contains_tuple v) eqn:Hc; inv_ok. apply clean_leaf; auto.
  - inv_ok. apply clean_init. eapply rts_list_spec; [| |exact Ha]; [|constructor].
    apply CLs_init in Hna. rewrite Forall_forall in *. intros x Hx. apply H; auto.
  - destruct (existsb contains_tuple d) eqn:Hc; inv_ok. apply clean_leaf; auto; apply CLs_decl;
      first [ exact (proj1 (CLs_decl _ _ _ _ _ _) Hna) | apply existsb_false_Forall in Hc; exact Hc ].
  - (* Substitution *)
    apply CLs_sub in Hna. destruct Hna as [Hacc Hr'].
    inv_ok. destruct (rte_spec r Hr' _ Ha) as [Hna0 Hfl].
    destruct (is_tuple a0) eqn:Et; inv_ok.
    destruct (access_first_such contains_tuple a) eqn:Hf; inv_ok.
    assert (Hnt : NT a0). { destruct Hfl as [?|(?&?&E&_)]; auto. subst. discriminate Et. }
    destruct (negb (String.eqb v "_")); inv_ok.
    + apply clean_leaf; auto; apply CLs_sub; split; auto.
      apply access_first_such_none in Hf. eapply Forall_impl; [|exact Hf]. intros [?|i]; simpl; auto.
    + apply clean_block. constructor.
  - (* MultiSubstitution *)
    apply CLs_msub in Hna. destruct Hna as [Hl Hr'].
    inv_ok. destruct (rte_spec l Hl _ Ha) as [Hna1 Hfl1]. destruct (rte_spec r Hr' _ Ha0) as [Hna2 Hfl2].
    destruct a as [| | | | | | | | |ml lvals];
      try solve [match type of Hr with (if ?c then _ else _) = _ => destruct c end; inv_ok].
    destruct a0 as [| | | | | | | | |mr rvals];
      try solve [match type of Hr with (if ?c then _ else _) = _ => destruct c end; inv_ok].
    destruct (Nat.eqb (List.length lvals) (List.length rvals)).
    + inv_ok. apply clean_block.
      assert (Forall NT lvals). { destruct Hfl1 as [Hn|(?&?&E&?)]; [apply CL_node in Hn; discriminate | inversion E; subst; auto]. }
      assert (Forall NT rvals). { destruct Hfl2 as [Hn|(?&?&E&?)]; [apply CL_node in Hn; discriminate | inversion E; subst; auto]. }
      eapply tuple_substs_spec; [| | | | |exact Ha1]; auto; eapply CL_tuple_inv; eauto.
    + destruct (negb (is_nil lvals)); inv_ok.
  - destruct (contains_tuple l || contains_tuple r) eqn:Hc; inv_ok.
    apply orb_false_iff in Hc. apply clean_leaf; auto. apply CLs_ceq. exact Hc.
  - (* LogCall *)
    inv_ok. apply CLs_log in Hna.
    eapply log_new_args_spec in Ha; [|exact Hna|constructor|constructor]. destruct Ha as [Ht Hn].
    unfold build_log_call in Hr. inv_ok.
    apply clean_leaf; auto; apply CLs_log; eapply build_log_args_all; eauto.
  - inv_ok. apply clean_block. eapply rts_list_spec; [| |exact Ha]; [|constructor].
    apply CLs_block in Hna. rewrite Forall_forall in *. intros x Hx. apply H; auto.
  - destruct (contains_tuple a) eqn:Hc; inv_ok. apply clean_leaf; auto.
Qed.

(* ======================================================================= *)
(* H. templates handed on are sugar free; functions with sugar are rejected   *)
(* ======================================================================= *)

Lemma separate_declarations_forall : forall (P : statement -> Prop) decls c v s c' v' s',
  separate_declarations decls c v s = DOk (c', v', s') ->
  Forall P decls -> Forall P c -> Forall P v -> Forall P s ->
  Forall P c' /\ Forall P v' /\ Forall P s'.
Proof.
  intros P. induction decls as [|d rest IH]; intros c v s c' v' s' H Hd Hc Hv Hs; simpl in H.
  - inv_ok. auto.
  - inversion Hd; subst. destruct d; try discriminate H.
    + destruct (variable_type_is_component xtype).
      * eapply IH; [exact H | ..]; auto. apply Forall_app; auto.
      * destruct (variable_type_is_var xtype); [|discriminate H].
        eapply IH; [exact H | ..]; auto. apply Forall_app; auto.
    + eapply IH; [exact H | ..]; auto. apply Forall_app; auto.
Qed.

Lemma clean_sugar_free : forall s, clean_stmt s -> sugar_free_stmt s.
Proof.
  intros s (Ha & Ht & Hm). split.
  - intros x Hx. split.
    + eapply contains_expr_stmt_complete; eauto.
    + eapply contains_expr_stmt_complete; eauto.
  - intros t Ht'. unfold no_msub in Hm. rewrite forallb_forall in Hm.
    specialize (Hm _ Ht'). destruct (is_multi_substitution t); auto; discriminate.
Qed.

Lemma sugar_free_clean : forall s, sugar_free_stmt s -> clean_stmt s.
Proof.
  intros s [He Hm]. repeat split.
  - apply CLs_unfold. apply existsb_false_Forall. apply Forall_forall. intros x Hx. apply He; auto.
  - apply CLs_unfold. apply existsb_false_Forall. apply Forall_forall. intros x Hx. apply He; auto.
  - unfold no_msub. apply forallb_forall. intros t Ht. rewrite (Hm _ Ht). reflexivity.
Qed.

Theorem desugar_output_sugar_free : forall env lib body body',
  desugar_template env lib body = DOk body' -> sugar_free_stmt body'.
Proof.
  intros env lib body body' H. unfold desugar_template in H. inv_ok.
  destruct (ras_na env lib body None I _ _ Ha) as [Hs Hd].
  destruct s; try discriminate H. inv_ok.
  eapply separate_declarations_forall in Ha0; eauto. destruct Ha0 as (Hc & Hv & Hsub).
  apply clean_sugar_free. eapply rts_spec; [|exact H].
  apply CLs_block. apply CLs_block in Hs.
  simpl. constructor; [apply CLs_init; auto|]. apply Forall_app. split; auto.
  constructor; [apply CLs_init; auto|]. auto.
Qed.

Lemma desugar_templates_sugar_free : forall env lib ts acc reps acc' reps',
  Forall (fun p => sugar_free_stmt (snd p)) acc ->
  desugar_templates env lib ts acc reps = DOk (acc', reps') ->
  Forall (fun p => sugar_free_stmt (snd p)) acc'.
Proof.
  intros env lib. induction ts as [|[n b] rest IH]; intros acc reps acc' reps' Hacc H; simpl in H.
  - inv_ok. auto.
  - destruct (desugar_template env lib b) eqn:Hd; try discriminate H.
    + eapply IH; [|exact H]. apply Forall_app. split; auto. constructor; auto.
      simpl. eapply desugar_output_sugar_free; eauto.
    + eapply IH; eauto.
Qed.

(* ---- functions ---- *)

Lemma find_list_none : forall (f : statement -> option meta) l,
  find_list f l = None -> Forall (fun s => f s = None) l.
Proof.
  induction l as [|s rest IH]; intros H; simpl in H; [constructor|].
  destruct (f s) eqn:E; [discriminate|]. constructor; auto.
Qed.

Lemma find_multi_substitution_complete : forall s,
  find_multi_substitution s = None -> no_msub s.
Proof.
  induction s using statement_ind'; intros Hf; cbn [find_multi_substitution] in Hf;
    try (unfold no_msub; reflexivity); try discriminate Hf.
  - destruct (find_multi_substitution s) eqn:E1; [discriminate|].
    unfold no_msub in *. simpl. rewrite forallb_app. rewrite (IHs eq_refl). simpl.
    destruct e as [e'|]; simpl; auto; apply (H e' eq_refl Hf).
  - unfold no_msub in *. simpl. apply IHs; auto.
  - apply no_msub_init. apply find_list_none in Hf. rewrite Forall_forall in *. intros x Hx. apply H; auto.
  - apply no_msub_block. apply find_list_none in Hf. rewrite Forall_forall in *. intros x Hx. apply H; auto.
Qed.

Lemma find_list_some : forall (f : statement -> option meta) l m,
  find_list f l = Some m -> exists s, In s l /\ f s = Some m.
Proof.
  induction l as [|s rest IH]; intros m H; simpl in H; [discriminate|].
  destruct (f s) eqn:E.
  - inversion H; subst. exists s. split; [left; auto | auto].
  - destruct (IH _ H) as (x & Hx & Hfx). exists x. split; [right; auto | auto].
Qed.

Lemma find_multi_substitution_sound : forall s m,
  find_multi_substitution s = Some m ->
  exists t, In t (sub_stmts s) /\ is_multi_substitution t = true.
Proof.
  induction s using statement_ind'; intros mm Hf; cbn [find_multi_substitution] in Hf; try discriminate Hf.
  - destruct (find_multi_substitution s) eqn:E1.
    + destruct (IHs _ eq_refl) as (t0 & Ht & Hm). exists t0. split; auto. simpl. right. apply in_or_app. auto.
    + destruct e as [e'|]; [|discriminate]. destruct (H e' eq_refl _ Hf) as (t0 & Ht & Hm).
      exists t0. split; auto. simpl. right. apply in_or_app. right. auto.
  - destruct (IHs _ Hf) as (t0 & Ht & Hm). exists t0. split; auto. simpl. auto.
  - apply find_list_some in Hf. destruct Hf as (x & Hx & Hfx). rewrite Forall_forall in H.
    destruct (H _ Hx _ Hfx) as (t0 & Ht & Hm). exists t0. split; auto. simpl. right.
    apply in_flat_map. eauto.
  - eexists. split; [left; reflexivity | reflexivity].
  - apply find_list_some in Hf. destruct Hf as (x & Hx & Hfx). rewrite Forall_forall in H.
    destruct (H _ Hx _ Hfx) as (t0 & Ht & Hm). exists t0. split; auto. simpl. right.
    apply in_flat_map. eauto.
Qed.

(* the callback is invoked at least once whenever the traversal answers true *)
Lemma flat_map_nil_existsb : forall {A B} (f : A -> list B) (g : A -> bool) l,
  Forall (fun e => f e = [] -> g e = false) l -> flat_map f l = [] -> existsb g l = false.
Proof.
  induction l as [|a l IHl]; intros Hl Hnl; simpl; auto. inversion Hl; subst. simpl in Hnl.
  apply app_eq_nil in Hnl. destruct Hnl. rewrite H1, IHl; auto.
Qed.

Lemma matching_metas_nil : forall matcher e,
  matching_metas matcher e = [] -> contains_expr matcher e = false.
Proof.
  intros matcher e H. rewrite contains_expr_existsb. revert H.
  induction e using expression_ind'; simpl; destruct (matcher _) eqn:Hm; simpl; try discriminate; intros Hn;
    rewrite ?existsb_app, ?existsb_flat_map.
  - apply app_eq_nil in Hn. destruct Hn. rewrite IHe1, IHe2; auto.
  - auto.
  - apply app_eq_nil in Hn. destruct Hn as [? Hn]. apply app_eq_nil in Hn. destruct Hn. rewrite IHe1, IHe2, IHe3; auto.
  - auto.
  - unfold access_metas in Hn. eapply flat_map_nil_existsb; [|exact Hn].
    eapply Forall_impl; [|exact H]. intros [?|i]; simpl; auto.
  - reflexivity.
  - eapply flat_map_nil_existsb; eauto.
  - apply app_eq_nil in Hn. destruct Hn as [Hp Hs].
    rewrite (flat_map_nil_existsb _ _ _ H Hp), (flat_map_nil_existsb _ _ _ H0 Hs). reflexivity.
  - eapply flat_map_nil_existsb; eauto.
  - eapply flat_map_nil_existsb; eauto.
Qed.

Lemma flat_map_nil : forall {A B} (f : A -> list B) l, flat_map f l = [] -> Forall (fun x => f x = []) l.
Proof.
  induction l as [|x l IH]; intros H; [constructor|]. simpl in H. apply app_eq_nil in H. destruct H. constructor; auto.
Qed.

Lemma matching_metas_stmt_nil : forall matcher s,
  matching_metas_stmt matcher s = [] -> contains_expr_stmt matcher s = false.
Proof.
  intros matcher s. rewrite contains_expr_stmt_existsb.
  induction s using statement_ind'; simpl; intros Hn; rewrite ?existsb_app, ?existsb_flat_map.
  - apply app_eq_nil in Hn. destruct Hn as [Hc Hn]. apply app_eq_nil in Hn. destruct Hn as [Hi He].
    apply matching_metas_nil in Hc. rewrite contains_expr_existsb in Hc. rewrite Hc, IHs; auto.
    destruct e as [e'|]; simpl; auto; apply (H e' eq_refl He).
  - apply app_eq_nil in Hn. destruct Hn as [Hc Hb].
    apply matching_metas_nil in Hc. rewrite contains_expr_existsb in Hc. rewrite Hc, IHs; auto.
  - apply matching_metas_nil in Hn. rewrite contains_expr_existsb in Hn. exact Hn.
  - apply existsb_false_Forall. apply flat_map_nil in Hn. rewrite Forall_forall in *. intros x Hx. apply H; auto.
  - apply existsb_false_Forall. apply flat_map_nil in Hn. rewrite Forall_forall in *. intros x Hx.
    rewrite <- contains_expr_existsb. apply matching_metas_nil. auto.
  - apply app_eq_nil in Hn. destruct Hn as [Ha Hr].
    apply matching_metas_nil in Hr. rewrite contains_expr_existsb in Hr. rewrite Hr, orb_false_r.
    unfold access_exprs. rewrite existsb_flat_map. apply existsb_false_Forall.
    unfold access_metas in Ha. apply flat_map_nil in Ha. rewrite Forall_forall in *. intros [?|i] Hx; auto.
    rewrite <- contains_expr_existsb. apply matching_metas_nil. apply (Ha _ Hx).
  - apply app_eq_nil in Hn. destruct Hn as [H1 H2].
    apply matching_metas_nil in H1, H2. rewrite contains_expr_existsb in H1, H2. rewrite H1, H2. reflexivity.
  - apply app_eq_nil in Hn. destruct Hn as [H1 H2].
    apply matching_metas_nil in H1, H2. rewrite contains_expr_existsb in H1, H2. rewrite H1, H2. reflexivity.
  - apply existsb_false_Forall. apply flat_map_nil in Hn. rewrite Forall_forall in *. intros [?|x] Hx; auto.
    rewrite <- contains_expr_existsb. apply matching_metas_nil. apply (Hn _ Hx).
  - apply existsb_false_Forall. apply flat_map_nil in Hn. rewrite Forall_forall in *. intros x Hx. apply H; auto.
  - apply matching_metas_nil in Hn. rewrite contains_expr_existsb in Hn. exact Hn.
Qed.

Lemma reports_at_spec : forall msg label metas rs,
  reports_at msg label metas = DOk rs ->
  List.length rs = List.length metas /\ Forall (fun r => r_msg r = msg) rs.
Proof.
  intros msg label. induction metas as [|m rest IH]; intros rs H; simpl in H.
  - inv_ok. split; auto.
  - inv_ok. destruct (IH _ Ha0). unfold mk_report in Ha. destruct (m_file m); inv_ok.
    split; simpl; auto.
Qed.

Definition fun_msg (m : dmsg) : Prop := m = MFunTuple \/ m = MFunAnon \/ m = MFunMultiSub.

Lemma check_function_kept : forall body,
  check_function body = DOk None -> sugar_free_stmt body.
Proof.
  intros body H. unfold check_function in H.
  destruct (contains_expr_stmt is_tuple body) eqn:Ht; [inv_ok|].
  destruct (contains_expr_stmt is_anonymous_component body) eqn:Ha; [inv_ok|].
  destruct (find_multi_substitution body) eqn:Hm; [inv_ok|].
  apply clean_sugar_free. repeat split; auto. apply find_multi_substitution_complete; auto.
Qed.

Lemma check_function_dropped : forall body rs,
  check_function body = DOk (Some rs) ->
  rs <> [] /\ Forall (fun r => fun_msg (r_msg r)) rs /\ has_sugar body.
Proof.
  intros body rs H. unfold check_function in H.
  destruct (contains_expr_stmt is_tuple body) eqn:Ht.
  { inv_ok. apply reports_at_spec in Ha. destruct Ha as [Hl Hm]. repeat split.
    - intros ->. simpl in Hl. symmetry in Hl. apply length_zero_iff_nil in Hl.
      apply matching_metas_stmt_nil in Hl. congruence.
    - eapply Forall_impl; [|exact Hm]. intros r ->. left; auto.
    - left. apply contains_expr_stmt_sound in Ht. destruct Ht as (x & Hx & Hxt). eauto. }
  destruct (contains_expr_stmt is_anonymous_component body) eqn:Han.
  { inv_ok. apply reports_at_spec in Ha. destruct Ha as [Hl Hm]. repeat split.
    - intros ->. simpl in Hl. symmetry in Hl. apply length_zero_iff_nil in Hl.
      apply matching_metas_stmt_nil in Hl. congruence.
    - eapply Forall_impl; [|exact Hm]. intros r ->. right; left; auto.
    - left. apply contains_expr_stmt_sound in Han. destruct Han as (x & Hx & Hxt). eauto. }
  destruct (find_multi_substitution body) eqn:Hm; inv_ok.
  unfold mk_report in Ha. destruct (m_file m); inv_ok. repeat split.
  - discriminate.
  - constructor; [right; right; reflexivity | constructor].
  - right. eapply find_multi_substitution_sound; eauto.
Qed.

Lemma desugar_functions_spec : forall fs acc reps acc' reps',
  desugar_functions fs acc reps = DOk (acc', reps') ->
  (forall p, In p acc' -> In p acc \/ (In p fs /\ sugar_free_stmt (snd p))) /\
  (forall r, In r reps -> In r reps') /\
  (forall p, In p fs -> ~ sugar_free_stmt (snd p) ->
     exists r, In r reps' /\ fun_msg (r_msg r)).
Proof.
  induction fs as [|[n b] rest IH]; intros acc reps acc' reps' H; simpl in H.
  - inv_ok. repeat split; auto. intros p [].
  - inv_ok. destruct a as [rs|].
    + destruct (IH _ _ _ _ H) as (I1 & I2 & I3). apply check_function_dropped in Ha. destruct Ha as (Hne & Hmsg & Hs).
      repeat split.
      * intros p Hp. destruct (I1 _ Hp) as [?|[? ?]]; auto. right. split; auto. right; auto.
      * intros r Hr. apply I2. apply in_or_app. auto.
      * intros p [<-|Hp] Hns; [|eauto].
        destruct rs as [|r rs]; [congruence|]. exists r. split.
        -- apply I2. apply in_or_app. right. left. reflexivity.
        -- inversion Hmsg; auto.
    + destruct (IH _ _ _ _ H) as (I1 & I2 & I3). apply check_function_kept in Ha.
      repeat split; auto.
      * intros p Hp. destruct (I1 _ Hp) as [Hin|[? ?]].
        -- apply in_app_or in Hin. destruct Hin as [?|[<-|[]]]; auto. right. split; auto. left; auto.
        -- right. split; auto. right; auto.
      * intros p [<-|Hp] Hns; [contradiction|eauto].
Qed.

Lemma desugar_templates_reports_grow : forall env lib ts acc reps acc' reps',
  desugar_templates env lib ts acc reps = DOk (acc', reps') -> forall r, In r reps -> In r reps'.
Proof.
  intros env lib. induction ts as [|[n b] rest IH]; intros acc reps acc' reps' H r Hr; simpl in H.
  - inv_ok. auto.
  - destruct (desugar_template env lib b); try discriminate H.
    + eapply IH; eauto.
    + eapply IH; [exact H|]. apply in_or_app. auto.
Qed.

(* Every template handed on is sugar free; every function handed on is an input
   function and sugar free; every input function containing sugar is answered
   by an error report. *)
Theorem remove_syntactic_sugar_sugar_free : forall lib ts fs d,
  remove_syntactic_sugar lib ts fs = DOk d ->
  (forall n b, In (n, b) (d_templates d) -> sugar_free_stmt b) /\
  (forall n b, In (n, b) (d_functions d) -> In (n, b) fs /\ sugar_free_stmt b) /\
  (forall n b, In (n, b) fs -> ~ sugar_free_stmt b ->
     ~ In (n, b) (d_functions d) /\ exists r, In r (d_reports d) /\ fun_msg (r_msg r)).
Proof.
  intros lib ts fs d H. unfold remove_syntactic_sugar in H. inv_ok. simpl.
  apply desugar_templates_sugar_free in Ha; [|constructor].
  apply desugar_functions_spec in Ha0. destruct Ha0 as (I1 & I2 & I3).
  split; [|split].
  - intros n b Hin. rewrite Forall_forall in Ha. apply (Ha _ Hin).
  - intros n b Hin. destruct (I1 _ Hin) as [[]|[? ?]]; auto.
  - intros n b Hin Hns. split.
    + intros Hin'. destruct (I1 _ Hin') as [[]|[? Hs]]. simpl in Hs. contradiction.
    + apply (I3 _ Hin Hns).
Qed.

(* ======================================================================= *)
(* I. the `unreachable!()` of pass 2 is unreachable                          *)
(* ======================================================================= *)

Lemma fail_panic : forall {A} c m msg s, @fail A c m msg = DPanic s -> s = site_report_file_id.
Proof. intros A c m msg s. unfold fail, mk_report. destruct (m_file m); simpl; congruence. Qed.

Lemma dbind_panic : forall {A B} (m : dres A) (f : A -> dres B) s,
  dbind m f = DPanic s -> m = DPanic s \/ exists a, m = DOk a /\ f a = DPanic s.
Proof.
  intros A B [a|r|s'|] f s H; simpl in H; try discriminate.
  - right. eauto.
  - left. congruence.
Qed.

Definition not_anon_site (s : Z) : Prop := s <> site_rte_anon.

Lemma unfold_values_panic : forall results acc s,
  unfold_values results acc = DPanic s -> In (DPanic s) results.
Proof.
  induction results as [|r rest IH]; intros acc s H; simpl in H; [discriminate|].
  apply dbind_panic in H. destruct H as [->|(a & -> & H)]; [left; auto|].
  right. destruct a; eauto.
Qed.

Lemma rte_no_unreachable : forall e s, NA e ->
  remove_tuple_from_expression e = DPanic s -> s = site_report_file_id.
Proof.
  induction e using expression_ind'; intros s Hna Hp; cbn [remove_tuple_from_expression] in Hp;
    try (match type of Hp with (if ?c then _ else _) = _ => destruct c end;
         [eapply fail_panic; eauto | discriminate]).
  - discriminate.
  - apply CL_node in Hna. discriminate.
  - apply dbind_panic in Hp. destruct Hp as [Hp|(a & _ & Hp)]; [|discriminate].
    apply unfold_values_panic in Hp. apply in_map_iff in Hp. destruct Hp as (x & Hx & Hin).
    apply CL_tuple_inv in Hna. rewrite Forall_forall in *. eapply H; eauto.
Qed.

Lemma tuple_substs_panic : forall m o ls rs acc s,
  List.length ls = List.length rs ->
  tuple_substs m o ls rs acc = DPanic s -> s = site_report_file_id.
Proof.
  intros m o. induction ls as [|l ls IH]; intros rs acc s Hlen H; simpl in H; [discriminate|].
  destruct l; try (eapply fail_panic; eauto; fail).
  destruct rs as [|r rs]; [discriminate Hlen|]. eapply IH; [|exact H]. simpl in Hlen. lia.
Qed.

Definition pass2_site (s : Z) : Prop := s = site_report_file_id.

Lemma split_string_panic : forall fuel str s, split_string fuel str = DPanic s -> False.
Proof.
  induction fuel as [|fuel IH]; intros str s H.
  - destruct str; discriminate.
  - destruct str as [|c str']; [discriminate|]. rewrite split_string_S in H. cbv zeta in H.
    apply dbind_panic in H. destruct H as [H|(a & _ & H)]; [eauto | discriminate].
Qed.

Lemma build_log_args_panic : forall args s, build_log_args args = DPanic s -> False.
Proof.
  induction args as [|a rest IH]; intros s H; simpl in H; [discriminate|].
  destruct a as [str|e].
  - apply dbind_panic in H. destruct H as [H|(c & _ & H)]; [eapply split_string_panic; eauto|].
    apply dbind_panic in H. destruct H as [H|(v & _ & H)]; [eauto | discriminate].
  - apply dbind_panic in H. destruct H as [H|(v & _ & H)]; [eauto | discriminate].
Qed.

Lemma check_log_args_panic : forall args s,
  Forall (log_all (fun x => NA x /\ is_tuple x = false)) args ->
  check_log_args args = DPanic s -> s = site_report_file_id.
Proof.
  induction args as [|a rest IH]; intros s Hall H; simpl in H; [discriminate|].
  inversion Hall; subst. destruct a as [str|x]; [eauto|].
  apply dbind_panic in H. destruct H as [H|(v & _ & H)]; [|eauto].
  simpl in H2. eapply rte_no_unreachable; [exact (proj1 H2)|exact H].
Qed.

Lemma log_new_args_panic : forall args acc s,
  Forall (log_all NA) args -> log_new_args args acc = DPanic s -> s = site_report_file_id.
Proof.
  induction args as [|a rest IH]; intros acc s Hna H; simpl in H; [discriminate|].
  inversion Hna; subst. destruct a as [str|x]; [eauto|].
  apply dbind_panic in H. destruct H as [H|(v & _ & H)]; [|eauto].
  unfold separate_tuple_for_log_call in H. simpl in H. rewrite app_nil_r in H.
  eapply check_log_args_panic; [|exact H]. apply sep_log_spec; auto.
Qed.

Lemma rts_list_panic : forall (f : statement -> dres statement) (P : Z -> Prop) l acc s,
  Forall (fun x => forall s, f x = DPanic s -> P s) l ->
  rts_list f l acc = DPanic s -> P s.
Proof.
  intros f P. induction l as [|x rest IH]; intros acc s Hl H; simpl in H; [discriminate|].
  inversion Hl; subst. apply dbind_panic in H. destruct H as [H|(v & _ & H)]; eauto.
Qed.

(* on the output of pass 1, pass 2 panics at most in into_report (a meta without
   file id): never in `unreachable!()` and never in
   `rhe_values.remove(0)` *)
Lemma rts_panic_sites : forall st s, NAs st ->
  remove_tuples_from_statement st = DPanic s -> pass2_site s.
Proof.
  induction st using statement_ind'; intros s Hna Hp; cbn [remove_tuples_from_statement] in Hp.
  - apply CLs_if in Hna. destruct Hna as (Hc & Hi & He).
    destruct (contains_tuple c); [eapply fail_panic; eauto|].
    apply dbind_panic in Hp. destruct Hp as [Hp|(a & _ & Hp)]; [eauto|].
    destruct e as [e'|]; [|discriminate].
    apply dbind_panic in Hp. destruct Hp as [Hp|(b & _ & Hp)]; [|discriminate]. eapply H; eauto.
  - apply CLs_while in Hna. destruct Hna as (Hc & Hb).
    destruct (contains_tuple c); [eapply fail_panic; eauto|].
    apply dbind_panic in Hp. destruct Hp as [Hp|(a & _ & Hp)]; [eauto|discriminate].
  - destruct (contains_tuple v); [eapply fail_panic; eauto|discriminate].
  - apply dbind_panic in Hp. destruct Hp as [Hp|(a & _ & Hp)]; [|discriminate].
    eapply rts_list_panic; [|exact Hp]. apply CLs_init in Hna. rewrite Forall_forall in *. intros x Hx s0 Hs0. eapply H; eauto.
  - destruct (existsb contains_tuple d); [eapply fail_panic; eauto|discriminate].
  - apply CLs_sub in Hna. destruct Hna as [Hacc Hr].
    apply dbind_panic in Hp. destruct Hp as [Hp|(e' & _ & Hp)]; [exact (rte_no_unreachable _ _ Hr Hp)|].
    destruct (is_tuple e'); [eapply fail_panic; eauto|].
    destruct (access_first_such contains_tuple a); [eapply fail_panic; eauto|].
    destruct (negb (String.eqb v "_")); discriminate.
  - apply CLs_msub in Hna. destruct Hna as [Hl Hr].
    apply dbind_panic in Hp. destruct Hp as [Hp|(l' & _ & Hp)]; [exact (rte_no_unreachable _ _ Hl Hp)|].
    apply dbind_panic in Hp. destruct Hp as [Hp|(r' & _ & Hp)]; [exact (rte_no_unreachable _ _ Hr Hp)|].
    destruct l' as [| | | | | | | | |ml lvals];
      try solve [match type of Hp with (if ?c then _ else _) = _ => destruct c end; eapply fail_panic; eauto].
    destruct r' as [| | | | | | | | |mr rvals];
      try solve [match type of Hp with (if ?c then _ else _) = _ => destruct c end; eapply fail_panic; eauto].
    destruct (Nat.eqb (List.length lvals) (List.length rvals)) eqn:El.
    + apply dbind_panic in Hp. destruct Hp as [Hp|(b & _ & Hp)]; [|discriminate].
      eapply tuple_substs_panic; [|exact Hp]. apply Nat.eqb_eq; auto.
    + destruct (negb (is_nil lvals)); eapply fail_panic; eauto.
  - destruct (contains_tuple l || contains_tuple r); [eapply fail_panic; eauto|discriminate].
  - apply CLs_log in Hna.
    apply dbind_panic in Hp. destruct Hp as [Hp|(na & _ & Hp)]; [eapply log_new_args_panic; eauto|].
    unfold build_log_call in Hp. apply dbind_panic in Hp. destruct Hp as [Hp|(b & _ & Hp)]; [|discriminate].
    exfalso. eapply build_log_args_panic; eauto.
  - apply dbind_panic in Hp. destruct Hp as [Hp|(a & _ & Hp)]; [|discriminate].
    eapply rts_list_panic; [|exact Hp]. apply CLs_block in Hna. rewrite Forall_forall in *. intros x Hx s0 Hs0. eapply H; eauto.
  - destruct (contains_tuple a); [eapply fail_panic; eauto|discriminate].
Qed.

Theorem pass2_unreachable_never_fires : forall env lib body m stmts decls c v su s,
  remove_anonymous_from_statement env lib None body = DOk (Block m stmts, decls) ->
  separate_declarations decls [] [] [] = DOk (c, v, su) ->
  remove_tuples_from_statement
    (Block m ([InitializationBlock m VVar v] ++ su ++ [InitializationBlock m VComponent c] ++ stmts)) = DPanic s ->
  s = site_report_file_id.
Proof.
  intros env lib body m stmts decls c v su s H1 H2 H3.
  destruct (ras_na env lib body None I _ _ H1) as [Hs Hd].
  eapply separate_declarations_forall in H2; eauto. destruct H2 as (Hc & Hv & Hsub).
  eapply rts_panic_sites; [|exact H3].
  apply CLs_block. apply CLs_block in Hs. simpl.
  constructor; [apply CLs_init; auto|]. apply Forall_app. split; auto.
  constructor; [apply CLs_init; auto|]. auto.
Qed.
