(* Graph-level soundness of degree claims (C07): on an array-free graph
   accepted by DegJustify.djust_cfg, in every state reachable by the step
   relation of Spec.DegSem, the upper end of every degree range attached to a
   node bounds the degree of the node's value as a function of the valuation. *)
From Coq Require Import ZArith List Bool Lia.
Require Import Model.Base Model.Ir Model.Propagate Model.Justify Model.DegJustify Gen.DegreeTable.
Require Import Spec.PolyDeg Spec.DegSem Proofs.IrInd Proofs.PolyDegProofs Proofs.DegreeProofs Proofs.ValueProofs.
Import ListNotations.
Local Open Scope Z_scope.

Lemma degree_eqb_eq a b : degree_eqb a b = true <-> a = b.
Proof. destruct a, b; cbn; split; congruence. Qed.

Lemma drange_eqb_eq' a b : DegJustify.drange_eqb a b = true <-> a = b.
Proof.
  unfold DegJustify.drange_eqb. rewrite andb_true_iff, !degree_eqb_eq. destruct a, b; cbn. split; [intros [-> ->]; reflexivity|intros [= -> ->]; auto].
Qed.

Lemma opt_drange_eqb_eq o r : opt_drange_eqb o r = true <-> o = Some r.
Proof. destruct o; cbn; [rewrite drange_eqb_eq'|]; split; congruence. Qed.

Lemma deg_claim_is_spec k o r : deg_claim_is k o = true -> kdeg k = Some r -> o = Some r.
Proof. unfold deg_claim_is. intros H Hk. rewrite Hk in H. apply opt_drange_eqb_eq. exact H. Qed.

Lemma deg_leb_refl d : deg_leb d d = true. Proof. destruct d; reflexivity. Qed.
Lemma deg_leb_trans a b c : deg_leb a b = true -> deg_leb b c = true -> deg_leb a c = true.
Proof. destruct a, b, c; cbn; congruence. Qed.

Lemma deg_max_ub_l a b : deg_leb a (deg_max a b) = true.
Proof. unfold deg_max. rewrite degree_order_is_rank. destruct (deg_leb a b) eqn:E; [exact E|apply deg_leb_refl]. Qed.
Lemma deg_max_ub_r a b : deg_leb b (deg_max a b) = true.
Proof. unfold deg_max. rewrite degree_order_is_rank. destruct (deg_leb a b) eqn:E; [apply deg_leb_refl|]. destruct a, b; cbn in *; congruence. Qed.

Lemma iter_inf_upper rs : forall acc, deg_leb (snd acc) (snd (iter_inf acc rs)) = true /\
  forall r, In r rs -> deg_leb (snd r) (snd (iter_inf acc rs)) = true.
Proof.
  induction rs as [|x tl IH]; intros acc; cbn [iter_inf].
  - split; [apply deg_leb_refl|contradiction].
  - destruct (IH (range_inf acc x)) as [H1 H2]. split.
    + eapply deg_leb_trans; [|exact H1]. cbn [range_inf snd]. apply deg_max_ub_l.
    + intros r [<-|Hr]; [|auto]. eapply deg_leb_trans; [|exact H1]. cbn [range_inf snd]. apply deg_max_ub_r.
Qed.

Lemma all_some_in {A} (l : list (option A)) xs : all_some l = Some xs -> forall x, In (Some x) l -> In x xs.
Proof.
  revert xs. induction l as [|o tl IH]; intros xs; cbn [all_some].
  - intros _ x [].
  - destruct o as [y|]; [|discriminate]. destruct (all_some tl) as [ys|]; [|discriminate]. intros [= <-] x [[= ->]|Hx].
    + left. reflexivity.
    + right. auto.
Qed.

Lemma iter_opt_upper rs r ra : iter_opt rs = Some r -> In (Some ra) rs -> deg_leb (snd ra) (snd r) = true.
Proof.
  unfold iter_opt. destruct (all_some rs) as [[|x tl]|] eqn:E; try discriminate. intros [= <-] Hin.
  pose proof (all_some_in rs _ E ra Hin) as [<-|Ht].
  - apply (proj1 (iter_inf_upper tl x)).
  - apply (proj2 (iter_inf_upper tl x)). exact Ht.
Qed.

Lemma range_is_constant_snd r : range_is_constant r = true -> snd r = DConst.
Proof. unfold range_is_constant. rewrite degree_order_is_rank. destruct (snd r); cbn; congruence. Qed.

Section Graph.
Variable V : Type.
Variable line : V -> V -> Z -> V.
Variable p : Z.
Variable sem2 : infix_op -> Z -> Z -> Z.
Variable sem1 : prefix_op -> Z -> Z.
Variable call_sem : ident -> list Z -> Z.
Hypothesis Hsem2 : forall op, op_den p op (sem2 op).
Hypothesis Hsem1 : forall op, prefix_den p op (sem1 op).
Notation SemDeg := (SemDeg V line p).
Notation den := (den V p sem2 sem1 call_sem).
Variable c : cfg.

Definition fstore_ok (s : fstore V) : Prop :=
  forall x F, s x = Some F -> forall r, var_range c x = Some r -> SemDeg (snd r) F.

(* a selection between two functions by a condition that does not depend on the valuation *)
Lemma select_sound d (C T F : V -> Z) :
  Constant V C -> SemDeg d T -> SemDeg d F -> SemDeg d (fun rho => if C rho =? 0 then F rho else T rho).
Proof.
  intros HC HT HF. destruct d; cbn [PolyDeg.SemDeg] in *.
  - intros r r'. rewrite (HC r r'). destruct (C r' =? 0); auto.
  - intros rho delta t.
    rewrite (Dn_ext 2 _ (fun u => if C rho =? 0 then F (line rho delta u) else T (line rho delta u)))
      by (intros u; rewrite (HC _ rho); reflexivity).
    destruct (C rho =? 0); [apply HF|apply HT].
  - intros rho delta t.
    rewrite (Dn_ext 3 _ (fun u => if C rho =? 0 then F (line rho delta u) else T (line rho delta u)))
      by (intros u; rewrite (HC _ rho); reflexivity).
    destruct (C rho =? 0); [apply HF|apply HT].
  - exact I.
Qed.

Lemma den_list_sound s (args : list expr) :
  Forall (fun e => forall F, den s e = Some F -> djust_expr c e = true -> forall r, expr_deg e = Some r -> SemDeg (snd r) F) args ->
  forall Fs,
  (fix den_list (es : list expr) : option (list (V -> Z)) :=
     match es with
     | [] => Some []
     | x :: tl => match den s x, den_list tl with
                  | Some F, Some Fs => Some (F :: Fs)
                  | _, _ => None
                  end
     end) args = Some Fs ->
  (fix dj_list (es : list expr) : bool :=
     match es with [] => true | x :: tl => djust_expr c x && dj_list tl end) args = true ->
  all_constant args = true ->
  Forall (Constant V) Fs.
Proof.
  intros Hall. induction args as [|x tl IH]; intros Fs.
  - intros [= <-] _ _. constructor.
  - apply Forall_cons_iff in Hall as [Hx Ht].
    destruct (den s x) as [F|] eqn:Ex; [|discriminate].
    match goal with |- context [match ?t with Some _ => _ | None => _ end = Some Fs] => destruct t as [Fs'|] eqn:Et; [|discriminate] end.
    intros [= <-] Hdj Hc. apply andb_true_iff in Hdj as [Hd1 Hd2].
    cbn [all_constant forallb] in Hc. apply andb_true_iff in Hc as [Hc1 Hc2].
    constructor.
    + destruct (expr_deg x) as [r|] eqn:Er; [|discriminate].
      pose proof (Hx F eq_refl Hd1 r eq_refl) as Hs. rewrite (range_is_constant_snd r Hc1) in Hs. exact Hs.
    + apply (IH Ht Fs' eq_refl Hd2). unfold all_constant. exact Hc2.
Qed.

Lemma djust_expr_sound s : fstore_ok s ->
  forall e F, den s e = Some F -> djust_expr c e = true -> forall r, expr_deg e = Some r -> SemDeg (snd r) F.
Proof.
  intros Hs.
  induction e as [z k|v k|op l r k IHl IHr|op e k IHe|cd t f k IHc IHt IHf|n args k IHargs|vs k IHvs
                  |v acc k IHacc|v acc rhe k IHacc IHrhe|args k] using expr_ind';
    intros F Hden Hdj rg Hrg; cbn [DegSem.den] in Hden; cbn [djust_expr] in Hdj;
    unfold expr_deg in Hrg; cbn [expr_know] in Hrg; try discriminate.
  - injection Hden as <-. pose proof (deg_claim_is_spec _ _ _ Hdj Hrg) as H. injection H as <-. cbn. intros r r'. reflexivity.
  - pose proof (deg_claim_is_spec _ _ _ Hdj Hrg) as H. eapply Hs; eauto.
  - destruct (den s l) as [Fl|] eqn:El; [|discriminate]. destruct (den s r) as [Fr|] eqn:Er; [|discriminate].
    injection Hden as <-. apply andb_true_iff in Hdj as [Hdj Hk]. apply andb_true_iff in Hdj as [Hdl Hdr].
    pose proof (deg_claim_is_spec _ _ _ Hk Hrg) as H. unfold opt_range_infix in H.
    destruct (expr_deg l) as [rl|] eqn:Edl; [|discriminate]. destruct (expr_deg r) as [rr|] eqn:Edr; [|discriminate].
    injection H as <-. cbn [range_infix snd].
    apply (infix_bound_sound V line p op (snd rl) (snd rr) Fl Fr (sem2 op) (Hsem2 op)).
    + apply (IHl Fl eq_refl Hdl rl). reflexivity.
    + apply (IHr Fr eq_refl Hdr rr). reflexivity.
  - destruct (den s e) as [Fe|] eqn:Ee; [|discriminate]. injection Hden as <-.
    apply andb_true_iff in Hdj as [Hde Hk].
    pose proof (deg_claim_is_spec _ _ _ Hk Hrg) as H. unfold opt_range_prefix in H.
    destruct (expr_deg e) as [re|] eqn:Ede; [|discriminate]. injection H as <-. cbn [range_prefix snd].
    apply (prefix_bound_sound V line p op (snd re) Fe (sem1 op) (Hsem1 op)).
    apply (IHe Fe eq_refl Hde re). reflexivity.
  - destruct (den s cd) as [C|] eqn:Ec; [|discriminate]. destruct (den s t) as [T|] eqn:Et; [|discriminate].
    destruct (den s f) as [Ff|] eqn:Ef; [|discriminate]. injection Hden as <-.
    apply andb_true_iff in Hdj as [Hdj Hk]. apply andb_true_iff in Hdj as [Hdj Hdf]. apply andb_true_iff in Hdj as [Hdc Hdt].
    pose proof (deg_claim_is_spec _ _ _ Hk Hrg) as H.
    destruct (expr_deg cd) as [rc|] eqn:Edc; [|discriminate].
    destruct (range_is_constant rc) eqn:Erc; [|discriminate].
    assert (HC : Constant V C).
    { pose proof (IHc C eq_refl Hdc rc eq_refl) as Hsc. rewrite (range_is_constant_snd rc Erc) in Hsc. exact Hsc. }
    destruct (expr_deg t) as [rt|] eqn:Edt; [|cbn in H; discriminate].
    destruct (expr_deg f) as [rf|] eqn:Edf; [|cbn in H; discriminate].
    apply select_sound; [exact HC| |].
    + apply (SemDeg_mono V line p (snd rt)); [eapply iter_opt_upper; [exact H|left; reflexivity]|].
      apply (IHt T eq_refl Hdt rt eq_refl).
    + apply (SemDeg_mono V line p (snd rf)); [eapply iter_opt_upper; [exact H|right; left; reflexivity]|].
      apply (IHf Ff eq_refl Hdf rf eq_refl).
  - match type of Hden with match ?t with Some _ => _ | None => _ end = _ => destruct t as [Fs|] eqn:El; [|discriminate] end.
    injection Hden as <-. apply andb_true_iff in Hdj as [Hdl Hk].
    pose proof (deg_claim_is_spec _ _ _ Hk Hrg) as H.
    destruct (all_constant args) eqn:Eac; [|discriminate]. injection H as <-. cbn [snd PolyDeg.SemDeg].
    pose proof (den_list_sound s args IHargs Fs El Hdl Eac) as HFs.
    intros r r'. f_equal. clear -HFs. induction HFs as [|G Gs HG HGs IH]; [reflexivity|]. cbn [map]. rewrite (HG r r'), IH. reflexivity.
Qed.

(* ---------- the step relation preserves fstore_ok ---------- *)
Hypothesis Hvalid : djust_cfg c = true.

Lemma stmt_djust s0 : In s0 (all_stmts (c_blocks c)) -> djust_stmt c s0 = true.
Proof.
  unfold djust_cfg in Hvalid. apply andb_true_iff in Hvalid as [_ H]. rewrite forallb_forall in H. auto.
Qed.

Lemma local_def_range_def v r s0 :
  local_def_range (all_stmts (c_blocks c)) v = Some r -> In s0 (all_stmts (c_blocks c)) -> ddef_ok v r s0 = true.
Proof.
  unfold local_def_range. destruct (filter (defines v) (all_stmts (c_blocks c))) as [|[] tl]; try discriminate.
  destruct (expr_deg rhe) as [r0|]; [|discriminate].
  destruct (forallb (ddef_ok v r0) (all_stmts (c_blocks c))) eqn:E; [|discriminate].
  intros [= <-] Hin. rewrite forallb_forall in E. auto.
Qed.

Lemma var_range_local x r : decl_of c x = Some TLocal -> is_param c x = false ->
  var_range c x = Some r -> local_def_range (all_stmts (c_blocks c)) x = Some r.
Proof. unfold var_range. intros -> ->. auto. Qed.

Lemma fstep_preserves s s' : fstore_ok s -> fstep V p sem2 sem1 call_sem c s s' -> fstore_ok s'.
Proof.
  intros Hs Hst. destruct Hst as
    [m x op rhe sv st F s Hin Hloc Hnp Hphi Hden | m x op args k sv st a F s Hin Hloc Hnp Ha Hsa | m x op rhe sv st s Hin Hloc Hnp].
  - intros y G Hy r Hr. unfold fupd in Hy. destruct (vname_eqb x y) eqn:E.
    + apply vname_eqb_eq in E. subst y. injection Hy as <-.
      pose proof (local_def_range_def x r _ (var_range_local x r Hloc Hnp Hr) Hin) as Hd.
      cbn [ddef_ok] in Hd. rewrite vname_eqb_refl in Hd. apply andb_true_iff in Hd as [_ Hd].
      apply opt_drange_eqb_eq in Hd.
      pose proof (stmt_djust _ Hin) as Hj. cbn [djust_stmt] in Hj.
      exact (djust_expr_sound s Hs rhe F Hden Hj r Hd).
    + eapply Hs; eauto.
  - intros y G Hy r Hr. unfold fupd in Hy. destruct (vname_eqb x y) eqn:E.
    + apply vname_eqb_eq in E. subst y. injection Hy as <-.
      pose proof (local_def_range_def x r _ (var_range_local x r Hloc Hnp Hr) Hin) as Hd.
      cbn [ddef_ok] in Hd. rewrite vname_eqb_refl in Hd. apply andb_true_iff in Hd as [_ Hd].
      apply opt_drange_eqb_eq in Hd. unfold expr_deg in Hd. cbn [expr_know] in Hd.
      pose proof (stmt_djust _ Hin) as Hj. cbn [djust_stmt djust_expr] in Hj.
      pose proof (deg_claim_is_spec _ _ _ Hj Hd) as Hi.
      (* the copied argument's range is below the infimum *)
      destruct (var_range c a) as [ra|] eqn:Era.
      * apply (SemDeg_mono V line p (snd ra)).
        -- eapply iter_opt_upper; [exact Hi|]. apply in_map_iff. exists a. split; [exact Era|exact Ha].
        -- eapply Hs; eauto.
      * exfalso. unfold iter_opt in Hi.
        assert (all_some (map (var_range c) args) = None).
        { clear -Era Ha. induction args as [|b tl IH]; [contradiction|]. cbn [map all_some]. destruct Ha as [->|Ha].
          - rewrite Era. reflexivity.
          - destruct (var_range c b); [|reflexivity]. rewrite (IH Ha). reflexivity. }
        rewrite H in Hi. discriminate.
    + eapply Hs; eauto.
  - intros y G Hy r Hr. unfold fupd in Hy. destruct (vname_eqb x y) eqn:E; [discriminate|]. eapply Hs; eauto.
Qed.

(* initial stores: parameters (constants for templates, indeterminates for
   functions), signals and component ports (indeterminates) *)
Definition finit_ok (s0 : fstore V) : Prop :=
  forall x F, s0 x = Some F ->
    (is_param c x = true /\ match c_kind c with KFunction => Deg V line p 1 F | _ => Constant V F end) \/
    (is_param c x = false /\ (exists t, decl_of c x = Some t /\ t <> TLocal) /\ Deg V line p 1 F).

Lemma finit_store_ok s0 : finit_ok s0 -> fstore_ok s0.
Proof.
  intros Hi x F Hx r Hr. destruct (Hi x F Hx) as [[Hp HF]|(Hp & (t & Ht & Hnl) & HF)]; unfold var_range in Hr; rewrite Hp in Hr.
  - destruct (existsb (defines x) (all_stmts (c_blocks c))); [discriminate|]. injection Hr as <-.
    destruct (c_kind c); cbn [snd PolyDeg.SemDeg]; exact HF.
  - rewrite Ht in Hr. destruct t; try congruence; injection Hr as <-; exact HF.
Qed.

Lemma freachable_ok s0 s : finit_ok s0 -> freachable V p sem2 sem1 call_sem c s0 s -> fstore_ok s.
Proof.
  intros Hi Hr. induction Hr as [|s1 s2 Hr IH Hst].
  - apply finit_store_ok. exact Hi.
  - exact (fstep_preserves s1 s2 IH Hst).
Qed.

Theorem justified_degrees_true s0 s e F r :
  finit_ok s0 -> freachable V p sem2 sem1 call_sem c s0 s ->
  djust_expr c e = true -> den s e = Some F -> expr_deg e = Some r -> SemDeg (snd r) F.
Proof.
  intros Hi Hr Hj Hden Hd.
  exact (djust_expr_sound s (freachable_ok s0 s Hi Hr) e F Hden Hj r Hd).
Qed.
End Graph.
