(* C10: the `Declarations` table of the CFG header (control_flow_graph/
   lifting.rs, intermediate_representation/declarations.rs) built from the
   output of the renaming pass: Model.UniqueVars.build_table.

   Result: on the output of ensure_unique_variables (source names without `.`)
   the table is built without hitting `assert!(insert(..).is_none())` and
   without InvalidVariableNameError, has exactly one row per parameter and per
   Declaration statement, pairwise different keys, and get_declaration answers
   for the (lifted) name of every declaration with the location and kind of
   THAT declaration, for a parameter with the parameter list and `Local`. *)
From Coq Require Import List NArith ZArith Arith Bool.
Require Import Model.Base Model.Ir Model.UniqueVars Spec.ScopeSpec Proofs.ScopeStack Proofs.UniqueVarsProofs Proofs.IrFacts.
Import ListNotations.

Lemma vname_eqb_iff a b : vname_eqb a b = true <-> a = b.
Proof.
  unfold vname_eqb. rewrite !andb_true_iff, ident_eqb_eq', (opt_eqb_eq' ident_eqb ident_eqb_eq'), optN_eqb_eq.
  destruct a, b; cbn. split; [intros [[-> ->] ->]; reflexivity|intros [= -> -> ->]; auto].
Qed.

Lemma tab_find_none : forall v (t : dtable), ~ In v (map fst t) -> tab_find v t = None.
Proof.
  induction t as [|[w d] r IH]; intros H; [reflexivity|].
  cbn [tab_find]. destruct (vname_eqb v w) eqn:E.
  - apply vname_eqb_iff in E. subst. exfalso. apply H. left. reflexivity.
  - apply IH. intro Hin. apply H. right. exact Hin.
Qed.

Lemma tab_find_app_new : forall v d (t : dtable), ~ In v (map fst t) -> tab_find v (t ++ [(v, d)]) = Some d.
Proof.
  induction t as [|[w e] r IH]; intros H; cbn [app tab_find].
  - assert (E : vname_eqb v v = true) by (apply vname_eqb_iff; reflexivity). rewrite E. reflexivity.
  - destruct (vname_eqb v w) eqn:E.
    + apply vname_eqb_iff in E. subst. exfalso. apply H. left. reflexivity.
    + apply IH. intro Hin. apply H. right. exact Hin.
Qed.

Lemma tab_find_app_old : forall v (t : dtable) x, tab_find v t <> None -> tab_find v (t ++ x) = tab_find v t.
Proof.
  induction t as [|[w e] r IH]; intros x H; cbn [app tab_find] in *; [congruence|].
  destruct (vname_eqb v w); [reflexivity|]. apply IH. exact H.
Qed.

(* the rows a list of (already lifted) declarations adds *)
Definition lifted_rows (es : list (name * (loc * dkind))) : list (option vname * (loc * dkind)) :=
  map (fun e => (lift_name (fst e), snd e)) es.

Lemma tab_add_all_ok : forall es (t : dtable),
  Forall (fun n => lift_name n <> None) (map fst es) ->
  NoDup (map Some (map fst t) ++ map lift_name (map fst es)) ->
  exists t', tab_add_all es t = Ok (Some t') /\
             map (fun r => (Some (fst r), snd r)) t' = map (fun r => (Some (fst r), snd r)) t ++ lifted_rows es /\
             (forall v, tab_find v t <> None -> tab_find v t' = tab_find v t) /\
             (forall n d v, In (n, d) es -> lift_name n = Some v -> tab_find v t' = Some d).
Proof.
  induction es as [|[n d] r IH]; intros t Hl Hn.
  - exists t. cbn [tab_add_all lifted_rows map]. rewrite app_nil_r. repeat split; auto. intros ? ? ? [].
  - cbn [map fst] in Hl, Hn. inversion Hl as [|? ? Hln Hlr]; subst.
    cbn [tab_add_all]. destruct (lift_name n) as [v|] eqn:Ev; [|congruence].
    assert (Hv : ~ In v (map fst t)).
    { intro Hin. apply NoDup_remove_2 in Hn. apply Hn. apply in_or_app. left. apply in_map. exact Hin. }
    unfold tab_add. rewrite (tab_find_none _ _ Hv).
    destruct (IH (t ++ [(v, d)])) as [t' [Ht' [Hrows [Hold Hnew]]]].
    + exact Hlr.
    + rewrite map_app, map_app. cbn [map fst]. rewrite <- app_assoc. cbn [app].
      exact Hn.
    + exists t'. split; [exact Ht'|]. split; [|split].
      * rewrite Hrows. rewrite map_app. cbn [map fst snd lifted_rows]. rewrite <- app_assoc. cbn [app]. rewrite Ev. reflexivity.
      * intros w Hw. rewrite Hold.
        -- apply tab_find_app_old. exact Hw.
        -- rewrite tab_find_app_old by exact Hw. exact Hw.
      * intros n' d' w [E|Hin] Hw.
        -- inversion E; subst n' d'. rewrite Ev in Hw. inversion Hw; subst w.
           rewrite Hold; rewrite (tab_find_app_new _ _ _ Hv); [reflexivity|discriminate].
        -- eapply Hnew; eassumption.
Qed.

Lemma nodup_app_l {A} : forall (a b : list A), NoDup (a ++ b) -> NoDup a.
Proof.
  induction a as [|x r IH]; intros b H; [constructor|].
  cbn [app] in H. inversion H as [|? ? Hx Hr]; subst. constructor.
  - intro Hin. apply Hx. apply in_or_app. left. exact Hin.
  - eapply IH. exact Hr.
Qed.

Lemma lift_plain : forall p, nodot p -> lift_name p = Some (vname_plain p).
Proof. intros p H. unfold lift_name. rewrite split_dot_nodot by exact H. reflexivity. Qed.

Lemma tab_add_params_ok : forall ps ploc (t : dtable),
  Forall nodot ps ->
  NoDup (map Some (map fst t) ++ map lift_name ps) ->
  exists t', tab_add_params ps ploc t = Ok t' /\
             map fst t' = map fst t ++ map vname_plain ps /\
             (forall v, tab_find v t <> None -> tab_find v t' = tab_find v t) /\
             (forall p, In p ps -> tab_find (vname_plain p) t' = Some (ploc, KVar)).
Proof.
  induction ps as [|p r IH]; intros ploc t Hd Hn.
  - exists t. cbn [tab_add_params map]. rewrite app_nil_r. repeat split; auto. intros ? [].
  - inversion Hd as [|? ? Hp Hr]; subst. cbn [map] in Hn. rewrite (lift_plain _ Hp) in Hn.
    cbn [tab_add_params].
    assert (Hv : ~ In (vname_plain p) (map fst t)).
    { intro Hin. apply NoDup_remove_2 in Hn. apply Hn. apply in_or_app. left. apply in_map. exact Hin. }
    unfold tab_add. rewrite (tab_find_none _ _ Hv).
    destruct (IH ploc (t ++ [(vname_plain p, (ploc, KVar))]) Hr) as [t' [Ht' [Hk [Hold Hnew]]]].
    + rewrite map_app, map_app. cbn [map fst]. rewrite <- app_assoc. exact Hn.
    + exists t'. split; [exact Ht'|]. split; [|split].
      * rewrite Hk, map_app. cbn [map fst]. rewrite <- app_assoc. reflexivity.
      * intros w Hw. rewrite Hold.
        -- apply tab_find_app_old. exact Hw.
        -- rewrite tab_find_app_old by exact Hw. exact Hw.
      * intros q [E|Hin].
        -- subst q. rewrite Hold; rewrite (tab_find_app_new _ _ _ Hv); [reflexivity|discriminate].
        -- apply Hnew. exact Hin.
Qed.

(* the Declaration statements of a body are its declaration occurrences *)
Lemma decl_entries_names : forall s, map fst (decl_entries s) = decl_names (occs s).
Proof.
  assert (Huses : forall l, decl_names (map (pair OUse) l) = []).
  { induction l; [reflexivity|]. unfold decl_names in *. cbn [map flat_map]. exact IHl. }
  assert (Happ : forall a b, decl_names (a ++ b) = decl_names a ++ decl_names b).
  { intros. unfold decl_names. apply flat_map_app. }
  assert (Hlist : forall ss, Forall (fun s => map fst (decl_entries s) = decl_names (occs s)) ss ->
                             map fst (flat_map decl_entries ss) = decl_names (flat_map occs ss)).
  { induction 1 as [|x r Hx Hr IH]; [reflexivity|]. cbn [flat_map]. rewrite map_app, Happ, Hx, IH. reflexivity. }
  induction s using ustmt_ind_nested; cbn [decl_entries occs].
  - apply Hlist. assumption.
  - apply Hlist. assumption.
  - rewrite Happ, Huses. reflexivity.
  - unfold decl_names at 1. cbn [flat_map]. fold (decl_names (map (pair OUse) uses)). rewrite Huses. reflexivity.
  - rewrite Huses. reflexivity.
  - rewrite Happ, Huses. exact IHs.
  - rewrite Happ, Huses, Happ. cbn [app]. change (decl_names []) with (@nil name). rewrite !app_nil_r. exact IHs.
  - rewrite Happ, Huses, Happ, map_app, IHs1, IHs2. reflexivity.
Qed.

Theorem declaration_table_keyed_by_declaration : forall params ploc body body' reports,
  ensure_unique_variables params ploc body = Renamed body' reports ->
  Forall nodot (params ++ declared body) ->
  exists t,
    build_table params ploc body' = Ok (Some t) /\
    length t = length params + length (decl_entries body') /\
    NoDup (map fst t) /\
    (forall p, In p params -> get_declaration_of (vname_plain p) t = Some (ploc, KVar)) /\
    (forall n d v, In (n, d) (decl_entries body') -> lift_name n = Some v -> get_declaration_of v t = Some d).
Proof.
  intros params ploc body body' reports R Hd.
  destruct (renaming_injective_on_declarations _ _ _ _ _ R Hd) as [Hnd Hl].
  rewrite map_app in Hnd. apply Forall_app in Hl. destruct Hl as [Hlp Hlb].
  assert (Hdp : Forall nodot params) by (apply Forall_app in Hd; tauto).
  unfold build_table.
  destruct (tab_add_params_ok params ploc [] Hdp) as [t0 [H0 [Hk0 [_ Hp0]]]].
  { cbn [map app]. apply nodup_app_l in Hnd. exact Hnd. }
  rewrite H0. cbn [map app] in Hk0.
  destruct (tab_add_all_ok (decl_entries body') t0) as [t [Ht [Hrows [Hold Hnew]]]].
  - rewrite decl_entries_names. exact Hlb.
  - rewrite Hk0, decl_entries_names.
    replace (map Some (map vname_plain params)) with (map lift_name params); [exact Hnd|].
    clear - Hdp. induction Hdp as [|p r Hp Hr IH]; [reflexivity|]. cbn [map]. rewrite (lift_plain _ Hp), IH. reflexivity.
  - exists t. split; [exact Ht|].
    assert (Hkeys : map Some (map fst t) = map lift_name params ++ map lift_name (decl_names (occs body'))).
    { assert (E := f_equal (map fst) Hrows). rewrite map_app, !map_map in E. cbn [fst] in E.
      rewrite <- map_map with (f := fst) (g := Some) in E.
      rewrite E. rewrite <- (map_map fst Some t0), Hk0. f_equal.
      - clear - Hdp. induction Hdp as [|p r Hp Hr IH]; [reflexivity|]. cbn [map]. rewrite (lift_plain _ Hp), IH. reflexivity.
      - unfold lifted_rows. rewrite map_map. cbn [fst]. rewrite <- decl_entries_names, map_map. reflexivity. }
    split; [|split; [|split]].
    + assert (L := f_equal (@length _) Hrows). rewrite app_length, !map_length in L. unfold lifted_rows in L. rewrite map_length in L.
      rewrite L. f_equal. assert (L0 := f_equal (@length _) Hk0). rewrite !map_length in L0. exact L0.
    + apply (NoDup_map_inv Some). rewrite Hkeys. exact Hnd.
    + intros p Hp. unfold get_declaration_of.
      assert (E : without_version (vname_plain p) = vname_plain p) by reflexivity. rewrite E.
      rewrite Hold; rewrite (Hp0 p Hp); [reflexivity|discriminate].
    + intros n d v Hin Hv. unfold get_declaration_of.
      assert (Ev : without_version v = v).
      { unfold lift_name in Hv. destruct (split_dot n) as [|a [|b [|c r]]]; try discriminate; inversion Hv; reflexivity. }
      rewrite Ev. eapply Hnew; eassumption.
Qed.
