(* Soundness of the WEAKER validator Model.DegJustifyLe.djust_cfg_le (C07, third audit "false
   alarms"): a graph whose claimed upper ends are AT LEAST what the tables give for the claimed
   ranges of the operands only carries true claims, in the same sense and for the same step
   relation as Proofs.DegGraphProofs.justified_degrees_true; and every graph the strict
   validator accepts is accepted by the weaker one.  The proof is the one of
   Proofs.DegGraphProofs with one monotonicity step (SemDeg_mono) per node. *)
From Coq Require Import ZArith List Bool Lia.
Require Import Model.Base Model.Ir Model.Propagate Model.Justify Model.DegJustify Model.DegJustifyLe Gen.DegreeTable.
Require Import Spec.PolyDeg Spec.DegSem Proofs.IrInd Proofs.PolyDegProofs Proofs.DegreeProofs Proofs.ValueProofs Proofs.DegGraphProofs.
Import ListNotations.
Local Open Scope Z_scope.

Lemma deg_le_m_leb a b : deg_le_m a b = deg_leb a b.
Proof. destruct a, b; reflexivity. Qed.

Lemma deg_claim_le_spec k o r : deg_claim_le k o = true -> kdeg k = Some r ->
  snd r = DNonQuad \/ exists t, o = Some t /\ deg_leb (snd t) (snd r) = true.
Proof.
  unfold deg_claim_le. intros H Hk. rewrite Hk in H.
  destruct (snd r) eqn:Er; try (right; destruct o as [t|]; [exists t; split; [reflexivity|]; rewrite <- deg_le_m_leb; exact H|discriminate]).
  left. reflexivity.
Qed.

Section Graph.
Variable V : Type.
Variable line : V -> V -> Z -> V.
Variable p : Z.
Variable sem2 : infix_op -> Z -> Z -> Z.
Variable sem1 : prefix_op -> Z -> Z.
Variable call_sem : ident -> list Z -> Z.
Variable name_code : ident -> Z.
Hypothesis Hsem2 : forall op, op_den p op (sem2 op).
Hypothesis Hsem1 : forall op, prefix_den p op (sem1 op).
Notation SemDeg := (SemDeg V line p).
Notation den := (den V p sem2 sem1 call_sem name_code).
Variable c : cfg.
Variable idom : list (option N).
Notation SemDegF := (SemDegF V line p).
Notation fstore_ok := (fstore_ok V line p c).
Notation finit_ok := (finit_ok V line p c).
Notation SemDeg_zero := (SemDeg_zero V line p).
Notation select_general := (select_general V line p).
Notation finit_store_ok := (finit_store_ok V line p c).
Notation local_def_range_def := (local_def_range_def c).
Notation var_range_local := (var_range_local c).
Notation assigned_not_unassigned := (assigned_not_unassigned c).
Notation stmt_in_block := (stmt_in_block c).

Lemma SemDegF_weaken a b F : deg_leb a b = true -> SemDegF a F -> SemDegF b F.
Proof. intros Hle H i. apply (SemDeg_mono V line p a); [exact Hle|apply H]. Qed.

Ltac le_step Hk Hrg H rg :=
  let t := fresh "t" in let Hle := fresh "Hle" in let Hnq := fresh "Hnq" in
  destruct (deg_claim_le_spec _ _ _ Hk Hrg) as [Hnq|(t & H & Hle)];
  [let i := fresh "i" in intros i; rewrite Hnq; exact I|];
  apply (SemDegF_weaken _ _ _ Hle); clear Hle; clear Hrg; clear rg; rename t into rg.




Local Notation sound_at s e :=
  (forall F, den s e = Some F -> djust_expr_le c e = true -> forall r, expr_deg e = Some r -> SemDegF (snd r) F).

Lemma den_list_sound_le s (args : list expr) :
  Forall (fun e => sound_at s e) args ->
  forall Fs,
  (fix den_list (es : list expr) : option (list (fam V)) :=
     match es with
     | [] => Some []
     | x :: tl => match den s x, den_list tl with
                  | Some F, Some Fs => Some (F :: Fs)
                  | _, _ => None
                  end
     end) args = Some Fs ->
  (fix dj_list (es : list expr) : bool :=
     match es with [] => true | x :: tl => djust_expr_le c x && dj_list tl end) args = true ->
  all_constant args = true ->
  Forall (fun F : fam V => Constant V (F [])) Fs.
Proof.
  intros Hall. induction args as [|x tl IH]; intros Fs.
  - intros [= <-] _ _. constructor.
  - apply Forall_cons_iff in Hall as [Hx Ht].
    destruct (den s x) as [F|] eqn:Ex; [|discriminate].
    match goal with |- context [match ?t with Some _ => _ | None => _ end = Some Fs] => destruct t as [Fs'|] eqn:Et; [|discriminate] end.
    intros [= <-] Hdj Hc. apply andb_true_iff in Hdj as [Hd1 Hd2].
    cbn [all_constant forallb] in Hc. apply andb_true_iff in Hc as [Hc1 Hc2].
    constructor.
    + destruct (expr_deg x) as [r|] eqn:Er; [|discriminate].
      pose proof (Hx F eq_refl Hd1 r eq_refl []) as Hs. rewrite (range_is_constant_snd r Hc1) in Hs. exact Hs.
    + apply (IH Ht Fs' eq_refl Hd2). unfold all_constant. exact Hc2.
Qed.

(* the elements of an inline array *)
Lemma den_list_elems_le s (vs : list expr) :
  Forall (fun e => sound_at s e) vs ->
  forall Fs,
  (fix den_list (es : list expr) : option (list (fam V)) :=
     match es with
     | [] => Some []
     | x :: tl => match den s x, den_list tl with
                  | Some F, Some Fs => Some (F :: Fs)
                  | _, _ => None
                  end
     end) vs = Some Fs ->
  (fix dj_list (es : list expr) : bool :=
     match es with [] => true | x :: tl => djust_expr_le c x && dj_list tl end) vs = true ->
  forall r, iter_opt (map expr_deg vs) = Some r ->
  Forall (SemDegF (snd r)) Fs.
Proof.
  intros Hall Fs Hden Hdj r Hr.
  assert (Hin : forall e, In e vs -> exists re, expr_deg e = Some re /\ deg_leb (snd re) (snd r) = true).
  { intros e He. apply (iter_opt_all _ r (expr_deg e) Hr). apply in_map. exact He. }
  clear Hr. revert Fs Hden Hdj Hin. induction vs as [|x tl IH]; intros Fs.
  - intros [= <-] _ _. constructor.
  - apply Forall_cons_iff in Hall as [Hx Ht].
    destruct (den s x) as [F|] eqn:Ex; [|discriminate].
    match goal with |- context [match ?t with Some _ => _ | None => _ end = Some Fs] => destruct t as [Fs'|] eqn:Et; [|discriminate] end.
    intros [= <-] Hdj Hin. apply andb_true_iff in Hdj as [Hd1 Hd2]. constructor.
    + destruct (Hin x (or_introl eq_refl)) as (re & Ere & Hle). intros i.
      apply (SemDeg_mono V line p (snd re)); [exact Hle|]. apply (Hx F eq_refl Hd1 re Ere).
    + apply (IH Ht Fs' eq_refl Hd2). intros e He. apply Hin. right. exact He.
Qed.

(* the index expressions of an access whose indices are all known constant *)
Lemma den_acc_const_le s (acc : list (access expr)) :
  Forall (fun e => sound_at s e) (acc_exprs acc) ->
  forall Is,
  (fix den_acc (acc : list (access expr)) : option (list (V -> Z)) :=
     match acc with
     | [] => Some []
     | AIdx x :: tl => match den s x, den_acc tl with
                       | Some Ix, Some Is => Some (Ix [] :: Is)
                       | _, _ => None
                       end
     | AComp n :: tl => match den_acc tl with
                        | Some Is => Some ((fun _ => name_code n) :: Is)
                        | None => None
                        end
     end) acc = Some Is ->
  (fix dj_acc (acc : list (access expr)) : bool :=
     match acc with
     | [] => true
     | AIdx x :: tl => djust_expr_le c x && dj_acc tl
     | AComp _ :: tl => dj_acc tl
     end) acc = true ->
  constant_indices acc = Some true ->
  forall r r', map (fun Ix : V -> Z => Ix r) Is = map (fun Ix : V -> Z => Ix r') Is.
Proof.
  intros Hall. induction acc as [|a tl IH]; intros Is.
  - intros [= <-] _ _ r r'. reflexivity.
  - destruct a as [x|n]; cbn [acc_exprs flat_map app] in Hall.
    + apply Forall_cons_iff in Hall as [Hx Ht].
      destruct (den s x) as [Ix|] eqn:Ex; [|discriminate].
      match goal with |- context [match ?t with Some _ => _ | None => _ end = Some Is] => destruct t as [Is'|] eqn:Et; [|discriminate] end.
      intros [= <-] Hdj Hc r r'. apply andb_true_iff in Hdj as [Hd1 Hd2].
      cbn [constant_indices] in Hc. destruct (expr_deg x) as [rx|] eqn:Erx; [|discriminate].
      destruct (range_is_constant rx) eqn:Ecx; [|discriminate].
      cbn [map]. f_equal.
      * pose proof (Hx Ix eq_refl Hd1 rx eq_refl []) as Hs. rewrite (range_is_constant_snd rx Ecx) in Hs. apply Hs.
      * apply (IH Ht Is' eq_refl Hd2 Hc).
    + match goal with |- context [match ?t with Some _ => _ | None => _ end = Some Is] => destruct t as [Is'|] eqn:Et; [|discriminate] end.
      intros [= <-] Hdj Hc r r'. cbn [constant_indices] in Hc. cbn [map]. f_equal. apply (IH Hall Is' eq_refl Hdj Hc).
Qed.


Lemma djust_expr_sound_le s : fstore_ok s -> forall e, sound_at s e.
Proof.
  intros [Hs Hz].
  induction e as [z k|v k|op l r k IHl IHr|op e k IHe|cd t f k IHc IHt IHf|n args k IHargs|vs k IHvs
                  |v acc k IHacc|v acc rhe k IHacc IHrhe|args k] using expr_ind';
    intros F Hden Hdj rg Hrg; cbn [DegSem.den] in Hden; cbn [djust_expr_le] in Hdj;
    unfold expr_deg in Hrg; cbn [expr_know] in Hrg; try discriminate.
  - injection Hden as <-. le_step Hdj Hrg H rg. injection H as <-. intros i. cbn. intros r r'. reflexivity.
  - le_step Hdj Hrg H rg. eapply Hs; eauto.
  - destruct (den s l) as [Fl|] eqn:El; [|discriminate]. destruct (den s r) as [Fr|] eqn:Er; [|discriminate].
    injection Hden as <-. apply andb_true_iff in Hdj as [Hdj Hk]. apply andb_true_iff in Hdj as [Hdl Hdr].
    le_step Hk Hrg H rg. unfold opt_range_infix in H.
    destruct (expr_deg l) as [rl|] eqn:Edl; [|discriminate]. destruct (expr_deg r) as [rr|] eqn:Edr; [|discriminate].
    injection H as <-. cbn [range_infix snd]. intros i.
    apply (infix_bound_sound V line p op (snd rl) (snd rr) (Fl i) (Fr i) (sem2 op) (Hsem2 op)).
    + apply (IHl Fl eq_refl Hdl rl). reflexivity.
    + apply (IHr Fr eq_refl Hdr rr). reflexivity.
  - destruct (den s e) as [Fe|] eqn:Ee; [|discriminate]. injection Hden as <-.
    apply andb_true_iff in Hdj as [Hde Hk].
    le_step Hk Hrg H rg. unfold opt_range_prefix in H.
    destruct (expr_deg e) as [re|] eqn:Ede; [|discriminate]. injection H as <-. cbn [range_prefix snd]. intros i.
    apply (prefix_bound_sound V line p op (snd re) (Fe i) (sem1 op) (Hsem1 op)).
    apply (IHe Fe eq_refl Hde re). reflexivity.
  - destruct (den s cd) as [C|] eqn:Ec; [|discriminate]. destruct (den s t) as [T|] eqn:Et; [|discriminate].
    destruct (den s f) as [Ff|] eqn:Ef; [|discriminate]. injection Hden as <-.
    apply andb_true_iff in Hdj as [Hdj Hk]. apply andb_true_iff in Hdj as [Hdj Hdf]. apply andb_true_iff in Hdj as [Hdc Hdt].
    le_step Hk Hrg H rg.
    destruct (expr_deg cd) as [rc|] eqn:Edc; [|discriminate].
    destruct (range_is_constant rc) eqn:Erc; [|discriminate].
    assert (HC : Constant V (C [])).
    { pose proof (IHc C eq_refl Hdc rc eq_refl []) as Hsc. rewrite (range_is_constant_snd rc Erc) in Hsc. exact Hsc. }
    destruct (expr_deg t) as [rt|] eqn:Edt; [|cbn in H; discriminate].
    destruct (expr_deg f) as [rf|] eqn:Edf; [|cbn in H; discriminate].
    intros i.
    apply (select_general (snd rg) (C []) (fun x rho => if x =? 0 then Ff i rho else T i rho) HC).
    intros r0. destruct (C [] r0 =? 0).
    + apply (SemDeg_mono V line p (snd rf)); [eapply iter_opt_upper; [exact H|right; left; reflexivity]|].
      apply (IHf Ff eq_refl Hdf rf eq_refl).
    + apply (SemDeg_mono V line p (snd rt)); [eapply iter_opt_upper; [exact H|left; reflexivity]|].
      apply (IHt T eq_refl Hdt rt eq_refl).
  - match type of Hden with match ?t with Some _ => _ | None => _ end = _ => destruct t as [Fs|] eqn:El; [|discriminate] end.
    injection Hden as <-. apply andb_true_iff in Hdj as [Hdl Hk].
    le_step Hk Hrg H rg.
    destruct (all_constant args) eqn:Eac; [|discriminate]. injection H as <-. cbn [snd]. intros i. cbn [PolyDeg.SemDeg].
    pose proof (den_list_sound_le s args IHargs Fs El Hdl Eac) as HFs.
    intros r r'. f_equal. clear -HFs. induction HFs as [|G Gs HG HGs IH]; [reflexivity|]. cbn [map]. rewrite (HG r r'), IH. reflexivity.
  - (* inline array *)
    match type of Hden with match ?t with Some _ => _ | None => _ end = _ => destruct t as [Fs|] eqn:El; [|discriminate] end.
    injection Hden as <-. apply andb_true_iff in Hdj as [Hdl Hk].
    le_step Hk Hrg H rg.
    pose proof (den_list_elems_le s vs IHvs Fs El Hdl rg H) as HFs.
    intros i. unfold array_fam. destruct i as [|j rest]; [apply SemDeg_zero; reflexivity|].
    destruct (j <? 0); [apply SemDeg_zero; reflexivity|].
    destruct (nth_error Fs (Z.to_nat j)) as [G|] eqn:En; [|apply SemDeg_zero; reflexivity].
    rewrite Forall_forall in HFs. apply (HFs G). eapply nth_error_In; eauto.
  - (* access *)
    destruct (s v) as [A|] eqn:Ev; [|discriminate].
    match type of Hden with match ?t with Some _ => _ | None => _ end = _ => destruct t as [Is|] eqn:Ea; [|discriminate] end.
    injection Hden as <-. apply andb_true_iff in Hdj as [Hda Hk].
    le_step Hk Hrg H rg. unfold opt_index_adjust in H.
    destruct (var_range c v) as [rv|] eqn:Erv; [|discriminate].
    destruct (index_adjust_cases _ _ _ H) as [[Hci ->]|Hnq]; [|intros i; rewrite Hnq; exact I].
    pose proof (den_acc_const_le s acc IHacc Is Ea Hda Hci) as Hconst.
    intros i. unfold access_fam.
    apply (select_general (snd rv) (fun rho => map (fun Ix : V -> Z => Ix rho) Is ++ i) (fun x rho => A x rho)).
    + intros r r'. rewrite (Hconst r r'). reflexivity.
    + intros r0. apply (Hs v A Ev rv Erv).
  - (* element-wise update *)
    destruct (s v) as [A|] eqn:Ev; [|discriminate].
    match type of Hden with match ?t with Some _ => _ | None => _ end = _ => destruct t as [Is|] eqn:Ea; [|discriminate] end.
    destruct (den s rhe) as [R|] eqn:Er; [|discriminate].
    injection Hden as <-. apply andb_true_iff in Hdj as [Hdj Hk]. apply andb_true_iff in Hdj as [Hda Hdr].
    le_step Hk Hrg H rg. unfold opt_index_adjust in H.
    destruct (update_base_range c v (expr_deg rhe)) as [rb|] eqn:Erb; [|discriminate].
    destruct (index_adjust_cases _ _ _ H) as [[Hci ->]|Hnq]; [|intros i; rewrite Hnq; exact I].
    pose proof (den_acc_const_le s acc IHacc Is Ea Hda Hci) as Hconst.
    (* both the old elements and the new one obey the bound *)
    assert (HA : forall i, SemDeg (snd rb) (A i)).
    { unfold update_base_range in Erb. destruct (var_range c v) as [rv|] eqn:Erv.
      - intros i. apply (SemDeg_mono V line p (snd rv)); [eapply iter_opt_upper; [exact Erb|left; reflexivity]|].
        apply (Hs v A Ev rv Erv).
      - destruct (unassigned c v) eqn:Eu; [|discriminate]. intros i. apply SemDeg_zero. intros rho. apply (Hz v A Eu Ev). }
    assert (HR : forall i, SemDeg (snd rb) (R i)).
    { unfold update_base_range in Erb. destruct (var_range c v) as [rv|] eqn:Erv.
      - destruct (iter_opt_all _ rb (expr_deg rhe) Erb (or_intror (or_introl eq_refl))) as (rr & Err & Hle).
        intros i. apply (SemDeg_mono V line p (snd rr)); [exact Hle|]. apply (IHrhe R eq_refl Hdr rr Err).
      - destruct (unassigned c v); [|discriminate]. intros i. apply (IHrhe R eq_refl Hdr rb Erb). }
    intros i. unfold update_fam.
    apply (select_general (snd rb) (fun rho => map (fun Ix : V -> Z => Ix rho) Is)
                          (fun x rho => match prefix_of x i with Some rest => R rest rho | None => A i rho end)).
    + intros r r'. apply Hconst.
    + intros r0. destruct (prefix_of _ i); [apply HR|apply HA].
Qed.

(* ---------- the step relation preserves fstore_ok ---------- *)
Hypothesis Hvalid : djust_cfg_le c idom = true.


Lemma stmt_djust_block_le b s0 : In b (c_blocks c) -> In s0 (b_stmts b) ->
  djust_stmt_le c (block_ctl (c_blocks c) idom b) s0 = true.
Proof.
  intros Hb Hs. pose proof Hvalid as Hv. unfold djust_cfg_le in Hv. apply andb_true_iff in Hv as [_ Hv].
  rewrite forallb_forall in Hv. specialize (Hv b Hb).
  unfold djust_block_le in Hv. rewrite forallb_forall in Hv. auto.
Qed.

(* ---------- the analysis' walk finds every condition the semantics names ---------- *)
Lemma idom_dec_le i d : nth_error idom i = Some (Some d) -> (N.to_nat d < i)%nat.
Proof.
  intros Hn. pose proof Hvalid as Hv. unfold djust_cfg_le in Hv. apply andb_true_iff in Hv as [Hv _].
  unfold idom_shape in Hv. apply andb_true_iff in Hv as [Hv _]. rewrite forallb_forall in Hv.
  pose proof (combine_seq_nth idom 0 i (Some d) Hn) as Hin. cbn [Nat.add] in Hin.
  specialize (Hv _ Hin). cbn in Hv. apply Nat.ltb_lt in Hv. exact Hv.
Qed.

Lemma pred_in_range_le b q : In b (c_blocks c) -> In q (b_preds b) -> (N.to_nat q < length (c_blocks c))%nat.
Proof.
  intros Hb Hq. pose proof Hvalid as Hv. unfold djust_cfg_le in Hv. apply andb_true_iff in Hv as [Hv _].
  unfold idom_shape in Hv. apply andb_true_iff in Hv as [_ Hv]. rewrite forallb_forall in Hv. specialize (Hv b Hb).
  rewrite forallb_forall in Hv. specialize (Hv q Hq). apply Nat.ltb_lt in Hv. exact Hv.
Qed.

Lemma above_in_chain_le stop : forall fuel pp q, above idom stop pp q -> (N.to_nat pp < fuel)%nat ->
  forall e, In e (cond_at (c_blocks c) q) -> In e (chain_conds fuel (c_blocks c) idom stop pp).
Proof.
  induction fuel as [|fuel IH]; intros pp q Hab Hlt e He; [lia|]. cbn [chain_conds].
  destruct Hab as [pp|pp d q Hns Hid Hab].
  - apply in_or_app. left. exact He.
  - apply in_or_app. right.
    destruct (opt_eqb N.eqb (Some pp) stop) eqn:Eq.
    + exfalso. apply Hns. destruct stop as [st|]; cbn in Eq; [|discriminate]. apply N.eqb_eq in Eq. congruence.
    + rewrite Hid. apply (IH d q Hab); [|exact He]. pose proof (idom_dec_le _ _ Hid). lia.
Qed.

Lemma decides_in_deciding_le b cond : In b (c_blocks c) -> decides c idom b cond ->
  forall cs, deciding (c_blocks c) idom b = Some cs -> In cond cs.
Proof.
  intros Hb (pp & q & bq & m & t & f & Hp & Hab & Hq & Hl) cs Hd.
  unfold deciding in Hd. destruct (length (b_preds b) <? 2)%nat; [discriminate|]. injection Hd as <-.
  apply in_flat_map. exists pp. split; [exact Hp|]. unfold idom_of.
  assert (Hlt : (N.to_nat pp < S (length (c_blocks c)))%nat) by (pose proof (pred_in_range_le b pp Hb Hp); lia).
  refine (above_in_chain_le _ (S (length (c_blocks c))) pp q Hab Hlt cond _).
  unfold cond_at. rewrite Hq. unfold last_cond.
  replace (last (b_stmts bq) (SLog {| m_start := 0%N; m_end := 0%N; m_file := None |} [])) with (SIf m cond t f); [left; reflexivity|].
  (* the default of [last] matters only for an empty block, where neither side is an SIf *)
  destruct (b_stmts bq) as [|s0 tl] eqn:Es; [cbn in Hl; discriminate|].
  rewrite <- Hl. clear. revert s0. induction tl as [|y tl IH]; intros s0; [reflexivity|]. cbn [last]. apply IH.
Qed.

Lemma djust_stmt_nophi_le m s0 x op rhe sv st mm : s0 = SSubst mm x op rhe sv st -> is_phi_e rhe = false ->
  djust_stmt_le c m s0 = true -> djust_expr_le c rhe = true.
Proof. intros -> Hp. cbn [djust_stmt_le]. destruct rhe; try discriminate; auto. Qed.






Lemma fstep_preserves_le s s' : fstore_ok s -> fstep V p sem2 sem1 call_sem name_code c idom s s' -> fstore_ok s'.
Proof.
  intros Hok Hst. pose proof Hok as [Hs Hz]. destruct Hst as
    [m x op rhe sv st F s Hin Hloc Hnp Hphi Hden | m x op args k sv st pick s Hin Hloc Hnp Hpa Hps Hpick];
    (split; [|intros y G Hu Hy; unfold fupd in Hy; destruct (vname_eqb x y) eqn:E;
                [apply vname_eqb_eq in E; subst y; rewrite (assigned_not_unassigned _ _ _ _ _ _ Hin) in Hu; discriminate
                |eapply Hz; eauto]]).
  - intros y G Hy r Hr. unfold fupd in Hy. destruct (vname_eqb x y) eqn:E.
    + apply vname_eqb_eq in E. subst y. injection Hy as <-.
      pose proof (local_def_range_def x r _ (var_range_local x r Hloc Hnp Hr) Hin) as Hd.
      cbn [ddef_ok] in Hd. rewrite vname_eqb_refl in Hd. apply andb_true_iff in Hd as [_ Hd].
      apply opt_drange_eqb_eq in Hd.
      destruct (stmt_in_block _ Hin) as (b & Hb & Hsb).
      pose proof (djust_stmt_nophi_le _ _ _ _ _ _ _ _ eq_refl Hphi (stmt_djust_block_le b _ Hb Hsb)) as Hj.
      exact (djust_expr_sound_le s Hok rhe F Hden Hj r Hd).
    + eapply Hs; eauto.
  - intros y G Hy r Hr. unfold fupd in Hy. destruct (vname_eqb x y) eqn:E.
    + apply vname_eqb_eq in E. subst y. injection Hy as <-.
      pose proof (local_def_range_def x r _ (var_range_local x r Hloc Hnp Hr) Hin) as Hd.
      cbn [ddef_ok] in Hd. rewrite vname_eqb_refl in Hd. apply andb_true_iff in Hd as [_ Hd].
      apply opt_drange_eqb_eq in Hd. unfold expr_deg in Hd. cbn [expr_know] in Hd.
      destruct (stmt_in_block _ Hin) as (b & Hb & Hsb).
      pose proof (stmt_djust_block_le b _ Hb Hsb) as Hj. cbn [djust_stmt_le] in Hj.
      destruct (deg_claim_le_spec _ _ _ Hj Hd) as [Hnq0|(t & Hi & Hlet)]; [intros i; rewrite Hnq0; exact I|].
      apply (SemDegF_weaken _ _ _ Hlet).
      destruct (phi_adjust_cases _ _ _ Hi) as [[Hm Hio]|Hnq]; [|intros i; rewrite Hnq; exact I].
      (* every deciding condition is known constant: the same argument for every valuation *)
      assert (Hconst : forall r1 r2, pick r1 = pick r2).
      { assert (Hpb : phi_block_of c x b) by (split; [exact Hb|]; eauto 10).
        apply (Hpick b Hpb). unfold block_ctl in Hm.
        destruct (deciding (c_blocks c) idom b) as [cs|] eqn:Edec.
        - right. intros cond Hdc. pose proof (decides_in_deciding_le b cond Hb Hdc cs Edec) as Hincs.
          unfold ctl_of_conds in Hm.
          destruct (existsb cond_nonconst cs) eqn:En; [discriminate|].
          destruct (existsb cond_unknown cs) eqn:Eu; [discriminate|].
          assert (Hn : cond_nonconst cond = false).
          { destruct (cond_nonconst cond) eqn:E0; [|reflexivity]. exfalso.
            assert (existsb cond_nonconst cs = true) by (apply existsb_exists; exists cond; auto). congruence. }
          assert (Hu : cond_unknown cond = false).
          { destruct (cond_unknown cond) eqn:E0; [|reflexivity]. exfalso.
            assert (existsb cond_unknown cs = true) by (apply existsb_exists; exists cond; auto). congruence. }
          unfold cond_unknown in Hu. destruct (expr_deg cond) as [rc|] eqn:Erc; [|discriminate].
          unfold cond_nonconst in Hn. rewrite Erc in Hn. apply negb_false_iff in Hn.
          unfold cond_fixed. destruct (DegSem.den V p sem2 sem1 call_sem name_code s cond) as [C|] eqn:EC; [|exact I].
          (* the condition is a statement of the graph, hence validated *)
          destruct Hdc as (p0 & q & bq & mm & tt & ff & _ & _ & Hq & Hl).
          assert (Hinl : In (SIf mm cond tt ff) (b_stmts bq)).
          { rewrite <- Hl. apply last_in. intros Hnil. rewrite Hnil in Hl. cbn in Hl. discriminate. }
          pose proof (stmt_djust_block_le bq _ (nth_error_In _ _ Hq) Hinl) as Hjc. cbn [djust_stmt_le] in Hjc.
          pose proof (djust_expr_sound_le s Hok cond C EC Hjc rc Erc []) as HC.
          rewrite (range_is_constant_snd rc Hn) in HC. exact HC.
        - left. unfold deciding in Edec. destruct (length (b_preds b) <? 2)%nat eqn:El; [|discriminate].
          apply Nat.ltb_lt in El. exact El. }
      intros i. unfold phi_fam.
      apply (select_general (snd t) pick (fun a rho => match s a with Some G0 => G0 i rho | None => 0 end) Hconst).
      intros r0. destruct (s (pick r0)) as [G0|] eqn:Ea; [|exfalso; exact (Hps r0 Ea)].
      destruct (iter_opt_all _ t (var_range c (pick r0)) Hio (in_map _ _ _ (Hpa r0))) as (ra & Era & Hle).
      apply (SemDeg_mono V line p (snd ra)); [exact Hle|]. apply (Hs (pick r0) G0 Ea ra Era).
    + eapply Hs; eauto.
Qed.


Lemma freachable_ok_le s0 s : finit_ok s0 -> freachable V p sem2 sem1 call_sem name_code c idom s0 s -> fstore_ok s.
Proof.
  intros Hi Hr. induction Hr as [|s1 s2 Hr IH Hst].
  - apply finit_store_ok. exact Hi.
  - exact (fstep_preserves_le s1 s2 IH Hst).
Qed.

Theorem justified_degrees_true_le s0 s e F r :
  finit_ok s0 -> freachable V p sem2 sem1 call_sem name_code c idom s0 s ->
  djust_expr_le c e = true -> den s e = Some F -> expr_deg e = Some r -> forall i, SemDeg (snd r) (F i).
Proof.
  intros Hi Hr Hj Hden Hd.
  exact (djust_expr_sound_le s (freachable_ok_le s0 s Hi Hr) e F Hden Hj r Hd).
Qed.
End Graph.

(* the strict validator implies the weaker one *)
Lemma deg_claim_is_le k o : deg_claim_is k o = true -> deg_claim_le k o = true.
Proof.
  unfold deg_claim_is, deg_claim_le. destruct (kdeg k) as [r|]; [|auto]. intros H.
  apply opt_drange_eqb_eq in H. subst o. destruct (snd r) eqn:E; try reflexivity; unfold deg_le_m; cbn; rewrite E; reflexivity.
Qed.

Lemma djust_expr_is_le c : forall e, djust_expr c e = true -> djust_expr_le c e = true.
Proof.
  induction e as [z k|v k|op l r k IHl IHr|op e k IHe|cd t f k IHc IHt IHf|n args k IHargs|vs k IHvs
                  |v acc k IHacc|v acc rhe k IHacc IHrhe|args k] using expr_ind';
    cbn [djust_expr djust_expr_le]; intros H.
  - apply deg_claim_is_le. exact H.
  - apply deg_claim_is_le. exact H.
  - apply andb_true_iff in H as [H Hk]. apply andb_true_iff in H as [Hl Hr].
    rewrite (IHl Hl), (IHr Hr), (deg_claim_is_le _ _ Hk). reflexivity.
  - apply andb_true_iff in H as [He Hk]. rewrite (IHe He), (deg_claim_is_le _ _ Hk). reflexivity.
  - apply andb_true_iff in H as [H Hk]. apply andb_true_iff in H as [H Hf]. apply andb_true_iff in H as [Hc Ht].
    rewrite (IHc Hc), (IHt Ht), (IHf Hf), (deg_claim_is_le _ _ Hk). reflexivity.
  - apply andb_true_iff in H as [Hl Hk]. rewrite (deg_claim_is_le _ _ Hk), andb_true_r.
    clear Hk. induction IHargs as [|x tl Hx _ IH]; [reflexivity|]. apply andb_true_iff in Hl as [H1 H2].
    rewrite (Hx H1). cbn [andb]. apply IH. exact H2.
  - apply andb_true_iff in H as [Hl Hk]. rewrite (deg_claim_is_le _ _ Hk), andb_true_r.
    clear Hk. induction IHvs as [|x tl Hx _ IH]; [reflexivity|]. apply andb_true_iff in Hl as [H1 H2].
    rewrite (Hx H1). cbn [andb]. apply IH. exact H2.
  - apply andb_true_iff in H as [Ha Hk]. rewrite (deg_claim_is_le _ _ Hk), andb_true_r.
    clear Hk. induction acc as [|a tl IH]; [reflexivity|]. destruct a as [x|nm]; cbn [acc_exprs flat_map app] in IHacc.
    + apply Forall_cons_iff in IHacc as [Hx Ht]. apply andb_true_iff in Ha as [H1 H2]. rewrite (Hx H1). cbn [andb]. exact (IH Ht H2).
    + exact (IH IHacc Ha).
  - apply andb_true_iff in H as [H Hk]. apply andb_true_iff in H as [Ha Hr].
    rewrite (IHrhe Hr), (deg_claim_is_le _ _ Hk), !andb_true_r.
    clear Hk Hr. induction acc as [|a tl IH]; [reflexivity|]. destruct a as [x|nm]; cbn [acc_exprs flat_map app] in IHacc.
    + apply Forall_cons_iff in IHacc as [Hx Ht]. apply andb_true_iff in Ha as [H1 H2]. rewrite (Hx H1). cbn [andb]. exact (IH Ht H2).
    + exact (IH IHacc Ha).
  - exact H.
Qed.

Lemma djust_stmt_is_le c m s : djust_stmt c m s = true -> djust_stmt_le c m s = true.
Proof.
  destruct s; cbn [djust_stmt djust_stmt_le]; intros H.
  - rewrite forallb_forall in H |- *. intros e He. apply djust_expr_is_le. auto.
  - apply djust_expr_is_le. exact H.
  - apply djust_expr_is_le. exact H.
  - destruct rhe; try (apply djust_expr_is_le; exact H). apply deg_claim_is_le. exact H.
  - apply andb_true_iff in H as [H1 H2]. rewrite (djust_expr_is_le c _ H1), (djust_expr_is_le c _ H2). reflexivity.
  - rewrite forallb_forall in H |- *. intros a Ha. specialize (H a Ha). destruct a; [exact H|apply djust_expr_is_le; exact H].
  - apply djust_expr_is_le. exact H.
Qed.

Theorem djust_cfg_implies_le c idom : djust_cfg c idom = true -> djust_cfg_le c idom = true.
Proof.
  unfold djust_cfg, djust_cfg_le. intros H. apply andb_true_iff in H as [H1 H2]. rewrite H1. cbn [andb].
  rewrite forallb_forall in H2 |- *. intros b Hb. specialize (H2 b Hb).
  unfold djust_block, djust_block_le in *. rewrite forallb_forall in H2 |- *. intros s Hs. apply djust_stmt_is_le. auto.
Qed.
