(* C07: what "no denotation" means in the stores of Spec.DegSem that start total
   (DegSem.finit_total: every name the steps cannot assign has a denotation from the
   start).  The steps only ever ADD denotations, so in every reachable store a cell is
   None only if it is an assignable local (a declared local, not a parameter, assigned
   by some statement) whose assignment has not fired yet; and an expression is
   undenotable only if it reads such a cell - or holds a phi below the top of a
   statement, which the graphs handed to propagation never do (DegWf.phi_top_stmt, a
   hypothesis evaluated by the check).  This is what makes "an undenotable deciding
   condition does not vary" (DegSem.cond_fixed) an over-approximation: the condition has
   not been evaluated by any run the store represents. *)
From Coq Require Import ZArith NArith List Bool Lia.
Require Import Model.Base Model.Ir Model.SsaCheck Model.Propagate Model.Justify Model.DegJustify Model.DegWf.
Require Import Spec.DegSem Proofs.IrInd Proofs.ValueProofs.
Require Spec.PolyDeg Proofs.PolyDegProofs Proofs.DegGraphProofs.
Import ListNotations.
Local Open Scope Z_scope.

Section Total.
Variable V : Type.
Variable p : Z.
Variable sem2 : infix_op -> Z -> Z -> Z.
Variable sem1 : prefix_op -> Z -> Z.
Variable call_sem : ident -> list Z -> Z.
Variable name_code : ident -> Z.
Notation den := (den V p sem2 sem1 call_sem name_code).
Variable c : cfg.
Variable idom : list (option N).

Definition none_only_assignable (S : fstore V) : Prop := forall x, S x = None -> assignable c x = true.

Lemma total_none_only_assignable S0 : finit_total V c S0 -> none_only_assignable S0.
Proof.
  intros H x Hx. destruct (assignable c x) eqn:E; [reflexivity|]. exfalso. exact (H x E Hx).
Qed.

Lemma fstep_keeps S S' : fstep V p sem2 sem1 call_sem name_code c idom S S' ->
  none_only_assignable S -> none_only_assignable S'.
Proof.
  intros Hst H y Hy. destruct Hst; unfold fupd in Hy; (destruct (vname_eqb x y); [discriminate|exact (H y Hy)]).
Qed.

Lemma freachable_keeps S0 S : finit_total V c S0 -> freachable V p sem2 sem1 call_sem name_code c idom S0 S ->
  none_only_assignable S.
Proof.
  intros H0 Hr. induction Hr as [|S1 S2 _ IH Hst]; [apply total_none_only_assignable; exact H0|].
  eapply fstep_keeps; eauto.
Qed.

Section Cause.
Variable S : fstore V.
Local Notation cause e := (phi_free e = false \/ exists x, In x (expr_reads e) /\ S x = None).

Lemma den_list_none (es : list expr) : Forall (fun e => den S e = None -> cause e) es ->
  (fix den_list (es : list expr) : option (list (fam V)) :=
     match es with
     | [] => Some []
     | x :: tl => match den S x, den_list tl with
                  | Some F, Some Fs => Some (F :: Fs)
                  | _, _ => None
                  end
     end) es = None ->
  (fix pf_list (es : list expr) : bool :=
     match es with [] => true | x :: tl => phi_free x && pf_list tl end) es = false \/
  exists x, In x ((fix list_reads (es : list expr) : list vname :=
                     match es with [] => [] | x :: tl => expr_reads x ++ list_reads tl end) es) /\ S x = None.
Proof.
  induction 1 as [|e tl He _ IH]; [discriminate|]. simpl.
  destruct (den S e) as [F|] eqn:Ee.
  - match goal with |- match ?t with Some _ => _ | None => _ end = None -> _ => destruct t as [Fs|]; [discriminate|] end.
    intros _. destruct (IH eq_refl) as [Hf|(x & Hx & Hs)].
    + left. rewrite Hf. apply andb_false_r.
    + right. exists x. split; [apply in_or_app; right; exact Hx|exact Hs].
  - intros _. destruct (He eq_refl) as [Hf|(x & Hx & Hs)].
    + left. rewrite Hf. reflexivity.
    + right. exists x. split; [apply in_or_app; left; exact Hx|exact Hs].
Qed.

Lemma den_acc_none (acc : list (access expr)) : Forall (fun e => den S e = None -> cause e) (acc_exprs acc) ->
  (fix den_acc (acc : list (access expr)) : option (list (V -> Z)) :=
     match acc with
     | [] => Some []
     | AIdx x :: tl => match den S x, den_acc tl with
                       | Some Ix, Some Is => Some (Ix [] :: Is)
                       | _, _ => None
                       end
     | AComp n :: tl => match den_acc tl with
                        | Some Is => Some ((fun _ => name_code n) :: Is)
                        | None => None
                        end
     end) acc = None ->
  (fix pf_acc (acc : list (access expr)) : bool :=
     match acc with
     | [] => true
     | AIdx x :: tl => phi_free x && pf_acc tl
     | AComp _ :: tl => pf_acc tl
     end) acc = false \/
  exists x, In x ((fix acc_reads (acc : list (access expr)) : list vname :=
                     match acc with
                     | [] => []
                     | AIdx x :: tl => expr_reads x ++ acc_reads tl
                     | AComp _ :: tl => acc_reads tl
                     end) acc) /\ S x = None.
Proof.
  induction acc as [|a tl IH]; intros Hall; [discriminate|].
  destruct a as [e|n]; cbn [acc_exprs flat_map app] in Hall; simpl.
  - apply Forall_cons_iff in Hall as [He Ht]. specialize (IH Ht).
    destruct (den S e) as [F|] eqn:Ee.
    + match goal with |- match ?t with Some _ => _ | None => _ end = None -> _ => destruct t as [Fs|]; [discriminate|] end.
      intros _. destruct (IH eq_refl) as [Hf|(x & Hx & Hs)].
      * left. rewrite Hf. apply andb_false_r.
      * right. exists x. split; [apply in_or_app; right; exact Hx|exact Hs].
    + intros _. destruct (He eq_refl) as [Hf|(x & Hx & Hs)].
      * left. rewrite Hf. reflexivity.
      * right. exists x. split; [apply in_or_app; left; exact Hx|exact Hs].
  - specialize (IH Hall).
    match goal with |- match ?t with Some _ => _ | None => _ end = None -> _ => destruct t as [Fs|]; [discriminate|] end.
    intros _. exact (IH eq_refl).
Qed.

Lemma den_none_cause : forall e, den S e = None -> cause e.
Proof.
  induction e as [z k|v k|op l r k IHl IHr|op e k IHe|cd t f k IHc IHt IHf|n args k IHargs|vs k IHvs
                  |v acc k IHacc|v acc rhe k IHacc IHrhe|args k] using expr_ind';
    cbn [DegSem.den]; intros Hn.
  - discriminate.
  - right. exists v. split; [left; reflexivity|exact Hn].
  - cbn [phi_free expr_reads].
    destruct (den S l) as [Fl|] eqn:El.
    + destruct (den S r) as [Fr|] eqn:Er; [discriminate|].
      destruct (IHr eq_refl) as [Hf|(x & Hx & Hs)]; [left; rewrite Hf; apply andb_false_r|].
      right. exists x. split; [apply in_or_app; right; exact Hx|exact Hs].
    + destruct (IHl eq_refl) as [Hf|(x & Hx & Hs)]; [left; rewrite Hf; reflexivity|].
      right. exists x. split; [apply in_or_app; left; exact Hx|exact Hs].
  - cbn [phi_free expr_reads]. destruct (den S e) as [Fe|] eqn:Ee; [discriminate|]. exact (IHe eq_refl).
  - cbn [phi_free expr_reads].
    destruct (den S cd) as [Fc|] eqn:Ec.
    + destruct (den S t) as [Ft|] eqn:Et.
      * destruct (den S f) as [Ff|] eqn:Ef; [discriminate|].
        destruct (IHf eq_refl) as [Hf|(x & Hx & Hs)]; [left; rewrite Hf; apply andb_false_r|].
        right. exists x. split; [apply in_or_app; right; apply in_or_app; right; exact Hx|exact Hs].
      * destruct (IHt eq_refl) as [Hf|(x & Hx & Hs)]; [left; rewrite Hf, andb_false_r; reflexivity|].
        right. exists x. split; [apply in_or_app; right; apply in_or_app; left; exact Hx|exact Hs].
    + destruct (IHc eq_refl) as [Hf|(x & Hx & Hs)]; [left; rewrite Hf; reflexivity|].
      right. exists x. split; [apply in_or_app; left; exact Hx|exact Hs].
  - match type of Hn with match ?t with Some _ => _ | None => _ end = _ => destruct t as [Fs|] eqn:El; [discriminate|] end.
    exact (den_list_none args IHargs El).
  - match type of Hn with match ?t with Some _ => _ | None => _ end = _ => destruct t as [Fs|] eqn:El; [discriminate|] end.
    exact (den_list_none vs IHvs El).
  - cbn [phi_free expr_reads]. destruct (S v) as [A|] eqn:Ev.
    + match type of Hn with match ?t with Some _ => _ | None => _ end = _ => destruct t as [Is|] eqn:Ea; [discriminate|] end.
      destruct (den_acc_none acc IHacc Ea) as [Hf|(x & Hx & Hs)]; [left; exact Hf|].
      right. exists x. split; [right; exact Hx|exact Hs].
    + right. exists v. split; [left; reflexivity|exact Ev].
  - cbn [phi_free expr_reads]. destruct (S v) as [A|] eqn:Ev.
    + match type of Hn with match ?t with Some _ => _ | None => _ end = _ => destruct t as [Is|] eqn:Ea end.
      * destruct (den S rhe) as [R|] eqn:Er; [discriminate|].
        destruct (IHrhe eq_refl) as [Hf|(x & Hx & Hs)]; [left; rewrite Hf; reflexivity|].
        right. exists x. split; [right; apply in_or_app; left; exact Hx|exact Hs].
      * destruct (den_acc_none acc IHacc Ea) as [Hf|(x & Hx & Hs)]; [left; rewrite Hf; apply andb_false_r|].
        right. exists x. split; [right; apply in_or_app; right; exact Hx|exact Hs].
    + right. exists v. split; [left; reflexivity|exact Ev].
  - left. reflexivity.
Qed.
End Cause.

(* in a store reachable from a total initial store, an undenotable expression reads a
   local whose assignment has not fired yet (or holds a phi below the top) *)
Theorem den_none_reads_unassigned S0 S e :
  finit_total V c S0 -> freachable V p sem2 sem1 call_sem name_code c idom S0 S ->
  den S e = None ->
  phi_free e = false \/ exists x, In x (expr_reads e) /\ S x = None /\ assignable c x = true.
Proof.
  intros H0 Hr Hn. destruct (den_none_cause S e Hn) as [Hf|(x & Hx & Hs)]; [left; exact Hf|].
  right. exists x. split; [exact Hx|]. split; [exact Hs|]. exact (freachable_keeps S0 S H0 Hr x Hs).
Qed.
End Total.

(* ---------- total initial stores exist ---------- *)
(* over valuations Z (one indeterminate, the line rho + t * delta): signals and component
   ports hold the valuation, parameters and never-assigned locals hold zeros, assignable
   locals are not assigned yet *)
Definition zline (r d t : Z) : Z := r + t * d.

Definition total_init (c : cfg) : fstore Z :=
  fun x => if assignable c x then None
           else if is_param c x then Some (fun _ _ => 0)
           else match decl_of c x with
                | Some TLocal | None => Some (fun _ _ => 0)
                | Some _ => Some (fun _ rho => rho)
                end.

(* every assigned name is a parameter or declared *)
Definition assigned_declared (c : cfg) : bool :=
  forallb (fun st => match st with
                     | SSubst _ x _ _ _ _ => is_param c x || match decl_of c x with Some _ => true | None => false end
                     | _ => true
                     end) (all_stmts (c_blocks c)).

Lemma total_init_total c : finit_total Z c (total_init c).
Proof.
  intros x Hx. unfold total_init. rewrite Hx. destruct (is_param c x); [discriminate|].
  destruct (decl_of c x) as [[]|]; discriminate.
Qed.

Lemma total_init_ok c p : assigned_declared c = true -> Proofs.DegGraphProofs.finit_ok Z zline p c (total_init c).
Proof.
  intros Had x F Hx. unfold total_init in Hx. destruct (assignable c x) eqn:Ea; [discriminate|].
  assert (Hzero : forall n, Spec.PolyDeg.Deg Z zline p n (fun _ : Z => 0)).
  { intros n rho delta t. assert (H : forall k u, Spec.PolyDeg.Dn k (fun _ : Z => 0) u = 0).
    { induction k as [|k IH]; intros u; [reflexivity|]. cbn [Spec.PolyDeg.Dn].
      rewrite (Proofs.PolyDegProofs.Dn_ext k _ (fun _ => 0)); [apply IH|]. intros w. unfold Spec.PolyDeg.Dd. lia. }
    rewrite H. apply Zmod_0_l. }
  destruct (is_param c x) eqn:Ep.
  - injection Hx as <-. left. split; [reflexivity|]. intros i. destruct (c_kind c); [apply Hzero|intros r r'; reflexivity|intros r r'; reflexivity].
  - assert (Hun : match decl_of c x with Some TLocal | None => True | Some _ => False end -> unassigned c x = true).
    { intros Hd. unfold unassigned. rewrite Ep. destruct (existsb (defines x) (all_stmts (c_blocks c))) eqn:Ee.
      - exfalso. unfold assignable in Ea. rewrite Ee, Ep in Ea.
        apply existsb_exists in Ee. destruct Ee as (st & Hin & Hdef).
        unfold assigned_declared in Had. rewrite forallb_forall in Had. specialize (Had st Hin).
        destruct st; cbn [defines] in Hdef; try discriminate. apply vname_eqb_eq in Hdef. subst v.
        rewrite Ep in Had. destruct (decl_of c x) as [[]|]; try contradiction; discriminate.
      - destruct (decl_of c x) as [[]|]; try contradiction; reflexivity. }
    destruct (decl_of c x) as [t|] eqn:Ed.
    + destruct t; injection Hx as <-;
        try (right; left; split; [reflexivity|]; split; [eexists; split; [reflexivity|discriminate]|];
             intros i rho delta t; cbn [Spec.PolyDeg.Dn]; unfold Spec.PolyDeg.Dd, zline; replace (_ - _) with 0 by ring; apply Zmod_0_l).
      right. right. split; [apply Hun; exact I|reflexivity].
    + injection Hx as <-. right. right. split; [apply Hun; exact I|reflexivity].
Qed.
