(* C07: with the TRUE immediate-dominator table, the table walk of Spec.DegSem
   ([above], [decides]) is the declarative notion over path-based dominance
   ([decides_dom]): the blocks visited walking up from a predecessor p of j until the
   immediate dominator d of j are exactly the blocks q with  d dom q dom p. *)
From Coq Require Import ZArith NArith List Bool Arith Lia.
Require Import Model.Base Model.Ir Model.Propagate Model.Justify Model.DegJustify Model.DegGraph.
Require Import Spec.SsaDomSpec Spec.DegSem Spec.DegSemDom Proofs.SsaDomTheory Proofs.DegGraphRooted.
Import ListNotations.

Section Idom.
Variable c : cfg.
Variable idom : list (option N).
Hypothesis Hgc : graph_consistent c = true.
Hypothesis Htab : idom_is_dominator_table c idom = true.
(* every entry names an earlier block (part of DegJustify.djust_cfg): the walk ends *)
Hypothesis Hshape : idom_shape c idom = true.

Notation n := (length (c_blocks c)).

Lemma shape_dec i d : nth_error idom i = Some (Some d) -> (N.to_nat d < i)%nat.
Proof.
  intros Hn. unfold idom_shape in Hshape. apply andb_true_iff in Hshape as [Hv _]. rewrite forallb_forall in Hv.
  pose proof (Proofs.DegGraphProofs.combine_seq_nth idom 0 i (Some d) Hn) as Hin. cbn [Nat.add] in Hin.
  specialize (Hv _ Hin). cbn in Hv. apply Nat.ltb_lt in Hv. exact Hv.
Qed.

Lemma tab_cidom i d : nth_error idom i = Some (Some d) -> cidom c (N.to_nat d) i.
Proof. intros H. apply (proj2 (table_exact c idom Hgc Htab i _ H) d). reflexivity. Qed.

Lemma tab_of_cidom i d : (i < n)%nat -> cidom c d i -> nth_error idom i = Some (Some (N.of_nat d)).
Proof.
  intros Hi Hc. destruct (nth_error idom i) as [o|] eqn:E.
  - f_equal. apply (proj2 (table_exact c idom Hgc Htab i o E) (N.of_nat d)). rewrite Nat2N.id. exact Hc.
  - apply nth_error_None in E. rewrite (table_length c idom Hgc Htab) in E. lia.
Qed.

Lemma tab_some i : (i < n)%nat -> i <> 0%nat -> exists d, nth_error idom i = Some (Some d).
Proof.
  intros Hi Hne. destruct (nth_error idom i) as [o|] eqn:E.
  - destruct o as [d|]; [eauto|]. exfalso. apply Hne. apply (proj1 (table_exact c idom Hgc Htab i None E)). reflexivity.
  - apply nth_error_None in E. rewrite (table_length c idom Hgc Htab) in E. lia.
Qed.

(* walking up from p until d visits only blocks between d and p in the dominator order *)
Lemma above_dom d p q : cdom c d (N.to_nat p) ->
  above idom (Some (N.of_nat d)) p q -> cdom c (N.to_nat q) (N.to_nat p) /\ cdom c d (N.to_nat q).
Proof.
  intros Hd Hab. induction Hab as [p|p d0 q Hns Hid Hab IH].
  - split; [apply cdom_refl|exact Hd].
  - pose proof (tab_cidom _ _ Hid) as Hci.
    assert (Hne : d <> N.to_nat p).
    { intros ->. apply Hns. rewrite N2Nat.id. reflexivity. }
    assert (Hdd0 : cdom c d (N.to_nat d0)) by (apply (proj2 Hci); split; assumption).
    destruct (IH Hdd0) as [H1 H2]. split; [|exact H2].
    eapply cdom_trans; [exact H1|]. apply cidom_dom. exact Hci.
Qed.

(* ... and visits all of them *)
Lemma dom_above d q : forall m p, (N.to_nat p < m)%nat -> (N.to_nat p < n)%nat ->
  cdom c (N.to_nat q) (N.to_nat p) -> cdom c d (N.to_nat q) -> above idom (Some (N.of_nat d)) p q.
Proof.
  induction m as [|m IH]; intros p Hm Hp Hqp Hdq; [lia|].
  destruct (N.eq_dec q p) as [->|Hne]; [constructor|].
  assert (Hne' : N.to_nat q <> N.to_nat p) by (intros E; apply Hne; apply N2Nat.inj; exact E).
  assert (Hp0 : N.to_nat p <> 0%nat).
  { intros E. rewrite E in Hqp. apply Hne'. rewrite E. apply (cdom_entry c); [lia|exact Hqp]. }
  destruct (tab_some _ Hp Hp0) as (d0 & Hid).
  pose proof (tab_cidom _ _ Hid) as Hci. pose proof (shape_dec _ _ Hid) as Hlt.
  apply (ab_up idom _ p d0 q).
  - intros E. injection E as ->. rewrite Nat2N.id in *.
    (* p = d: then d dom q dom d, so q = d *)
    apply Hne'. apply (cdom_antisym c); [apply (consistent_reach c Hgc); exact Hp|exact Hqp|exact Hdq].
  - exact Hid.
  - apply (IH d0); [lia|lia| |exact Hdq].
    apply (proj2 Hci). split; assumption.
Qed.

Lemma above_iff d p q : (N.to_nat p < n)%nat -> cdom c d (N.to_nat p) ->
  (above idom (Some (N.of_nat d)) p q <-> cdom c (N.to_nat q) (N.to_nat p) /\ cdom c d (N.to_nat q)).
Proof.
  intros Hp Hd. split.
  - apply above_dom. exact Hd.
  - intros [H1 H2]. apply (dom_above d q (S (N.to_nat p)) p); auto.
Qed.

(* THE TABLE WALK IS THE DECLARATIVE NOTION *)
Theorem decides_iff_decides_dom ij j cond : nth_error (c_blocks c) ij = Some j ->
  (decides c idom j cond <-> decides_dom c ij j cond).
Proof.
  intros Hj. pose proof (consistent_index c Hgc ij j Hj) as Hidx.
  assert (Hij : (ij < n)%nat) by (apply nth_error_Some; congruence).
  unfold decides, decides_dom. rewrite Hidx, Nat2N.id.
  destruct (Nat.eq_dec ij 0) as [->|Hne].
  { (* the entry block has no predecessor *)
    rewrite (entry_no_preds c Hgc j Hj).
    split; intros (p & q & bq & m & t & f & [] & _). }
  destruct (tab_some ij Hij Hne) as (d0 & Hid). rewrite Hid.
  pose proof (tab_cidom _ _ Hid) as Hci.
  split; intros (p & q & bq & m & t & f & Hp & H2 & H3).
  - exists p, q, bq, m, t, f. split; [exact Hp|].
    pose proof (pred_is_edge c Hgc ij j p Hj Hp) as He.
    pose proof (cidom_dom_pred c _ _ _ Hci He Hij) as Hdp.
    rewrite <- (N2Nat.id d0) in H2. destruct (above_dom _ _ _ Hdp H2) as [Ha Hb].
    split; [exact Ha|]. split; [|exact H3]. exists (N.to_nat d0). split; assumption.
  - destruct H3 as ((d & Hcd & Hdq) & H3).
    exists p, q, bq, m, t, f. split; [exact Hp|]. split; [|exact H3].
    pose proof (tab_of_cidom ij d Hij Hcd) as Hid'. rewrite Hid in Hid'. injection Hid' as ->.
    pose proof (pred_is_edge c Hgc ij j p Hj Hp) as He.
    apply above_iff.
    + apply (cedge_lt c _ _ He).
    + apply (cidom_dom_pred c _ _ _ Hcd He Hij).
    + split; assumption.
Qed.

(* the table-free relation is contained in the relation over the (true) table *)
Section Contained.
Variable V : Type.
Variable p : Z.
Variable sem2 : infix_op -> Z -> Z -> Z.
Variable sem1 : prefix_op -> Z -> Z.
Variable call_sem : ident -> list Z -> Z.
Variable name_code : ident -> Z.

Lemma pick_ok_dom_pick_ok s x pick :
  pick_ok_dom V p sem2 sem1 call_sem name_code c s x pick -> pick_ok V p sem2 sem1 call_sem name_code c idom s x pick.
Proof.
  intros H b [Hb Hphi] Hor. destruct (In_nth_error _ _ Hb) as (ij & Hij).
  apply (H ij b Hij Hphi). destruct Hor as [Hlt|Hall]; [left; exact Hlt|right].
  intros cond Hd. apply Hall. apply (decides_iff_decides_dom ij b cond Hij). exact Hd.
Qed.

Lemma fstep_dom_fstep s s' :
  fstep_dom V p sem2 sem1 call_sem name_code c s s' -> fstep V p sem2 sem1 call_sem name_code c idom s s'.
Proof.
  intros H. destruct H.
  - eapply fs_assign; eauto.
  - eapply fs_phi; eauto. apply pick_ok_dom_pick_ok. assumption.
Qed.

Lemma freachable_dom_freachable s0 s :
  freachable_dom V p sem2 sem1 call_sem name_code c s0 s -> freachable V p sem2 sem1 call_sem name_code c idom s0 s.
Proof.
  induction 1 as [|s1 s2 _ IH Hst]; [constructor|]. eapply fr_step; [exact IH|]. apply fstep_dom_fstep. exact Hst.
Qed.
End Contained.
End Idom.
