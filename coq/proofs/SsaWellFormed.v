(* C12, "after into_ssa".  For ALL frontier tables, ALL children tables and every
   input graph without phi expressions (SsaPre.phi_free, decidable, evaluated per
   definition; IR lifting never builds one: Proofs.SsaLiftedWf.lifted_phi_free):

     into_ssa_shape       every block of the output keeps its frame (index, loop depth,
                          predecessors, successors) and its statements are phi
                          assignments followed by the statements of the input block, one
                          for one and of the same kind (Spec.IrCfgSpec.ssa_shape_of)
     ssa_shape_keeps_wf   every well-formedness clause of C12 (Spec.IrCfgSpec.cfg_wf) is
                          carried from c to any c' with ssa_shape_of c c' - a statement
                          about the two graphs only
     into_ssa_keeps_wf    the two together

   The shape comes from Proofs.SsaConstruction.into_ssa_renamed_inv (the erasure
   invariant, before the declarations are re-issued: no hypothesis on declarations is
   needed for the KIND of a statement) and Proofs.SsaFrame.into_ssa_frames. *)
From Coq Require Import ZArith NArith List Bool Lia Arith.
Require Import Model.Base Model.Ir Model.SsaCheck Model.SsaErase Model.Ssa Model.SsaPre.
Require Import Proofs.SsaNoPanic Proofs.SsaConstruction Proofs.SsaFrame.
Require Import Spec.IrCfgSpec.
Import ListNotations.

(* ------------------------------------------------------------------------ *)
(* the boolean tests of the mirrors against the declarative kinds            *)
(* ------------------------------------------------------------------------ *)
Lemma is_phi_iff s : is_phi s <-> is_phi_stmt s = true.
Proof.
  split.
  - intros (m & x & op & args & k & sv & st & ->). reflexivity.
  - destruct s as [| | |m v op rhe sval stype| | |]; try discriminate. destruct rhe; try discriminate.
    intros _. do 7 eexists. reflexivity.
Qed.

Lemma not_phi_iff s : ~ is_phi s <-> is_phi_stmt s = false.
Proof. rewrite is_phi_iff. destruct (is_phi_stmt s); split; congruence. Qed.

Lemma optN_eqb_eq (a b : option N) : opt_eqb N.eqb a b = true -> a = b.
Proof. destruct a, b; simpl; try discriminate; [|reflexivity]. intros H. apply N.eqb_eq in H. congruence. Qed.

Lemma meta_eqb_eq a b : meta_eqb a b = true -> a = b.
Proof.
  unfold meta_eqb. rewrite !andb_true_iff. intros [[H1 H2] H3].
  apply N.eqb_eq in H1. apply N.eqb_eq in H2. apply optN_eqb_eq in H3.
  destruct a, b; simpl in *; congruence.
Qed.

Lemma vtype_eqb_eq a b : vtype_eqb a b = true -> a = b.
Proof. destruct a, b; simpl; congruence. Qed.

Lemma assign_eqb_eq a b : assign_eqb a b = true -> a = b.
Proof. destruct a, b; simpl; congruence. Qed.

Lemma stmt_sim_same_kind a s : stmt_sim a s = true -> same_kind a s.
Proof.
  destruct a, s; cbn [stmt_sim same_kind]; try discriminate; rewrite ?andb_true_iff; intros H.
  - destruct H as [[[H1 _] H2] _]. split; [apply meta_eqb_eq|apply vtype_eqb_eq]; assumption.
  - destruct H as [[[H1 _] H2] H3]. split; [apply meta_eqb_eq; assumption|].
    split; [apply N.eqb_eq|apply optN_eqb_eq]; assumption.
  - destruct H as [H1 _]. apply meta_eqb_eq. assumption.
  - destruct H as [[[H1 _] H2] _]. split; [apply meta_eqb_eq|apply assign_eqb_eq]; assumption.
  - destruct H as [[H1 _] _]. apply meta_eqb_eq. assumption.
  - destruct H as [H1 _]. apply meta_eqb_eq. assumption.
  - destruct H as [H1 _]. apply meta_eqb_eq. assumption.
Qed.

Lemma same_kind_update_decl env a s : same_kind a s -> same_kind a (update_decl_stmt env s).
Proof.
  destruct s as [m names t dims| | | | | |]; try (intros H; exact H).
  destruct names as [|n tl]; [intros H; exact H|]. destruct t; intros H; exact H.
Qed.

Lemma stmts_sim_same_kind env : forall xs B, stmts_sim xs B = true ->
  Forall2 same_kind xs (map (update_decl_stmt env) B).
Proof.
  induction xs as [|x tx IH]; intros [|y ty] H; cbn [stmts_sim] in H; try discriminate; simpl; constructor.
  - apply andb_true_iff in H as [H _]. apply same_kind_update_decl. apply stmt_sim_same_kind. exact H.
  - apply andb_true_iff in H as [_ H]. apply IH. exact H.
Qed.

(* ------------------------------------------------------------------------ *)
(* the shape of the output                                                   *)
(* ------------------------------------------------------------------------ *)
Lemma forall2_map_r {A B C} (R : A -> C -> Prop) (f : B -> C) : forall l0 l,
  Forall2 (fun a b => R a (f b)) l0 l -> Forall2 R l0 (map f l).
Proof. intros l0 l H. induction H; simpl; constructor; auto. Qed.

Lemma forall2_impl {A B} (R S : A -> B -> Prop) : (forall a b, R a b -> S a b) ->
  forall l0 l, Forall2 R l0 l -> Forall2 S l0 l.
Proof. intros Hi l0 l H. induction H; constructor; auto. Qed.

Lemma forall2_conj {A B} (R S : A -> B -> Prop) : forall l0 l,
  Forall2 R l0 l -> Forall2 S l0 l -> Forall2 (fun a b => R a b /\ S a b) l0 l.
Proof.
  intros l0 l H. induction H as [|a b t0 t Hab Ht IH]; intros H2; inversion H2; subst; constructor; auto.
Qed.

Lemma erases_to_image env b0 b : erases_to b0 b ->
  phis_then_image b0 (set_stmts b (map (update_decl_stmt env) (b_stmts b))).
Proof.
  intros (_ & _ & P & B & Hb & HP & Hs).
  exists (map (update_decl_stmt env) P), (map (update_decl_stmt env) B). cbn [set_stmts b_stmts].
  split; [rewrite Hb; apply map_app|]. split; [|split].
  - unfold all_phis in HP. rewrite Forall_forall in *. intros y Hy. apply in_map_iff in Hy as (z & <- & Hz).
    apply is_phi_iff. rewrite update_decl_stmt_phi. apply HP. exact Hz.
  - pose proof (stmts_sim_no_phi _ _ Hs) as HB. rewrite Forall_forall in *. intros y Hy.
    apply in_map_iff in Hy as (z & <- & Hz). apply not_phi_iff. rewrite update_decl_stmt_phi. apply HB. exact Hz.
  - apply stmts_sim_same_kind. exact Hs.
Qed.

Theorem into_ssa_shape : forall frontier children c c',
  phi_free c = true -> into_ssa frontier children c = SOk c' -> ssa_shape_of c c'.
Proof.
  intros frontier children c c' Hpf H. unfold ssa_shape_of.
  apply forall2_conj; [exact (into_ssa_frames _ _ _ _ H)|].
  destruct (into_ssa_renamed_inv _ _ _ _ Hpf H) as (bs2 & env & Hi & ->).
  apply forall2_map_r. revert Hi. apply forall2_impl. intros b0 b. apply erases_to_image.
Qed.

(* ------------------------------------------------------------------------ *)
(* consequences of the shape, block by block                                 *)
(* ------------------------------------------------------------------------ *)
Section Shape.
Variables c c' : cfg.
Hypothesis Sh : ssa_shape_of c c'.

Lemma shape_nblocks : nblocks c' = nblocks c.
Proof. unfold nblocks. eapply forall2_length. exact Sh. Qed.

Lemma shape_blk_bwd i b' : blk c' i = Some b' ->
  exists b, blk c i = Some b /\ same_frame b b' /\ phis_then_image b b'.
Proof. intros H. exact (forall2_nth _ _ _ _ _ Sh H). Qed.

Lemma shape_blk_fwd i b : blk c i = Some b ->
  exists b', blk c' i = Some b' /\ same_frame b b' /\ phis_then_image b b'.
Proof. intros H. exact (forall2_nth_fwd _ _ _ _ _ Sh H). Qed.

Lemma shape_edge i j : edge c' i j <-> edge c i j.
Proof.
  split; intros (b & Hb & Hin).
  - destruct (shape_blk_bwd _ _ Hb) as (b0 & Hb0 & (_ & _ & _ & Hs) & _). exists b0. rewrite <- Hs. auto.
  - destruct (shape_blk_fwd _ _ Hb) as (b1 & Hb1 & (_ & _ & _ & Hs) & _). exists b1. rewrite Hs. auto.
Qed.

Lemma shape_path i l j : path c' i l j <-> path c i l j.
Proof.
  split; intros H; induction H as [i Hi|i k l j He _ IH].
  - constructor. rewrite <- shape_nblocks. exact Hi.
  - econstructor; [apply shape_edge; exact He|exact IH].
  - constructor. rewrite shape_nblocks. exact Hi.
  - econstructor; [apply shape_edge; exact He|exact IH].
Qed.
End Shape.

(* paths, reachability and dominance need the frames only: no hypothesis on the input *)
Section Frames.
Variables c c' : cfg.
Hypothesis F : Forall2 same_frame (c_blocks c) (c_blocks c').

Lemma frames_nblocks : nblocks c' = nblocks c.
Proof. unfold nblocks. eapply forall2_length. exact F. Qed.

Lemma frames_edge i j : edge c' i j <-> edge c i j.
Proof.
  split; intros (b & Hb & Hin).
  - destruct (forall2_nth _ _ _ _ _ F Hb) as (b0 & Hb0 & (_ & _ & _ & Hs)). exists b0. rewrite <- Hs. auto.
  - destruct (forall2_nth_fwd _ _ _ _ _ F Hb) as (b1 & Hb1 & (_ & _ & _ & Hs)). exists b1. rewrite Hs. auto.
Qed.

Lemma frames_path i l j : path c' i l j <-> path c i l j.
Proof.
  split; intros H; induction H as [i Hi|i k l j He _ IH].
  - constructor. rewrite <- frames_nblocks. exact Hi.
  - econstructor; [apply frames_edge; exact He|exact IH].
  - constructor. rewrite frames_nblocks. exact Hi.
  - econstructor; [apply frames_edge; exact He|exact IH].
Qed.
End Frames.

Theorem into_ssa_same_paths : forall frontier children c c',
  into_ssa frontier children c = SOk c' ->
  (forall i l j, path c' i l j <-> path c i l j) /\
  (forall j, reachable c' j <-> reachable c j) /\
  (forall i j, dominates c' i j <-> dominates c i j).
Proof.
  intros frontier children c c' H. pose proof (into_ssa_frames _ _ _ _ H) as F.
  pose proof (frames_path _ _ F) as P. split; [exact P|]. split.
  - intros j. split; intros (l & Hl); exists l; apply P; exact Hl.
  - intros i j. split; intros Hd l Hl; apply Hd; apply P; exact Hl.
Qed.

(* a branch of the image stands where it stood *)
Lemma same_kind_branch a s : same_kind a s -> (is_branch a <-> is_branch s).
Proof.
  intros H. split; intros (m & e & t & f & ->).
  - destruct s; try contradiction. do 4 eexists. reflexivity.
  - destruct a; try contradiction. do 4 eexists. reflexivity.
Qed.

Lemma phi_not_branch s : is_phi s -> ~ is_branch s.
Proof. intros (m & x & op & args & k & sv & st & ->) (m' & e & t & f & H). discriminate H. Qed.

Lemma forall2_nth_r {A B} (R : A -> B -> Prop) : forall l0 l i x, Forall2 R l0 l -> nth_error l i = Some x ->
  exists x0, nth_error l0 i = Some x0 /\ R x0 x.
Proof. exact (@forall2_nth A B R). Qed.

(* the last statement of the image: a branch iff the last statement of the source is one,
   and then the same condition location and targets *)
Lemma image_last_branch b b' m e t f : phis_then_image b b' -> last_stmt b' = Some (SIf m e t f) ->
  exists e0, last_stmt b = Some (SIf m e0 t f).
Proof.
  intros (P & B & Hs & HP & _ & HB). unfold last_stmt. rewrite Hs, app_length.
  pose proof (forall2_length _ _ _ HB) as HL.
  destruct B as [|y ty].
  - rewrite app_nil_r, Nat.add_0_r. intros H. exfalso.
    apply nth_error_In in H. rewrite Forall_forall in HP. apply (phi_not_branch _ (HP _ H)).
    do 4 eexists. reflexivity.
  - simpl length in *. rewrite nth_error_app2 by lia.
    replace (pred (length P + S (length ty)) - length P) with (length ty) by lia. intros H.
    destruct (forall2_nth_r _ _ _ _ _ HB H) as (a & Ha & Hk). rewrite <- HL. simpl pred.
    destruct a; try contradiction. destruct Hk as (-> & -> & ->). eauto.
Qed.

Lemma image_last_branch_fwd b b' m e0 t f : phis_then_image b b' -> last_stmt b = Some (SIf m e0 t f) ->
  exists e, last_stmt b' = Some (SIf m e t f).
Proof.
  intros (P & B & Hst & _ & _ & HB) Hsl. pose proof (forall2_length _ _ _ HB) as HL.
  unfold last_stmt in Hsl. destruct (forall2_nth_fwd _ _ _ _ _ HB Hsl) as (y & Hy & Hk).
  destruct y; try contradiction. destruct Hk as (<- & <- & <-). eexists.
  unfold last_stmt. rewrite Hst, app_length.
  assert (length B <> 0) by (intros E; apply nth_error_In in Hy; destruct B; [contradiction|discriminate]).
  rewrite nth_error_app2 by lia. replace (pred (length P + length B) - length P) with (pred (length B)) by lia.
  rewrite HL. exact Hy.
Qed.

Lemma image_ends_in_branch b b' : phis_then_image b b' -> ends_in_branch b' -> ends_in_branch b.
Proof.
  intros Hi (s & Hs & (m & e & t & f & ->)). destruct (image_last_branch _ _ _ _ _ _ Hi Hs) as (e0 & H0).
  eexists. split; [exact H0|]. do 4 eexists. reflexivity.
Qed.

Lemma image_branch_only_last b b' : phis_then_image b b' ->
  (forall k s, nth_error (b_stmts b) k = Some s -> is_branch s -> S k = length (b_stmts b)) ->
  forall k s, nth_error (b_stmts b') k = Some s -> is_branch s -> S k = length (b_stmts b').
Proof.
  intros (P & B & Hs & HP & _ & HB) H0 k s Hk Hbr. rewrite Hs in *. rewrite app_length.
  pose proof (forall2_length _ _ _ HB) as HL.
  destruct (lt_dec k (length P)) as [Hlt|Hge].
  - rewrite nth_error_app1 in Hk by exact Hlt. exfalso. apply nth_error_In in Hk.
    rewrite Forall_forall in HP. exact (phi_not_branch _ (HP _ Hk) Hbr).
  - rewrite nth_error_app2 in Hk by lia.
    destruct (forall2_nth_r _ _ _ _ _ HB Hk) as (a & Ha & Hkind).
    apply (same_kind_branch _ _ Hkind) in Hbr. pose proof (H0 _ _ Ha Hbr). lia.
Qed.

(* ------------------------------------------------------------------------ *)
(* every clause of C12 is carried over                                       *)
(* ------------------------------------------------------------------------ *)
Theorem ssa_shape_keeps_wf : forall c c', ssa_shape_of c c' -> cfg_wf c -> cfg_wf c'.
Proof.
  intros c c' Sh [W1 W2 W3 W4 W5 W6 W7 W8 W9 W10].
  pose proof (shape_nblocks _ _ Sh) as HN.
  constructor.
  - intros i b' Hb'. destruct (shape_blk_bwd _ _ Sh _ _ Hb') as (b & Hb & (Hi & _) & _). rewrite Hi. eapply W1. exact Hb.
  - destruct W2 as (b0 & Hb0 & Hp). destruct (shape_blk_fwd _ _ Sh _ _ Hb0) as (b1 & Hb1 & (_ & _ & Hpp & _) & _).
    exists b1. split; [exact Hb1|]. rewrite Hpp. exact Hp.
  - intros i b' x Hb' Hx. destruct (shape_blk_bwd _ _ Sh _ _ Hb') as (b & Hb & (_ & _ & Hp & Hs) & _).
    rewrite HN. rewrite Hp, Hs in Hx. eapply W3; eassumption.
  - intros i j. split.
    + intros (bi & Hbi & Hin). destruct (shape_blk_bwd _ _ Sh _ _ Hbi) as (b & Hb & (_ & _ & _ & Hs) & _).
      rewrite Hs in Hin. destruct (proj1 (W4 i j) (ex_intro _ b (conj Hb Hin))) as (bj & Hbj & Hin').
      destruct (shape_blk_fwd _ _ Sh _ _ Hbj) as (bj' & Hbj' & (_ & _ & Hp & _) & _).
      exists bj'. rewrite Hp. auto.
    + intros (bj & Hbj & Hin). destruct (shape_blk_bwd _ _ Sh _ _ Hbj) as (b & Hb & (_ & _ & Hp & _) & _).
      rewrite Hp in Hin. destruct (proj2 (W4 i j) (ex_intro _ b (conj Hb Hin))) as (bi & Hbi & Hin').
      destruct (shape_blk_fwd _ _ Sh _ _ Hbi) as (bi' & Hbi' & (_ & _ & _ & Hs) & _).
      exists bi'. rewrite Hs. auto.
  - intros i b' k s Hb'. destruct (shape_blk_bwd _ _ Sh _ _ Hb') as (b & Hb & _ & Him).
    apply (image_branch_only_last _ _ Him). intros k0 s0. eapply W5. exact Hb.
  - intros i b' m e t f Hb' Hl. destruct (shape_blk_bwd _ _ Sh _ _ Hb') as (b & Hb & (_ & _ & _ & Hs) & Him).
    destruct (image_last_branch _ _ _ _ _ _ Him Hl) as (e0 & Hl0). rewrite HN, Hs. eapply W6; eassumption.
  - intros i b' Hb'. destruct (shape_blk_bwd _ _ Sh _ _ Hb') as (b & Hb & (_ & _ & _ & Hs) & Him).
    rewrite Hs. destruct (W7 _ _ Hb) as (A1 & A2 & A3). split; [exact A1|]. split; [exact A2|].
    intros Hn. apply A3. intros He. apply Hn.
    (* the source ends in a branch: so does the image *)
    destruct He as (s & Hsl & (m & e & t & f & ->)).
    destruct Him as (P & B & Hst & _ & _ & HB). pose proof (forall2_length _ _ _ HB) as HL.
    unfold last_stmt in Hsl. destruct (forall2_nth_fwd _ _ _ _ _ HB Hsl) as (y & Hy & Hk).
    destruct y; try contradiction. eexists. split; [|do 4 eexists; reflexivity].
    unfold last_stmt. rewrite Hst, app_length.
    assert (length B <> 0) by (intros E; apply nth_error_In in Hy; destruct B; [contradiction|discriminate]).
    rewrite nth_error_app2 by lia. replace (pred (length P + length B) - length P) with (pred (length B)) by lia.
    rewrite HL. exact Hy.
  - intros j Hj. rewrite HN in Hj. destruct (W8 j Hj) as (l & Hl). exists l. apply (shape_path _ _ Sh). exact Hl.
  - intros i j Hj Hd. rewrite HN in Hj. apply (W9 i j Hj). intros l Hl. apply Hd. apply (shape_path _ _ Sh). exact Hl.
  - intros j Hj. rewrite HN in Hj. destruct (W10 j Hj) as (l & Hl & Hle). exists l. split; [|exact Hle].
    apply (shape_path _ _ Sh). exact Hl.
Qed.

Theorem into_ssa_keeps_wf : forall frontier children c c',
  phi_free c = true -> into_ssa frontier children c = SOk c' -> cfg_wf c -> cfg_wf c'.
Proof.
  intros frontier children c c' Hpf H. apply ssa_shape_keeps_wf. eapply into_ssa_shape; eassumption.
Qed.

(* clause (2) of the brief for the last statement: a block of the output ends in a branch
   exactly when the block of the input does, with the same location and targets *)
Theorem into_ssa_last_branch : forall frontier children c c',
  phi_free c = true -> into_ssa frontier children c = SOk c' ->
  forall i b b', nth_error (c_blocks c) i = Some b -> nth_error (c_blocks c') i = Some b' ->
  forall m t f, (exists e, last_stmt b' = Some (SIf m e t f)) <-> (exists e, last_stmt b = Some (SIf m e t f)).
Proof.
  intros frontier children c c' Hpf H i b b' Hb Hb' m t f.
  pose proof (into_ssa_shape _ _ _ _ Hpf H) as Sh.
  destruct (forall2_nth_both _ _ _ _ _ _ Sh Hb Hb') as [_ Him]. split; intros (e & He).
  - eapply image_last_branch; eassumption.
  - eapply image_last_branch_fwd; eassumption.
Qed.

(* the loop depths are those of the input, block by block *)
Lemma shape_loop_depths c c' : ssa_shape_of c c' -> loop_depths c' = loop_depths c.
Proof.
  unfold ssa_shape_of, loop_depths. intros H. induction H as [|b b' t t' ((_ & Hd & _) & _) _ IH]; [reflexivity|].
  simpl. rewrite Hd, IH. reflexivity.
Qed.

(* ------------------------------------------------------------------------ *)
(* the hypothesis of into_ssa_shape cannot simply be dropped: the mirror      *)
(* copies a phi assignment that already stands behind another statement, so   *)
(* the output is not "phis, then statements that are no phis"                 *)
(* ------------------------------------------------------------------------ *)
Module Needed.
Definition k0 : know := {| kval := None; kdeg := None |}.
Definition m0 : meta := {| m_start := 0%N; m_end := 0%N; m_file := None |}.
Definition xu : vname := {| vn_name := [120%N]; vn_suffix := None; vn_version := None |}.
Definition c_phi : cfg :=
  {| c_kind := KFunction; c_params := []; c_decls := [(xu, TLocal)];
     c_blocks := [ {| b_index := 0%N; b_depth := 0%N;
                      b_stmts := [ SCeq m0 (ENum 0 k0) (ENum 0 k0);
                                   SSubst m0 xu OpVar (EPhi [] k0) None (Some TLocal) ];
                      b_preds := []; b_succs := [] |} ] |}.

Lemma phi_free_needed :
  phi_free c_phi = false /\
  exists c', into_ssa [[]] [[]] c_phi = SOk c' /\ ~ ssa_shape_of c_phi c'.
Proof.
  split; [reflexivity|]. eexists. split; [vm_compute; reflexivity|].
  intros Sh. inversion Sh as [|b b' t t' [_ (P & B & Hs & HP & HB & _)] _]; subst. cbn [b_stmts] in Hs.
  destruct P as [|p P'].
  - simpl in Hs. subst B. inversion HB as [|? ? _ HB2]; subst. inversion HB2 as [|? ? Hn _]; subst.
    apply Hn. do 7 eexists. reflexivity.
  - simpl in Hs. injection Hs as Hp _. subst p. inversion HP as [|? ? Hphi _]; subst.
    destruct Hphi as (m & x & op & args & k & sv & st & Habs). discriminate Habs.
Qed.
End Needed.
