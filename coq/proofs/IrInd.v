(* A usable induction principle for Ir.expr (nested lists of sub-expressions). *)
From Coq Require Import ZArith List.
Require Import Model.Base Model.Ir.
Import ListNotations.

Definition acc_exprs (acc : list (access expr)) : list expr :=
  flat_map (fun a => match a with AIdx e => [e] | AComp _ => [] end) acc.

Section ExprInd.
Variable P : expr -> Prop.
Hypothesis Hnum : forall z k, P (ENum z k).
Hypothesis Hvar : forall v k, P (EVar v k).
Hypothesis Hinfix : forall op l r k, P l -> P r -> P (EInfix op l r k).
Hypothesis Hprefix : forall op e k, P e -> P (EPrefix op e k).
Hypothesis Hswitch : forall c t f k, P c -> P t -> P f -> P (ESwitch c t f k).
Hypothesis Hcall : forall n args k, Forall P args -> P (ECall n args k).
Hypothesis Harray : forall vs k, Forall P vs -> P (EArray vs k).
Hypothesis Haccess : forall v acc k, Forall P (acc_exprs acc) -> P (EAccess v acc k).
Hypothesis Hupdate : forall v acc rhe k, Forall P (acc_exprs acc) -> P rhe -> P (EUpdate v acc rhe k).
Hypothesis Hphi : forall args k, P (EPhi args k).

Fixpoint expr_ind' (e : expr) : P e :=
  let fix go_list (es : list expr) : Forall P es :=
      match es with
      | [] => Forall_nil P
      | x :: tl => Forall_cons x (expr_ind' x) (go_list tl)
      end in
  let fix go_acc (acc : list (access expr)) : Forall P (acc_exprs acc) :=
      match acc with
      | [] => Forall_nil P
      | AIdx x :: tl => Forall_cons x (expr_ind' x) (go_acc tl)
      | AComp _ :: tl => go_acc tl
      end in
  match e with
  | ENum z k => Hnum z k
  | EVar v k => Hvar v k
  | EInfix op l r k => Hinfix op l r k (expr_ind' l) (expr_ind' r)
  | EPrefix op x k => Hprefix op x k (expr_ind' x)
  | ESwitch c t f k => Hswitch c t f k (expr_ind' c) (expr_ind' t) (expr_ind' f)
  | ECall n args k => Hcall n args k (go_list args)
  | EArray vs k => Harray vs k (go_list vs)
  | EAccess v acc k => Haccess v acc k (go_acc acc)
  | EUpdate v acc rhe k => Hupdate v acc rhe k (go_acc acc) (expr_ind' rhe)
  | EPhi args k => Hphi args k
  end.
End ExprInd.
