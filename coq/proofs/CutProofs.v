(* C20: facts about cut points of the pass loops. *)
From Coq Require Import ZArith List Bool Lia.
Require Import Model.Base Model.Field Model.Ir Model.Propagate Model.Justify Proofs.IrInd.
Require Export Model.Clean.
Import ListNotations.
Local Open Scope Z_scope.

Lemma clean_expr_vjust ss p e : clean_expr e = true -> vjust_expr ss p e = true.
Proof.
  induction e as [z k|v k|op l r k IHl IHr|op e k IHe|c t f k IHc IHt IHf|n args k IHargs|vs k IHvs
                  |v acc k IHacc|v acc rhe k IHacc IHrhe|args k] using expr_ind';
    cbn [clean_expr vjust_expr expr_know]; intros H;
    apply andb_true_iff in H as [Hk H]; unfold claim_none in Hk.
  - destruct (kval k); [discriminate|]. rewrite H. reflexivity.
  - destruct (kval k); [discriminate|]. reflexivity.
  - apply andb_true_iff in H as [H1 H2]. rewrite IHl, IHr by assumption.
    destruct (kval k); [discriminate|]. reflexivity.
  - rewrite IHe by assumption. destruct (kval k); [discriminate|]. reflexivity.
  - apply andb_true_iff in H as [H H3]. apply andb_true_iff in H as [H1 H2].
    rewrite IHc, IHt, IHf by assumption. destruct (kval k); [discriminate|]. reflexivity.
  - unfold claim_none. destruct (kval k); [discriminate|]. rewrite andb_true_r.
    induction args as [|x tl IH]; [reflexivity|]. inversion IHargs as [|? ? Hx0 Ht0]; subst.
    apply andb_true_iff in H as [Hx Ht]. rewrite Hx0 by assumption. cbn [andb]. apply IH; assumption.
  - unfold claim_none. destruct (kval k); [discriminate|]. rewrite andb_true_r.
    induction vs as [|x tl IH]; [reflexivity|]. inversion IHvs as [|? ? Hx0 Ht0]; subst.
    apply andb_true_iff in H as [Hx Ht]. rewrite Hx0 by assumption. cbn [andb]. apply IH; assumption.
  - unfold claim_none. destruct (kval k); [discriminate|]. rewrite andb_true_r.
    induction acc as [|x tl IH]; [reflexivity|]. destruct x as [x|n].
    + cbn [acc_exprs flat_map app] in IHacc. inversion IHacc as [|? ? Hx0 Ht0]; subst.
      apply andb_true_iff in H as [Hx Ht]. rewrite Hx0 by assumption. cbn [andb]. apply IH; assumption.
    + cbn [acc_exprs flat_map app] in IHacc. apply IH; assumption.
  - unfold claim_none. destruct (kval k); [discriminate|]. rewrite andb_true_r.
    apply andb_true_iff in H as [Hr Ha]. rewrite IHrhe by assumption. cbn [andb].
    induction acc as [|x tl IH]; [reflexivity|]. destruct x as [x|n].
    + cbn [acc_exprs flat_map app] in IHacc. inversion IHacc as [|? ? Hx0 Ht0]; subst.
      apply andb_true_iff in Ha as [Hx Ht]. rewrite Hx0 by assumption. cbn [andb]. apply IH; assumption.
    + cbn [acc_exprs flat_map app] in IHacc. apply IH; assumption.
  - destruct (kval k); [discriminate|]. reflexivity.
Qed.

Lemma clean_stmt_vjust ss p s : clean_stmt s = true -> vjust_stmt ss p s = true.
Proof.
  destruct s; cbn [clean_stmt vjust_stmt]; intros H.
  - rewrite forallb_forall in *. intros e He. apply clean_expr_vjust. auto.
  - apply clean_expr_vjust. exact H.
  - apply clean_expr_vjust. exact H.
  - apply andb_true_iff in H as [H1 H2]. rewrite clean_expr_vjust by assumption.
    destruct sval; [discriminate|]. reflexivity.
  - apply andb_true_iff in H as [H1 H2]. rewrite !clean_expr_vjust by assumption. reflexivity.
  - rewrite forallb_forall in *. intros a Ha. specialize (H a Ha). destruct a; [reflexivity|].
    apply clean_expr_vjust. exact H.
  - apply clean_expr_vjust. exact H.
Qed.

(* the cut before the first pass: nothing is claimed, so everything claimed is justified *)
Lemma clean_cfg_validated p c : clean_cfg c = true -> vjust_cfg p c = true.
Proof.
  unfold clean_cfg, vjust_cfg. rewrite !forallb_forall. intros H s Hs.
  apply clean_stmt_vjust. auto.
Qed.

(* a zero budget runs no pass *)
Lemma budget_zero_identity p idom c : propagate 0 0 p idom c = Ok (set_blocks c (c_blocks c)).
Proof. reflexivity. Qed.

(* the pass loop: one more unit of budget is exactly one more pass, taken only
   if the previous pass reported a first write; so the state at budget k is a
   prefix of the run to the fixpoint *)
Lemma values_passes_succ k p env bs :
  values_passes (S k) p env bs =
  bind (pv_blocks p env false bs)
       (fun r => let '(rerun, bs', env') := r in
                 if rerun then values_passes k p env' bs' else Ok (bs', env')).
Proof. reflexivity. Qed.

Lemma values_passes_fix k p env bs bs' env' :
  pv_blocks p env false bs = Ok (false, bs', env') ->
  values_passes (S k) p env bs = Ok (bs', env').
Proof. intros H. cbn [values_passes]. rewrite H. reflexivity. Qed.

Lemma degrees_passes_fix k idom env bs bs' env' :
  pd_blocks idom env false [] bs = (false, bs', env') ->
  degrees_passes (S k) idom env bs = (bs', env').
Proof. intros H. cbn [degrees_passes]. rewrite H. reflexivity. Qed.
