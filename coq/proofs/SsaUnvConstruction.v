(* C14 (proof round 4): the construction mirror Model.Ssa.into_ssa gives a version to EVERY
   read of a local, and every version it hands out is listed by a re-issued Declaration
   statement.

     into_ssa_unversioned_reads_ok     SsaCheck.unversioned_reads_ok holds of the output, with the
                                       declaration table rebuilt from the re-issued Declaration
                                       statements (SsaDecls.with_stmt_decls; the mirror leaves the
                                       table itself empty): no statement - dimensions of Declaration
                                       statements, array indices and access lists included - reads,
                                       without a version, a name whose key is the key of a parameter
                                       or of a versioned name listed by a Declaration statement of a local
     into_ssa_versions_stmt_declared   every versioned name that occurs in the output (parameters,
                                       reads, assignment targets, phi arguments, declared names) is
                                       listed by a Declaration statement of the output or is a version
                                       of a parameter

   Method: one invariant of the dominator-tree walk.  The environment keeps every scoped
   version at or below the per-key counter ([sbnd]) and hands out counters only for keys of
   declared locals and of parameters ([gk]); a renamed read is either the unchanged name of a
   non-local or the name of a local with a version at or below the counter ([rd_rel]). *)
From Coq Require Import ZArith NArith List Bool Lia Arith.
Require Import Model.Base Model.Ir Model.SsaCheck Model.SsaErase Model.Ssa Model.SsaPre Model.SsaDecls.
Require Import Proofs.IrInd Proofs.IrFacts Proofs.SsaNoPanic Proofs.SsaConstruction Proofs.SsaRenameSem.
Import ListNotations.

Definition klocal (decls : list (vname * vtype)) (k : key) : bool :=
  existsb (fun d => key_eqb (key_of (fst d)) k && match snd d with TLocal => true | _ => false end) decls.

Lemma is_local_klocal decls v : is_local_in decls v = klocal decls (key_of v).
Proof. reflexivity. Qed.

Lemma key_with_version' v n : key_of (with_version v n) = key_of v.
Proof. reflexivity. Qed.

Lemma vname_eqb_refl' a : vname_eqb a a = true.
Proof.
  unfold vname_eqb. rewrite ident_eqb_refl. rewrite (proj2 (opt_eqb_eq' ident_eqb ident_eqb_eq' _ _) eq_refl).
  rewrite (proj2 (optN_eqb_eq _ _) eq_refl). reflexivity.
Qed.

Lemma vname_eqb_true a b : vname_eqb a b = true -> a = b.
Proof.
  unfold vname_eqb. rewrite !andb_true_iff. intros [[H1 H2] H3]. apply ident_eqb_eq' in H1.
  apply (opt_eqb_eq' ident_eqb ident_eqb_eq') in H2. apply optN_eqb_eq in H3.
  destruct a, b; cbn in *; subst; reflexivity.
Qed.

(* ------------------------------------------------------------------------ *)
(* the environment                                                           *)
(* ------------------------------------------------------------------------ *)
Section Reads.
Variable decls : list (vname * vtype).
Variable pk : key -> Prop.          (* the keys of the parameters *)

Definition map_bnd (g b : vmap) : Prop :=
  forall k n, vget b k = Some n -> exists m, vget g k = Some m /\ (n <= m)%N.
Definition sbnd (env : senv) : Prop := Forall (map_bnd (se_global env)) (se_scoped env).
Definition gk (env : senv) : Prop :=
  forall k m, vget (se_global env) k = Some m -> klocal decls k = true \/ pk k.
Definition envok (env : senv) : Prop := sbnd env /\ gk env.

Lemma map_bnd_gle g g' b : gle g g' -> map_bnd g b -> map_bnd g' b.
Proof.
  intros L H k n Hk. destruct (H k n Hk) as (m & Hm & Le). destruct (L k m Hm) as (m' & Hm' & Le').
  exists m'. split; [exact Hm'|lia].
Qed.

Lemma sbnd_cur env v n : sbnd env -> cur_version env v = Some n ->
  exists m, vget (se_global env) (key_of v) = Some m /\ (n <= m)%N.
Proof.
  unfold sbnd, cur_version. generalize (se_scoped env) as l.
  induction l as [|b tl IH]; intros HF H; simpl in H; [discriminate|].
  inversion HF as [|? ? Hb Htl]; subst. destruct (vget b (key_of v)) as [n'|] eqn:Eb.
  - inversion H; subst n'. apply Hb. exact Eb.
  - apply IH; assumption.
Qed.

Lemma next_version_scoped env v :
  se_scoped (snd (next_version env v)) =
  match se_scoped env with
  | [] => [vset [] (key_of v) (fst (next_version env v))]
  | b :: tl => vset b (key_of v) (fst (next_version env v)) :: tl
  end.
Proof. reflexivity. Qed.

Lemma envok_next env v : envok env -> (is_local_in decls v = true \/ pk (key_of v)) ->
  envok (snd (next_version env v)).
Proof.
  intros [Hs Hg] Hv. pose proof (next_version_gle env v) as G. unfold env_gle in G.
  rewrite next_version_global in G. split.
  - unfold sbnd in *. rewrite next_version_global, next_version_scoped. revert G.
    generalize (fst (next_version env v)) as n. intros n G.
    destruct (se_scoped env) as [|b tl].
    + constructor; [|constructor]. intros k' n' H. rewrite vget_vset in *.
      destruct (key_eqb (key_of v) k'); [|discriminate H]. exists n. split; [reflexivity|]. inversion H. lia.
    + inversion Hs as [|? ? Hb Htl]; subst. constructor.
      * intros k' n' H. rewrite vget_vset in *. destruct (key_eqb (key_of v) k').
        -- exists n. split; [reflexivity|]. inversion H. lia.
        -- apply Hb. exact H.
      * eapply Forall_impl; [|exact Htl]. intros a Ha. eapply map_bnd_gle; [exact G|exact Ha].
  - intros k' m H. rewrite next_version_global, vget_vset in H.
    destruct (key_eqb (key_of v) k') eqn:Ek; [|eapply Hg; exact H].
    apply key_eqb_eq in Ek. subst k'. destruct Hv as [Hv|Hv]; [left; rewrite <- is_local_klocal; exact Hv|right; exact Hv].
Qed.

Lemma envok_push env : envok env -> envok (push_scope env).
Proof.
  intros [Hs Hg]. split; [|exact Hg]. unfold sbnd, push_scope. cbn [se_global se_scoped].
  constructor; [|exact Hs]. intros k n H. discriminate H.
Qed.

Lemma envok_pop env : envok env -> envok (pop_scope env).
Proof.
  intros [Hs Hg]. split; [|exact Hg]. unfold sbnd, pop_scope in *. cbn [se_global se_scoped].
  destruct (se_scoped env); [constructor|]. inversion Hs; assumption.
Qed.

(* ------------------------------------------------------------------------ *)
(* what renaming does to the names an expression reads                       *)
(* ------------------------------------------------------------------------ *)
Definition rd_rel (g : vmap) (v v' : vname) : Prop :=
  (v' = v /\ is_local_in decls v = false) \/
  (is_local_in decls v = true /\ exists n, v' = with_version v n /\ bounded g v').

Definition rds (g : vmap) (l l' : list vname) : Prop :=
  forall v', In v' l' -> exists v, In v l /\ rd_rel g v v'.

Lemma rd_rel_gle g g' v v' : gle g g' -> rd_rel g v v' -> rd_rel g' v v'.
Proof.
  intros L [H|(Hl & n & Hv & Hb)]; [left; exact H|right]. split; [exact Hl|]. exists n. split; [exact Hv|].
  eapply bounded_gle; eassumption.
Qed.

Lemma rds_gle g g' l l' : gle g g' -> rds g l l' -> rds g' l l'.
Proof. intros L H v' Hv'. destruct (H v' Hv') as (v & Hv & R). exists v. split; [exact Hv|eapply rd_rel_gle; eassumption]. Qed.

Lemma rds_nil g : rds g [] [].
Proof. intros v' []. Qed.

Lemma rds_app g a a' b b' : rds g a a' -> rds g b b' -> rds g (a ++ b) (a' ++ b').
Proof.
  intros Ha Hb v' Hv'. apply in_app_or in Hv'. destruct Hv' as [Hv'|Hv'].
  - destruct (Ha v' Hv') as (v & Hv & R). exists v. split; [apply in_or_app; left; exact Hv|exact R].
  - destruct (Hb v' Hv') as (v & Hv & R). exists v. split; [apply in_or_app; right; exact Hv|exact R].
Qed.

Lemma rds_cons g v v' l l' : rd_rel g v v' -> rds g l l' -> rds g (v :: l) (v' :: l').
Proof.
  intros Hv Hl. apply (rds_app g [v] [v'] l l'); [|exact Hl]. intros w [<-|[]]. exists v. split; [left; reflexivity|exact Hv].
Qed.

Lemma rename_read_rd env v v' : sbnd env -> is_local_in decls v = true ->
  rename_read decls env v = SOk v' -> rd_rel (se_global env) v v'.
Proof.
  intros Hs Hl H. unfold rename_read in H. destruct (vn_version v); [discriminate|]. rewrite Hl in H.
  destruct (cur_version env v) as [n|] eqn:Ec; [|discriminate]. inversion H; subst v'. right. split; [exact Hl|].
  exists n. split; [reflexivity|]. destruct (sbnd_cur _ _ _ Hs Ec) as (m & Hm & Le).
  exists n, m. split; [reflexivity|]. split; [exact Hm|exact Le].
Qed.

Lemma exprs_gle es env r env' : ssa_exprs decls env es = SOk (r, env') -> env_gle env env'.
Proof.
  apply (ssa_exprs_rel decls env_gle); unfold env_gle; intros.
  - apply gle_refl. - eapply gle_trans; eassumption. - apply next_version_gle.
Qed.

Lemma acc_gle acc env r env' : ssa_acc decls env acc = SOk (r, env') -> env_gle env env'.
Proof.
  intros H. refine (ssa_acc_rel decls env_gle _ _ acc _ env r env' H); unfold env_gle.
  - intros. apply gle_refl.
  - intros. eapply gle_trans; eassumption.
  - apply Forall_forall. intros e _. unfold expr_rel. intros. eapply ssa_expr_gle. eassumption.
Qed.

Definition expr_rd (e : expr) : Prop :=
  forall env e' env', envok env -> ssa_expr decls env e = SOk (e', env') ->
    envok env' /\ rds (se_global env') (expr_reads e) (expr_reads e').

Lemma ssa_list_rd : forall es, Forall expr_rd es ->
  forall env r env', envok env -> ssa_list decls env es = SOk (r, env') ->
    envok env' /\ rds (se_global env') (list_reads es) (list_reads r).
Proof.
  induction 1 as [|x tl Hx _ IH]; intros env r env' He H; simpl in H.
  - inversion H; subst. split; [exact He|apply rds_nil].
  - sb2 H. sb2 H. inversion H; subst.
    destruct (Hx _ _ _ He E) as [He1 R1]. destruct (IH _ _ _ He1 E0) as [He2 R2].
    split; [exact He2|]. cbn [list_reads]. apply rds_app; [|exact R2].
    eapply rds_gle; [|exact R1]. rewrite ssa_list_exprs in E0. exact (exprs_gle _ _ _ _ E0).
Qed.

Lemma ssa_acc_rd : forall acc, Forall expr_rd (acc_exprs acc) ->
  forall env r env', envok env -> ssa_acc decls env acc = SOk (r, env') ->
    envok env' /\ rds (se_global env') (acc_reads acc) (acc_reads r).
Proof.
  induction acc as [|[x|n] tl IH]; intros HF env r env' He H; simpl in H.
  - inversion H; subst. split; [exact He|apply rds_nil].
  - cbn [acc_exprs flat_map app] in HF. inversion HF as [|? ? Hx Htl]; subst.
    sb2 H. sb2 H. inversion H; subst.
    destruct (Hx _ _ _ He E) as [He1 R1]. destruct (IH Htl _ _ _ He1 E0) as [He2 R2].
    split; [exact He2|]. cbn [acc_reads]. apply rds_app; [|exact R2].
    eapply rds_gle; [|exact R1]. exact (acc_gle _ _ _ _ E0).
  - cbn [acc_exprs flat_map app] in HF. sb2 H. inversion H; subst.
    destruct (IH HF _ _ _ He E) as [He2 R2]. split; [exact He2|exact R2].
Qed.

Lemma ssa_expr_rd : forall e, expr_rd e.
Proof.
  induction e as [z k|v k|op l r k IHl IHr|op x k IHx|c t f k IHc IHt IHf|n args k IH|vs k IH
                 |v acc k IH|v acc rhe k IH IHr|args k] using expr_ind'; intros env e' env' He H.
  - cbn [ssa_expr] in H. inversion H; subst. split; [exact He|apply rds_nil].
  - cbn [ssa_expr] in H. destruct (is_local_in decls v) eqn:El.
    + sb1 H. inversion H; subst. split; [exact He|]. cbn [expr_reads].
      apply rds_cons; [|apply rds_nil]. apply rename_read_rd; [exact (proj1 He)|exact El|exact E].
    + inversion H; subst. split; [exact He|]. cbn [expr_reads]. apply rds_cons; [|apply rds_nil]. left. split; [reflexivity|exact El].
  - cbn [ssa_expr] in H. sb2 H. sb2 H. inversion H; subst.
    destruct (IHl _ _ _ He E) as [He1 R1]. destruct (IHr _ _ _ He1 E0) as [He2 R2].
    split; [exact He2|]. cbn [expr_reads]. apply rds_app; [|exact R2].
    eapply rds_gle; [exact (ssa_expr_gle _ _ _ _ _ E0)|exact R1].
  - cbn [ssa_expr] in H. sb2 H. inversion H; subst. exact (IHx _ _ _ He E).
  - cbn [ssa_expr] in H. sb2 H. sb2 H. sb2 H. inversion H; subst.
    destruct (IHc _ _ _ He E) as [He1 R1]. destruct (IHt _ _ _ He1 E0) as [He2 R2]. destruct (IHf _ _ _ He2 E1) as [He3 R3].
    pose proof (ssa_expr_gle _ _ _ _ _ E0) as G2. pose proof (ssa_expr_gle _ _ _ _ _ E1) as G3. unfold env_gle in *.
    split; [exact He3|]. cbn [expr_reads]. apply rds_app; [|apply rds_app; [|exact R3]].
    + eapply rds_gle; [|exact R1]. eapply gle_trans; eassumption.
    + eapply rds_gle; [exact G3|exact R2].
  - rewrite ssa_expr_call in H. sb2 H. inversion H; subst. rewrite !expr_reads_call. eapply ssa_list_rd; eassumption.
  - rewrite ssa_expr_array in H. sb2 H. inversion H; subst. rewrite !expr_reads_array. eapply ssa_list_rd; eassumption.
  - rewrite ssa_expr_access in H. sb2 H. destruct (ssa_acc_rd acc IH _ _ _ He E) as [He1 R1].
    rewrite expr_reads_access. destruct (is_local_in decls v) eqn:El.
    + sb1 H. inversion H; subst. split; [exact He1|]. rewrite expr_reads_access.
      apply rds_cons; [|exact R1]. apply rename_read_rd; [exact (proj1 He1)|exact El|exact E0].
    + inversion H; subst. split; [exact He1|]. rewrite expr_reads_access. apply rds_cons; [|exact R1].
      left. split; [reflexivity|exact El].
  - rewrite ssa_expr_update in H. sb2 H. sb2 H. rename x into rhe'. rename x0 into acc'.
    destruct (IHr _ _ _ He E) as [He1 R1]. destruct (ssa_acc_rd acc IH _ _ _ He1 E0) as [He2 R2].
    pose proof (acc_gle _ _ _ _ E0) as G2. unfold env_gle in G2.
    rewrite expr_reads_update.
    destruct (is_local_in decls v) eqn:El.
    + destruct (vn_version v) eqn:Ev; [discriminate|]. destruct (cur_version env1 v) as [n|] eqn:Ec.
      * inversion H; subst. split; [exact He2|]. rewrite expr_reads_update. apply rds_cons.
        -- right. split; [exact El|]. exists n. split; [reflexivity|].
           destruct (sbnd_cur _ _ _ (proj1 He2) Ec) as (m & Hm & Le). exists n, m. split; [reflexivity|]. split; [exact Hm|exact Le].
        -- apply rds_app; [eapply rds_gle; [exact G2|exact R1]|exact R2].
      * destruct (next_version env1 v) as [n env3] eqn:En. inversion H; subst.
        assert (He3 : env' = snd (next_version env1 v)) by (rewrite En; reflexivity).
        pose proof (next_version_gle env1 v) as G3. rewrite <- He3 in G3. unfold env_gle in G3.
        split; [rewrite He3; apply envok_next; [exact He2|left; exact El]|]. rewrite expr_reads_update. apply rds_cons.
        -- right. split; [exact El|]. exists n. split; [reflexivity|]. exact (proj2 (next_version_fresh _ _ _ _ En)).
        -- apply rds_app; [eapply rds_gle; [|exact R1]; eapply gle_trans; eassumption|eapply rds_gle; [exact G3|exact R2]].
    + inversion H; subst. split; [exact He2|]. rewrite expr_reads_update. apply rds_cons.
      * left. split; [reflexivity|exact El].
      * apply rds_app; [eapply rds_gle; [exact G2|exact R1]|exact R2].
  - cbn [ssa_expr] in H. inversion H; subst. split; [exact He|apply rds_nil].
Qed.
End Reads.

(* ------------------------------------------------------------------------ *)
(* statements                                                                *)
(* ------------------------------------------------------------------------ *)
Definition pargs (e : expr) : list vname := match e with EPhi args _ => args | _ => [] end.

(* the names a statement mentions apart from the names a Declaration lists *)
Definition stmt_tgt (s : stmt) : list vname :=
  match s with SSubst _ x _ rhe _ _ => x :: pargs rhe | _ => [] end.
Definition stmt_occ (s : stmt) : list vname := stmt_reads s ++ stmt_tgt s.

(* a versioned name lies at or below the counter of its key *)
Definition vok (g : vmap) (v : vname) : Prop := vn_version v = None \/ bounded g v.

Lemma vok_gle g g' v : gle g g' -> vok g v -> vok g' v.
Proof. intros L [H|H]; [left; exact H|right; eapply bounded_gle; eassumption]. Qed.

Section Stmts.
Variable decls : list (vname * vtype).
Variable pk : key -> Prop.

(* a name read without a version is not a declared local *)
Definition uok (v : vname) : Prop := vn_version v = None -> is_local_in decls v = false.

Lemma rd_rel_uok g v v' : rd_rel decls g v v' -> uok v'.
Proof.
  intros [[-> Hl]|(Hl & n & -> & _)] Hn; [exact Hl|discriminate Hn].
Qed.

Lemma rd_rel_vok g v v' : rd_rel decls g v v' -> vok g v -> vok g v'.
Proof. intros [[-> _]|(_ & n & _ & Hb)] Hv; [exact Hv|right; exact Hb]. Qed.

Lemma rds_uok g l l' : rds decls g l l' -> forall v', In v' l' -> uok v'.
Proof. intros H v' Hv'. destruct (H v' Hv') as (v & _ & R). eapply rd_rel_uok; exact R. Qed.

Lemma rds_vok g l l' : rds decls g l l' -> (forall v, In v l -> vok g v) -> forall v', In v' l' -> vok g v'.
Proof. intros H Hl v' Hv'. destruct (H v' Hv') as (v & Hv & R). eapply rd_rel_vok; [exact R|apply Hl; exact Hv]. Qed.

Lemma ssa_expr_pargs e env e' env' : ssa_expr decls env e = SOk (e', env') -> pargs e' = pargs e.
Proof.
  intros H. pose proof (ssa_expr_is_phi decls _ _ _ _ H) as Hp.
  destruct e as [z k|v k|op l r k|op x k|c t f k|n args k|vs k|v acc k|v acc rhe k|args k];
    try (destruct e'; try discriminate Hp; reflexivity).
  cbn [ssa_expr] in H. inversion H; subst. reflexivity.
Qed.

Lemma ssa_exprs_rd : forall es env r env', envok decls pk env -> ssa_exprs decls env es = SOk (r, env') ->
  envok decls pk env' /\ rds decls (se_global env') (flat_map expr_reads es) (flat_map expr_reads r).
Proof.
  intros es env r env' He H. rewrite <- !list_reads_flat_map. rewrite <- ssa_list_exprs in H.
  eapply ssa_list_rd; [|exact He|exact H]. apply Forall_forall. intros e _. apply ssa_expr_rd.
Qed.

Definition logargs_reads (args : list logarg) : list vname :=
  flat_map (fun a => match a with LExpr e => expr_reads e | LStr => [] end) args.

Lemma ssa_logargs_rd : forall es env r env', envok decls pk env -> ssa_logargs decls env es = SOk (r, env') ->
  envok decls pk env' /\ rds decls (se_global env') (logargs_reads es) (logargs_reads r).
Proof.
  induction es as [|[|x] tl IH]; intros env r env' He H; simpl in H.
  - inversion H; subst. split; [exact He|apply rds_nil].
  - sb2 H. inversion H; subst. exact (IH _ _ _ He E).
  - sb2 H. sb2 H. inversion H; subst.
    destruct (ssa_expr_rd decls pk x _ _ _ He E) as [He1 R1]. destruct (IH _ _ _ He1 E0) as [He2 R2].
    split; [exact He2|]. unfold logargs_reads. cbn [flat_map]. apply rds_app; [|exact R2].
    eapply rds_gle; [|exact R1].
    refine (ssa_logargs_rel decls env_gle _ _ _ tl env0 x1 env' E0); unfold env_gle; intros.
    + apply gle_refl. + eapply gle_trans; eassumption. + apply next_version_gle.
Qed.

(* one statement: the environment invariant is kept, every read of the renamed statement is
   the renamed form of a read of the statement, the target is renamed like a read, the phi
   arguments stay *)
Lemma ssa_stmt_rd s env s' env' : envok decls pk env -> ssa_stmt decls env s = SOk (s', env') ->
  envok decls pk env' /\
  rds decls (se_global env') (stmt_reads s) (stmt_reads s') /\
  ((stmt_tgt s = [] /\ stmt_tgt s' = []) \/
   exists x x' tl, stmt_tgt s = x :: tl /\ stmt_tgt s' = x' :: tl /\ rd_rel decls (se_global env') x x').
Proof.
  intros He H. destruct s as [m names t dims|m c t f|m e|m v op rhe sval stype|m l r|m args|m e]; cbn [ssa_stmt] in H.
  - sb2 H. inversion H; subst. destruct (ssa_exprs_rd _ _ _ _ He E) as [He1 R1]. split; [exact He1|]. split; [exact R1|left; split; reflexivity].
  - sb2 H. inversion H; subst. destruct (ssa_expr_rd decls pk _ _ _ _ He E) as [He1 R1]. split; [exact He1|]. split; [exact R1|left; split; reflexivity].
  - sb2 H. inversion H; subst. destruct (ssa_expr_rd decls pk _ _ _ _ He E) as [He1 R1]. split; [exact He1|]. split; [exact R1|left; split; reflexivity].
  - destruct (vn_version v) eqn:Ev; [discriminate|]. sb2 H. destruct (ssa_expr_rd decls pk _ _ _ _ He E) as [He1 R1].
    pose proof (ssa_expr_pargs _ _ _ _ E) as Hp.
    destruct (is_local_in decls v) eqn:El.
    + destruct (next_version env0 v) as [n env2] eqn:En. inversion H; subst.
      assert (He2 : env' = snd (next_version env0 v)) by (rewrite En; reflexivity).
      pose proof (next_version_gle env0 v) as G2. rewrite <- He2 in G2. unfold env_gle in G2.
      split; [rewrite He2; apply envok_next; [exact He1|left; exact El]|].
      split; [cbn [stmt_reads]; eapply rds_gle; [exact G2|exact R1]|]. right.
      exists v, (with_version v n), (pargs rhe). cbn [stmt_tgt]. rewrite Hp. split; [reflexivity|]. split; [reflexivity|].
      right. split; [exact El|]. exists n. split; [reflexivity|]. exact (proj2 (next_version_fresh _ _ _ _ En)).
    + inversion H; subst. split; [exact He1|]. split; [exact R1|]. right.
      exists v, v, (pargs rhe). cbn [stmt_tgt]. rewrite Hp. split; [reflexivity|]. split; [reflexivity|].
      left. split; [reflexivity|exact El].
  - sb2 H. sb2 H. inversion H; subst.
    destruct (ssa_expr_rd decls pk _ _ _ _ He E) as [He1 R1]. destruct (ssa_expr_rd decls pk _ _ _ _ He1 E0) as [He2 R2].
    split; [exact He2|]. split; [|left; split; reflexivity]. cbn [stmt_reads]. apply rds_app; [|exact R2].
    eapply rds_gle; [exact (ssa_expr_gle _ _ _ _ _ E0)|exact R1].
  - sb2 H. inversion H; subst. destruct (ssa_logargs_rd _ _ _ _ He E) as [He1 R1]. split; [exact He1|]. split; [exact R1|left; split; reflexivity].
  - sb2 H. inversion H; subst. destruct (ssa_expr_rd decls pk _ _ _ _ He E) as [He1 R1]. split; [exact He1|]. split; [exact R1|left; split; reflexivity].
Qed.

Definition ur_stmt (s : stmt) : Prop := forall v, In v (stmt_reads s) -> uok v.
Definition occ_ok (g : vmap) (s : stmt) : Prop := forall v, In v (stmt_occ s) -> vok g v.

Lemma ssa_stmt_ur s env s' env' : envok decls pk env -> ssa_stmt decls env s = SOk (s', env') -> ur_stmt s'.
Proof. intros He H. destruct (ssa_stmt_rd _ _ _ _ He H) as (_ & R & _). intros v Hv. eapply rds_uok; eassumption. Qed.

Lemma ssa_stmt_occ s env s' env' : envok decls pk env -> occ_ok (se_global env) s ->
  ssa_stmt decls env s = SOk (s', env') -> occ_ok (se_global env') s'.
Proof.
  intros He Ho H. destruct (ssa_stmt_rd _ _ _ _ He H) as (_ & R & T).
  pose proof (ssa_stmt_gle _ _ _ _ _ H) as G. unfold env_gle in G.
  assert (Ho' : occ_ok (se_global env') s) by (intros v Hv; eapply vok_gle; [exact G|apply Ho; exact Hv]).
  intros v' Hv'. unfold stmt_occ in Hv'. apply in_app_or in Hv'. destruct Hv' as [Hv'|Hv'].
  - eapply rds_vok; [exact R| |exact Hv']. intros v Hv. apply Ho'. unfold stmt_occ. apply in_or_app. left. exact Hv.
  - destruct T as [[_ T]|(x & x' & tl & T1 & T2 & Rx)]; [rewrite T in Hv'; contradiction|].
    rewrite T2 in Hv'. destruct Hv' as [<-|Hv'].
    + eapply rd_rel_vok; [exact Rx|]. apply Ho'. unfold stmt_occ. apply in_or_app. right. rewrite T1. left. reflexivity.
    + apply Ho'. unfold stmt_occ. apply in_or_app. right. rewrite T1. right. exact Hv'.
Qed.

Lemma ensure_phi_arg_reads env s : stmt_reads (ensure_phi_arg env s) = stmt_reads s.
Proof.
  destruct s as [| | |m v op rhe sval stype| | |]; try reflexivity. destruct rhe; try reflexivity.
  unfold ensure_phi_arg. destruct (cur_version env v);
    match goal with |- context [if ?c then _ else _] => destruct c end; reflexivity.
Qed.

Lemma ensure_phi_arg_occ env s : sbnd env -> occ_ok (se_global env) s -> occ_ok (se_global env) (ensure_phi_arg env s).
Proof.
  intros Hs Ho. destruct s as [| | |m x op rhe sval stype| | |]; try exact Ho. destruct rhe; try exact Ho.
  unfold ensure_phi_arg. destruct (cur_version env x) as [n|] eqn:Ec;
    match goal with |- context [if ?c then _ else _] => destruct c end; try exact Ho.
  - intros v Hv. unfold stmt_occ in *. cbn [stmt_reads expr_reads stmt_tgt pargs app] in *.
    destruct Hv as [<-|Hv]; [apply Ho; left; reflexivity|]. apply in_app_or in Hv. destruct Hv as [Hv|[<-|[]]].
    + apply Ho. right. exact Hv.
    + right. destruct (sbnd_cur _ _ _ Hs Ec) as (mx & Hm & Le). exists n, mx. split; [reflexivity|]. split; [exact Hm|exact Le].
  - intros v Hv. unfold stmt_occ in *. cbn [stmt_reads expr_reads stmt_tgt pargs app] in *.
    destruct Hv as [<-|Hv]; [apply Ho; left; reflexivity|]. apply in_app_or in Hv. destruct Hv as [Hv|[<-|[]]].
    + apply Ho. right. exact Hv.
    + left. reflexivity.
Qed.
End Stmts.

(* ------------------------------------------------------------------------ *)
(* the walks: phi insertion and the dominator-tree recursion                 *)
(* ------------------------------------------------------------------------ *)
Lemma Forall_upd {A} (P : A -> Prop) (f : A -> A) : forall l i,
  Forall P l -> (forall x, nth_error l i = Some x -> P x -> P (f x)) -> Forall P (update_nth l i f).
Proof.
  induction l as [|x l IH]; intros [|i] H Hf; simpl; inversion H; subst; constructor; auto.
Qed.

Section Walk.
Variable decls : list (vname * vtype).
Variable pk : key -> Prop.
(* an invariant of ALL statements, relative to the counters *)
Variable Q : vmap -> stmt -> Prop.
Hypothesis Q_gle : forall g g' s, gle g g' -> Q g s -> Q g' s.
Hypothesis Q_phi : forall g v, Q g (phi_stmt_for v).
Hypothesis Q_ssa : forall env s s' env', envok decls pk env -> Q (se_global env) s ->
  ssa_stmt decls env s = SOk (s', env') -> Q (se_global env') s'.
Hypothesis Q_ens : forall env s, envok decls pk env -> Q (se_global env) s -> Q (se_global env) (ensure_phi_arg env s).

Definition allQ (g : vmap) (bs : list block) : Prop := Forall (fun b => Forall (Q g) (b_stmts b)) bs.

Lemma allQ_gle g g' bs : gle g g' -> allQ g bs -> allQ g' bs.
Proof.
  intros L H. eapply Forall_impl; [|exact H]. intros b Hb. eapply Forall_impl; [|exact Hb]. intros s. apply Q_gle. exact L.
Qed.

Lemma add_phis_Q g : forall vars b n, Forall (Q g) (b_stmts b) -> Forall (Q g) (b_stmts (fst (add_phis vars b n))).
Proof.
  induction vars as [|v tl IH]; intros b n Hb; simpl; [exact Hb|].
  destruct (existsb (is_phi_for v) (b_stmts b)); apply IH; [exact Hb|].
  cbn [set_stmts b_stmts]. constructor; [apply Q_phi|exact Hb].
Qed.

Lemma process_frontier_Q g vars : forall fr bs work, allQ g bs -> allQ g (fst (process_frontier vars fr bs work)).
Proof.
  induction fr as [|f tl IH]; intros bs work H; simpl; [exact H|].
  destruct (nth_error bs (N.to_nat f)) as [b|] eqn:Eb; [|apply IH; exact H].
  destruct (add_phis vars b 0) as [b' pushes] eqn:Ea. apply IH.
  apply Forall_upd; [exact H|]. intros x Hx Px. rewrite Eb in Hx. inversion Hx; subst x.
  change b' with (fst (b', pushes)). rewrite <- Ea. apply add_phis_Q. exact Px.
Qed.

Lemma insert_phis_Q g frontier : forall fuel bs work bs',
  insert_phis fuel frontier bs work = SOk bs' -> allQ g bs -> allQ g bs'.
Proof.
  induction fuel as [|fuel IH]; intros bs work bs' H Hi.
  - destruct work; simpl in H; [|discriminate]. inversion H; subst. exact Hi.
  - destruct work as [|cur rest]; simpl in H; [inversion H; subst; exact Hi|].
    destruct (nth_error bs cur) as [b|] eqn:Eb; [|discriminate].
    destruct (vars_written b) as [|v vs] eqn:Ev; [eapply IH; eassumption|].
    destruct (process_frontier (v :: vs) (nth cur frontier []) bs rest) as [bs1 work1] eqn:Ep.
    eapply IH; [exact H|]. change bs1 with (fst (bs1, work1)). rewrite <- Ep. apply process_frontier_Q. exact Hi.
Qed.

(* a renamed block *)
Lemma ssa_stmts_walk : forall ss env r env', envok decls pk env -> Forall (Q (se_global env)) ss ->
  ssa_stmts decls env ss = SOk (r, env') ->
  envok decls pk env' /\ Forall (Q (se_global env')) r /\ Forall (ur_stmt decls) r.
Proof.
  induction ss as [|s tl IH]; intros env r env' He HQ H; simpl in H.
  - inversion H; subst. split; [exact He|]. split; constructor.
  - sb2 H. sb2 H. inversion H; subst. rename x into s'. rename x0 into tl'. inversion HQ as [|? ? Qs Qtl]; subst.
    destruct (ssa_stmt_rd decls pk _ _ _ _ He E) as (He1 & _ & _).
    pose proof (ssa_stmt_gle _ _ _ _ _ E) as G1. pose proof (ssa_stmts_gle _ _ _ _ _ E0) as G2. unfold env_gle in *.
    assert (Qtl1 : Forall (Q (se_global env0)) tl) by (eapply Forall_impl; [|exact Qtl]; intros a; apply Q_gle; exact G1).
    destruct (IH _ _ _ He1 Qtl1 E0) as (He2 & Q2 & U2). split; [exact He2|]. split; constructor.
    + eapply Q_gle; [exact G2|]. exact (Q_ssa _ _ _ _ He Qs E).
    + exact Q2.
    + exact (ssa_stmt_ur decls pk _ _ _ _ He E).
    + exact U2.
Qed.

Lemma update_phis_Q env : forall ss, envok decls pk env -> Forall (Q (se_global env)) ss -> Forall (Q (se_global env)) (update_phis env ss).
Proof.
  induction ss as [|s tl IH]; intros He H; simpl; [constructor|]. inversion H; subst.
  destruct (is_phi_stmt s); [|exact H]. constructor; [apply Q_ens; assumption|apply IH; assumption].
Qed.

Lemma update_phis_ur env : forall ss, Forall (ur_stmt decls) ss -> Forall (ur_stmt decls) (update_phis env ss).
Proof.
  induction ss as [|s tl IH]; intros H; simpl; [constructor|]. inversion H as [|? ? Hs Htl]; subst.
  destruct (is_phi_stmt s); [|exact H]. constructor; [|apply IH; exact Htl].
  intros v Hv. rewrite ensure_phi_arg_reads in Hv. apply Hs. exact Hv.
Qed.

Lemma update_succ_phis_Q env : forall succs bs, envok decls pk env -> allQ (se_global env) bs ->
  allQ (se_global env) (update_succ_phis env succs bs).
Proof.
  induction succs as [|s tl IH]; intros bs He H; simpl; [exact H|].
  apply IH; [exact He|]. apply Forall_upd; [exact H|]. intros b _ Hb. cbn [set_stmts b_stmts]. apply update_phis_Q; assumption.
Qed.

Definition ur_at (bs : list block) (i : nat) : Prop :=
  forall b, nth_error bs i = Some b -> Forall (ur_stmt decls) (b_stmts b).

Lemma ur_at_update bs i (f : block -> block) j :
  (forall b, Forall (ur_stmt decls) (b_stmts b) -> Forall (ur_stmt decls) (b_stmts (f b))) -> ur_at bs j -> ur_at (update_nth bs i f) j.
Proof.
  intros Hf H b Hb.
  destruct (update_nth_keeps (fun b => Forall (ur_stmt decls) (b_stmts b)) f Hf bs i j b Hb) as (y & Hy & Himp).
  apply Himp. apply H. exact Hy.
Qed.

Lemma update_succ_phis_ur env : forall succs bs i, ur_at bs i -> ur_at (update_succ_phis env succs bs) i.
Proof.
  induction succs as [|s tl IH]; intros bs i H; simpl; [exact H|]. apply IH. apply ur_at_update; [|exact H].
  intros b Hb. cbn [set_stmts b_stmts]. apply update_phis_ur. exact Hb.
Qed.

Variable children : list (list N).

Lemma rename_tree_walk : forall fuel cur bs env bs' env',
  rename_tree fuel decls children cur bs env = SOk (bs', env') -> envok decls pk env -> allQ (se_global env) bs ->
  envok decls pk env' /\ env_gle env env' /\ allQ (se_global env') bs' /\
  (forall i, ur_at bs i -> ur_at bs' i) /\ (forall i, In i (preorder fuel children cur) -> ur_at bs' i).
Proof.
  induction fuel as [|fuel IH]; intros cur bs env bs' env' H He HQ; [discriminate H|].
  rewrite rename_tree_unfold in H.
  destruct (nth_error bs cur) as [b|] eqn:Eb; [|discriminate].
  sb2 H. rename x into ss1. rename env0 into env1.
  assert (K : forall kids l e l' e',
             rename_kids fuel decls children kids l e = SOk (l', e') -> envok decls pk e -> allQ (se_global e) l ->
             envok decls pk e' /\ env_gle e e' /\ allQ (se_global e') l' /\
             (forall i, ur_at l i -> ur_at l' i) /\
             (forall i, In i (flat_map (fun k => preorder fuel children (N.to_nat k)) kids) -> ur_at l' i)).
  { induction kids as [|k tl IHk]; intros l e l' e' Hk Hee Hl; simpl in Hk.
    - inversion Hk; subst. split; [exact Hee|]. split; [apply gle_refl|]. split; [exact Hl|]. split; [auto|intros i []].
    - sb2 Hk. destruct (IH _ _ _ _ _ E0 (envok_push _ _ _ Hee) Hl) as (He1 & G1 & Q1 & M1 & P1).
      destruct (IHk _ _ _ _ Hk (envok_pop _ _ _ He1) Q1) as (He2 & G2 & Q2 & M2 & P2).
      split; [exact He2|]. split; [|split; [exact Q2|split]].
      + unfold env_gle in *. cbn [push_scope pop_scope se_global] in *. eapply gle_trans; eassumption.
      + intros i Hi. apply M2. apply M1. exact Hi.
      + intros i Hi. cbn [flat_map] in Hi. apply in_app_or in Hi. destruct Hi as [Hi|Hi]; [apply M2; apply P1; exact Hi|].
        apply P2. exact Hi. }
  assert (Hb : Forall (Q (se_global env)) (b_stmts b)).
  { unfold allQ in HQ. rewrite Forall_forall in HQ. apply HQ. eapply nth_error_In. exact Eb. }
  destruct (ssa_stmts_walk _ _ _ _ He Hb E) as (He1 & Q1 & U1).
  pose proof (ssa_stmts_gle _ _ _ _ _ E) as G1. unfold env_gle in G1.
  set (bs1 := update_nth bs cur (fun b0 => set_stmts b0 ss1)) in *.
  assert (HQ1 : allQ (se_global env1) bs1).
  { unfold bs1. apply Forall_upd; [eapply allQ_gle; [exact G1|exact HQ]|]. intros x _ _. cbn [set_stmts b_stmts]. exact Q1. }
  assert (C1 : ur_at bs1 cur).
  { intros b1 Hb1. unfold bs1 in Hb1. rewrite (update_nth_same _ bs cur b Eb) in Hb1. inversion Hb1; subst b1.
    cbn [set_stmts b_stmts]. exact U1. }
  assert (O1 : forall i, ur_at bs i -> ur_at bs1 i).
  { intros i Hi. destruct (Nat.eq_dec cur i) as [<-|Hne]; [exact C1|].
    intros b1 Hb1. unfold bs1 in Hb1. rewrite update_nth_other in Hb1 by exact Hne. apply Hi. exact Hb1. }
  destruct (K _ _ _ _ _ H He1 (update_succ_phis_Q _ _ _ He1 HQ1)) as (He2 & G2 & Q2 & M & P).
  split; [exact He2|]. split; [unfold env_gle in *; eapply gle_trans; eassumption|]. split; [exact Q2|]. split.
  - intros i Hi. apply M. apply update_succ_phis_ur. apply O1. exact Hi.
  - intros i Hi. cbn [preorder] in Hi. destruct Hi as [<-|Hi]; [|apply P; exact Hi].
    apply M. apply update_succ_phis_ur. exact C1.
Qed.
End Walk.

(* ------------------------------------------------------------------------ *)
(* into_ssa                                                                  *)
(* ------------------------------------------------------------------------ *)
Definition param_key (c : cfg) (k : key) : Prop := exists p, In p (c_params c) /\ key_of p = k.

Lemma envok_init decls pk : envok decls pk {| se_global := []; se_scoped := [[]] |}.
Proof.
  split.
  - unfold sbnd. cbn [se_global se_scoped]. constructor; [|constructor]. intros k n H. discriminate H.
  - intros k m H. discriminate H.
Qed.

Lemma envok_params decls (pk : key -> Prop) : forall ps env, (forall p, In p ps -> pk (key_of p)) -> envok decls pk env ->
  envok decls pk (fold_left (fun env x => snd (next_version env x)) ps env).
Proof.
  induction ps as [|p tl IH]; intros env Hp He; simpl; [exact He|].
  apply IH; [intros q Hq; apply Hp; right; exact Hq|]. apply envok_next; [exact He|]. right. apply Hp. left. reflexivity.
Qed.

(* the stages of into_ssa with the invariant of the walks *)
Lemma into_ssa_walk (Q : vmap -> stmt -> Prop) frontier children c c' :
  (forall g g' s, gle g g' -> Q g s -> Q g' s) ->
  (forall g v, Q g (phi_stmt_for v)) ->
  (forall env s s' env', envok (c_decls c) (param_key c) env -> Q (se_global env) s ->
     ssa_stmt (c_decls c) env s = SOk (s', env') -> Q (se_global env') s') ->
  (forall env s, envok (c_decls c) (param_key c) env -> Q (se_global env) s -> Q (se_global env) (ensure_phi_arg env s)) ->
  (forall g, allQ Q g (c_blocks c)) ->
  into_ssa frontier children c = SOk c' ->
  exists bs2 env,
    c' = {| c_kind := c_kind c; c_params := map (fun x => with_version x 0%N) (c_params c); c_decls := [];
            c_blocks := map (fun b => set_stmts b (map (update_decl_stmt env) (b_stmts b))) bs2 |} /\
    envok (c_decls c) (param_key c) env /\ allQ Q (se_global env) bs2 /\
    length bs2 = length (c_blocks c) /\
    (forall i, In i (preorder (S (length (c_blocks c))) children 0) -> ur_at (c_decls c) bs2 i) /\
    (phi_free c = true -> erase_inv (c_blocks c) bs2).
Proof.
  intros Q_gle Q_phi Q_ssa Q_ens H0 H.
  destruct (into_ssa_stages _ _ _ _ H) as (fuel & bs1 & env0 & bs2 & env & H1 & Henv0 & H2 & ->).
  assert (He0 : envok (c_decls c) (param_key c) env0).
  { rewrite Henv0. apply envok_params; [|apply envok_init]. intros p Hp. exists p. split; [exact Hp|reflexivity]. }
  pose proof (insert_phis_Q Q Q_phi (se_global env0) _ _ _ _ _ H1 (H0 _)) as HQ1.
  destruct (rename_tree_walk (c_decls c) (param_key c) Q Q_gle Q_ssa Q_ens children _ _ _ _ _ _ H2 He0 HQ1)
    as (He & _ & HQ2 & _ & P).
  exists bs2, env. split; [reflexivity|]. split; [exact He|]. split; [exact HQ2|]. split; [|split; [exact P|]].
  - rewrite (rename_tree_length _ _ _ _ _ _ _ _ H2). eapply insert_phis_length. exact H1.
  - intros Hpf. eapply rename_tree_erases; [exact H2|]. eapply insert_phis_erases; [exact H1|].
    apply self_sim_inv. apply phi_free_self_sim. exact Hpf.
Qed.

(* ---- first half: no read of a local is left without a version ---- *)
Lemma ssa_stmt_decl_local d decls s env s' env' :
  ssa_stmt decls env s = SOk (s', env') -> decl_stmt_local d s' = decl_stmt_local d s.
Proof.
  intros H. destruct s as [m names t dims|m c t f|m e|m v op rhe sval stype|m l r|m args|m e]; cbn [ssa_stmt] in H.
  - sb2 H. inversion H; subst. reflexivity.
  - sb2 H. inversion H; subst. reflexivity.
  - sb2 H. inversion H; subst. reflexivity.
  - destruct (vn_version v); [discriminate|]. sb2 H.
    destruct (is_local_in decls v); [destruct (next_version env0 v)|]; inversion H; subst; reflexivity.
  - sb2 H. sb2 H. inversion H; subst. reflexivity.
  - sb2 H. inversion H; subst. reflexivity.
  - sb2 H. inversion H; subst. reflexivity.
Qed.

Lemma ensure_phi_arg_decl_local d env s : decl_stmt_local d (ensure_phi_arg env s) = decl_stmt_local d s.
Proof.
  destruct s as [| | |m v op rhe sval stype| | |]; try reflexivity. destruct rhe; try reflexivity.
  unfold ensure_phi_arg. destruct (cur_version env v);
    match goal with |- context [if ?c then _ else _] => destruct c end; reflexivity.
Qed.

Lemma update_decl_stmt_reads env s : stmt_reads (update_decl_stmt env s) = stmt_reads s.
Proof. destruct s as [m names t dims| | | | | |]; try reflexivity. destruct names; [reflexivity|]. destruct t; reflexivity. Qed.

(* a versioned name that a re-issued Declaration statement of a local lists has the key of a
   name that a Declaration statement of a local listed first before *)
Lemma update_decl_entry_local decls env s x :
  In (x, TLocal) (stmt_decl_entries (update_decl_stmt env s)) -> vn_version x <> None ->
  decl_stmt_local decls s = true -> is_local_in decls x = true.
Proof.
  intros Hin Hv Hq. destruct s as [m names t dims| | | | | |]; try contradiction.
  destruct names as [|name rest]; [contradiction|].
  destruct t; cbn [update_decl_stmt stmt_decl_entries] in Hin;
    try (apply in_map_iff in Hin; destruct Hin as (y & Hy & _); discriminate Hy).
  apply in_map_iff in Hin. destruct Hin as (y & Hy & Hin). inversion Hy; subst y.
  apply in_map_iff in Hin. destruct Hin as (n & <- & _).
  rewrite (is_local_in_key decls (with_version name n) name eq_refl). exact Hq.
Qed.

(* every read of the output that carries no version is not a local of the table of the input
   (parameters, dimensions of declarations, indices, access lists, logged expressions included) *)
Theorem into_ssa_unversioned_reads_nonlocal : forall frontier children c c' b s v,
  children_cover children (length (c_blocks c)) ->
  into_ssa frontier children c = SOk c' ->
  In b (c_blocks c') -> In s (b_stmts b) -> In v (stmt_reads s) -> vn_version v = None ->
  is_local_in (c_decls c) v = false.
Proof.
  intros frontier children c c' b' s' v Hcov H Hb' Hs' Hv Hn.
  destruct (into_ssa_walk (fun _ _ => True) frontier children c c') as (bs2 & env & -> & _ & _ & L2 & P & _); auto.
  { intros g. apply Forall_forall. intros b _. apply Forall_forall. auto. }
  cbn [c_blocks] in Hb'. apply in_map_iff in Hb'. destruct Hb' as (b & <- & Hb). cbn [set_stmts b_stmts] in Hs'.
  apply in_map_iff in Hs'. destruct Hs' as (s & <- & Hs). rewrite update_decl_stmt_reads in Hv.
  destruct (In_nth_error _ _ Hb) as (i & Hi).
  assert (Hlt : i < length bs2) by (apply nth_error_Some; congruence). rewrite L2 in Hlt.
  specialize (P i (Hcov i Hlt) b Hi). rewrite Forall_forall in P. exact (P s Hs v Hv Hn).
Qed.

Lemma klocal_in decls k : klocal decls k = true <-> exists x, In (x, TLocal) decls /\ key_of x = k.
Proof.
  unfold klocal. rewrite existsb_exists. split.
  - intros ([x t] & Hd & Hk). cbn [fst snd] in Hk. apply andb_true_iff in Hk as [Hk Ht]. apply key_eqb_eq in Hk.
    destruct t; try discriminate Ht. exists x. split; [exact Hd|exact Hk].
  - intros (x & Hd & Hk). exists (x, TLocal). split; [exact Hd|]. cbn [fst snd]. rewrite Hk, key_eqb_refl. reflexivity.
Qed.

Lemma vtype_eqb_local t : vtype_eqb t TLocal = true -> t = TLocal.
Proof. destruct t; try discriminate; reflexivity. Qed.

Theorem into_ssa_unversioned_reads_ok : forall frontier children c c',
  children_cover children (length (c_blocks c)) ->
  forallb (is_local_in (c_decls c)) (c_params c) = true ->
  decl_stmts_declared c = true ->
  into_ssa frontier children c = SOk c' -> unversioned_reads_ok (with_stmt_decls c') = true.
Proof.
  intros frontier children c c' Hcov Hpar Hdecl H.
  set (decls := c_decls c) in *.
  assert (NL : forall b s v, In b (c_blocks c') -> In s (b_stmts b) -> In v (stmt_reads s) -> vn_version v = None ->
                             is_local_in decls v = false).
  { intros b s v Hb Hs Hv Hn. eapply into_ssa_unversioned_reads_nonlocal; eassumption. }
  destruct (into_ssa_walk (fun _ s => decl_stmt_local decls s = true) frontier children c c') as (bs2 & env & Hc' & _ & HQ & _ & _ & _); auto.
  { intros env s s' env' _ Hq Hs. rewrite (ssa_stmt_decl_local _ _ _ _ _ _ Hs). exact Hq. }
  { intros env s _ Hq. rewrite ensure_phi_arg_decl_local. exact Hq. }
  { intros g. unfold decl_stmts_declared in Hdecl. rewrite forallb_forall in Hdecl. apply Forall_forall. intros b Hb.
    apply Forall_forall. specialize (Hdecl b Hb). rewrite forallb_forall in Hdecl. exact Hdecl. }
  (* the keys the rebuilt table calls local are keys of locals of the table of the input *)
  assert (LK : forall k, local_key (with_stmt_decls c') k = true -> klocal decls k = true).
  { intros k Hk. unfold local_key in Hk. apply orb_true_iff in Hk. destruct Hk as [Hk|Hk].
    - apply existsb_exists in Hk. destruct Hk as ([x t] & Hd & Hk). cbn [fst snd] in Hk.
      apply andb_true_iff in Hk as [Hk Hver]. apply andb_true_iff in Hk as [Hk Ht].
      apply key_eqb_eq in Hk. apply vtype_eqb_local in Ht. subst t.
      cbn [with_stmt_decls c_decls] in Hd. apply in_flat_map in Hd. destruct Hd as (b' & Hb' & Hd).
      apply in_flat_map in Hd. destruct Hd as (s' & Hs' & Hd).
      rewrite Hc' in Hb'. cbn [c_blocks] in Hb'. apply in_map_iff in Hb'. destruct Hb' as (b & <- & Hb).
      cbn [set_stmts b_stmts] in Hs'. apply in_map_iff in Hs'. destruct Hs' as (s & <- & Hs).
      unfold allQ in HQ. rewrite Forall_forall in HQ. specialize (HQ b Hb). rewrite Forall_forall in HQ. specialize (HQ s Hs).
      rewrite <- Hk, <- is_local_klocal. eapply update_decl_entry_local; [exact Hd| |exact HQ].
      destruct (vn_version x); [discriminate|discriminate Hver].
    - apply existsb_exists in Hk. destruct Hk as (p' & Hp' & Hk). apply key_eqb_eq in Hk.
      cbn [with_stmt_decls c_params] in Hp'. rewrite Hc' in Hp'. cbn [c_params] in Hp'.
      apply in_map_iff in Hp'. destruct Hp' as (p & <- & Hp). rewrite forallb_forall in Hpar.
      rewrite <- Hk. change (key_of (with_version p 0)) with (key_of p). rewrite <- is_local_klocal. apply Hpar. exact Hp. }
  unfold unversioned_reads_ok. apply forallb_forall. intros b Hb. apply forallb_forall. intros s Hs.
  apply forallb_forall. intros v Hv. unfold unversioned_read_ok. destruct (vn_version v) eqn:Ev; [reflexivity|].
  apply negb_true_iff. destruct (local_key (with_stmt_decls c') (key_of v)) eqn:Ek; [|reflexivity]. exfalso.
  apply LK in Ek. rewrite <- is_local_klocal in Ek. cbn [with_stmt_decls c_blocks] in Hb.
  rewrite (NL b s v Hb Hs Hv Ev) in Ek. discriminate Ek.
Qed.

(* the condition as the check evaluates it on the mirror's own output (table empty: parameters only) *)
Corollary into_ssa_unversioned_reads_ok_bare : forall frontier children c c',
  children_cover children (length (c_blocks c)) ->
  forallb (is_local_in (c_decls c)) (c_params c) = true ->
  into_ssa frontier children c = SOk c' -> unversioned_reads_ok c' = true.
Proof.
  intros frontier children c c' Hcov Hpar H.
  unfold unversioned_reads_ok. apply forallb_forall. intros b Hb. apply forallb_forall. intros s Hs.
  apply forallb_forall. intros v Hv. unfold unversioned_read_ok. destruct (vn_version v) eqn:Ev; [reflexivity|].
  apply negb_true_iff. destruct (local_key c' (key_of v)) eqn:Ek; [|reflexivity]. exfalso.
  pose proof (into_ssa_unversioned_reads_nonlocal _ _ _ _ _ _ _ Hcov H Hb Hs Hv Ev) as NL.
  destruct (into_ssa_stages _ _ _ _ H) as (fuel & bs1 & env0 & bs2 & env & _ & _ & _ & Hc').
  unfold local_key in Ek. rewrite Hc' in Ek. cbn [c_decls c_params existsb orb] in Ek.
  apply existsb_exists in Ek. destruct Ek as (p' & Hp' & Hk). apply key_eqb_eq in Hk.
  apply in_map_iff in Hp'. destruct Hp' as (p & <- & Hp). rewrite forallb_forall in Hpar.
  rewrite (is_local_in_key (c_decls c) v p (eq_sym Hk)), (Hpar p Hp) in NL. discriminate NL.
Qed.

(* ---- second half: every version is listed by a re-issued Declaration statement ---- *)

(* the graph before the conversion mentions no version *)
Definition reads_unv (e : expr) : Prop := expr_unvb e = true -> forall v, In v (expr_reads e) -> vn_version v = None.

Lemma list_unvb_reads : forall es, Forall reads_unv es -> list_unvb es = true ->
  forall v, In v (list_reads es) -> vn_version v = None.
Proof.
  induction 1 as [|x tl Hx _ IH]; intros Hu v Hv; [contradiction|].
  cbn [list_unvb] in Hu. apply andb_true_iff in Hu as [Hu1 Hu2]. cbn [list_reads] in Hv. apply in_app_or in Hv.
  destruct Hv as [Hv|Hv]; [exact (Hx Hu1 v Hv)|exact (IH Hu2 v Hv)].
Qed.

Lemma acc_unvb_reads : forall acc, Forall reads_unv (acc_exprs acc) -> acc_unvb acc = true ->
  forall v, In v (acc_reads acc) -> vn_version v = None.
Proof.
  induction acc as [|[x|n] tl IH]; intros HF Hu v Hv; [contradiction| |].
  - cbn [acc_exprs flat_map app] in HF. inversion HF as [|? ? Hx Htl]; subst.
    cbn [acc_unvb] in Hu. apply andb_true_iff in Hu as [Hu1 Hu2]. cbn [acc_reads] in Hv. apply in_app_or in Hv.
    destruct Hv as [Hv|Hv]; [exact (Hx Hu1 v Hv)|exact (IH Htl Hu2 v Hv)].
  - cbn [acc_exprs flat_map app] in HF. cbn [acc_unvb] in Hu. cbn [acc_reads] in Hv. exact (IH HF Hu v Hv).
Qed.

Lemma expr_unvb_reads : forall e, reads_unv e.
Proof.
  induction e as [z k|v k|op l r k IHl IHr|op x k IHx|c t f k IHc IHt IHf|n args k IH|vs k IH
                 |v acc k IH|v acc rhe k IH IHr|args k] using expr_ind'; intros Hu w Hw.
  - contradiction.
  - cbn [expr_unvb] in Hu. apply isnoneb_true in Hu. destruct Hw as [<-|[]]. exact Hu.
  - cbn [expr_unvb] in Hu. apply andb_true_iff in Hu as [Hu1 Hu2]. cbn [expr_reads] in Hw. apply in_app_or in Hw.
    destruct Hw as [Hw|Hw]; [exact (IHl Hu1 w Hw)|exact (IHr Hu2 w Hw)].
  - cbn [expr_unvb] in Hu. cbn [expr_reads] in Hw. exact (IHx Hu w Hw).
  - cbn [expr_unvb] in Hu. apply andb_true_iff in Hu as [Hu Hu3]. apply andb_true_iff in Hu as [Hu1 Hu2].
    cbn [expr_reads] in Hw. apply in_app_or in Hw. destruct Hw as [Hw|Hw]; [exact (IHc Hu1 w Hw)|].
    apply in_app_or in Hw. destruct Hw as [Hw|Hw]; [exact (IHt Hu2 w Hw)|exact (IHf Hu3 w Hw)].
  - rewrite expr_unvb_call in Hu. rewrite expr_reads_call in Hw. exact (list_unvb_reads args IH Hu w Hw).
  - rewrite expr_unvb_array in Hu. rewrite expr_reads_array in Hw. exact (list_unvb_reads vs IH Hu w Hw).
  - rewrite expr_unvb_access in Hu. apply andb_true_iff in Hu as [Hv Hu]. apply isnoneb_true in Hv.
    rewrite expr_reads_access in Hw. destruct Hw as [<-|Hw]; [exact Hv|exact (acc_unvb_reads acc IH Hu w Hw)].
  - rewrite expr_unvb_update in Hu. apply andb_true_iff in Hu as [Hu Hu3]. apply andb_true_iff in Hu as [Hv Hu].
    apply isnoneb_true in Hv. rewrite expr_reads_update in Hw. destruct Hw as [<-|Hw]; [exact Hv|].
    apply in_app_or in Hw. destruct Hw as [Hw|Hw]; [exact (IHr Hu3 w Hw)|exact (acc_unvb_reads acc IH Hu w Hw)].
  - contradiction.
Qed.

Lemma list_unvb_flat : forall es, list_unvb es = true -> forall v, In v (flat_map expr_reads es) -> vn_version v = None.
Proof.
  intros es Hu v Hv. rewrite <- list_reads_flat_map in Hv. eapply list_unvb_reads; [|exact Hu|exact Hv].
  apply Forall_forall. intros e _. apply expr_unvb_reads.
Qed.

Lemma stmt_unvb_occ s : stmt_unvb s = true -> stmt_nophi s = true -> forall v, In v (stmt_occ s) -> vn_version v = None.
Proof.
  intros Hu Hp v Hv. unfold stmt_occ in Hv. apply in_app_or in Hv.
  destruct s as [m names t dims|m c t f|m e|m x op rhe sval stype|m l r|m args|m e];
    cbn [stmt_unvb stmt_nophi stmt_reads stmt_tgt] in *.
  - destruct Hv as [Hv|[]]. exact (list_unvb_flat dims Hu v Hv).
  - destruct Hv as [Hv|[]]. exact (expr_unvb_reads c Hu v Hv).
  - destruct Hv as [Hv|[]]. exact (expr_unvb_reads e Hu v Hv).
  - apply andb_true_iff in Hu as [Hx Hu]. apply isnoneb_true in Hx. destruct Hv as [Hv|[<-|Hv]].
    + exact (expr_unvb_reads rhe Hu v Hv).
    + exact Hx.
    + destruct rhe; try contradiction. discriminate Hp.
  - apply andb_true_iff in Hu as [Hu1 Hu2]. destruct Hv as [Hv|[]]. apply in_app_or in Hv.
    destruct Hv as [Hv|Hv]; [exact (expr_unvb_reads l Hu1 v Hv)|exact (expr_unvb_reads r Hu2 v Hv)].
  - destruct Hv as [Hv|[]]. apply in_flat_map in Hv. destruct Hv as (a & Ha & Hv).
    rewrite forallb_forall in Hu. specialize (Hu a Ha). destruct a as [|e]; [contradiction|]. exact (expr_unvb_reads e Hu v Hv).
  - destruct Hv as [Hv|[]]. exact (expr_unvb_reads e Hu v Hv).
Qed.

Lemma forall2_in_l {A B} (R : A -> B -> Prop) : forall l0 l x0, Forall2 R l0 l -> In x0 l0 -> exists x, In x l /\ R x0 x.
Proof.
  intros l0 l x0 H. induction H as [|a b ta tb Hab _ IH]; intros Hin; [contradiction|].
  destruct Hin as [<-|Hin]; [exists b; split; [left; reflexivity|exact Hab]|].
  destruct (IH Hin) as (x & Hx & Rx). exists x. split; [right; exact Hx|exact Rx].
Qed.

Lemma stmts_sim_in_l : forall xs ys x, stmts_sim xs ys = true -> In x xs -> exists y, In y ys /\ stmt_sim x y = true.
Proof.
  induction xs as [|a tx IH]; intros [|b ty] x Hs Hin; cbn [stmts_sim] in Hs; try discriminate; [contradiction|].
  apply andb_true_iff in Hs as [Hs1 Hs2]. destruct Hin as [<-|Hin]; [exists b; split; [left; reflexivity|exact Hs1]|].
  destruct (IH ty x Hs2 Hin) as (y & Hy & Sy). exists y. split; [right; exact Hy|exact Sy].
Qed.

(* a Declaration statement of a local stays one, with the same key, through phi insertion and renaming *)
Lemma declares_key_sim k s0 s2 : declares_key k s0 = true -> decl_names_ok s0 = true -> stmt_sim s0 s2 = true ->
  exists m name rest dims, s2 = SDecl m (name :: rest) TLocal dims /\ key_of name = k.
Proof.
  intros Hk Hd Hs. destruct s0 as [m0 names0 t0 dims0| | | | | |]; try discriminate Hk.
  destruct names0 as [|n0 rest0]; [discriminate Hk|]. destruct t0; try discriminate Hk.
  cbn [declares_key] in Hk. apply key_eqb_eq in Hk.
  destruct s2 as [m names t dims| | | | | |]; try discriminate Hs. cbn [stmt_sim] in Hs.
  rewrite !andb_true_iff in Hs. destruct Hs as (((_ & Hn) & Ht) & _). destruct t; try discriminate Ht.
  unfold names_sim in Hn. apply andb_true_iff in Hn as [Hn1 Hn2].
  destruct names as [|name rest].
  { cbn [forallb existsb] in Hn1. discriminate Hn1. }
  exists m, name, rest, dims. split; [reflexivity|].
  cbn [forallb] in Hn2. apply andb_true_iff in Hn2 as [Hn2 _]. apply existsb_exists in Hn2.
  destruct Hn2 as (x & Hx & Hxs). apply vname_sim_eq in Hxs. rewrite <- Hxs, <- Hk.
  destruct Hx as [<-|Hx]; [reflexivity|]. cbn [decl_names_ok] in Hd. rewrite forallb_forall in Hd.
  symmetry. apply vname_sim_eq. apply Hd. exact Hx.
Qed.

Lemma versions_of_in env name n m : vget (se_global env) (key_of name) = Some m -> (n <= m)%N -> In n (versions_of env name).
Proof.
  intros Hm Le. unfold versions_of. rewrite Hm. apply in_map_iff. exists (N.to_nat n). split; [apply N2Nat.id|].
  apply in_seq. lia.
Qed.

Lemma vname_eta v name n : key_of v = key_of name -> vn_version v = Some n -> v = with_version name n.
Proof. destruct v as [a b c], name as [a' b' c']. unfold key_of, with_version. cbn. intros Hk Hv. inversion Hk; subst. reflexivity. Qed.

Lemma in_stmt_decl_names c b s m names t dims v :
  In b (c_blocks c) -> In s (b_stmts b) -> s = SDecl m names t dims -> In v names -> In v (stmt_decl_names c).
Proof.
  intros Hb Hs -> Hv. unfold stmt_decl_names. apply in_flat_map. exists b. split; [exact Hb|].
  apply in_flat_map. exists (SDecl m names t dims). split; [exact Hs|exact Hv].
Qed.

Theorem into_ssa_versions_stmt_declared : forall frontier children c c',
  phi_free c = true -> decls_ok c = true ->
  forallb (fun b => forallb stmt_unvb (b_stmts b)) (c_blocks c) = true ->
  locals_have_decl_stmt c = true ->
  into_ssa frontier children c = SOk c' -> versions_stmt_declared c' = true.
Proof.
  intros frontier children c c' Hpf Hdk Hunv Hloc H.
  set (decls := c_decls c) in *.
  destruct (into_ssa_walk occ_ok frontier children c c') as (bs2 & env & Hc' & He & HQ & _ & _ & Her); auto.
  { intros g g' s L Ho v Hv. eapply vok_gle; [exact L|apply Ho; exact Hv]. }
  { intros g v w Hw. unfold stmt_occ in Hw. cbn in Hw. destruct Hw as [<-|[]]. left. reflexivity. }
  { intros env0 s s' env' He0 Ho Hs. eapply ssa_stmt_occ; eassumption. }
  { intros env0 s He0 Ho. apply ensure_phi_arg_occ; [exact (proj1 He0)|exact Ho]. }
  { intros g. apply Forall_forall. intros b Hb. apply Forall_forall. intros s Hs v Hv. left.
    rewrite forallb_forall in Hunv. specialize (Hunv b Hb). rewrite forallb_forall in Hunv.
    unfold phi_free in Hpf. rewrite forallb_forall in Hpf. specialize (Hpf b Hb). rewrite forallb_forall in Hpf.
    exact (stmt_unvb_occ s (Hunv s Hs) (Hpf s Hs) v Hv). }
  specialize (Her Hpf).
  unfold versions_stmt_declared. apply forallb_forall. intros v Hv. unfold version_declared.
  destruct (vn_version v) as [n|] eqn:Ev; [|reflexivity]. apply orb_true_iff.
  (* a parameter key *)
  assert (PK : param_key c (key_of v) -> existsb (fun p => key_eqb (key_of p) (key_of v)) (c_params c') = true).
  { intros (p & Hp & Hk). apply existsb_exists. exists (with_version p 0). split.
    - rewrite Hc'. cbn [c_params]. apply in_map_iff. exists p. split; [reflexivity|exact Hp].
    - apply key_eqb_eq. exact Hk. }
  unfold all_occurrences in Hv. apply in_app_or in Hv. destruct Hv as [Hv|Hv].
  { right. apply existsb_exists. exists v. split; [exact Hv|apply key_eqb_refl]. }
  apply in_flat_map in Hv. destruct Hv as (b' & Hb' & Hv). apply in_flat_map in Hv. destruct Hv as (s' & Hs' & Hv).
  pose proof Hb' as Hb'0. pose proof Hs' as Hs'0.
  rewrite Hc' in Hb'. cbn [c_blocks] in Hb'. apply in_map_iff in Hb'. destruct Hb' as (b & <- & Hb).
  cbn [set_stmts b_stmts] in Hs'. apply in_map_iff in Hs'. destruct Hs' as (s & Es & Hs).
  (* either a name a Declaration statement lists itself, or an occurrence of the renamed statement *)
  assert (Hcase : (exists m names t dims, s' = SDecl m names t dims /\ In v names) \/ In v (stmt_occ s)).
  { apply in_app_or in Hv. destruct Hv as [Hv|Hv].
    - right. rewrite <- Es, update_decl_stmt_reads in Hv. unfold stmt_occ. apply in_or_app. left. exact Hv.
    - destruct s' as [m names t dims| | |m x op rhe sval stype| | |]; try contradiction.
      + left. exists m, names, t, dims. split; [reflexivity|exact Hv].
      + right. destruct s as [m1 names1 t1 dims1| | |m1 x1 op1 rhe1 sval1 stype1| | |]; try discriminate Es.
        * cbn [update_decl_stmt] in Es. destruct names1; [discriminate Es|]. destruct t1; discriminate Es.
        * cbn [update_decl_stmt] in Es. inversion Es; subst. unfold stmt_occ. apply in_or_app. right. exact Hv. }
  destruct Hcase as [(m & names & t & dims & -> & Hin)|Hocc].
  { left. apply existsb_exists. exists v. split; [|apply vname_eqb_refl'].
    eapply in_stmt_decl_names; [exact Hb'0|exact Hs'0|reflexivity|exact Hin]. }
  (* the version lies at or below the counter, so the key is the key of a local or of a parameter *)
  unfold allQ in HQ. rewrite Forall_forall in HQ. specialize (HQ b Hb). rewrite Forall_forall in HQ.
  destruct (HQ s Hs v Hocc) as [Hnone|(n' & mx & Hn' & Hm & Le)]; [congruence|].
  rewrite Ev in Hn'. inversion Hn'; subst n'.
  destruct (proj2 He _ _ Hm) as [Hkl|Hpk]; [|right; exact (PK Hpk)].
  apply klocal_in in Hkl. destruct Hkl as (x & Hd & Hk).
  unfold locals_have_decl_stmt in Hloc. rewrite forallb_forall in Hloc. specialize (Hloc _ Hd).
  unfold local_has_decl_stmt in Hloc. cbn [fst snd] in Hloc. apply orb_true_iff in Hloc. destruct Hloc as [Hloc|Hloc].
  { right. apply PK. apply existsb_exists in Hloc. destruct Hloc as (p & Hp & Hkp). apply key_eqb_eq in Hkp.
    exists p. split; [exact Hp|congruence]. }
  left. apply existsb_exists in Hloc. destruct Hloc as (b0 & Hb0 & Hloc). apply existsb_exists in Hloc.
  destruct Hloc as (s0 & Hs0 & Hdk0).
  destruct (forall2_in_l _ _ _ _ Her Hb0) as (b2 & Hb2 & (_ & _ & P & B & Hst & _ & Hsim)).
  destruct (stmts_sim_in_l _ _ _ Hsim Hs0) as (s2 & Hs2 & Hss).
  assert (Hdn : decl_names_ok s0 = true).
  { unfold decls_ok in Hdk. rewrite forallb_forall in Hdk. specialize (Hdk b0 Hb0). rewrite forallb_forall in Hdk. exact (Hdk s0 Hs0). }
  destruct (declares_key_sim _ _ _ Hdk0 Hdn Hss) as (m2 & name & rest & dims & -> & Hkn).
  apply existsb_exists. exists v. split; [|apply vname_eqb_refl'].
  eapply (in_stmt_decl_names c' (set_stmts b2 (map (update_decl_stmt env) (b_stmts b2)))
            (update_decl_stmt env (SDecl m2 (name :: rest) TLocal dims))).
  - rewrite Hc'. cbn [c_blocks]. apply in_map_iff. exists b2. split; [reflexivity|exact Hb2].
  - cbn [set_stmts b_stmts]. apply in_map. rewrite Hst. apply in_or_app. right. exact Hs2.
  - reflexivity.
  - apply in_map_iff. exists n. split.
    + symmetry. apply vname_eta; [congruence|exact Ev].
    + eapply versions_of_in; [|exact Le]. rewrite Hkn, Hk. exact Hm.
Qed.

(* what the executable condition versions_stmt_declared says (an unfolding) *)
Lemma versions_stmt_declared_spec : forall c v n,
  versions_stmt_declared c = true -> In v (all_occurrences c) -> vn_version v = Some n ->
  (exists b m names t dims, In b (c_blocks c) /\ In (SDecl m names t dims) (b_stmts b) /\ In v names) \/
  (exists p, In p (c_params c) /\ key_of p = key_of v).
Proof.
  intros c v n H Hv Hn. unfold versions_stmt_declared in H. rewrite forallb_forall in H. specialize (H v Hv).
  unfold version_declared in H. rewrite Hn in H. apply orb_true_iff in H. destruct H as [H|H].
  - left. apply existsb_exists in H. destruct H as (w & Hw & E). apply vname_eqb_true in E. subst w.
    unfold stmt_decl_names in Hw. apply in_flat_map in Hw. destruct Hw as (b & Hb & Hw).
    apply in_flat_map in Hw. destruct Hw as (s & Hs & Hw).
    destruct s as [m names t dims| | | | | |]; try contradiction. exists b, m, names, t, dims. auto.
  - right. apply existsb_exists in H. destruct H as (p & Hp & E). apply key_eqb_eq in E. exists p. auto.
Qed.

(* ------------------------------------------------------------------------ *)
(* each hypothesis is needed                                                 *)
(* ------------------------------------------------------------------------ *)
Module Needed.
Definition k0 : know := {| kval := None; kdeg := None |}.
Definition m0 : meta := {| m_start := 0%N; m_end := 0%N; m_file := None |}.
Definition uv (c : N) : vname := {| vn_name := [c]; vn_suffix := None; vn_version := None |}.
Definition blk i ss ps su := {| b_index := i; b_depth := 0%N; b_stmts := ss; b_preds := ps; b_succs := su |}.
(* parameter p; var n = 2 + p; signal s[n]; var q; if (n) { n = n + 1; p = p + 1 }; var t[n][p]; t[n] = s; s <== t[n][s[p]]; return t *)
Definition g1 : cfg :=
  {| c_kind := KFunction; c_params := [uv 112];
     c_decls := [(uv 112, TLocal); (uv 110, TLocal); (uv 115, TSigInt); (uv 116, TLocal); (uv 113, TLocal)];
     c_blocks :=
       [ blk 0%N [ SDecl m0 [uv 110] TLocal [];
                   SSubst m0 (uv 110) OpVar (EInfix IAdd (ENum 2 k0) (EVar (uv 112) k0) k0) None (Some TLocal);
                   SDecl m0 [uv 115] TSigInt [EVar (uv 110) k0];
                   SDecl m0 [uv 113] TLocal [];
                   SIf m0 (EVar (uv 110) k0) 1%N (Some 2%N) ] [] [1%N; 2%N];
         blk 1%N [ SSubst m0 (uv 110) OpVar (EInfix IAdd (EVar (uv 110) k0) (ENum 1 k0) k0) None (Some TLocal);
                   SSubst m0 (uv 112) OpVar (EInfix IAdd (EVar (uv 112) k0) (ENum 1 k0) k0) None (Some TLocal) ] [0%N] [2%N];
         blk 2%N [ SDecl m0 [uv 116] TLocal [EVar (uv 110) k0; EVar (uv 112) k0];
                   SSubst m0 (uv 116) OpVar (EUpdate (uv 116) [AIdx (EVar (uv 110) k0)] (EVar (uv 115) k0) k0) None (Some TLocal);
                   SSubst m0 (uv 115) OpSig (EAccess (uv 116) [AIdx (EVar (uv 110) k0); AIdx (EAccess (uv 115) [AIdx (EVar (uv 112) k0)] k0)] k0)
                          None (Some TSigInt);
                   SRet m0 (EVar (uv 116) k0) ] [0%N; 1%N] [] ] |}.
Definition fr1 : list (list N) := [[]; [2%N]; []].
Definition ch1 : list (list N) := [[1%N; 2%N]; []; []].
Definition res fr ch g :=
  match into_ssa fr ch g with
  | SOk c' => Some (unversioned_reads_ok c', unversioned_reads_ok (with_stmt_decls c'), versions_stmt_declared c')
  | _ => None
  end.

Lemma all_hypotheses : res fr1 ch1 g1 = Some (true, true, true).
Proof. vm_compute. reflexivity. Qed.

(* the children table does not reach block 2: its reads stay unversioned *)
Lemma needs_children_cover :
  children_coverb [[1%N]; []; []] 3 = false /\ res fr1 [[1%N]; []; []] g1 = Some (false, false, true).
Proof. vm_compute. split; reflexivity. Qed.

(* the table calls t a signal, the statement declares it a local: t is read without a version although
   the re-issued Declaration statement lists versions of it *)
Definition g2 : cfg :=
  {| c_kind := c_kind g1; c_params := c_params g1;
     c_decls := [(uv 112, TLocal); (uv 110, TLocal); (uv 115, TSigInt); (uv 116, TSigInt); (uv 113, TLocal)];
     c_blocks := c_blocks g1 |}.
Lemma needs_decl_stmts_declared :
  decl_stmts_declared g2 = false /\ locals_have_decl_stmt g2 = true /\ res fr1 ch1 g2 = Some (true, false, true).
Proof. vm_compute. repeat split; reflexivity. Qed.

(* no Declaration statement for the local n: its versions are listed nowhere *)
Definition g3 : cfg :=
  {| c_kind := c_kind g1; c_params := c_params g1; c_decls := c_decls g1;
     c_blocks := map (fun b => set_stmts b (filter (fun s => match s with
                                                             | SDecl _ (x :: _) TLocal _ => negb (vname_eqb x (uv 110))
                                                             | _ => true
                                                             end) (b_stmts b))) (c_blocks g1) |}.
Lemma needs_locals_have_decl_stmt :
  decl_stmts_declared g3 = true /\ locals_have_decl_stmt g3 = false /\ res fr1 ch1 g3 = Some (true, true, false).
Proof. vm_compute. repeat split; reflexivity. Qed.
End Needed.
