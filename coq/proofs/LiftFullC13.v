(* C13, third audit: the content-level provenance of Proofs.LiftFullProofs stated
   with the definitions of Spec.LiftFullSpec, and the skeleton / containment theorem
   for a [key] that tells the statement metas of the body apart. *)
From Coq Require Import String NArith.
From stdpp Require Import list countable.
Require Import Model.Lift Model.LiftFull Spec.CfgSpec Spec.LiftFullSpec Proofs.LiftFullProofs Proofs.CfgContains.
Require Model.LiftFullReport Model.SignalAssign Proofs.LiftFullC08.
Require Model.Ast Model.Ir.
Import Base(outcome, Ok).

Definition tag_of_kind (k : skind) : nat * option Ast.assign_op :=
  match k with
  | KIf => (0, None) | KWhile => (1, None) | KRet => (2, None) | KInit => (3, None) | KDecl => (4, None)
  | KSub op => (5, Some op) | KMSub => (6, None) | KCeq => (7, None) | KLog => (8, None) | KBlock => (9, None)
  | KAssert => (10, None)
  end.

Lemma stmt_tag_kind s : stmt_tag s = tag_of_kind (fst (hdr s)).
Proof. by destruct s. Qed.

Lemma same_renamed_only body body' : same body body' -> renamed_only body body'.
Proof.
  intros (Hs & Hh & _). split; [exact Hs|]. split.
  - transitivity (map tag_of_kind (map fst (map hdr (lifted_stmts body')))).
    { rewrite !map_map. apply map_ext. intros s. apply stmt_tag_kind. }
    rewrite Hh, !map_map. apply map_ext. intros s. symmetry. apply stmt_tag_kind.
  - transitivity (map snd (map hdr (lifted_stmts body'))).
    { by rewrite map_map. }
    by rewrite Hh, map_map.
Qed.

Lemma image0_spec s x : Proofs.LiftFullProofs.image0 s x <-> Spec.LiftFullSpec.image0 s x.
Proof. reflexivity. Qed.

Theorem liftfull_content_provenance : forall kind params pfile ploc body r,
  try_lift_impl kind params pfile ploc body = Ok r ->
  exists body',
    ensure_unique_variables params pfile ploc body = Ok (body', l_reports r) /\
    renamed_only body body' /\
    Forall2 (Spec.LiftFullSpec.image (xc_decls (l_cfg r))) (lifted_stmts body')
            (graph_stmts (xc_blocks (l_cfg r))).
Proof.
  intros kind params pfile ploc body r H.
  destruct (liftfull_provenance _ _ _ _ _ _ H) as (body' & Hu & Hs & F).
  exists body'. split; [exact Hu|]. split; [by apply same_renamed_only|]. exact F.
Qed.

(* every IR statement of the graph carries the meta of a statement of the body *)
Lemma graph_stmt_meta_from_body kind params pfile ploc body r x :
  try_lift_impl kind params pfile ploc body = Ok r ->
  In x (graph_stmts (xc_blocks (l_cfg r))) ->
  exists s, In s (lifted_stmts body) /\ xstmt_meta x = lift_meta (Ast.stmt_meta s).
Proof.
  intros H Hx. pose proof (liftfull_stmt_metas _ _ _ _ _ _ H) as Hm.
  apply (in_map xstmt_meta) in Hx. rewrite Hm in Hx.
  apply in_map_iff in Hx as (s & Hs & Hin). by exists s.
Qed.

Lemma lift_meta_inj a b : lift_meta a = lift_meta b -> a = b.
Proof. destruct a, b. unfold lift_meta. simpl. intros H. by injection H as -> -> ->. Qed.

Theorem liftfull_contains_source_injective_key : forall key kind params pfile ploc body r,
  try_lift_impl kind params pfile ploc body = Ok r ->
  key_injective_on key body ->
  (forall ds, exists n0, forall n, n0 <= n ->
     trace (skel key body) ds `prefix_of` walk n (map (skel_block key) (xc_blocks (l_cfg r))) ds) /\
  (forall x s, In x (graph_stmts (xc_blocks (l_cfg r))) -> In s (lifted_stmts body) ->
     key (xstmt_meta x) = key (lift_meta (Ast.stmt_meta s)) ->
     xstmt_meta x = lift_meta (Ast.stmt_meta s)).
Proof.
  intros key kind params pfile ploc body r H Hinj. split.
  - intros ds. exact (cfg_contains_source _ _ ds (liftfull_skeleton key kind params pfile ploc body r H)).
  - intros x s Hx Hs Hk.
    destruct (graph_stmt_meta_from_body _ _ _ _ _ _ _ H Hx) as (s' & Hs' & E').
    rewrite E' in Hk |- *.
    assert (E : Ast.stmt_meta s' = Ast.stmt_meta s) by (apply Hinj; [exact Hs'|exact Hs|exact Hk]).
    by rewrite E.
Qed.

(* such keys exist: an injective numbering of all metas *)
Definition meta_key (m : Ir.meta) : nat := encode_nat (Ir.m_start m, Ir.m_end m, Ir.m_file m).

Lemma meta_key_inj a b : meta_key a = meta_key b -> a = b.
Proof.
  unfold meta_key. intros H. apply (inj encode_nat) in H. destruct a, b. simpl in H. by injection H as -> -> ->.
Qed.

Lemma meta_key_injective_on body : key_injective_on meta_key body.
Proof. intros s1 s2 _ _ H. apply meta_key_inj in H. by apply lift_meta_inj. Qed.

(* the key the model driver uses (position of the first statement with that meta) tells the
   statement metas of the body apart *)
Lemma meta_index_inj l a b : In a l -> In b l ->
  LiftFullReport.meta_index l a = LiftFullReport.meta_index l b -> a = b.
Proof.
  induction l as [|x r IH]; intros Ha Hb; [destruct Ha|]. simpl.
  destruct (SignalAssign.meta_eqb x a) eqn:Ea, (SignalAssign.meta_eqb x b) eqn:Eb; intros H; try discriminate.
  - apply Proofs.LiftFullC08.meta_eqb_true in Ea, Eb. congruence.
  - injection H as H. apply IH; [| |exact H].
    + destruct Ha as [->|Ha]; [|exact Ha]. by rewrite Proofs.LiftFullC08.meta_eqb_refl in Ea.
    + destruct Hb as [->|Hb]; [|exact Hb]. by rewrite Proofs.LiftFullC08.meta_eqb_refl in Eb.
Qed.

Lemma positional_key_injective_on body : key_injective_on (LiftFullReport.positional_key body) body.
Proof.
  intros s1 s2 H1 H2 H. apply lift_meta_inj.
  apply (meta_index_inj (LiftFullReport.stmt_ir_metas body)); [| |exact H];
    unfold LiftFullReport.stmt_ir_metas;
    [exact (in_map (fun s => lift_meta (Ast.stmt_meta s)) _ _ H1)|exact (in_map (fun s => lift_meta (Ast.stmt_meta s)) _ _ H2)].
Qed.

(* ---- fourth audit: the content-level provenance joined with the ids the walk meets ---- *)
Lemma ast_meta_eqb_true a b : LiftFullReport.ast_meta_eqb a b = true -> a = b.
Proof.
  unfold LiftFullReport.ast_meta_eqb. destruct a as [s1 e1 f1], b as [s2 e2 f2]. simpl.
  rewrite !andb_true_iff. intros [[H1 H2] H3]. apply N.eqb_eq in H1, H2. subst.
  destruct f1, f2; try discriminate; [apply N.eqb_eq in H3; by subst|done].
Qed.

Lemma ast_meta_eqb_refl a : LiftFullReport.ast_meta_eqb a a = true.
Proof.
  unfold LiftFullReport.ast_meta_eqb. destruct a as [s e f]. simpl. rewrite !N.eqb_refl. destruct f; simpl; [apply N.eqb_refl|done].
Qed.

Lemma metas_distinct_b_NoDup l : LiftFullReport.metas_distinct_b l = true -> NoDup l.
Proof.
  induction l as [|x l IH]; simpl; [constructor|]. rewrite andb_true_iff, negb_true_iff. intros [H1 H2].
  constructor; [|auto]. intros Hin. try apply elem_of_list_In in Hin.
  assert (existsb (LiftFullReport.ast_meta_eqb x) l = true); [|congruence].
  apply existsb_exists. exists x. split; [exact Hin|apply ast_meta_eqb_refl].
Qed.

Lemma stmt_metas_distinct_b_sound body :
  LiftFullReport.stmt_metas_distinct_b body = true -> NoDup (map Ast.stmt_meta (lifted_stmts body)).
Proof. apply metas_distinct_b_NoDup. Qed.

Lemma Forall2_In_r {A B} (R : A -> B -> Prop) l k y : Forall2 R l k -> In y k -> exists x, In x l /\ R x y.
Proof.
  induction 1 as [|a b l k Hab _ IH]; intros Hin; [destruct Hin|].
  destruct Hin as [<-|Hin]; [exists a; split; [by left|done]|].
  destruct (IH Hin) as (x & Hx & HR). exists x. split; [by right|done].
Qed.

Lemma NoDup_map_eq {A B} (f : A -> B) l a b : NoDup (map f l) -> In a l -> In b l -> f a = f b -> a = b.
Proof.
  induction l as [|x l IH]; intros Hn Ha Hb E; [destruct Ha|]. simpl in Hn. inversion Hn as [|? ? Hx Hn']; subst. clear Hn; rename Hn' into Hn.
  destruct Ha as [->|Ha], Hb as [->|Hb]; [done| | |by apply IH].
  - exfalso. apply Hx. rewrite E. first [apply elem_of_list_In; by apply in_map|by apply in_map].
  - exfalso. apply Hx. rewrite <- E. first [apply elem_of_list_In; by apply in_map|by apply in_map].
Qed.

Lemma in_map_meta (l l' : list Ast.statement) s' :
  map Ast.stmt_meta l' = map Ast.stmt_meta l -> In s' l' -> exists s, In s l /\ Ast.stmt_meta s = Ast.stmt_meta s'.
Proof.
  intros E Hin. apply (in_map Ast.stmt_meta) in Hin. rewrite E in Hin. apply in_map_iff in Hin as (s & Hs & Hi). by exists s.
Qed.

Theorem liftfull_walk_statements_are_images : forall key kind params pfile ploc body r,
  try_lift_impl kind params pfile ploc body = Ok r ->
  NoDup (map Ast.stmt_meta (lifted_stmts body)) ->
  key_injective_on key body ->
  exists body',
    ensure_unique_variables params pfile ploc body = Ok (body', l_reports r) /\
    renamed_only body body' /\
    (forall ds, exists n0, forall n, n0 <= n ->
       trace (skel key body) ds `prefix_of` walk n (map (skel_block key) (xc_blocks (l_cfg r))) ds) /\
    (forall x s', In x (graph_stmts (xc_blocks (l_cfg r))) -> In s' (lifted_stmts body') ->
       key (xstmt_meta x) = key (lift_meta (Ast.stmt_meta s')) ->
       Spec.LiftFullSpec.image (xc_decls (l_cfg r)) s' x).
Proof.
  intros key kind params pfile ploc body r H Hnd Hinj.
  destruct (liftfull_content_provenance _ _ _ _ _ _ H) as (body' & Hu & Hren & F).
  exists body'. split; [exact Hu|]. split; [exact Hren|]. split.
  - intros ds. exact (cfg_contains_source _ _ ds (liftfull_skeleton key kind params pfile ploc body r H)).
  - intros x s' Hx Hs' Hk. destruct Hren as (_ & _ & Hm).
    destruct (Forall2_In_r _ _ _ x F Hx) as (sk & Hsk & Himg).
    assert (Ex : xstmt_meta x = lift_meta (Ast.stmt_meta sk)).
    { pose proof (image_hdr _ _ _ Himg) as E. apply (f_equal snd) in E. exact E. }
    destruct (in_map_meta _ _ sk Hm Hsk) as (a & Ha & Ea).
    destruct (in_map_meta _ _ s' Hm Hs') as (b & Hb & Eb).
    assert (Eab : Ast.stmt_meta a = Ast.stmt_meta b).
    { apply Hinj; [exact Ha|exact Hb|]. rewrite Ea, Eb, <- Ex. exact Hk. }
    assert (sk = s') as <-; [|exact Himg].
    apply (NoDup_map_eq Ast.stmt_meta (lifted_stmts body')); [by rewrite Hm|exact Hsk|exact Hs'|congruence].
Qed.
