(* C13, third audit: the content-level provenance of Proofs.LiftFullProofs stated
   with the definitions of Spec.LiftFullSpec, and the skeleton / containment theorem
   for a [key] that tells the statement metas of the body apart. *)
From Coq Require Import String NArith.
From stdpp Require Import list countable.
Require Import Model.Lift Model.LiftFull Spec.CfgSpec Spec.LiftFullSpec Proofs.LiftFullProofs Proofs.CfgContains.
Require Model.LiftFullReport Model.SignalAssign Proofs.LiftFullC08.
Require Model.Ast Model.Ir.
Import Base(outcome, Ok).

Definition tag_of_kind (k : skind) : nat * option Ast.assign_op :=
  match k with
  | KIf => (0, None) | KWhile => (1, None) | KRet => (2, None) | KInit => (3, None) | KDecl => (4, None)
  | KSub op => (5, Some op) | KMSub => (6, None) | KCeq => (7, None) | KLog => (8, None) | KBlock => (9, None)
  | KAssert => (10, None)
  end.

Lemma stmt_tag_kind s : stmt_tag s = tag_of_kind (fst (hdr s)).
Proof. by destruct s. Qed.

Lemma same_renamed_only body body' : same body body' -> renamed_only body body'.
Proof.
  intros (Hs & Hh & _). split; [exact Hs|]. split.
  - transitivity (map tag_of_kind (map fst (map hdr (lifted_stmts body')))).
    { rewrite !map_map. apply map_ext. intros s. apply stmt_tag_kind. }
    rewrite Hh, !map_map. apply map_ext. intros s. symmetry. apply stmt_tag_kind.
  - transitivity (map snd (map hdr (lifted_stmts body'))).
    { by rewrite map_map. }
    by rewrite Hh, map_map.
Qed.

Lemma image0_spec s x : Proofs.LiftFullProofs.image0 s x <-> Spec.LiftFullSpec.image0 s x.
Proof. reflexivity. Qed.

Theorem liftfull_content_provenance : forall kind params pfile ploc body r,
  try_lift_impl kind params pfile ploc body = Ok r ->
  exists body',
    ensure_unique_variables params pfile ploc body = Ok (body', l_reports r) /\
    renamed_only body body' /\
    Forall2 (Spec.LiftFullSpec.image (xc_decls (l_cfg r))) (lifted_stmts body')
            (graph_stmts (xc_blocks (l_cfg r))).
Proof.
  intros kind params pfile ploc body r H.
  destruct (liftfull_provenance _ _ _ _ _ _ H) as (body' & Hu & Hs & F).
  exists body'. split; [exact Hu|]. split; [by apply same_renamed_only|]. exact F.
Qed.

(* every IR statement of the graph carries the meta of a statement of the body *)
Lemma graph_stmt_meta_from_body kind params pfile ploc body r x :
  try_lift_impl kind params pfile ploc body = Ok r ->
  In x (graph_stmts (xc_blocks (l_cfg r))) ->
  exists s, In s (lifted_stmts body) /\ xstmt_meta x = lift_meta (Ast.stmt_meta s).
Proof.
  intros H Hx. pose proof (liftfull_stmt_metas _ _ _ _ _ _ H) as Hm.
  apply (in_map xstmt_meta) in Hx. rewrite Hm in Hx.
  apply in_map_iff in Hx as (s & Hs & Hin). by exists s.
Qed.

Lemma lift_meta_inj a b : lift_meta a = lift_meta b -> a = b.
Proof. destruct a, b. unfold lift_meta. simpl. intros H. by injection H as -> -> ->. Qed.

Theorem liftfull_contains_source_injective_key : forall key kind params pfile ploc body r,
  try_lift_impl kind params pfile ploc body = Ok r ->
  key_injective_on key body ->
  (forall ds, exists n0, forall n, n0 <= n ->
     trace (skel key body) ds `prefix_of` walk n (map (skel_block key) (xc_blocks (l_cfg r))) ds) /\
  (forall x s, In x (graph_stmts (xc_blocks (l_cfg r))) -> In s (lifted_stmts body) ->
     key (xstmt_meta x) = key (lift_meta (Ast.stmt_meta s)) ->
     xstmt_meta x = lift_meta (Ast.stmt_meta s)).
Proof.
  intros key kind params pfile ploc body r H Hinj. split.
  - intros ds. exact (cfg_contains_source _ _ ds (liftfull_skeleton key kind params pfile ploc body r H)).
  - intros x s Hx Hs Hk.
    destruct (graph_stmt_meta_from_body _ _ _ _ _ _ _ H Hx) as (s' & Hs' & E').
    rewrite E' in Hk |- *.
    assert (E : Ast.stmt_meta s' = Ast.stmt_meta s) by (apply Hinj; [exact Hs'|exact Hs|exact Hk]).
    by rewrite E.
Qed.

(* such keys exist: an injective numbering of all metas *)
Definition meta_key (m : Ir.meta) : nat := encode_nat (Ir.m_start m, Ir.m_end m, Ir.m_file m).

Lemma meta_key_inj a b : meta_key a = meta_key b -> a = b.
Proof.
  unfold meta_key. intros H. apply (inj encode_nat) in H. destruct a, b. simpl in H. by injection H as -> -> ->.
Qed.

Lemma meta_key_injective_on body : key_injective_on meta_key body.
Proof. intros s1 s2 _ _ H. apply meta_key_inj in H. by apply lift_meta_inj. Qed.

(* the key the model driver uses (position of the first statement with that meta) tells the
   statement metas of the body apart *)
Lemma meta_index_inj l a b : In a l -> In b l ->
  LiftFullReport.meta_index l a = LiftFullReport.meta_index l b -> a = b.
Proof.
  induction l as [|x r IH]; intros Ha Hb; [destruct Ha|]. simpl.
  destruct (SignalAssign.meta_eqb x a) eqn:Ea, (SignalAssign.meta_eqb x b) eqn:Eb; intros H; try discriminate.
  - apply Proofs.LiftFullC08.meta_eqb_true in Ea, Eb. congruence.
  - injection H as H. apply IH; [| |exact H].
    + destruct Ha as [->|Ha]; [|exact Ha]. by rewrite Proofs.LiftFullC08.meta_eqb_refl in Ea.
    + destruct Hb as [->|Hb]; [|exact Hb]. by rewrite Proofs.LiftFullC08.meta_eqb_refl in Eb.
Qed.

Lemma positional_key_injective_on body : key_injective_on (LiftFullReport.positional_key body) body.
Proof.
  intros s1 s2 H1 H2 H. apply lift_meta_inj.
  apply (meta_index_inj (LiftFullReport.stmt_ir_metas body)); [| |exact H];
    unfold LiftFullReport.stmt_ir_metas;
    [exact (in_map (fun s => lift_meta (Ast.stmt_meta s)) _ _ H1)|exact (in_map (fun s => lift_meta (Ast.stmt_meta s)) _ _ H2)].
Qed.
