(* The macro steps of visit_statement preserve the invariant of Proofs.LiftInv. *)
From stdpp Require Import list sets.
Require Import Model.Lift Spec.CfgSpec Proofs.LiftBasics Proofs.LiftInv.
Import Base(outcome, Ok, Err, Panic, OutOfFuel, bind).

(* ---------------- generic: same edges ---------------- *)
Lemma wf_same_edges g g' P P' :
  length g' = length g ->
  (forall i b', g' !! i = Some b' ->
     exists b, g !! i = Some b /\ (forall y, y ∈ b_succs b' <-> y ∈ b_succs b) /\
               (forall y, y ∈ b_preds b' <-> y ∈ b_preds b) /\
               blk_ok (length g') P' i b') ->
  (forall i, P' i -> i < length g') ->
  wf g P -> wf g' P'.
Proof.
  intros Hlen Hblk HP [W1 W2 W3 W4].
  assert (Hex : forall i b, g !! i = Some b -> exists b', g' !! i = Some b').
  { intros i b Hb. apply lookup_lt_is_Some_2. rewrite Hlen. by eapply lookup_lt_Some. }
  split; [|intros i j bi' Hi Hj|intros i j bj' Hj Hi|done].
  - intros i b' Hb'. by destruct (Hblk _ _ Hb') as (b & _ & _ & _ & ?).
  - destruct (Hblk _ _ Hi) as (bi & Hbi & Hs & _ & _).
    apply Hs in Hj. destruct (W2 _ _ _ Hbi Hj) as (bj & Hbj & Hin).
    destruct (Hex _ _ Hbj) as (bj' & Hbj'). exists bj'. split; [done|].
    destruct (Hblk _ _ Hbj') as (bj0 & Hbj0 & _ & Hp & _).
    rewrite Hbj in Hbj0. injection Hbj0 as <-. by apply Hp.
  - destruct (Hblk _ _ Hj) as (bj & Hbj & _ & Hp & _).
    apply Hp in Hi. destruct (W3 _ _ _ Hbj Hi) as (bi & Hbi & Hin).
    destruct (Hex _ _ Hbi) as (bi' & Hbi'). exists bi'. split; [done|].
    destruct (Hblk _ _ Hbi') as (bi0 & Hbi0 & Hs & _ & _).
    rewrite Hbi in Hbi0. injection Hbi0 as <-. by apply Hs.
Qed.

Lemma plain_no_branch n P i b k c t f :
  blk_ok n P i b -> ends_plain b -> b_items b !! k <> Some (IBranch c t f).
Proof.
  intros Hok Hpl Hk. pose proof (ok_branch_last _ _ _ _ Hok _ _ _ _ Hk) as Hlen.
  apply (Hpl c t f). rewrite last_lookup'. rewrite <- Hlen. simpl. by rewrite Nat.sub_0_r.
Qed.

Lemma graph_items_snoc g b : graph_items (g ++ [b]) = graph_items g ++ bitems b.
Proof. rewrite graph_items_app. f_equal. rewrite graph_items_eq. simpl. by rewrite app_nil_r. Qed.

Lemma graph_last_split (g : graph) : g <> [] ->
  exists g0 b, g = g0 ++ [b] /\ length g0 = length g - 1 /\ g !! (length g - 1) = Some b.
Proof.
  intros Hne. destruct (list_snoc_cases g) as [->|(g0 & b & ->)]; [done|].
  exists g0, b. rewrite app_length. simpl. split; [done|]. split; [lia|].
  rewrite lookup_app_r by lia. replace (length g0 + 1 - 1 - length g0) with 0 by lia. done.
Qed.

(* ---------------- appending a leaf ---------------- *)
Lemma step_leaf g d P0 id g' :
  pre g d P0 -> upd_last (push_item (ILeaf id)) g = Ok g' ->
  pre g' d P0 /\ length g' = length g /\
  graph_items g' = graph_items g ++ [(KLeaf id, d)] /\ gext g g'.
Proof.
  intros Hpre Hupd. apply upd_last_inv in Hupd as [Hne ->].
  destruct Hpre as [Hwf HP0 (bl & Hbl & Hpl & Hd)].
  set (l := length g - 1) in *.
  assert (Hokl := wf_blk _ _ Hwf _ _ Hbl).
  assert (Hsl : b_succs bl = []) by (eapply pending_plain_succs; [done|by right|done]).
  split; [|split; [by rewrite alter_length|split]].
  - split; rewrite ?alter_length; fold l.
    + eapply (wf_same_edges g); [by rewrite alter_length| |rewrite alter_length; by apply (wf_P _ _ Hwf)|done].
      intros i b'. rewrite lookup_alter_case. case_decide as E.
      * subst i. rewrite Hbl. simpl. intros [= <-]. exists bl. split; [done|]. split; [done|]. split; [done|].
        rewrite alter_length. destruct Hokl as [H1 H2 H3 H4 H5 H6 H7].
        split; simpl; try done.
        -- intros k c t f Hk. apply lookup_app_Some in Hk as [Hk|[_ Hk]].
           ++ exfalso. eapply (plain_no_branch _ _ _ bl); [|done|done]. by split.
           ++ destruct (k - length (b_items bl)) as [|[|]]; simpl in Hk; discriminate.
        -- unfold shape. simpl. rewrite last_snoc. left. split; [by right|done].
      * intros Hb'. exists b'. split; [done|]. split; [done|]. split; [done|].
        rewrite alter_length. by apply (wf_blk _ _ Hwf).
    + done.
    + exists (push_item (ILeaf id) bl). rewrite list_lookup_alter, Hbl. split; [done|].
      split; [|done]. intros c t f. simpl. by rewrite last_snoc.
  - destruct (graph_last_split g Hne) as (g0 & b & Hg & Hl0 & Hb).
    fold l in Hb. rewrite Hbl in Hb. injection Hb as <-.
    rewrite Hg. replace l with (length g0 + 0) by (unfold l; lia).
    rewrite alter_app_r. simpl. rewrite !graph_items_snoc, <- app_assoc. f_equal.
    unfold bitems. simpl. rewrite map_app. simpl. by rewrite Hd.
  - intros i b Hb. rewrite lookup_alter_case. case_decide as E.
    + subst i. rewrite Hb. simpl. eexists. split; [done|]. apply bext_push.
      rewrite Hbl in Hb. by injection Hb as <-.
    + exists b. split; [done|apply bext_refl].
Qed.

(* ---------------- adding a block with edges from ps ---------------- *)
Lemma wf_add_block g h nb P P' (ps : list nat) :
  wf g P -> length h = length g ->
  (forall i b, g !! i = Some b ->
     exists b', h !! i = Some b' /\ (forall y, y ∈ b_preds b' <-> y ∈ b_preds b) /\
       (forall y, y ∈ b_succs b' <-> y ∈ b_succs b \/ (y = length g /\ i ∈ ps)) /\
       blk_ok (S (length g)) P' i b') ->
  blk_ok (S (length g)) P' (length g) nb -> b_succs nb = [] ->
  (forall x, x ∈ b_preds nb <-> x ∈ ps) -> (forall i, i ∈ ps -> i < length g) ->
  (forall i, P' i -> i < S (length g)) ->
  wf (h ++ [nb]) P'.
Proof.
  intros [W1 W2 W3 W4] Hlen Hblk Hnb Hsn Hpn Hps HP'.
  assert (Hlen' : length (h ++ [nb]) = S (length g)) by (rewrite app_length; simpl; lia).
  assert (Hlk : forall i b', (h ++ [nb]) !! i = Some b' ->
            (i < length g /\ h !! i = Some b') \/ (i = length g /\ b' = nb)).
  { intros i b' Hi. apply lookup_app_Some in Hi as [Hi|[Hge Hi]].
    - left. split; [|done]. rewrite <- Hlen. by eapply lookup_lt_Some.
    - right. destruct (i - length h) as [|k] eqn:E; simpl in Hi; [|by destruct k].
      injection Hi as <-. split; [lia|done]. }
  assert (Hold : forall i b', h !! i = Some b' -> exists b, g !! i = Some b).
  { intros i b' Hi. apply lookup_lt_is_Some_2. rewrite <- Hlen. by eapply lookup_lt_Some. }
  assert (Hnew : (h ++ [nb]) !! length g = Some nb).
  { rewrite lookup_app_r by lia. replace (length g - length h) with 0 by lia. done. }
  split; [|intros i j bi' Hi Hj|intros i j bj' Hj Hi|by rewrite Hlen'].
  - intros i b' Hi. rewrite Hlen'. destruct (Hlk _ _ Hi) as [[Hlt Hi']|[-> ->]]; [|done].
    destruct (Hold _ _ Hi') as (b & Hb). destruct (Hblk _ _ Hb) as (b'' & Hb'' & _ & _ & Hok).
    rewrite Hi' in Hb''. by injection Hb'' as <-.
  - destruct (Hlk _ _ Hi) as [[Hlt Hi']|[-> ->]]; [|rewrite Hsn in Hj; set_solver].
    destruct (Hold _ _ Hi') as (bi & Hbi). destruct (Hblk _ _ Hbi) as (b'' & Hb'' & _ & Hs & _).
    rewrite Hi' in Hb''. injection Hb'' as <-.
    apply Hs in Hj as [Hj|[-> Hin]].
    + destruct (W2 _ _ _ Hbi Hj) as (bj & Hbj & Hin).
      destruct (Hblk _ _ Hbj) as (bj' & Hbj' & Hp & _ & _).
      exists bj'. split; [|by apply Hp].
      rewrite lookup_app_l; [done|by eapply lookup_lt_Some].
    + exists nb. split; [done|by apply Hpn].
  - destruct (Hlk _ _ Hj) as [[Hlt Hj']|[-> ->]].
    + destruct (Hold _ _ Hj') as (bj & Hbj). destruct (Hblk _ _ Hbj) as (b'' & Hb'' & Hp & _ & _).
      rewrite Hj' in Hb''. injection Hb'' as <-.
      apply Hp in Hi. destruct (W3 _ _ _ Hbj Hi) as (bi & Hbi & Hin).
      destruct (Hblk _ _ Hbi) as (bi' & Hbi' & _ & Hs & _).
      exists bi'. split; [|apply Hs; by left].
      rewrite lookup_app_l; [done|by eapply lookup_lt_Some].
    + apply Hpn in Hi. destruct (lookup_lt_is_Some_2 g i (Hps _ Hi)) as (bi & Hbi).
      destruct (Hblk _ _ Hbi) as (bi' & Hbi' & _ & Hs & _).
      exists bi'. split; [|apply Hs; by right].
      rewrite lookup_app_l; [done|by eapply lookup_lt_Some].
Qed.

Lemma succs_close j b y : y ∈ b_succs (close j b) <-> y ∈ b_succs b \/ y = j.
Proof. simpl. rewrite elem_of_ins. naive_solver. Qed.

Lemma new_block_ok n (P : nat -> Prop) j nb (ps : list nat) :
  b_index nb = j -> b_items nb = [] -> b_succs nb = [] -> ssorted (b_preds nb) ->
  (forall x, x ∈ b_preds nb <-> x ∈ ps) -> (forall i, i ∈ ps -> i < j) -> ps <> [] -> 0 < j -> P j ->
  blk_ok n P j nb.
Proof.
  intros H1 H2 H3 H4 H5 H6 H7 H8 H9. split; try done.
  - by rewrite H3.
  - rewrite H2. intros k c t f Hk. by rewrite lookup_nil in Hk.
  - lia.
  - intros _. destruct ps as [|p r]; [done|]. exists p. split; [apply H6|apply H5]; set_solver.
  - unfold shape. rewrite H2. simpl. by left.
Qed.

(* ---------------- complete_basic_block on a set of pending blocks ---------------- *)
Lemma step_complete g ps d P0 g' :
  wf g (fun i => P0 i \/ i ∈ ps) -> g <> [] -> ps <> [] -> ssorted ps ->
  (forall i, i ∈ ps -> ~ P0 i) ->
  complete g ps d = Ok g' ->
  pre g' d P0 /\ length g' = S (length g) /\ graph_items g' = graph_items g /\ gext g g'.
Proof.
  intros Hwf Hne Hps Hss Hdisj Hc.
  assert (Hlt : forall i, i ∈ ps -> i < length g) by (intros i Hi; apply (wf_P _ _ Hwf); by right).
  destruct (complete_spec g ps d Hlt (ssorted_NoDup _ Hss))
    as (h & nb & Hc' & Hlen & Hlk & N1 & N2 & N3 & N4 & N5 & N6).
  rewrite Hc' in Hc. injection Hc as <-.
  assert (Hlen' : length (h ++ [nb]) = S (length g)) by (rewrite app_length; simpl; lia).
  assert (Hpos : 0 < length g) by (destruct g; [done|simpl; lia]).
  split; [|split; [done|split]].
  - split; rewrite Hlen'; simpl; rewrite Nat.sub_0_r.
    + eapply (wf_add_block g h nb _ _ ps); try done.
      * intros i b Hb. eexists. split; [by apply Hlk|].
        assert (Hok := wf_blk _ _ Hwf _ _ Hb).
        assert (i < length g) by (by eapply lookup_lt_Some).
        case_decide as E.
        -- split; [done|]. split; [intros y; rewrite succs_close; naive_solver|].
           eapply blk_ok_close; [done|by right| |done|lia].
           intros [?| ->]; [by eapply Hdisj|lia].
        -- split; [done|]. split; [naive_solver|].
           eapply blk_ok_ext; [|  |done]; [lia|]. split; intros [?|?]; auto; [done|lia].
      * eapply new_block_ok; try done. by right.
      * intros i [Hi| ->]; [|lia]. assert (i < length g); [|lia]. apply (wf_P _ _ Hwf). by left.
    + intros i Hi. apply (wf_P _ _ Hwf). by left.
    + exists nb. rewrite lookup_app_r by lia. replace (length g - length h) with 0 by lia.
      split; [done|]. split; [|done]. intros c t f. by rewrite N3.
  - rewrite graph_items_snoc. unfold bitems at 1. rewrite N3. simpl. rewrite app_nil_r.
    apply graph_items_same; [done|]. intros i b Hb. eexists. split; [by apply Hlk|].
    case_decide; [apply bitems_close|done].
  - intros i b Hb. eexists. split.
    + rewrite lookup_app_l; [by apply Hlk|]. rewrite Hlen. by eapply lookup_lt_Some.
    + case_decide; [apply bext_close|apply bext_refl].
Qed.

(* ---------------- opening a branch: push the branch, complete with {l} ---------------- *)
Lemma close_branch_true j c b :
  close j (push_item (IBranch c j None) b) = add_succ j (push_item (IBranch c j None) b).
Proof.
  unfold close, patch_false. simpl. rewrite patch_last_snoc. simpl. by rewrite Nat.eqb_refl.
Qed.

Lemma step_branch g d d' P0 c g1 g2 :
  pre g d P0 ->
  upd_last (push_item (IBranch c (S (length g - 1)) None)) g = Ok g1 ->
  complete g1 [length g - 1] d' = Ok g2 ->
  pre g2 d' (fun i => P0 i \/ i = length g - 1) /\ length g2 = S (length g) /\
  graph_items g2 = graph_items g ++ [(KCond c, d)] /\ gext g g2 /\
  (exists bo bl, g !! (length g - 1) = Some bo /\ g2 !! (length g - 1) = Some bl /\
              b_items bl = b_items bo ++ [IBranch c (length g) None] /\ b_succs bl = [length g]) /\
  (exists nb, g2 !! length g = Some nb /\ b_items nb = []).
Proof.
  intros Hpre Hupd Hc. apply upd_last_inv in Hupd as [Hne ->].
  destruct Hpre as [Hwf HP0 (bl & Hbl & Hpl & Hd)].
  set (l := length g - 1) in *.
  assert (Hlg : length g = S l) by (unfold l; destruct g; [done|simpl; lia]).
  assert (Hokl := wf_blk _ _ Hwf _ _ Hbl).
  assert (Hsl : b_succs bl = []) by (eapply pending_plain_succs; [done|by right|done]).
  set (g1 := alter (push_item (IBranch c (S l) None)) l g) in *.
  assert (Hl1 : length g1 = length g) by apply alter_length.
  destruct (complete_spec g1 [l] d')
    as (h & nb & Hc' & Hlen & Hlk & N1 & N2 & N3 & N4 & N5 & N6).
  { intros i Hi. apply elem_of_list_singleton in Hi as ->. lia. }
  { apply NoDup_singleton. }
  rewrite Hc' in Hc. injection Hc as <-. rewrite Hl1 in *.
  assert (Hlen' : length (h ++ [nb]) = S (length g)) by (rewrite app_length; simpl; lia).
  set (bl' := add_succ (S l) (push_item (IBranch c (S l) None) bl)).
  assert (Hhl : h !! l = Some bl').
  { erewrite Hlk; [|unfold g1; by rewrite list_lookup_alter, Hbl].
    rewrite decide_True by set_solver. rewrite Hlg. by rewrite close_branch_true. }
  assert (Hho : forall i b, i <> l -> g !! i = Some b -> h !! i = Some b).
  { intros i b Hil Hb. erewrite Hlk; [|unfold g1; by rewrite list_lookup_alter_ne].
    rewrite decide_False by set_solver. done. }
  assert (Hnew : (h ++ [nb]) !! length g = Some nb).
  { rewrite lookup_app_r by lia. replace (length g - length h) with 0 by lia. done. }
  split; [|split; [done|split; [|split; [|split]]]].
  - split; rewrite Hlen'; simpl; rewrite Nat.sub_0_r.
    + eapply (wf_add_block g h nb _ _ [l]); try done.
      * intros i b Hb. destruct (decide (i = l)) as [->|Hil].
        -- rewrite Hbl in Hb. injection Hb as <-. exists bl'. split; [done|]. split; [done|]. split.
           { intros y. unfold bl'. simpl. rewrite Hsl, Hlg. set_solver. }
           destruct Hokl as [H1 H2 H3 H4 H5 H6 H7]. split; simpl; try done.
           ++ rewrite Hsl. apply ssorted_singleton.
           ++ intros k c0 t f Hk. rewrite app_length. simpl.
              apply lookup_app_Some in Hk as [Hk|[Hge Hk]].
              ** exfalso. eapply (plain_no_branch _ _ _ bl); [|done|done]. by split.
              ** destruct (k - length (b_items bl)) as [|[|]] eqn:E; simpl in Hk; try discriminate. lia.
           ++ unfold shape. simpl. rewrite last_snoc. split; [done|]. split; [lia|]. left.
              split; [left; by right|]. split; [done|]. intros y. rewrite Hsl. set_solver.
        -- exists b. split; [by apply Hho|]. split; [done|]. split; [set_solver|].
           eapply blk_ok_ext; [| |by apply (wf_blk _ _ Hwf)]; [lia|].
           assert (i < length g) by (by eapply lookup_lt_Some). naive_solver lia.
      * eapply new_block_ok; try done.
        -- intros i Hi. apply elem_of_list_singleton in Hi as ->. lia.
        -- lia.
        -- by right.
      * intros i Hi. apply elem_of_list_singleton in Hi as ->. lia.
      * intros i [[Hi| ->]| ->]; [|lia..]. specialize (HP0 _ Hi). lia.
    + intros i [Hi| ->]; [|lia]. specialize (HP0 _ Hi). lia.
    + exists nb. split; [done|]. split; [|done]. intros c0 t f. by rewrite N3.
  - rewrite graph_items_snoc. unfold bitems at 1. rewrite N3. simpl. rewrite app_nil_r.
    destruct (graph_last_split g Hne) as (g0 & b & Hg & Hl0 & Hb).
    fold l in Hb, Hl0. rewrite Hbl in Hb. injection Hb as <-.
    assert (Hh : h = g0 ++ [bl']).
    { apply list_eq. intros i. destruct (decide (i = l)) as [->|Hil].
      - rewrite Hhl. rewrite lookup_app_r by lia. by replace (l - length g0) with 0 by lia.
      - destruct (g !! i) as [b|] eqn:E.
        + rewrite (Hho _ _ Hil E). rewrite Hg in E.
          apply lookup_app_Some in E as [E|[Hge E]]; [by rewrite lookup_app_l by (by eapply lookup_lt_Some)|].
          destruct (i - length g0) as [|[|]] eqn:E'; simpl in E; try discriminate. lia.
        + apply lookup_ge_None in E. rewrite !(proj2 (lookup_ge_None _ _)); [done|..].
          * rewrite app_length. simpl. lia.
          * lia. }
    rewrite Hh, Hg, !graph_items_snoc, <- app_assoc. f_equal.
    unfold bitems, bl'. simpl. rewrite map_app. simpl. by rewrite Hd.
  - intros i b Hb. destruct (decide (i = l)) as [->|Hil].
    + rewrite Hbl in Hb. injection Hb as <-. exists bl'. split.
      * rewrite lookup_app_l by lia. done.
      * eapply bext_trans; [apply (bext_push (IBranch c (S l) None)); done|apply bext_add_succ].
    + exists b. split; [|apply bext_refl]. rewrite lookup_app_l; [by apply Hho|].
      rewrite Hlen. by eapply lookup_lt_Some.
  - exists bl, bl'. split; [done|]. split; [rewrite lookup_app_l by lia; done|]. unfold bl'. simpl.
    rewrite Hsl, Hlg. done.
  - exists nb. done.
Qed.

(* ---------------- closing a loop body: back edges to the header ---------------- *)
Lemma step_back g h ps P0 g' :
  wf g (fun i => P0 i \/ i = h \/ i ∈ ps) -> ssorted ps -> 0 < h ->
  (forall i, i ∈ ps -> h < i /\ ~ P0 i) ->
  fold_left (back_edge h) ps (Ok g) = Ok g' ->
  wf g' (fun i => P0 i \/ i = h) /\ length g' = length g /\ graph_items g' = graph_items g /\ gext g g' /\
  (forall i b, g !! i = Some b -> i ∈ ps -> g' !! i = Some (add_succ h b)) /\
  (forall i b, g !! i = Some b -> i ∉ ps -> exists b', g' !! i = Some b' /\ b_items b' = b_items b /\ b_succs b' = b_succs b).
Proof.
  intros Hwf Hss Hh Hps Hf.
  assert (Hhl : h < length g) by (apply (wf_P _ _ Hwf); right; by left).
  destruct (back_fold h ps g Hhl) as (g'' & Hf' & Hlen & Hlk).
  { intros i Hi. split; [apply (wf_P _ _ Hwf); right; by right|]. destruct (Hps _ Hi). lia. }
  { by apply ssorted_NoDup. }
  rewrite Hf' in Hf. injection Hf as <-.
  assert (Hnot : h ∉ ps) by (intros Hi; destruct (Hps _ Hi); lia).
  split; [|split; [done|split; [|split; [|split]]]].
  - destruct Hwf as [W1 W2 W3 W4].
    assert (Hback : forall i b', g'' !! i = Some b' -> exists b, g !! i = Some b /\
              b' = (if decide (i = h) then add_preds ps b else if decide (i ∈ ps) then add_succ h b else b)).
    { intros i b' Hb'. destruct (lookup_lt_is_Some_2 g i) as (b & Hb).
      - rewrite <- Hlen. by eapply lookup_lt_Some.
      - exists b. split; [done|]. rewrite (Hlk _ _ Hb) in Hb'. by injection Hb' as <-. }
    split; [|intros i j bi' Hi Hj|intros i j bj' Hj Hi|].
    + intros i b' Hb'. rewrite Hlen. destruct (Hback _ _ Hb') as (b & Hb & ->).
      specialize (W1 _ _ Hb). case_decide as E1; [subst i|case_decide as E2].
      * apply blk_ok_add_preds; [|done]. eapply blk_ok_ext; [| |done]; [done|]. naive_solver.
      * eapply blk_ok_back; [done|right; by right| |by apply Hps].
        intros [?| ->]; [by eapply Hps|done].
      * eapply blk_ok_ext; [| |done]; [done|]. naive_solver.
    + destruct (Hback _ _ Hi) as (bi & Hbi & ->).
      assert (Hj' : j ∈ b_succs bi \/ (j = h /\ i ∈ ps)).
      { case_decide as E1; [|case_decide as E2].
        - left. destruct (add_preds_spec ps bi) as (_ & _ & _ & E4 & _). by rewrite E4 in Hj.
        - simpl in Hj. apply elem_of_ins in Hj as [->|?]; [right|left]; done.
        - by left. }
      destruct Hj' as [Hj'|[-> Hin]].
      * destruct (W2 _ _ _ Hbi Hj') as (bj & Hbj & Hin). eexists. split; [by apply Hlk|].
        destruct (decide (j = h)); [|destruct (decide (j ∈ ps))]; try done.
        destruct (add_preds_spec ps bj) as (_ & _ & _ & _ & E5 & _). apply E5. by left.
      * destruct (lookup_lt_is_Some_2 g h Hhl) as (bh & Hbh). eexists. split; [by apply Hlk|].
        rewrite decide_True by done.
        destruct (add_preds_spec ps bh) as (_ & _ & _ & _ & E5 & _). apply E5. by right.
    + destruct (Hback _ _ Hj) as (bj & Hbj & ->).
      assert (Hi' : i ∈ b_preds bj \/ (j = h /\ i ∈ ps)).
      { case_decide as E1; [|case_decide as E2].
        - destruct (add_preds_spec ps bj) as (_ & _ & _ & _ & E5 & _). apply E5 in Hi as [?|?]; [by left|by right].
        - by left.
        - by left. }
      destruct Hi' as [Hi'|[-> Hin]].
      * destruct (W3 _ _ _ Hbj Hi') as (bi & Hbi & Hin). eexists. split; [by apply Hlk|].
        destruct (decide (i = h)); [|destruct (decide (i ∈ ps))]; try done.
        -- destruct (add_preds_spec ps bi) as (_ & _ & _ & E4 & _). by rewrite E4.
        -- simpl. apply elem_of_ins. by right.
      * destruct (lookup_lt_is_Some_2 g i) as (bi & Hbi); [apply W4; right; by right|].
        eexists. split; [by apply Hlk|]. rewrite decide_False by (intros ->; done).
        rewrite decide_True by done. simpl. apply elem_of_ins. by left.
    + intros i [Hi| ->]; rewrite Hlen; [apply W4; by left|done].
  - apply graph_items_same; [done|]. intros i b Hb. eexists. split; [by apply Hlk|].
    case_decide; [|case_decide]; try done.
    destruct (add_preds_spec ps b) as (_ & E2 & E3 & _). unfold bitems. by rewrite E2, E3.
  - intros i b Hb. eexists. split; [by apply Hlk|].
    case_decide; [apply bext_add_preds|case_decide; [apply bext_add_succ|apply bext_refl]].
  - intros i b Hb Hi. rewrite (Hlk _ _ Hb). rewrite decide_False by (intros ->; done).
    by rewrite decide_True.
  - intros i b Hb Hi. eexists. split; [by apply Hlk|]. case_decide; [|by rewrite decide_False].
    destruct (add_preds_spec ps b) as (_ & _ & E3 & E4 & _). done.
Qed.

(* ---------------- lookups of the macro steps (frame facts, used by C13) ---------------- *)
Lemma complete_lookup g ps d g' :
  (forall i, i ∈ ps -> i < length g) -> NoDup ps -> complete g ps d = Ok g' ->
  length g' = S (length g) /\
  (forall i b, g !! i = Some b -> g' !! i = Some (if decide (i ∈ ps) then close (length g) b else b)) /\
  exists nb, g' !! length g = Some nb /\ b_items nb = [].
Proof.
  intros H1 H2 Hc. destruct (complete_spec g ps d H1 H2) as (h & nb & Hc' & Hlen & Hlk & N1 & N2 & N3 & _).
  rewrite Hc' in Hc. injection Hc as <-. split; [rewrite app_length; simpl; lia|]. split.
  - intros i b Hb. rewrite lookup_app_l; [by apply Hlk|]. rewrite Hlen. by eapply lookup_lt_Some.
  - exists nb. split; [|done]. rewrite lookup_app_r by lia. by replace (length g - length h) with 0 by lia.
Qed.

Lemma frame_complete g ps d g' i :
  (forall k, k ∈ ps -> k < length g) -> NoDup ps -> complete g ps d = Ok g' ->
  i ∉ ps -> i < length g -> g' !! i = g !! i.
Proof.
  intros H1 H2 Hc Hi Hlt. destruct (complete_lookup _ _ _ _ H1 H2 Hc) as (_ & Hlk & _).
  destruct (lookup_lt_is_Some_2 g i Hlt) as (b & Hb). rewrite Hb, (Hlk _ _ Hb).
  by rewrite decide_False.
Qed.

Lemma frame_branch g it g1 g2 d' i :
  upd_last (push_item it) g = Ok g1 -> complete g1 [length g - 1] d' = Ok g2 ->
  i < length g - 1 -> g2 !! i = g !! i.
Proof.
  intros Hu Hc Hi. apply upd_last_inv in Hu as [Hne ->].
  erewrite (frame_complete _ _ _ _ i); [| | |exact Hc| |].
  - by rewrite list_lookup_alter_ne by lia.
  - intros k Hk. apply elem_of_list_singleton in Hk as ->. rewrite alter_length. lia.
  - apply NoDup_singleton.
  - intros Hk. apply elem_of_list_singleton in Hk. lia.
  - rewrite alter_length. lia.
Qed.

Lemma back_lookup h ps g g' :
  h < length g -> (forall i, i ∈ ps -> i < length g /\ i <> h) -> NoDup ps ->
  fold_left (back_edge h) ps (Ok g) = Ok g' ->
  length g' = length g /\
  forall i b, g !! i = Some b ->
    g' !! i = Some (if decide (i = h) then add_preds ps b
                    else if decide (i ∈ ps) then add_succ h b else b).
Proof.
  intros H1 H2 H3 Hf. destruct (back_fold h ps g H1 H2 H3) as (g'' & Hf' & Hlen & Hlk).
  rewrite Hf' in Hf. by injection Hf as <-.
Qed.
