(* Lemmas about the content-carrying lifting mirror Model.LiftFull:
   (a) skeleton agreement with Model.Lift (so that the theorems of C12/C13 about
       Model.Lift speak about the graph built here),
   (b) statement provenance (every IR statement of the graph is the image of
       exactly one statement occurrence of the body, in order, same meta),
   (c) facts about the renaming pass needed to state (a)/(b) on the body as
       handed to try_lift_impl (renaming keeps the structure and every meta). *)
From Coq Require Import ZArith NArith Ascii String.
From stdpp Require Import list.
Require Import Model.Lift Model.LiftFull Proofs.LiftBasics Proofs.LiftProofs.
Require Model.Ast Model.Ir.
Import Base(outcome, Ok, Err, Panic, OutOfFuel, bind, EOther).
Local Open Scope nat_scope.

(* ======================================================================= *)
(* 0. induction principle for statements, inversion of binds                *)
(* ======================================================================= *)
Section StmtInd.
  Variable P : Ast.statement -> Prop.
  Hypothesis HIf : forall m c i e, P i -> (forall e', e = Some e' -> P e') -> P (Ast.IfThenElse m c i e).
  Hypothesis HWhile : forall m c b, P b -> P (Ast.While m c b).
  Hypothesis HInit : forall m t l, Forall P l -> P (Ast.InitializationBlock m t l).
  Hypothesis HBlock : forall m l, Forall P l -> P (Ast.Block m l).
  Hypothesis HDecl : forall m t n d c, P (Ast.Declaration m t n d c).
  Hypothesis HOther : forall s,
    match s with
    | Ast.IfThenElse _ _ _ _ | Ast.While _ _ _ | Ast.InitializationBlock _ _ _ | Ast.Block _ _
    | Ast.Declaration _ _ _ _ _ => False
    | _ => True
    end -> P s.

  Fixpoint stmt_ind' (s : Ast.statement) : P s :=
    let list_ind := fix go (l : list Ast.statement) : Forall P l :=
      match l with
      | [] => Forall_nil_2 P
      | x :: r => Forall_cons_2 P x r (stmt_ind' x) (go r)
      end in
    match s with
    | Ast.IfThenElse m c i e =>
        HIf m c i e (stmt_ind' i)
          (match e as e0 return forall e', e0 = Some e' -> P e' with
           | Some x => fun e' H => match H in _ = y return match y with Some z => P z | None => True end
                                   with eq_refl => stmt_ind' x end
           | None => fun e' H => match H in _ = y return match y with Some z => P z | None => True end
                                 with eq_refl => I end
           end)
    | Ast.While m c b => HWhile m c b (stmt_ind' b)
    | Ast.InitializationBlock m t l => HInit m t l (list_ind l)
    | Ast.Block m l => HBlock m l (list_ind l)
    | Ast.Declaration m t n d c => HDecl m t n d c
    | Ast.Return m v => HOther (Ast.Return m v) I
    | Ast.Substitution m v a o r => HOther (Ast.Substitution m v a o r) I
    | Ast.MultiSubstitution m l o r => HOther (Ast.MultiSubstitution m l o r) I
    | Ast.ConstraintEquality m l r => HOther (Ast.ConstraintEquality m l r) I
    | Ast.LogCall m a => HOther (Ast.LogCall m a) I
    | Ast.Assert m a => HOther (Ast.Assert m a) I
    end.
End StmtInd.

Ltac inv_bind H :=
  let a := fresh "a" in let E := fresh "E" in
  apply bind_ok in H as (a & E & H).

(* ======================================================================= *)
(* 1. the inner loops of LiftFull.visit as functions                         *)
(* ======================================================================= *)
Fixpoint xvisit_seq (d : nat) (ss : list Ast.statement) (ps : list nat) (st : lstate) : outcome (lstate * list nat) :=
  match ss with
  | [] => Ok (st, ps)
  | s :: r =>
      bind (if is_nil ps then Ok (fst st) else LiftFull.complete (fst st) (lift_meta (Ast.stmt_meta s)) ps d) (fun g =>
      bind (LiftFull.visit s d (g, snd st)) (fun res => xvisit_seq d r (snd res) (fst res)))
  end.

Fixpoint xvisit_init (d : nat) (ss : list Ast.statement) (st : lstate) : outcome (lstate * list nat) :=
  match ss with
  | [] => Ok (st, [])
  | s :: r =>
      bind (LiftFull.visit s d st) (fun res =>
      if is_nil (snd res) then xvisit_init d r (fst res) else Panic LiftFull.site_init_nonempty)
  end.

Lemma xvisit_block_eq m ss d st :
  LiftFull.visit (Ast.Block m ss) d st = bind (LiftFull.last_index (fst st)) (fun _ => xvisit_seq d ss [] st).
Proof.
  simpl. apply bind_ext. intros _. generalize (@nil nat). revert st.
  induction ss as [|s r IH]; intros st ps; [done|]. simpl.
  apply bind_ext. intros g1. apply bind_ext. intros res. apply IH.
Qed.

Lemma xvisit_init_eq m t ss d st :
  LiftFull.visit (Ast.InitializationBlock m t ss) d st
  = bind (LiftFull.last_index (fst st)) (fun _ => xvisit_init d ss st).
Proof.
  simpl. apply bind_ext. intros _. revert st.
  induction ss as [|s r IH]; intros st; [done|]. simpl.
  apply bind_ext. intros res. destruct (is_nil (snd res)); [apply IH|done].
Qed.

(* the statements that are appended as they are *)
Definition plain_stmt (s : Ast.statement) : Prop :=
  match s with
  | Ast.IfThenElse _ _ _ _ | Ast.While _ _ _ | Ast.InitializationBlock _ _ _ | Ast.Block _ _
  | Ast.Declaration _ _ _ _ _ => False
  | _ => True
  end.

Lemma visit_plain_eq s d st : plain_stmt s ->
  LiftFull.visit s d st =
  bind (LiftFull.last_index (fst st)) (fun _ =>
  bind (lift_stmt s) (fun x =>
  bind (LiftFull.upd_last (push_stmt x) (fst st)) (fun g => Ok ((g, snd st), [])))).
Proof. destruct s; simpl; intros H; try done. Qed.

(* ======================================================================= *)
(* 2. (a) skeleton agreement                                                 *)
(* ======================================================================= *)
Section Skeleton.
  Context (key : Ir.meta -> nat).
  Notation er := (map (skel_block key)).

  Definition er_out (m : outcome xgraph) : outcome graph :=
    match m with Ok g => Ok (er g) | Err e => Err e | Panic s => Panic s | OutOfFuel => OutOfFuel end.

  Lemma er_last_index g : Lift.last_index (er g) = LiftFull.last_index g.
  Proof.
    unfold Lift.last_index, LiftFull.last_index. rewrite fmap_last.
    destruct (last g); done.
  Qed.

  Lemma er_upd site i f f' g :
    (forall b, skel_block key (f b) = f' (skel_block key b)) ->
    Lift.upd site i f' (er g) = er_out (LiftFull.upd site i f g).
  Proof.
    intros Hf. unfold Lift.upd, LiftFull.upd. rewrite list_lookup_fmap.
    destruct (g !! i) eqn:E; simpl; [|done].
    f_equal. symmetry. apply list_alter_fmap. apply Forall_forall. intros b _. apply Hf.
  Qed.

  Lemma er_upd_last f f' g :
    (forall b, skel_block key (f b) = f' (skel_block key b)) ->
    Lift.upd_last f' (er g) = er_out (LiftFull.upd_last f g).
  Proof.
    intros Hf. unfold Lift.upd_last, LiftFull.upd_last. destruct g as [|b g]; [done|].
    change (er (b :: g)) with (skel_block key b :: er g) at 1. cbn [er_out]. f_equal.
    rewrite map_length. symmetry. apply list_alter_fmap. apply Forall_forall. intros x _. apply Hf.
  Qed.

  Lemma skel_add_succ j b : skel_block key (LiftFull.add_succ j b) = Lift.add_succ j (skel_block key b).
  Proof. done. Qed.
  Lemma skel_add_pred j b : skel_block key (LiftFull.add_pred j b) = Lift.add_pred j (skel_block key b).
  Proof. done. Qed.

  Lemma skel_patch_stmt j x : skel_item key (patch_stmt j x) = patch_item j (skel_item key x).
  Proof.
    destruct x as [| m c t [f|] | | | | |]; simpl; try done.
    destruct (negb (j =? t)); done.
  Qed.

  Lemma xpatch_last_snoc j l x : LiftFull.patch_last j (l ++ [x]) = l ++ [patch_stmt j x].
  Proof.
    induction l as [|y r IH]; simpl; [done|].
    rewrite IH. destruct (r ++ [x]) eqn:E; [|done].
    destruct r; discriminate.
  Qed.

  Lemma skel_patch_last j l : map (skel_item key) (LiftFull.patch_last j l) = Lift.patch_last j (map (skel_item key) l).
  Proof.
    destruct (list_snoc_cases l) as [->|(l' & x & ->)]; [done|].
    rewrite xpatch_last_snoc, !map_app. simpl. rewrite patch_last_snoc, skel_patch_stmt. done.
  Qed.

  Lemma skel_patch_false j b : skel_block key (LiftFull.patch_false j b) = Lift.patch_false j (skel_block key b).
  Proof. unfold skel_block, LiftFull.patch_false, Lift.patch_false. simpl. by rewrite skel_patch_last. Qed.

  Lemma skel_push x b : skel_block key (push_stmt x b) = push_item (skel_item key x) (skel_block key b).
  Proof. unfold skel_block, push_stmt, push_item. simpl. by rewrite map_app. Qed.

  Lemma er_out_bind (m : outcome xgraph) (f : xgraph -> outcome xgraph) (f' : graph -> outcome graph) :
    (forall g, f' (er g) = er_out (f g)) ->
    bind (er_out m) f' = er_out (bind m f).
  Proof. intros H. destruct m; simpl; auto. Qed.

  Lemma er_link j acc i : Lift.link j (er_out acc) i = er_out (LiftFull.link j acc i).
  Proof.
    unfold Lift.link, LiftFull.link. apply er_out_bind. intros g.
    rewrite (er_upd _ _ (LiftFull.add_succ j) (Lift.add_succ j)) by apply skel_add_succ.
    apply er_out_bind. intros g1.
    rewrite (er_upd _ _ (LiftFull.add_pred i) (Lift.add_pred i)) by apply skel_add_pred.
    apply er_out_bind. intros g2.
    apply er_upd. apply skel_patch_false.
  Qed.

  Lemma er_fold_link j ps acc :
    fold_left (Lift.link j) ps (er_out acc) = er_out (fold_left (LiftFull.link j) ps acc).
  Proof. revert acc. induction ps as [|i r IH]; intros acc; [done|]. simpl. rewrite er_link. apply IH. Qed.

  Lemma er_complete g m ps d : Lift.complete (er g) ps d = er_out (LiftFull.complete g m ps d).
  Proof.
    unfold Lift.complete, LiftFull.complete. rewrite map_length.
    rewrite <- er_fold_link. f_equal. simpl. by rewrite map_app.
  Qed.

  Lemma er_back_edge h acc i : Lift.back_edge h (er_out acc) i = er_out (LiftFull.back_edge h acc i).
  Proof.
    unfold Lift.back_edge, LiftFull.back_edge. apply er_out_bind. intros g.
    rewrite (er_upd _ _ (LiftFull.add_succ h) (Lift.add_succ h)) by apply skel_add_succ.
    apply er_out_bind. intros g1.
    apply er_upd. apply skel_add_pred.
  Qed.

  Lemma er_fold_back h ps acc :
    fold_left (Lift.back_edge h) ps (er_out acc) = er_out (fold_left (LiftFull.back_edge h) ps acc).
  Proof. revert acc. induction ps as [|i r IH]; intros acc; [done|]. simpl. rewrite er_back_edge. apply IH. Qed.

  Lemma er_or_last g ps : Lift.or_last (er g) ps = LiftFull.or_last g ps.
  Proof. unfold Lift.or_last, LiftFull.or_last. by rewrite er_last_index. Qed.

  (* the simulation statement for one statement *)
  Definition sim (s : Ast.statement) : Prop :=
    forall d st res, LiftFull.visit s d st = Ok res ->
      Lift.visit (skel key s) d (er (fst st)) = Ok (er (fst (fst res)), snd res).

  Lemma er_out_ok m g : m = Ok g -> er_out m = Ok (er g).
  Proof. by intros ->. Qed.

  Ltac use_sim H E :=
    let Hs := fresh "Hs" in pose proof (H _ _ _ E) as Hs; cbn [fst snd] in Hs; rewrite Hs; clear Hs.

  Lemma sim_seq ss : Forall sim ss ->
    forall d ps st res, xvisit_seq d ss ps st = Ok res ->
      visit_seq d (map (skel key) ss) ps (er (fst st)) = Ok (er (fst (fst res)), snd res).
  Proof.
    induction 1 as [|s r Hs Hr IH]; intros d ps st res Hv.
    - simpl in Hv. injection Hv as <-. done.
    - simpl in Hv. inv_bind Hv. inv_bind Hv. simpl.
      assert (Hg : (if is_nil ps then Ok (er (fst st)) else Lift.complete (er (fst st)) ps d) = Ok (er a)).
      { destruct (is_nil ps).
        - by injection E as <-.
        - rewrite (er_complete _ (lift_meta (Ast.stmt_meta s))). by apply er_out_ok. }
      rewrite Hg. cbn [bind]. use_sim Hs E0. cbn [bind]. apply IH. exact Hv.
  Qed.

  Lemma sim_init ss : Forall sim ss ->
    forall d st res, xvisit_init d ss st = Ok res ->
      visit_init d (map (skel key) ss) (er (fst st)) = Ok (er (fst (fst res)), snd res).
  Proof.
    induction 1 as [|s r Hs Hr IH]; intros d st res Hv.
    - simpl in Hv. injection Hv as <-. done.
    - simpl in Hv. inv_bind Hv. simpl. use_sim Hs E. cbn [bind fst snd].
      destruct (is_nil (snd a)); [|done]. apply IH. exact Hv.
  Qed.

  Lemma skel_block_eq m ss : skel key (Ast.Block m ss) = SBlock (map (skel key) ss).
  Proof. done. Qed.
  Lemma skel_init_eq m t ss : skel key (Ast.InitializationBlock m t ss) = SInit (map (skel key) ss).
  Proof. done. Qed.

  Lemma skel_item_lift_stmt s x : lift_stmt s = Ok x -> plain_stmt s \/ (exists m t n dd c, s = Ast.Declaration m t n dd c) ->
    skel_item key x = ILeaf (key (lift_meta (Ast.stmt_meta s))).
  Proof.
    intros Hl Hs. destruct s; simpl in Hl; try done;
      repeat (let a := fresh "a" in let E := fresh "E" in apply bind_ok in Hl as (a & E & Hl));
      injection Hl as <-; done.
  Qed.

  Lemma sim_all s : sim s.
  Proof.
    induction s as [m c t e IHt IHe|m c body IH|m t ss IH|m ss IH|m t n dd cst|s Hplain] using stmt_ind';
      intros d st res Hv.
    - (* if *)
      simpl in Hv. inv_bind Hv. rename a into cur. inv_bind Hv. rename a into c'. inv_bind Hv. inv_bind Hv.
      inv_bind Hv. rename a1 into rt. inv_bind Hv. rename a1 into ps_if.
      cbn [skel Lift.visit]. rewrite er_last_index, E. cbn [bind].
      rewrite (er_upd_last (push_stmt (XIf (lift_meta m) c' (cur + 1) None))
                 (push_item (IBranch (key (lift_meta m)) (cur + 1) None))) by (intros b; apply skel_push).
      rewrite (er_out_ok _ _ E1). cbn [bind].
      rewrite (er_complete _ (lift_meta (Ast.stmt_meta t))), (er_out_ok _ _ E2). cbn [bind].
      use_sim IHt E3. cbn [bind fst snd].
      rewrite er_or_last, E4. cbn [bind].
      destruct e as [e|]; cbn [option_map].
      + inv_bind Hv. inv_bind Hv. rename a2 into re. inv_bind Hv. injection Hv as <-.
        rewrite (er_complete _ (lift_meta (Ast.stmt_meta e))), (er_out_ok _ _ E5). cbn [bind].
        use_sim (IHe e eq_refl) E6. cbn [bind fst snd].
        rewrite er_or_last, E7. done.
      + injection Hv as <-. done.
    - (* while *)
      simpl in Hv. inv_bind Hv. rename a into cur. inv_bind Hv. inv_bind Hv. rename a0 into c'. inv_bind Hv.
      inv_bind Hv. inv_bind Hv. rename a2 into rb. inv_bind Hv. rename a2 into ps. inv_bind Hv. injection Hv as <-.
      cbn [skel Lift.visit]. rewrite er_last_index, E. cbn [bind].
      rewrite (er_complete _ (lift_meta m)), (er_out_ok _ _ E0). cbn [bind].
      rewrite (er_upd_last (push_stmt (XIf (lift_meta m) c' (cur + 2) None))
                 (push_item (IBranch (key (lift_meta m)) (cur + 2) None))) by (intros b; apply skel_push).
      rewrite (er_out_ok _ _ E2). cbn [bind].
      rewrite (er_complete _ (lift_meta (Ast.stmt_meta body))), (er_out_ok _ _ E3). cbn [bind].
      use_sim IH E4. cbn [bind fst snd].
      rewrite er_or_last, E5. cbn [bind].
      change (Ok (er (fst (fst rb)))) with (er_out (Ok (fst (fst rb)))).
      rewrite er_fold_back, E6. done.
    - (* initialization block *)
      rewrite xvisit_init_eq in Hv. inv_bind Hv.
      rewrite skel_init_eq, visit_init_eq, er_last_index, E. cbn [bind].
      by apply sim_init.
    - (* block *)
      rewrite xvisit_block_eq in Hv. inv_bind Hv.
      rewrite skel_block_eq, visit_block_eq, er_last_index, E. cbn [bind].
      by apply sim_seq.
    - (* declaration *)
      simpl in Hv. inv_bind Hv. inv_bind Hv. inv_bind Hv. inv_bind Hv. inv_bind Hv. rename a3 into x. inv_bind Hv.
      injection Hv as <-.
      assert (Hx : skel_item key x = ILeaf (key (lift_meta m))).
      { apply (skel_item_lift_stmt (Ast.Declaration m t n dd cst) x); [exact E3|]. right. by exists m, t, n, dd, cst. }
      cbn [skel Lift.visit Ast.stmt_meta]. rewrite er_last_index, E. cbn [bind]. rewrite <- Hx.
      rewrite (er_upd_last (push_stmt x) (push_item (skel_item key x))) by (intros b; apply skel_push).
      rewrite (er_out_ok _ _ E4). done.
    - (* other leaves *)
      rewrite (visit_plain_eq _ _ _ Hplain) in Hv. inv_bind Hv. inv_bind Hv. rename a0 into x. inv_bind Hv.
      injection Hv as <-.
      assert (Hsk : skel key s = SLeaf (key (lift_meta (Ast.stmt_meta s))) (is_return s)) by (destruct s; done).
      assert (Hx : skel_item key x = ILeaf (key (lift_meta (Ast.stmt_meta s)))).
      { apply (skel_item_lift_stmt s x); [exact E0|by left]. }
      rewrite Hsk. cbn [Lift.visit]. rewrite er_last_index, E. cbn [bind]. rewrite <- Hx.
      rewrite (er_upd_last (push_stmt x) (push_item (skel_item key x))) by (intros b; apply skel_push).
      rewrite (er_out_ok _ _ E1). done.
  Qed.

  (* build_basic_blocks *)
  Lemma build_skeleton body ds st :
    build_basic_blocks body ds = Ok st -> Lift.lift (skel key body) = Ok (er (fst st)).
  Proof.
    unfold build_basic_blocks. destruct body; try done. intros Hb. inv_bind Hb. injection Hb as <-.
    pose proof (sim_all _ _ _ _ E) as Hs. rewrite skel_block_eq in Hs |- *.
    unfold Lift.lift. change (er (fst ([new_block (lift_meta m) 0 0], ds))) with [Lift.new_block 0 0] in Hs.
    rewrite Hs. done.
  Qed.
End Skeleton.

(* ======================================================================= *)
(* 3. the renaming pass keeps the structure, the kinds and every meta       *)
(* ======================================================================= *)
(* what a statement occurrence is identified by: its kind (with the assignment
   operator of a substitution) and its meta *)
Inductive skind :=
| KIf | KWhile | KRet | KInit | KDecl | KSub (op : Ast.assign_op) | KMSub | KCeq | KLog | KBlock | KAssert.

Definition stmt_kind (s : Ast.statement) : skind :=
  match s with
  | Ast.IfThenElse _ _ _ _ => KIf | Ast.While _ _ _ => KWhile | Ast.Return _ _ => KRet
  | Ast.InitializationBlock _ _ _ => KInit | Ast.Declaration _ _ _ _ _ => KDecl
  | Ast.Substitution _ _ _ op _ => KSub op | Ast.MultiSubstitution _ _ _ _ => KMSub
  | Ast.ConstraintEquality _ _ _ => KCeq | Ast.LogCall _ _ => KLog | Ast.Block _ _ => KBlock
  | Ast.Assert _ _ => KAssert
  end.

Definition hdr (s : Ast.statement) : skind * Ast.meta := (stmt_kind s, Ast.stmt_meta s).

(* s' is s with other names *)
Definition same (s s' : Ast.statement) : Prop :=
  (forall key, skel key s' = skel key s) /\ map hdr (lifted_stmts s') = map hdr (lifted_stmts s) /\ hdr s' = hdr s.

Lemma ren_block_eq m ss st :
  ren_stmt (Ast.Block m ss) st =
  bind (ren_stmts ss (denv_add_block (fst st), snd st)) (fun r =>
  bind (denv_remove_block (fst (snd r))) (fun env => Ok (Ast.Block m (fst r), (env, snd (snd r))))).
Proof. reflexivity. Qed.

Lemma ren_init_eq m t ss st :
  ren_stmt (Ast.InitializationBlock m t ss) st =
  bind (ren_stmts ss st) (fun r => Ok (Ast.InitializationBlock m t (fst r), snd r)).
Proof. reflexivity. Qed.

Definition ren_same (s : Ast.statement) : Prop := forall st r, ren_stmt s st = Ok r -> same s (fst r).

Lemma ren_stmts_same ss : Forall ren_same ss -> forall st r, ren_stmts ss st = Ok r -> Forall2 same ss (fst r).
Proof.
  induction 1 as [|s l Hs Hl IH]; intros st r Hr; simpl in Hr.
  - injection Hr as <-. constructor.
  - inv_bind Hr. inv_bind Hr. injection Hr as <-. simpl. constructor; [by eapply Hs|by eapply IH].
Qed.

Lemma same_lists ss ss' : Forall2 same ss ss' ->
  (forall key, map (skel key) ss' = map (skel key) ss) /\
  map hdr (flat_map lifted_stmts ss') = map hdr (flat_map lifted_stmts ss).
Proof.
  induction 1 as [|s s' l l' (H1 & H2 & H3) Hl [IH1 IH2]]; [done|]. split.
  - intros key. simpl. by rewrite H1, IH1.
  - simpl. by rewrite !map_app, H2, IH2.
Qed.

Lemma ren_same_all s : ren_same s.
Proof.
  induction s as [m c t e IHt IHe|m c body IH|m t ss IH|m ss IH|m t n dd cst|s Hplain] using stmt_ind';
    intros st r Hr.
  - simpl in Hr. inv_bind Hr. destruct (IHt _ _ E) as (T1 & T2 & T3). destruct e as [e|].
    + inv_bind Hr. injection Hr as <-. destruct (IHe e eq_refl _ _ E0) as (E1 & E2 & E3).
      split; [|split]; [| |done].
      * intros key. simpl. by rewrite T1, E1.
      * simpl. by rewrite !map_app, T2, E2.
    + injection Hr as <-. split; [|split]; [| |done].
      * intros key. simpl. by rewrite T1.
      * simpl. by rewrite !map_app, T2.
  - simpl in Hr. inv_bind Hr. injection Hr as <-. destruct (IH _ _ E) as (T1 & T2 & T3).
    split; [|split]; [| |done].
    + intros key. simpl. by rewrite T1.
    + simpl. by rewrite T2.
  - rewrite ren_init_eq in Hr. inv_bind Hr. injection Hr as <-.
    destruct (same_lists _ _ (ren_stmts_same ss IH _ _ E)) as [L1 L2].
    split; [|split]; [| |done].
    + intros key. simpl. by rewrite L1.
    + exact L2.
  - rewrite ren_block_eq in Hr. inv_bind Hr. inv_bind Hr. injection Hr as <-.
    destruct (same_lists _ _ (ren_stmts_same ss IH _ _ E)) as [L1 L2].
    split; [|split]; [| |done].
    + intros key. simpl. by rewrite L1.
    + exact L2.
  - simpl in Hr. inv_bind Hr. destruct (fst a); injection Hr as <-; done.
  - destruct s; try done; simpl in Hr; injection Hr as <-; done.
Qed.

Lemma ensure_unique_same params pfile ploc body u :
  ensure_unique_variables params pfile ploc body = Ok u -> same body (fst u).
Proof.
  unfold ensure_unique_variables. destruct (negb (is_block body)); [done|]. intros H.
  inv_bind H. inv_bind H. injection H as <-. by eapply ren_same_all.
Qed.

(* ======================================================================= *)
(* 4. (b) statement provenance                                               *)
(* ======================================================================= *)
(* an IfThenElse statement is created with an empty false target, which
   complete_basic_block may fill in later: statements are compared up to it *)
Definition unpatch (x : xstmt) : xstmt :=
  match x with XIf m c t _ => XIf m c t None | _ => x end.

Definition U (g : xgraph) : list xstmt := map unpatch (graph_stmts g).

(* x is what lifting makes of the statement s itself (not of its sub-statements) *)
Definition image0 (s : Ast.statement) (x : xstmt) : Prop :=
  match s with
  | Ast.While m c _ | Ast.IfThenElse m c _ _ =>
      exists c' t, lift_expr c = Ok c' /\ x = XIf (lift_meta m) c' t None
  | _ => lift_stmt s = Ok x
  end.

Lemma unpatch_patch j x : unpatch (patch_stmt j x) = unpatch x.
Proof. destruct x as [| m c t [f|] | | | | |]; simpl; try done. destruct (negb (j =? t)); done. Qed.

Lemma xpatch_last_snoc' j l x : LiftFull.patch_last j (l ++ [x]) = l ++ [patch_stmt j x].
Proof.
  induction l as [|y r IH]; simpl; [done|].
  rewrite IH. destruct (r ++ [x]) eqn:E; [|done].
  destruct r; discriminate.
Qed.

Lemma unpatch_patch_last j l : map unpatch (LiftFull.patch_last j l) = map unpatch l.
Proof.
  destruct (list_snoc_cases l) as [->|(l' & x & ->)]; [done|].
  by rewrite xpatch_last_snoc', !map_app, (map_cons _ (patch_stmt j x)), unpatch_patch.
Qed.

Lemma unpatch_lift_stmt s x : lift_stmt s = Ok x -> unpatch x = x.
Proof.
  destruct s; simpl; intros Hl; try done;
    repeat (let a := fresh "a" in let E := fresh "E" in apply bind_ok in Hl as (a & E & Hl));
    injection Hl as <-; done.
Qed.

(* block updates that keep the statements (up to false targets) keep U *)
Definition keeps (f : xblock -> xblock) : Prop :=
  forall b, map unpatch (xb_stmts (f b)) = map unpatch (xb_stmts b).

Lemma keeps_add_succ j : keeps (LiftFull.add_succ j). Proof. done. Qed.
Lemma keeps_add_pred j : keeps (LiftFull.add_pred j). Proof. done. Qed.
Lemma keeps_patch_false j : keeps (LiftFull.patch_false j).
Proof. intros b. apply unpatch_patch_last. Qed.

Lemma U_cons b g : U (b :: g) = map unpatch (xb_stmts b) ++ U g.
Proof. unfold U, graph_stmts. simpl. by rewrite map_app. Qed.

Lemma U_app g1 g2 : U (g1 ++ g2) = U g1 ++ U g2.
Proof. induction g1 as [|b g IH]; [done|]. simpl. by rewrite !U_cons, IH, app_assoc. Qed.

Lemma U_alter f i g : keeps f -> U (alter f i g) = U g.
Proof.
  intros Hf. revert i. induction g as [|b g IH]; intros [|i]; try done.
  - change (alter f 0 (b :: g)) with (f b :: g). by rewrite !U_cons, Hf.
  - change (alter f (S i) (b :: g)) with (b :: alter f i g). by rewrite !U_cons, IH.
Qed.

Lemma U_upd site i f g g' : keeps f -> LiftFull.upd site i f g = Ok g' -> U g' = U g.
Proof.
  intros Hf. unfold LiftFull.upd. destruct (g !! i); [|done]. intros [= <-]. by apply U_alter.
Qed.

Lemma U_link j acc i g' : LiftFull.link j acc i = Ok g' -> exists g, acc = Ok g /\ U g' = U g.
Proof.
  unfold LiftFull.link. intros H. inv_bind H. inv_bind H. inv_bind H.
  exists a. split; [done|].
  rewrite (U_upd _ _ _ _ _ (keeps_patch_false j) H), (U_upd _ _ _ _ _ (keeps_add_pred i) E1).
  exact (U_upd _ _ _ _ _ (keeps_add_succ j) E0).
Qed.

Lemma U_fold_link j ps acc g' :
  fold_left (LiftFull.link j) ps acc = Ok g' -> exists g, acc = Ok g /\ U g' = U g.
Proof.
  revert acc. induction ps as [|i r IH]; intros acc H; simpl in H; [eauto|].
  destruct (IH _ H) as (g1 & H1 & H2). destruct (U_link _ _ _ _ H1) as (g & -> & H3).
  exists g. split; [done|]. by rewrite H2.
Qed.

Lemma U_complete g m ps d g' : LiftFull.complete g m ps d = Ok g' -> U g' = U g.
Proof.
  unfold LiftFull.complete. intros H. destruct (U_fold_link _ _ _ _ H) as (g0 & [= <-] & ->).
  rewrite U_app. unfold U at 2. simpl. by rewrite app_nil_r.
Qed.

Lemma U_back_edge h acc i g' : LiftFull.back_edge h acc i = Ok g' -> exists g, acc = Ok g /\ U g' = U g.
Proof.
  unfold LiftFull.back_edge. intros H. inv_bind H. inv_bind H.
  exists a. split; [done|].
  rewrite (U_upd _ _ _ _ _ (keeps_add_pred i) H). exact (U_upd _ _ _ _ _ (keeps_add_succ h) E0).
Qed.

Lemma U_fold_back h ps acc g' :
  fold_left (LiftFull.back_edge h) ps acc = Ok g' -> exists g, acc = Ok g /\ U g' = U g.
Proof.
  revert acc. induction ps as [|i r IH]; intros acc H; simpl in H; [eauto|].
  destruct (IH _ H) as (g1 & H1 & H2). destruct (U_back_edge _ _ _ _ H1) as (g & -> & H3).
  exists g. split; [done|]. by rewrite H2.
Qed.

Lemma U_push x g g' : LiftFull.upd_last (push_stmt x) g = Ok g' -> U g' = U g ++ [unpatch x].
Proof.
  unfold LiftFull.upd_last. destruct (list_snoc_cases g) as [->|(l & b & ->)]; [done|].
  destruct (l ++ [b]) eqn:E; [by destruct l|]. rewrite <- E. intros [= <-].
  rewrite app_length. simpl. replace (length l + 1 - 1) with (length l + 0) by lia.
  rewrite alter_app_r. simpl. rewrite !U_app, !U_cons. unfold U at 2 4. simpl.
  rewrite !app_nil_r, map_app. by rewrite app_assoc.
Qed.

Definition prov (s : Ast.statement) : Prop :=
  forall d st res, LiftFull.visit s d st = Ok res ->
    exists xs, U (fst (fst res)) = U (fst st) ++ xs /\ Forall2 image0 (lifted_stmts s) xs.

Lemma prov_seq ss : Forall prov ss ->
  forall d ps st res, xvisit_seq d ss ps st = Ok res ->
    exists xs, U (fst (fst res)) = U (fst st) ++ xs /\ Forall2 image0 (flat_map lifted_stmts ss) xs.
Proof.
  induction 1 as [|s r Hs Hr IH]; intros d ps st res Hv.
  - simpl in Hv. injection Hv as <-. exists []. split; [by rewrite app_nil_r|constructor].
  - simpl in Hv. inv_bind Hv. inv_bind Hv.
    assert (Ha : U a = U (fst st)).
    { destruct (is_nil ps); [by injection E as <-|by eapply U_complete]. }
    destruct (Hs _ _ _ E0) as (xs1 & H1 & F1). destruct (IH _ _ _ _ Hv) as (xs2 & H2 & F2).
    exists (xs1 ++ xs2). split.
    + rewrite H2, H1. simpl. by rewrite Ha, app_assoc.
    + simpl. by apply Forall2_app.
Qed.

Lemma prov_init ss : Forall prov ss ->
  forall d st res, xvisit_init d ss st = Ok res ->
    exists xs, U (fst (fst res)) = U (fst st) ++ xs /\ Forall2 image0 (flat_map lifted_stmts ss) xs.
Proof.
  induction 1 as [|s r Hs Hr IH]; intros d st res Hv.
  - simpl in Hv. injection Hv as <-. exists []. split; [by rewrite app_nil_r|constructor].
  - simpl in Hv. inv_bind Hv. destruct (is_nil (snd a)); [|done].
    destruct (Hs _ _ _ E) as (xs1 & H1 & F1). destruct (IH _ _ _ Hv) as (xs2 & H2 & F2).
    exists (xs1 ++ xs2). split.
    + by rewrite H2, H1, app_assoc.
    + simpl. by apply Forall2_app.
Qed.

Lemma prov_all s : prov s.
Proof.
  induction s as [m c t e IHt IHe|m c body IH|m t ss IH|m ss IH|m t n dd cst|s Hplain] using stmt_ind';
    intros d st res Hv.
  - (* if *)
    simpl in Hv. inv_bind Hv. rename a into cur. inv_bind Hv. rename a into c'. inv_bind Hv. inv_bind Hv.
    inv_bind Hv. rename a1 into rt. inv_bind Hv. rename a1 into ps_if.
    destruct (IHt _ _ _ E3) as (xt & Ht & Ft). simpl in Ht.
    rewrite (U_complete _ _ _ _ _ E2), (U_push _ _ _ E1) in Ht.
    destruct e as [e|].
    + inv_bind Hv. inv_bind Hv. rename a2 into re. inv_bind Hv. injection Hv as <-.
      destruct (IHe e eq_refl _ _ _ E6) as (xe & He & Fe). simpl in He.
      rewrite (U_complete _ _ _ _ _ E5), Ht in He.
      exists (XIf (lift_meta m) c' (cur + 1) None :: xt ++ xe). split.
      * cbn [fst snd]. rewrite He. simpl. by rewrite <- !app_assoc.
      * simpl. constructor; [by exists c', (cur + 1)|by apply Forall2_app].
    + injection Hv as <-.
      exists (XIf (lift_meta m) c' (cur + 1) None :: xt). split.
      * cbn [fst snd]. rewrite Ht. simpl. by rewrite <- !app_assoc.
      * simpl. rewrite app_nil_r. constructor; [by exists c', (cur + 1)|done].
  - (* while *)
    simpl in Hv. inv_bind Hv. rename a into cur. inv_bind Hv. inv_bind Hv. rename a0 into c'. inv_bind Hv.
    inv_bind Hv. inv_bind Hv. rename a2 into rb. inv_bind Hv. rename a2 into ps. inv_bind Hv. injection Hv as <-.
    destruct (IH _ _ _ E4) as (xb & Hb & Fb). simpl in Hb.
    rewrite (U_complete _ _ _ _ _ E3), (U_push _ _ _ E2), (U_complete _ _ _ _ _ E0) in Hb.
    destruct (U_fold_back _ _ _ _ E6) as (g0 & [= <-] & Hg).
    exists (XIf (lift_meta m) c' (cur + 2) None :: xb). split.
    + simpl. rewrite Hg, Hb. simpl. by rewrite <- !app_assoc.
    + simpl. constructor; [by exists c', (cur + 2)|done].
  - (* initialization block *)
    rewrite xvisit_init_eq in Hv. inv_bind Hv. by eapply prov_init.
  - (* block *)
    rewrite xvisit_block_eq in Hv. inv_bind Hv. by eapply prov_seq.
  - (* declaration *)
    simpl in Hv. inv_bind Hv. inv_bind Hv. inv_bind Hv. inv_bind Hv. inv_bind Hv. rename a3 into x. inv_bind Hv.
    injection Hv as <-. exists [x]. split.
    + simpl. rewrite (U_push _ _ _ E4). f_equal. f_equal.
      apply (unpatch_lift_stmt (Ast.Declaration m t n dd cst)). exact E3.
    + simpl. constructor; [exact E3|constructor].
  - (* other leaves *)
    rewrite (visit_plain_eq _ _ _ Hplain) in Hv. inv_bind Hv. inv_bind Hv. rename a0 into x. inv_bind Hv.
    injection Hv as <-. exists [x]. split.
    + simpl. rewrite (U_push _ _ _ E1). f_equal. f_equal. by apply (unpatch_lift_stmt s).
    + assert (Hl : lifted_stmts s = [s]) by (destruct s; done). rewrite Hl.
      constructor; [|constructor]. destruct s; done.
Qed.

(* ======================================================================= *)
(* 5. the theorems about try_lift_impl                                       *)
(* ======================================================================= *)
Lemma try_lift_impl_inv kind params pfile ploc body r :
  try_lift_impl kind params pfile ploc body = Ok r ->
  exists body' ds0 st,
    ensure_unique_variables params pfile ploc body = Ok (body', l_reports r) /\
    decls_of_params (map vname_plain params) pfile ploc [] = Ok ds0 /\
    build_basic_blocks body' ds0 = Ok st /\
    xc_decls (l_cfg r) = snd st /\
    xc_blocks (l_cfg r) = map (propagate_types_block (snd st)) (fst st) /\
    xc_kind (l_cfg r) = kind /\ xc_params (l_cfg r) = map vname_plain params.
Proof.
  unfold try_lift_impl. intros H. inv_bind H. inv_bind H. inv_bind H. injection H as <-.
  exists (fst a), a0, a1. destruct a. done.
Qed.

(* ---- (a) ---- *)
Lemma skel_propagate_types key ds b : skel_block key (propagate_types_block ds b) = skel_block key b.
Proof.
  unfold skel_block, propagate_types_block. simpl. f_equal. rewrite map_map.
  apply map_ext. intros x. destruct x; done.
Qed.

(* Forgetting the statement content of the graph LiftFull builds gives exactly
   the graph Model.Lift builds from the skeleton of the body (for ANY way [key]
   of naming a statement / a condition by its meta). *)
Theorem liftfull_skeleton : forall key kind params pfile ploc body r,
  try_lift_impl kind params pfile ploc body = Ok r ->
  Lift.lift (skel key body) = Ok (map (skel_block key) (xc_blocks (l_cfg r))).
Proof.
  intros key kind params pfile ploc body r H.
  destruct (try_lift_impl_inv _ _ _ _ _ _ H) as (body' & ds0 & st & Hu & _ & Hb & _ & -> & _).
  destruct (ensure_unique_same _ _ _ _ _ Hu) as (Hsk & _). simpl in Hsk.
  rewrite <- Hsk, (build_skeleton key _ _ _ Hb). f_equal.
  rewrite map_map. apply map_ext. intros b. by rewrite skel_propagate_types.
Qed.

(* ---- (b) ---- *)
Lemma build_prov body ds st : build_basic_blocks body ds = Ok st ->
  Forall2 image0 (lifted_stmts body) (U (fst st)).
Proof.
  unfold build_basic_blocks. destruct body; try done. intros H. inv_bind H. injection H as <-.
  destruct (prov_all _ _ _ _ E) as (xs & -> & F). exact F.
Qed.

(* the image of a source statement in the final graph: what lifting makes of the
   statement, then possibly a false target (complete_basic_block) and the type of
   the assigned variable (propagate_types) *)
Definition image (ds : xdecls) (s : Ast.statement) (x : xstmt) : Prop :=
  exists x0, image0 s (unpatch x0) /\ x = propagate_types_stmt ds x0.

Lemma graph_stmts_propagate ds g :
  graph_stmts (map (propagate_types_block ds) g) = map (propagate_types_stmt ds) (graph_stmts g).
Proof.
  unfold graph_stmts. induction g as [|b g IH]; [done|]. simpl. by rewrite map_app, IH.
Qed.

Lemma Forall2_map_r {A B C} (R : A -> C -> Prop) (f : B -> C) l k :
  Forall2 R l (map f k) <-> Forall2 (fun a b => R a (f b)) l k.
Proof.
  split.
  - revert l. induction k as [|b k IH]; intros l H; inversion H; subst; constructor; auto.
  - induction 1; simpl; constructor; auto.
Qed.

(* Statement provenance.  [body'] is the body after the renaming pass (same
   structure, same kinds, same metas: [same]); the IR statements of the graph, read
   block by block, are in one-to-one, order-preserving correspondence with the
   statements of the body that are not blocks, each the image of its statement. *)
Theorem liftfull_provenance : forall kind params pfile ploc body r,
  try_lift_impl kind params pfile ploc body = Ok r ->
  exists body',
    ensure_unique_variables params pfile ploc body = Ok (body', l_reports r) /\
    same body body' /\
    Forall2 (image (xc_decls (l_cfg r))) (lifted_stmts body') (graph_stmts (xc_blocks (l_cfg r))).
Proof.
  intros kind params pfile ploc body r H.
  destruct (try_lift_impl_inv _ _ _ _ _ _ H) as (body' & ds0 & st & Hu & _ & Hb & -> & -> & _).
  exists body'. split; [exact Hu|]. split; [exact (ensure_unique_same _ _ _ _ _ Hu)|].
  rewrite graph_stmts_propagate.
  apply (proj2 (Forall2_map_r (image (snd st)) (propagate_types_stmt (snd st)) _ _)).
  pose proof (build_prov _ _ _ Hb) as F. unfold U in F.
  apply (proj1 (Forall2_map_r image0 unpatch _ _)) in F.
  eapply Forall2_impl; [exact F|]. intros s x0 Hi. by exists x0.
Qed.

(* the kind and the meta of an IR statement *)
Inductive xkind := XKDecl | XKIf | XKRet | XKSubst (op : Ir.assign_op) | XKCeq | XKLog | XKAssert.

Definition xstmt_kind (x : xstmt) : xkind :=
  match x with
  | XDecl _ _ _ _ => XKDecl | XIf _ _ _ _ => XKIf | XRet _ _ => XKRet | XSubst _ _ op _ _ => XKSubst op
  | XCeq _ _ _ => XKCeq | XLog _ _ => XKLog | XAssert _ _ => XKAssert
  end.

(* what kind of IR statement a source statement becomes: `while` and `if` both
   become the IfThenElse statement, a substitution keeps its operator
   (`<--`/`-->` AssignSignal, `<==`/`==>` AssignConstraintSignal, `=` AssignLocalOrComponent),
   blocks and initialization blocks have no statement of their own, a
   multi-substitution cannot be lifted *)
Definition lift_kind (k : skind) : option xkind :=
  match k with
  | KIf | KWhile => Some XKIf
  | KRet => Some XKRet
  | KDecl => Some XKDecl
  | KSub op => Some (XKSubst (lift_assign_op op))
  | KCeq => Some XKCeq
  | KLog => Some XKLog
  | KAssert => Some XKAssert
  | KInit | KBlock | KMSub => None
  end.

Definition xhdr (x : xstmt) : option xkind * Ir.meta := (Some (xstmt_kind x), xstmt_meta x).
Definition lift_hdr (h : skind * Ast.meta) : option xkind * Ir.meta := (lift_kind (fst h), lift_meta (snd h)).

Lemma xhdr_unpatch x : xhdr (unpatch x) = xhdr x. Proof. destruct x; done. Qed.
Lemma xhdr_propagate ds x : xhdr (propagate_types_stmt ds x) = xhdr x. Proof. destruct x; done. Qed.

Lemma image0_hdr s x : image0 s x -> xhdr x = lift_hdr (hdr s).
Proof.
  destruct s; simpl; intros Hl; try done;
    try (destruct Hl as (c' & t & _ & ->); done);
    repeat (let a := fresh "a" in let E := fresh "E" in apply bind_ok in Hl as (a & E & Hl));
    injection Hl as <-; done.
Qed.

Lemma image_hdr ds s x : image ds s x -> xhdr x = lift_hdr (hdr s).
Proof. intros (x0 & H0 & ->). by rewrite xhdr_propagate, <- xhdr_unpatch, (image0_hdr _ _ H0). Qed.

Lemma Forall2_hdr ds ss xs : Forall2 (image ds) ss xs -> map xhdr xs = map lift_hdr (map hdr ss).
Proof. induction 1 as [|s x ss xs Hi _ IH]; [done|]. simpl. by rewrite (image_hdr _ _ _ Hi), IH. Qed.

(* In terms of the body handed to try_lift_impl (before renaming): kind and meta
   of the IR statements, in block order, are kind and meta of the source
   statements, in source order. *)
Theorem liftfull_stmt_headers : forall kind params pfile ploc body r,
  try_lift_impl kind params pfile ploc body = Ok r ->
  map xhdr (graph_stmts (xc_blocks (l_cfg r))) = map lift_hdr (map hdr (lifted_stmts body)).
Proof.
  intros kind params pfile ploc body r H.
  destruct (liftfull_provenance _ _ _ _ _ _ H) as (body' & _ & (_ & Hh & _) & F).
  by rewrite (Forall2_hdr _ _ _ F), Hh.
Qed.

Theorem liftfull_stmt_metas : forall kind params pfile ploc body r,
  try_lift_impl kind params pfile ploc body = Ok r ->
  map xstmt_meta (graph_stmts (xc_blocks (l_cfg r)))
  = map (fun s => lift_meta (Ast.stmt_meta s)) (lifted_stmts body).
Proof.
  intros kind params pfile ploc body r H.
  pose proof (liftfull_stmt_headers _ _ _ _ _ _ H) as Hh.
  apply (f_equal (map snd)) in Hh. rewrite !map_map in Hh. exact Hh.
Qed.

(* the `<--` / `-->` statements *)
Lemma filter_by_hdr {A B} (ha : A -> option xkind * Ir.meta) (hb : B -> option xkind * Ir.meta)
    (pa : A -> bool) (pb : B -> bool) (p : option xkind -> bool) la lb :
  (forall a, pa a = p (fst (ha a))) -> (forall b, pb b = p (fst (hb b))) ->
  map ha la = map hb lb ->
  map (fun a => snd (ha a)) (List.filter pa la) = map (fun b => snd (hb b)) (List.filter pb lb).
Proof.
  intros Ha Hb. revert lb. induction la as [|a la IH]; intros [|b lb] H; try done.
  simpl in H. injection H as H1 H2. simpl. rewrite Ha, Hb, H1.
  destruct (p (fst (hb b))); simpl; [by rewrite H1, (IH _ H2)|by apply IH].
Qed.

Definition is_sig_kind (k : option xkind) : bool :=
  match k with Some (XKSubst Ir.OpSig) => true | _ => false end.

(* The signal assignments (`<--`, `-->`) of the graph are exactly the images of
   the signal assignments of the source, in order, with the same metas. *)
Theorem liftfull_signal_assignments : forall kind params pfile ploc body r,
  try_lift_impl kind params pfile ploc body = Ok r ->
  map xstmt_meta (List.filter is_xsignal_assignment (graph_stmts (xc_blocks (l_cfg r))))
  = map (fun s => lift_meta (Ast.stmt_meta s)) (List.filter is_signal_assignment (lifted_stmts body)).
Proof.
  intros kind params pfile ploc body r H.
  pose proof (liftfull_stmt_headers _ _ _ _ _ _ H) as Hh. rewrite map_map in Hh.
  apply (filter_by_hdr xhdr (fun s => lift_hdr (hdr s)) _ _ is_sig_kind); [| |exact Hh].
  - intros x. destruct x as [| | |m v [] rhe st| | |]; done.
  - intros s. destruct s as [| | | | |m v a [] rhe| | | | |]; done.
Qed.
