(* Proof-internal resolver for C10: a stack of blocks in which only a
   [UBlock] opens a scope -- the body of a loop and the branches of a
   conditional are resolved in the scope that contains them, as
   unique_vars.rs does.  It is NOT the specification (that is
   Spec.ScopeSpec.resolve, which closes a scope at the end of every loop body
   and branch): it is the intermediate step of the simulation proof.
   Proofs.UniqueVarsProofs shows that the pass computes this resolver on every
   statement tree; Proofs.ScopeBridge shows that this resolver and the
   specification agree on [branch_closed] trees, and only there. *)
From Coq Require Import List NArith Arith Bool.
Require Import Model.Base Model.Ir Model.UniqueVars Spec.ScopeSpec.
Import ListNotations.

Record sstate := { sstack : list (list entry); scount : list (name * nat) }.

(* innermost block first *)
Fixpoint lookup (n : name) (stk : list (list entry)) : option (nat * loc) :=
  match stk with
  | [] => None
  | b :: r => match find_name n b with Some d => Some d | None => lookup n r end
  end.

Definition push (st : sstate) : sstate := {| sstack := [] :: sstack st; scount := scount st |}.
Definition pop (st : sstate) : sstate := {| sstack := tl (sstack st); scount := scount st |}.
Definition declare (n : name) (l : loc) (st : sstate) : sstate :=
  let k := count n (scount st) in
  {| sstack := match sstack st with b :: r => ((n, (k, l)) :: b) :: r | [] => [[(n, (k, l))]] end;
     scount := (n, S k) :: scount st |}.

Definition stk_use_occ (k : okind) (st : sstate) (n : name) : rocc :=
  (k, n, option_map fst (lookup n (sstack st))).

Fixpoint stk_resolve (s : ustmt) (st : sstate) : list rocc * list shadow * sstate :=
  match s with
  | UDecl _ n l dims =>
    (map (stk_use_occ OUse st) dims ++ [(ODecl, n, Some (count n (scount st)))],
     match lookup n (sstack st) with
     | Some prev => [(n, (count n (scount st), l), prev)]
     | None => []
     end,
     declare n l st)
  | USubst n uses => (stk_use_occ OTarget st n :: map (stk_use_occ OUse st) uses, [], st)
  | UExpr _ uses => (map (stk_use_occ OUse st) uses, [], st)
  | UInit ss => resolve_list stk_resolve ss st
  | UBlock ss => let '(o, sh, st') := resolve_list stk_resolve ss (push st) in (o, sh, pop st')
  | UWhile c b => let '(o, sh, st') := stk_resolve b st in (map (stk_use_occ OUse st) c ++ o, sh, st')
  | UIf c t e =>
    let '(o1, sh1, st1) := stk_resolve t st in
    match e with
    | None => (map (stk_use_occ OUse st) c ++ o1, sh1, st1)
    | Some e0 =>
      let '(o2, sh2, st2) := stk_resolve e0 st1 in
      (map (stk_use_occ OUse st) c ++ o1 ++ o2, sh1 ++ sh2, st2)
    end
  end.

Definition stk_initial (params : list name) (ploc : loc) : sstate :=
  fold_left (fun st p => declare p ploc st) params {| sstack := [[]]; scount := [] |}.

Definition stk_resolve_def (params : list name) (ploc : loc) (body : ustmt) : list rocc * list shadow :=
  fst (stk_resolve body (stk_initial params ploc)).
