(* C08: the `<--` / `-->` substitutions of the lifted graph are exactly the
   images of the `<--` / `-->` statements of the source, in order, with the same
   locations (from the content-carrying lifting mirror Model.LiftFull); hence
   distinct source locations give distinct keys (Spec.SigAssignSpec.subkeys_distinct,
   which implies keys_distinct by C08_subkeys_distinct_suffice). *)
From Coq Require Import ZArith NArith List Bool Lia.
Require Import Model.Base Model.Ir Model.SignalAssign Spec.SigAssignSpec.
Require Model.Ast Model.LiftFull Proofs.LiftFullProofs.
Import ListNotations.

Definition ir_meta (m : Model.Ast.meta) : meta := LiftFull.lift_meta m.

(* the `<--` / `-->` statements of a body, in source order *)
Definition source_signal_assignments (body : Model.Ast.statement) : list Model.Ast.statement :=
  filter LiftFull.is_signal_assignment (LiftFull.lifted_stmts body).

Lemma is_assign_erase x : is_assign (LiftFull.erase_stmt x) = LiftFull.is_xsignal_assignment x.
Proof. destruct x as [| | |m v [] rhe st| | |]; reflexivity. Qed.

Lemma stmt_meta_erase x : stmt_meta (LiftFull.erase_stmt x) = LiftFull.xstmt_meta x.
Proof. destruct x; reflexivity. Qed.

Lemma all_stmts_erase c :
  all_stmts (LiftFull.erase_cfg c) = map LiftFull.erase_stmt (LiftFull.graph_stmts (LiftFull.xc_blocks c)).
Proof.
  unfold all_stmts, LiftFull.erase_cfg, LiftFull.graph_stmts. simpl.
  induction (LiftFull.xc_blocks c) as [|b g IH]; [reflexivity|]. simpl. rewrite map_app, IH. reflexivity.
Qed.

Lemma filter_map_comm {A B} (f : A -> B) (p : B -> bool) (q : A -> bool) l :
  (forall a, p (f a) = q a) -> filter p (map f l) = map f (filter q l).
Proof.
  intros H. induction l as [|a l IH]; [reflexivity|]. simpl. rewrite H. destruct (q a); simpl; rewrite IH; reflexivity.
Qed.

(* the assignments the pass looks at, with their metas *)
Theorem signal_assignments_from_source : forall kind params pfile ploc body c,
  LiftFull.lift_to_ir kind params pfile ploc body = Ok c ->
  map stmt_meta (assign_stmts c) = map (fun s => ir_meta (Model.Ast.stmt_meta s)) (source_signal_assignments body).
Proof.
  intros kind params pfile ploc body c H. unfold LiftFull.lift_to_ir in H.
  destruct (LiftFull.try_lift_impl kind params pfile ploc body) as [r| | |] eqn:E; try discriminate.
  simpl in H. injection H as <-.
  unfold assign_stmts. rewrite all_stmts_erase.
  rewrite (filter_map_comm LiftFull.erase_stmt is_assign LiftFull.is_xsignal_assignment) by apply is_assign_erase.
  rewrite map_map. rewrite (map_ext _ LiftFull.xstmt_meta) by apply stmt_meta_erase.
  exact (LiftFullProofs.liftfull_signal_assignments _ _ _ _ _ _ E).
Qed.

Lemma assignment_metas l :
  map a_meta (filter_map assignment_of l) = map stmt_meta (filter is_assign l).
Proof.
  induction l as [|s l IH]; [reflexivity|].
  destruct s as [| | |m v [] rhe sv st| | |]; simpl; rewrite ?IH; reflexivity.
Qed.

Lemma meta_eqb_true a b : meta_eqb a b = true -> a = b.
Proof.
  unfold meta_eqb. destruct a as [s1 e1 f1], b as [s2 e2 f2]. simpl.
  rewrite !andb_true_iff. intros [[H1 H2] H3].
  apply N.eqb_eq in H1. apply N.eqb_eq in H2. subst.
  destruct f1, f2; simpl in H3; try discriminate; [apply N.eqb_eq in H3; subst|]; reflexivity.
Qed.

Lemma NoDup_nth_error_neq {A} (l : list A) i j a b :
  NoDup l -> i <> j -> nth_error l i = Some a -> nth_error l j = Some b -> a <> b.
Proof.
  intros Hn Hij Ha Hb Heq. subst b.
  rewrite NoDup_nth_error in Hn. apply Hij. apply Hn.
  - apply nth_error_Some. rewrite Ha. discriminate.
  - rewrite Ha, Hb. reflexivity.
Qed.

Lemma distinct_metas_distinct_subkeys l :
  NoDup (map a_meta l) -> distinct_keys subkey_eqb l.
Proof.
  intros Hn i j a b Hij Ha Hb. unfold subkey_eqb.
  destruct (meta_eqb (a_meta a) (a_meta b)) eqn:E; [|reflexivity].
  exfalso. apply meta_eqb_true in E.
  apply (NoDup_nth_error_neq (map a_meta l) i j (a_meta a) (a_meta b) Hn Hij); [| |exact E].
  - rewrite nth_error_map, Ha. reflexivity.
  - rewrite nth_error_map, Hb. reflexivity.
Qed.

Lemma NoDup_map_inj_inv {A B} (f : A -> B) l : (forall a b, f a = f b -> a = b) -> NoDup l -> NoDup (map f l).
Proof.
  intros Hf. induction 1 as [|a l Hn _ IH]; simpl; constructor; [|exact IH].
  intros Hi. apply in_map_iff in Hi as (b & Hb & Hin). apply Hf in Hb. subst. contradiction.
Qed.

Lemma ir_meta_inj a b : ir_meta a = ir_meta b -> a = b.
Proof. destruct a, b. unfold ir_meta, LiftFull.lift_meta. simpl. intros [= -> -> ->]. reflexivity. Qed.

(* distinct source locations of the `<--` statements give distinct keys *)
Theorem distinct_sources_distinct_subkeys : forall kind params pfile ploc body c,
  LiftFull.lift_to_ir kind params pfile ploc body = Ok c ->
  NoDup (map Model.Ast.stmt_meta (source_signal_assignments body)) ->
  subkeys_distinct c.
Proof.
  intros kind params pfile ploc body c H Hn. unfold subkeys_distinct.
  apply distinct_metas_distinct_subkeys. rewrite assignment_metas.
  fold (assign_stmts c). rewrite (signal_assignments_from_source _ _ _ _ _ _ H).
  rewrite <- (map_map Model.Ast.stmt_meta ir_meta). apply NoDup_map_inj_inv; [apply ir_meta_inj|exact Hn].
Qed.

(* as many `<--` statements in the graph as in the source *)
Theorem signal_assignment_count : forall kind params pfile ploc body c,
  LiftFull.lift_to_ir kind params pfile ploc body = Ok c ->
  length (assign_stmts c) = length (source_signal_assignments body).
Proof.
  intros kind params pfile ploc body c H.
  pose proof (signal_assignments_from_source _ _ _ _ _ _ H) as E.
  apply (f_equal (@length _)) in E. rewrite !map_length in E. exact E.
Qed.

(* ---- the hypothesis in the form the driver evaluates ---- *)
Require Model.SigAssignSource Proofs.SignalAssignProofs.

Lemma source_signal_assignments_eq body :
  SigAssignSource.source_signal_assignments body = source_signal_assignments body.
Proof. reflexivity. Qed.

Lemma meta_eqb_refl a : meta_eqb a a = true.
Proof.
  unfold meta_eqb. destruct a as [s e f]. simpl. rewrite !N.eqb_refl. destruct f; simpl; [apply N.eqb_refl|reflexivity].
Qed.

Lemma distinct_keys_NoDup (l : list meta) : distinct_keys meta_eqb l -> NoDup l.
Proof.
  intros H. apply NoDup_nth_error. intros i j Hi E.
  destruct (Nat.eq_dec i j) as [|Hne]; [assumption|exfalso].
  destruct (nth_error l i) as [a|] eqn:Ea; [|apply nth_error_Some in Hi; congruence].
  symmetry in E. pose proof (H i j a a Hne Ea E) as F. rewrite meta_eqb_refl in F. discriminate F.
Qed.

Lemma NoDup_map_inv' {A B} (f : A -> B) l : NoDup (map f l) -> NoDup l.
Proof.
  induction l as [|a l IH]; simpl; intros H; [constructor|]. inversion H as [|? ? Hn Hr]; subst.
  constructor; [|exact (IH Hr)]. intros Hin. apply Hn. apply in_map. exact Hin.
Qed.

(* the boolean the liftfull driver evaluates on every explored definition implies the
   hypothesis of [distinct_sources_distinct_subkeys] *)
Theorem source_metas_distinct_b_sound body :
  SigAssignSource.source_metas_distinct_b body = true ->
  NoDup (map Model.Ast.stmt_meta (source_signal_assignments body)).
Proof.
  unfold SigAssignSource.source_metas_distinct_b, SigAssignSource.source_assignment_metas. intros H.
  apply SignalAssignProofs.pairwise_distinct_spec in H. apply distinct_keys_NoDup in H.
  rewrite source_signal_assignments_eq in H.
  change (fun s => LiftFull.lift_meta (Model.Ast.stmt_meta s)) with (fun s => ir_meta (Model.Ast.stmt_meta s)) in H.
  rewrite <- (map_map Model.Ast.stmt_meta ir_meta) in H. exact (NoDup_map_inv' ir_meta _ H).
Qed.

Theorem distinct_sources_b_distinct_subkeys : forall kind params pfile ploc body c,
  LiftFull.lift_to_ir kind params pfile ploc body = Ok c ->
  SigAssignSource.source_metas_distinct_b body = true ->
  subkeys_distinct c.
Proof.
  intros kind params pfile ploc body c H Hb.
  exact (distinct_sources_distinct_subkeys _ _ _ _ _ _ H (source_metas_distinct_b_sound body Hb)).
Qed.
