(* Concrete executions along paths are step sequences of Spec.ValueSem, and
   (by C14) they exist: a phi always finds the arriving version among its
   arguments.  Hence on a graph accepted by both validators every claim met
   along any concrete execution is true. *)
From Coq Require Import ZArith NArith List Bool Lia Znumtheory.
Require Import Model.Base Model.Field Model.Ir Model.Propagate Model.Justify Model.SsaCheck.
Require Import Spec.FieldSpec Spec.ValueSem Spec.SsaSpec Spec.SsaRun.
Require Import Proofs.IrFacts Proofs.ValueProofs Proofs.SsaProofs.
Import ListNotations.
Local Open Scope Z_scope.

Section Run.
Variable c : cfg.
Variable p : Z.
Notation ss := (all_stmts (c_blocks c)).

Lemma in_block_in_all i b s : nth_error (c_blocks c) i = Some b -> In s (b_stmts b) -> In s ss.
Proof.
  intros Hb Hs. unfold all_stmts. apply in_flat_map. exists b. split; [eapply nth_error_In; eauto|exact Hs].
Qed.

Lemma run_phis_reach L s0 : forall phis s s', (forall st, In st phis -> In st ss) ->
  reachable ss p s0 s -> run_phis L s phis s' -> reachable ss p s0 s'.
Proof.
  intros phis s s' Hin Hr Hrun. induction Hrun as [s|s m x op args k sv st a n tl s' HL Ha Hk Hv Hrun IH].
  - exact Hr.
  - apply IH; [intros st0 H0; apply Hin; right; exact H0|].
    destruct (s a) as [v|] eqn:Ea.
    + eapply reach_step; [exact Hr|]. eapply step_phi; [apply Hin; left; reflexivity|exact Ha|exact Ea].
    + eapply reach_step; [exact Hr|]. eapply step_phi_opaque; [apply Hin; left; reflexivity|exact Ha|exact Ea].
Qed.

Lemma run_body_reach s0 : forall body s s', (forall st, In st body -> In st ss) ->
  reachable ss p s0 s -> run_body p s body s' -> reachable ss p s0 s'.
Proof.
  intros body s s' Hin Hr Hrun. induction Hrun as [s|s st s1 tl s2 Hst Hrun IH].
  - exact Hr.
  - apply IH; [intros st0 H0; apply Hin; right; exact H0|].
    destruct Hst as [m x op rhe sv st' v s Hphi Hev|m x op rhe sv st' s Hphi Hno|s st' Hother].
    + eapply reach_step; [exact Hr|]. eapply step_assign; [apply Hin; left; reflexivity|exact Hphi|exact Hev].
    + eapply reach_step; [exact Hr|]. eapply step_opaque; [apply Hin; left; reflexivity|exact Hphi|exact Hno].
    + exact Hr.
Qed.

(* every concrete execution along a path is a step sequence *)
Theorem run_path_reachable s0 : forall pi L s s',
  reachable ss p s0 s -> run_path c p L s pi s' -> reachable ss p s0 s'.
Proof.
  intros pi L s s' Hr Hrun. induction Hrun as [L s|L s i b phis body L' s1 s2 tl s3 Hb Hlp He Hphis Hbody Hrun IH].
  - exact Hr.
  - apply IH.
    pose proof (leading_phis_app _ _ _ Hlp) as Happ.
    eapply run_body_reach; [|eapply run_phis_reach; [|exact Hr|exact Hphis]|exact Hbody].
    + intros st Hst. eapply in_block_in_all; [exact Hb|]. rewrite Happ. apply in_or_app. right. exact Hst.
    + intros st Hst. eapply in_block_in_all; [exact Hb|]. rewrite Happ. apply in_or_app. left. exact Hst.
Qed.

(* C06 along concrete executions *)
Theorem claims_true_along_paths s0 pi s e v k :
  prime p -> 2 < p -> Z.log2 p < 2 ^ 64 ->
  vjust_cfg p c = true -> init_ok ss p s0 ->
  run_path c p (params_map (c_params c)) s0 pi s ->
  occurs_in c e -> evalR p s e v -> expr_val e = Some k -> claim_ok k v.
Proof.
  intros Hprime Hp Hlog Hv Hi Hrun Ho Hev Hk.
  eapply (validated_graph_claims_true p c s0 s e v k Hprime Hp Hlog Hv Hi); eauto.
  eapply run_path_reachable; [apply reach_init|exact Hrun].
Qed.

(* progress (from C14): whenever the running map carries a version of a phi's
   variable along the edge taken, that version is one of the phi's arguments *)
Lemma phi_read_ok_arg L s : phi_read_ok L s = true ->
  forall x args, phi_parts s = Some (x, args) -> forall n, vget L (key_of x) = Some n ->
  exists a, In a args /\ key_of a = key_of x /\ vn_version a = Some n.
Proof.
  unfold phi_read_ok. intros H x args Hp n Hn. rewrite Hp, Hn in H. cbn [phi_arg_ok] in H.
  apply existsb_exists in H as (a & Ha & Hc). apply andb_true_iff in Hc as [Hk Hv].
  apply key_eqb_eq in Hk. apply optN_eqb_eq in Hv. eauto.
Qed.

Theorem phi_arguments_available idom pi i b L :
  ssa_check c idom = true -> path_from_entry c (pi ++ [i]) ->
  exec_path c (params_map (c_params c)) pi = Some L -> nth_error (c_blocks c) i = Some b ->
  forall s x args n, In s (fst (leading_phis (b_stmts b))) -> phi_parts s = Some (x, args) ->
  vget L (key_of x) = Some n ->
  exists a, In a args /\ key_of a = key_of x /\ vn_version a = Some n.
Proof.
  intros Hc Hp Hex Hb s x args n Hs Hparts Hn.
  destruct (ssa_check_paths_ok c idom _ Hc Hp) as [Lf Hf].
  destruct (exec_path_app c pi [i] _ _ Hf) as (L1 & Hpre & Hlast). rewrite Hex in Hpre. injection Hpre as <-.
  cbn [exec_path] in Hlast. rewrite Hb in Hlast. unfold enter_block in Hlast.
  destruct (leading_phis (b_stmts b)) as [phis body]. cbn [fst] in Hs.
  destruct (forallb (phi_read_ok L) phis) eqn:E; [|discriminate].
  rewrite forallb_forall in E. exact (phi_read_ok_arg L s (E s Hs) x args Hparts n Hn).
Qed.
End Run.
