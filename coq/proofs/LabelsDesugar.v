(* C04: label well-formedness across the desugarer, using agent-C18's proved
   provenance theorem (Proofs.DesugarMetas) in place of a hypothesis.  Model.Ast
   and Model.Ir both have a record [meta] with the same three fields; names of
   Model.Ast are used qualified here. *)
From Coq Require Import NArith List Bool.
Require Import Model.Base Model.Ir Model.Labels Proofs.LabelsProofs.
Require Model.Ast Model.Desugar Spec.ExpandSpec Proofs.DesugarMetas.
Import ListNotations.

(* the IR node built from an AST node carries its meta (ir.rs `Meta::from(&ast::Meta)`) *)
Definition ir_meta_of (m : Model.Ast.meta) : meta :=
  {| m_start := Model.Ast.m_start m; m_end := Model.Ast.m_end m; m_file := Model.Ast.m_file m |}.

(* parser_ranges_wellformed is asked of the PARSED template body only; the
   desugarer's part of the provenance is the theorem desugar_meta_property_inherited;
   what remains a hypothesis is that lifting and SSA give every IR node the meta of
   an AST node of the desugared body, or the empty default range. *)
Theorem labels_wellformed_through_desugaring :
  forall (P : N -> N -> Prop) env lib body body' (final : list meta) c ls l,
    Forall (fun m => P (Model.Ast.m_start m) (Model.Ast.m_end m)) (Spec.ExpandSpec.stmt_metas body) ->
    Model.Desugar.desugar_template env lib body = Model.Desugar.DOk body' ->
    (forall m, In m final ->
       In m (map ir_meta_of (Spec.ExpandSpec.stmt_metas body')) \/ (m_start m = 0%N /\ m_end m = 0%N)) ->
    P 0%N 0%N ->
    (forall m, In m (nodes_of c) -> In m final) ->
    (forall r, In r (parser_ranges_of c) -> P (fst r) (snd r)) ->
    labels_of (sources_of c) = Ok ls -> In l ls -> P (l_start l) (l_end l).
Proof.
  intros P env lib body body' final c ls l Hparsed Hd Hlift H0 Hn Hr.
  apply (labels_wellformed_end_to_end P (map ir_meta_of (Spec.ExpandSpec.stmt_metas body')) final c ls l);
    try assumption.
  intros m Hm. apply in_map_iff in Hm as (a & <- & Ha). simpl.
  pose proof (Proofs.DesugarMetas.desugar_meta_property_inherited
                (fun m => P (Model.Ast.m_start m) (Model.Ast.m_end m)) env lib body body' Hparsed Hd) as F.
  rewrite Forall_forall in F. exact (F a Ha).
Qed.
