(* DesugarOrder — the loops of remove_syntactic_sugar (parser/src/
   syntax_sugar_remover.rs) iterate `templates` and `functions`, two std
   HashMaps, in per-process random order.  Over the mirror Model.Desugar (whose
   correspondence with the real desugarer is checked by C18) it is proved here,
   for property C17, that EVERY iteration order gives the same set of surviving
   definitions and the same multiset of reports: the lookup table that
   remove_anonymous_from_statement consults is the immutable input map, which
   is read by name only.  A variant of the loop that removes dropped templates
   from the lookup table while iterating (seeded/C17-desugar-known-templates-
   hash-order) is shown NOT to have this property. *)
From Coq Require Import ZArith NArith List Bool String Permutation Lia.
Require Import Model.Ast Model.Desugar Proofs.DesugarProofs.
Import ListNotations.
Local Open Scope list_scope.

(* ---- the lookup table is read by name only ---------------------------------- *)

Definition env_agree (e1 e2 : tenv) : Prop := forall id, lookup_template id e1 = lookup_template id e2.

Section EnvExt.
  Variables e1 e2 : tenv.
  Variable lib : file_library.
  Hypothesis Hagree : env_agree e1 e2.

  Lemma anon_component_env : forall va m id par ps ss names results,
    anon_component e1 lib va m id par ps ss names results =
    anon_component e2 lib va m id par ps ss names results.
  Proof. intros. unfold anon_component. rewrite Hagree. reflexivity. Qed.

  Definition rae_same (e : expression) : Prop :=
    (forall va, remove_anonymous_from_expression e1 lib va e = remove_anonymous_from_expression e2 lib va e) /\
    (forall va, match e with
                | AnonymousComponent _ _ _ _ ss _ =>
                    map (remove_anonymous_from_expression e1 lib va) ss =
                    map (remove_anonymous_from_expression e2 lib va) ss
                | _ => True
                end).

  Lemma map_rae_same : forall l, Forall rae_same l -> forall va,
    map (remove_anonymous_from_expression e1 lib va) l = map (remove_anonymous_from_expression e2 lib va) l.
  Proof.
    intros l H va. induction H as [|x l [Hx _] _ IH]; simpl; auto. rewrite Hx, IH. reflexivity.
  Qed.

  Lemma rae_env_all : forall e, rae_same e.
  Proof.
    induction e using expression_ind'; (split; [|try (intros; exact I)]); intros va; simpl; try reflexivity.
    - (* ParallelOp *)
      destruct IHe as [_ IH2]. specialize (IH2 va).
      destruct e; try reflexivity.
      rewrite IH2, anon_component_env. reflexivity.
    - (* AnonymousComponent *)
      rewrite (map_rae_same _ H0 va), anon_component_env. reflexivity.
    - apply map_rae_same. assumption.
    - (* Tuple *)
      rewrite (map_rae_same _ H va). reflexivity.
  Qed.

  Lemma rae_env : forall va e,
    remove_anonymous_from_expression e1 lib va e = remove_anonymous_from_expression e2 lib va e.
  Proof. intros va e. apply (proj1 (rae_env_all e)). Qed.

  Lemma ras_list_ext : forall f g l, Forall (fun s => f s = g s) l ->
    forall a b, ras_list f l a b = ras_list g l a b.
  Proof.
    intros f g l H. induction H as [|x l Hx _ IH]; intros a b; simpl; auto.
    rewrite Hx. destruct (g x) as [[s d]| | |]; simpl; auto.
  Qed.

  Lemma ras_env : forall s va,
    remove_anonymous_from_statement e1 lib va s = remove_anonymous_from_statement e2 lib va s.
  Proof.
    induction s using statement_ind'; intros va; simpl; try reflexivity.
    - (* IfThenElse *)
      rewrite IHs. destruct e as [e'|]; auto. rewrite (H e' eq_refl). reflexivity.
    - (* While *)
      destruct (contains_anon c); auto. destruct (gen_name lib "anon_var" m); simpl; auto.
      rewrite IHs. reflexivity.
    - (* InitializationBlock *)
      rewrite (ras_list_ext (remove_anonymous_from_statement e1 lib va) (remove_anonymous_from_statement e2 lib va) l); auto.
      eapply Forall_impl; [|exact H]. intros x Hx. apply Hx.
    - (* Substitution *)
      rewrite rae_env. reflexivity.
    - (* MultiSubstitution *)
      rewrite rae_env. reflexivity.
    - (* Block *)
      rewrite (ras_list_ext (remove_anonymous_from_statement e1 lib va) (remove_anonymous_from_statement e2 lib va) l); auto.
      eapply Forall_impl; [|exact H]. intros x Hx. apply Hx.
  Qed.

  Lemma desugar_template_env : forall body, desugar_template e1 lib body = desugar_template e2 lib body.
  Proof. intros. unfold desugar_template. rewrite ras_env. reflexivity. Qed.
End EnvExt.

(* a map enumerated in two orders answers every lookup alike *)
Lemma lookup_template_In : forall id env t, lookup_template id env = Some t -> In (id, t) env.
Proof.
  intros id env t. induction env as [|[n x] env IH]; simpl; intros H; [discriminate|].
  destruct (String.eqb n id) eqn:E.
  - apply String.eqb_eq in E. inversion H; subst. left. reflexivity.
  - right. auto.
Qed.

Lemma lookup_template_NoDup : forall id t env, NoDup (map fst env) -> In (id, t) env ->
  lookup_template id env = Some t.
Proof.
  intros id t env. induction env as [|[n x] env IH]; simpl; intros Hnd Hin; [contradiction|].
  inversion Hnd as [|? ? Hnotin Hnd']; subst. destruct Hin as [Heq|Hin].
  - inversion Heq; subst. rewrite String.eqb_refl. reflexivity.
  - destruct (String.eqb n id) eqn:E.
    + apply String.eqb_eq in E. subst. exfalso. apply Hnotin.
      change id with (fst (id, t)). apply in_map. assumption.
    + auto.
Qed.

Lemma env_agree_perm : forall env env', NoDup (map fst env) -> Permutation env env' -> env_agree env env'.
Proof.
  intros env env' Hnd Hp id.
  assert (Hnd' : NoDup (map fst env')).
  { eapply Permutation_NoDup; [|exact Hnd]. apply Permutation_map. exact Hp. }
  destruct (lookup_template id env) as [t|] eqn:E.
  - symmetry. apply lookup_template_NoDup; auto. eapply Permutation_in; [exact Hp|].
    apply lookup_template_In. assumption.
  - destruct (lookup_template id env') as [t'|] eqn:E'; auto.
    apply lookup_template_In in E'. eapply Permutation_in in E'; [|apply Permutation_sym; exact Hp].
    rewrite (lookup_template_NoDup id t' env Hnd E') in E. discriminate.
Qed.

Lemma env_of_perm : forall ts ts', NoDup (map fst ts) -> Permutation ts ts' -> env_agree (env_of ts) (env_of ts').
Proof.
  intros ts ts' Hnd Hp. apply env_agree_perm.
  - unfold env_of. rewrite map_map. simpl. exact Hnd.
  - unfold env_of. apply Permutation_map. exact Hp.
Qed.

(* ---- the template loop, for a fixed lookup table -------------------------------- *)

Section Loop.
  Variable env : tenv.
  Variable lib : file_library.

  Definition t_ok (t : string * statement) : list (string * statement) :=
    match desugar_template env lib (snd t) with DOk b => [(fst t, b)] | _ => [] end.
  Definition t_err (t : string * statement) : list report :=
    match desugar_template env lib (snd t) with DErr r => [r] | _ => [] end.
  Definition t_stuck (t : string * statement) : bool :=
    match desugar_template env lib (snd t) with DPanic _ | DOutOfFuel => true | _ => false end.

  Lemma desugar_templates_spec : forall ts acc reps,
    if existsb t_stuck ts
    then forall x, desugar_templates env lib ts acc reps <> DOk x
    else desugar_templates env lib ts acc reps = DOk (acc ++ flat_map t_ok ts, reps ++ flat_map t_err ts).
  Proof.
    induction ts as [|[name body] ts IH]; intros acc reps; simpl.
    - rewrite !app_nil_r. reflexivity.
    - unfold t_stuck at 1, t_ok at 1, t_err at 1. simpl.
      destruct (desugar_template env lib body) as [b|r|site|]; simpl.
      + specialize (IH (acc ++ [(name, b)]) reps). destruct (existsb t_stuck ts); auto.
        rewrite IH, <- app_assoc. reflexivity.
      + specialize (IH acc (reps ++ [r])). destruct (existsb t_stuck ts); auto.
        rewrite IH, <- app_assoc. reflexivity.
      + intros x; discriminate.
      + intros x; discriminate.
  Qed.
End Loop.

Lemma existsb_perm : forall (A : Type) (f : A -> bool) l l', Permutation l l' -> existsb f l = existsb f l'.
Proof.
  intros A f l l' H. induction H; simpl; auto.
  - rewrite IHPermutation. reflexivity.
  - destruct (f x), (f y); reflexivity.
  - congruence.
Qed.

(* both runs fail to produce a result, or both produce the same definitions and reports *)
Definition same_up_to_order {A B : Type} (a b : dres (list A * list B)) : Prop :=
  match a, b with
  | DOk (x, r), DOk (x', r') => Permutation x x' /\ Permutation r r'
  | DOk _, _ | _, DOk _ => False
  | _, _ => True
  end.

Lemma not_ok_same : forall (A B : Type) (a b : dres (list A * list B)),
  (forall x, a <> DOk x) -> (forall x, b <> DOk x) -> same_up_to_order a b.
Proof.
  intros A B a b Ha Hb. destruct a as [x| | |]; [exfalso; eapply Ha; reflexivity| | |];
    (destruct b as [y| | |]; [exfalso; eapply Hb; reflexivity| | |]); exact I.
Qed.

Theorem desugar_templates_order_independent : forall env lib ts ts',
  Permutation ts ts' ->
  same_up_to_order (desugar_templates env lib ts [] []) (desugar_templates env lib ts' [] []).
Proof.
  intros env lib ts ts' Hp.
  pose proof (desugar_templates_spec env lib ts [] []) as H1.
  pose proof (desugar_templates_spec env lib ts' [] []) as H2.
  rewrite <- (existsb_perm _ (t_stuck env lib) ts ts' Hp) in H2.
  destruct (existsb (t_stuck env lib) ts).
  - apply not_ok_same; assumption.
  - rewrite H1, H2. simpl. split; apply Permutation_flat_map; assumption.
Qed.

(* ---- the function loop ------------------------------------------------------------ *)

Definition f_ok (f : string * statement) : list (string * statement) :=
  match check_function (snd f) with DOk None => [f] | _ => [] end.
Definition f_err (f : string * statement) : list report :=
  match check_function (snd f) with DOk (Some rs) => rs | _ => [] end.
Definition f_stuck (f : string * statement) : bool :=
  match check_function (snd f) with DOk _ => false | _ => true end.

Lemma desugar_functions_spec : forall fs acc reps,
  if existsb f_stuck fs
  then forall x, desugar_functions fs acc reps <> DOk x
  else desugar_functions fs acc reps = DOk (acc ++ flat_map f_ok fs, reps ++ flat_map f_err fs).
Proof.
  induction fs as [|[name body] fs IH]; intros acc reps; simpl.
  - rewrite !app_nil_r. reflexivity.
  - unfold f_stuck at 1, f_ok at 1, f_err at 1. simpl.
    destruct (check_function body) as [[rs|]|r|site|]; simpl.
    + specialize (IH acc (reps ++ rs)). destruct (existsb f_stuck fs); auto.
      rewrite IH, <- app_assoc. reflexivity.
    + specialize (IH (acc ++ [(name, body)]) reps). destruct (existsb f_stuck fs); auto.
      rewrite IH, <- app_assoc. reflexivity.
    + intros x; discriminate.
    + intros x; discriminate.
    + intros x; discriminate.
Qed.

(* ---- remove_syntactic_sugar ---------------------------------------------------------- *)

Definition same_desugared (a b : dres desugared) : Prop :=
  match a, b with
  | DOk x, DOk y =>
      Permutation (d_templates x) (d_templates y) /\ Permutation (d_functions x) (d_functions y) /\
      Permutation (d_reports x) (d_reports y)
  | DOk _, _ | _, DOk _ => False
  | _, _ => True
  end.

Lemma desugar_templates_env : forall e1 e2 lib, env_agree e1 e2 -> forall ts acc reps,
  desugar_templates e1 lib ts acc reps = desugar_templates e2 lib ts acc reps.
Proof.
  intros e1 e2 lib H ts. induction ts as [|[name body] ts IH]; intros acc reps; simpl; auto.
  rewrite (desugar_template_env e1 e2 lib H body).
  destruct (desugar_template e2 lib body); auto.
Qed.

Theorem remove_syntactic_sugar_order_independent : forall lib ts ts' fs fs',
  NoDup (map fst ts) -> Permutation ts ts' -> Permutation fs fs' ->
  same_desugared (remove_syntactic_sugar lib ts fs) (remove_syntactic_sugar lib ts' fs').
Proof.
  intros lib ts ts' fs fs' Hnd Hpt Hpf. unfold remove_syntactic_sugar.
  rewrite (desugar_templates_env (env_of ts') (env_of ts) lib).
  2: { intros id. symmetry. apply env_of_perm; assumption. }
  pose proof (desugar_templates_spec (env_of ts) lib ts [] []) as H1.
  pose proof (desugar_templates_spec (env_of ts) lib ts' [] []) as H2.
  rewrite <- (existsb_perm _ (t_stuck (env_of ts) lib) ts ts' Hpt) in H2.
  destruct (existsb (t_stuck (env_of ts) lib) ts).
  - destruct (desugar_templates (env_of ts) lib ts [] []) as [x| | |]; [exfalso; eapply H1; reflexivity| | |];
      (destruct (desugar_templates (env_of ts) lib ts' [] []) as [y| | |]; [exfalso; eapply H2; reflexivity| | |]);
      exact I.
  - rewrite H1, H2. simpl.
    pose proof (desugar_functions_spec fs [] (flat_map (t_err (env_of ts) lib) ts)) as F1.
    pose proof (desugar_functions_spec fs' [] (flat_map (t_err (env_of ts) lib) ts')) as F2.
    rewrite <- (existsb_perm _ f_stuck fs fs' Hpf) in F2.
    destruct (existsb f_stuck fs).
    + destruct (desugar_functions fs [] _) as [x| | |]; [exfalso; eapply F1; reflexivity| | |];
        (destruct (desugar_functions fs' [] _) as [y| | |]; [exfalso; eapply F2; reflexivity| | |]);
        exact I.
    + rewrite F1, F2. simpl. split; [|split].
      * apply Permutation_flat_map; assumption.
      * apply Permutation_flat_map; assumption.
      * apply Permutation_app; apply Permutation_flat_map; assumption.
Qed.

(* ---- a loop that updates its lookup table while iterating is order dependent ------ *)

(* NOT the code of /repo: the variant of seeded/C17-desugar-known-templates-hash-order,
   in which a dropped template is also removed from the table consulted for the
   templates visited later.  It is here to show that the theorems above
   distinguish: the same statement is false for it. *)
Definition remove_key (n : string) (env : tenv) : tenv :=
  filter (fun e => negb (String.eqb (fst e) n)) env.

Fixpoint desugar_templates_tracking (known : tenv) (lib : file_library) (ts : list (string * statement))
  (acc : list (string * statement)) (reports : list report)
  : dres (list (string * statement) * list report) :=
  match ts with
  | [] => DOk (acc, reports)
  | (name, body) :: rest =>
      match desugar_template known lib body with
      | DOk new_body => desugar_templates_tracking known lib rest (acc ++ [(name, new_body)]) reports
      | DErr r => desugar_templates_tracking (remove_key name known) lib rest acc (reports ++ [r])
      | DPanic s => DPanic s
      | DOutOfFuel => DOutOfFuel
      end
  end.

Local Open Scope string_scope.
Definition wm : meta := Meta 0 1 (Some 0%N).
Definition wlib : file_library := [[0%N]].
(* B is dropped: an anonymous component inside an assert *)
Definition wB : statement :=
  Block wm [Declaration wm (VSignal SOutput []) "out" [] false;
            Assert wm (AnonymousComponent wm "Q" false [] [] None)].
(* U instantiates B anonymously *)
Definition wU : statement :=
  Block wm [Declaration wm (VSignal SOutput []) "b" [] false;
            Substitution wm "b" [] AssignConstraintSignal (AnonymousComponent wm "B" false [] [] None)].
Definition wts : list (string * statement) := [("B", wB); ("U", wU)].

Theorem tracking_variant_order_dependent :
  exists lib ts ts',
    NoDup (map fst ts) /\ Permutation ts ts' /\
    ~ same_up_to_order (desugar_templates_tracking (env_of ts) lib ts [] [])
                       (desugar_templates_tracking (env_of ts) lib ts' [] []) /\
    same_up_to_order (desugar_templates (env_of ts) lib ts [] [])
                     (desugar_templates (env_of ts) lib ts' [] []).
Proof.
  exists wlib, wts, (rev wts).
  split. { simpl. repeat constructor; simpl; intuition discriminate. }
  split. { apply Permutation_rev. }
  split.
  - vm_compute. intros [H _]. apply Permutation_length in H. discriminate.
  - apply desugar_templates_order_independent. apply Permutation_rev.
Qed.
