(* The calculus of Spec.PolyDeg: constants, sums, products (discrete Leibniz
   rule), scalar multiples, congruence modulo p. *)
From Coq Require Import ZArith Lia Arith.
Require Import Model.Ir Spec.PolyDeg.
Local Open Scope Z_scope.

Definition shift (f : Z -> Z) : Z -> Z := fun t => f (t + 1).

Lemma Dn_ext n : forall f g, (forall t, f t = g t) -> forall t, Dn n f t = Dn n g t.
Proof.
  induction n as [|n IH]; intros f g H t; cbn [Dn]; [apply H|].
  apply IH. intros u. unfold Dd. rewrite !H. reflexivity.
Qed.

Lemma Dn_add n : forall f g t, Dn n (fun u => f u + g u) t = Dn n f t + Dn n g t.
Proof.
  induction n as [|n IH]; intros f g t; cbn [Dn]; [reflexivity|].
  rewrite <- IH. apply Dn_ext. intros u. unfold Dd. lia.
Qed.

Lemma Dn_shift n : forall f t, Dn n (shift f) t = Dn n f (t + 1).
Proof.
  induction n as [|n IH]; intros f t; cbn [Dn]; [reflexivity|].
  rewrite <- IH. apply Dn_ext. intros u. reflexivity.
Qed.

Lemma Dn_S_out n : forall f t, Dn (S n) f t = Dd (Dn n f) t.
Proof.
  induction n as [|n IH]; intros f t; [reflexivity|].
  change (Dn (S (S n)) f t) with (Dn (S n) (Dd f) t). rewrite IH. reflexivity.
Qed.

Section Mod.
Variable p : Z.

Lemma Dn_cong n : forall f g, (forall t, f t mod p = g t mod p) -> forall t, Dn n f t mod p = Dn n g t mod p.
Proof.
  induction n as [|n IH]; intros f g H t; cbn [Dn]; [apply H|].
  apply IH. intros u. unfold Dd. rewrite Zminus_mod, (Zminus_mod (g (u + 1))), !H. reflexivity.
Qed.

Lemma zero_after_0_all k f : zero_after p 0 f -> zero_after p k f.
Proof.
  intros H t. rewrite (Dn_cong k f (fun _ => 0)).
  - clear. revert t. induction k as [|k IH]; intros t; cbn [Dn]; [apply Zmod_0_l|].
    rewrite (Dn_ext k (Dd (fun _ => 0)) (fun _ => 0)); [apply IH|]. intros u. unfold Dd. lia.
  - intros u. specialize (H u). cbn [Dn] in H. rewrite H. symmetry. apply Zmod_0_l.
Qed.

Lemma zero_after_S k f : zero_after p k f -> zero_after p (S k) f.
Proof.
  intros H t. rewrite Dn_S_out. unfold Dd. rewrite Zminus_mod, !H. reflexivity.
Qed.

Lemma zero_after_le j k f : (j <= k)%nat -> zero_after p j f -> zero_after p k f.
Proof. intros Hle. induction Hle as [|k Hle IH]; [auto|]. intros Hz. apply zero_after_S. auto. Qed.

Lemma zero_after_shift k f : zero_after p k f -> zero_after p k (shift f).
Proof. intros H t. rewrite Dn_shift. apply H. Qed.

Lemma zero_after_Dd k f : zero_after p (S k) f -> zero_after p k (Dd f).
Proof. intros H t. apply H. Qed.

Lemma zero_after_add k f g : zero_after p k f -> zero_after p k g -> zero_after p k (fun t => f t + g t).
Proof. intros Hf Hg t. rewrite Dn_add, <- Zplus_mod_idemp_l, Hf, Z.add_0_l. apply Hg. Qed.

Lemma zero_mul_l f g : zero_after p 0 f -> zero_after p 0 (fun t => f t * g t).
Proof. unfold zero_after. cbn [Dn]. intros H t. rewrite Zmult_mod, (H t), Z.mul_0_l. apply Zmod_0_l. Qed.

Lemma zero_mul_r f g : zero_after p 0 g -> zero_after p 0 (fun t => f t * g t).
Proof. unfold zero_after. cbn [Dn]. intros H t. rewrite Zmult_mod, (H t), Z.mul_0_r. apply Zmod_0_l. Qed.

Lemma Dd_mul f g t : Dd (fun u => f u * g u) t = shift f t * Dd g t + Dd f t * g t.
Proof. unfold Dd, shift. lia. Qed.

(* discrete Leibniz: degrees add under multiplication *)
Lemma zero_after_mul : forall n i j f g,
  (i + j = n)%nat -> zero_after p i f -> zero_after p j g ->
  zero_after p (Nat.pred (i + j)) (fun t => f t * g t).
Proof.
  induction n as [|n IH]; intros i j f g Hn Hf Hg.
  - assert (i = 0%nat) by lia. assert (j = 0%nat) by lia. subst. cbn. apply zero_mul_l. exact Hf.
  - destruct i as [|i].
    { apply zero_after_0_all. apply zero_mul_l. exact Hf. }
    destruct j as [|j].
    { apply zero_after_0_all. apply zero_mul_r. exact Hg. }
    replace (Nat.pred (S i + S j)) with (S (i + j)) by lia.
    intros t. change (Dn (S (i + j)) (fun u => f u * g u) t) with (Dn (i + j) (Dd (fun u => f u * g u)) t).
    rewrite (Dn_ext (i + j) _ (fun u => shift f u * Dd g u + Dd f u * g u)) by (intros u; apply Dd_mul).
    apply (zero_after_add (i + j)).
    + assert (H := IH (S i) j (shift f) (Dd g) ltac:(lia) (zero_after_shift _ _ Hf) (zero_after_Dd _ _ Hg)).
      replace (Nat.pred (S i + j)) with (i + j)%nat in H by lia. exact H.
    + assert (H := IH i (S j) (Dd f) g ltac:(lia) (zero_after_Dd _ _ Hf) Hg).
      replace (Nat.pred (i + S j)) with (i + j)%nat in H by lia. exact H.
Qed.

Lemma zero_after_const k c : zero_after p (S k) (fun _ => c).
Proof.
  apply (zero_after_le 1 (S k)); [lia|]. intros t. cbn [Dn]. unfold Dd. rewrite Z.sub_diag. apply Zmod_0_l.
Qed.

Lemma zero_after_scale k c f : zero_after p k f -> zero_after p k (fun t => c * f t).
Proof.
  intros H. destruct k as [|k].
  - apply zero_mul_r. exact H.
  - assert (Hm := zero_after_mul (1 + S k) 1 (S k) (fun _ => c) f eq_refl (zero_after_const 0 c) H).
    exact Hm.
Qed.

Lemma zero_after_mod k f : zero_after p k f -> zero_after p k (fun t => f t mod p).
Proof.
  intros H t. rewrite (Dn_cong k (fun u => f u mod p) f); [apply H|].
  intros u. apply Zmod_mod.
Qed.

Lemma zero_after_opp k f : zero_after p k f -> zero_after p k (fun t => - f t).
Proof.
  intros H. assert (Hs := zero_after_scale k (-1) f H).
  intros t. rewrite (Dn_ext k _ (fun u => -1 * f u)); [apply Hs|]. intros u. lia.
Qed.
End Mod.

(* ---------- lifted to valuations ---------- *)
Section Val.
Variable V : Type.
Variable line : V -> V -> Z -> V.
Variable p : Z.
Notation Deg := (Deg V line p).
Notation Constant := (Constant V).
Notation SemDeg := (SemDeg V line p).

Lemma Deg_mono m n F : (m <= n)%nat -> Deg m F -> Deg n F.
Proof. intros Hle H rho delta. apply (zero_after_le p (S m) (S n)); [lia|]. apply H. Qed.

Lemma Constant_Deg n F : Constant F -> Deg n F.
Proof.
  intros H rho delta t.
  rewrite (Dn_ext (S n) _ (fun _ => F rho)) by (intros u; apply H).
  apply zero_after_const.
Qed.

Lemma Deg_add m n F G : Deg m F -> Deg n G -> Deg (Nat.max m n) (fun r => (F r + G r) mod p).
Proof.
  intros HF HG rho delta. apply zero_after_mod.
  apply (zero_after_add p (S (Nat.max m n)) (fun t => F (line rho delta t)) (fun t => G (line rho delta t))).
  - apply (zero_after_le p (S m)); [lia|]. apply HF.
  - apply (zero_after_le p (S n)); [lia|]. apply HG.
Qed.

Lemma Deg_sub m n F G : Deg m F -> Deg n G -> Deg (Nat.max m n) (fun r => (F r - G r) mod p).
Proof.
  intros HF HG rho delta. apply zero_after_mod.
  assert (H := zero_after_add p (S (Nat.max m n)) (fun t => F (line rho delta t)) (fun t => - G (line rho delta t))).
  intros t. rewrite (Dn_ext _ _ (fun u => F (line rho delta u) + - G (line rho delta u))) by (intros; lia).
  apply H.
  - apply (zero_after_le p (S m)); [lia|]. apply HF.
  - apply zero_after_opp. apply (zero_after_le p (S n)); [lia|]. apply HG.
Qed.

Lemma Deg_mul m n F G : Deg m F -> Deg n G -> Deg (m + n) (fun r => (F r * G r) mod p).
Proof.
  intros HF HG rho delta. apply zero_after_mod.
  assert (H := zero_after_mul p (S m + S n) (S m) (S n) (fun t => F (line rho delta t)) (fun t => G (line rho delta t))
                              eq_refl (HF rho delta) (HG rho delta)).
  replace (Nat.pred (S m + S n)) with (S (m + n)) in H by lia. exact H.
Qed.

Lemma Deg_scale n c F : Deg n F -> Deg n (fun r => (F r * c) mod p).
Proof.
  intros HF rho delta. apply zero_after_mod.
  intros t. rewrite (Dn_ext _ _ (fun u => c * F (line rho delta u))) by (intros; lia).
  apply zero_after_scale. apply HF.
Qed.

Lemma Constant_binop (h : Z -> Z -> Z) F G : Constant F -> Constant G -> Constant (fun r => h (F r) (G r)).
Proof. intros HF HG r r'. rewrite (HF r r'), (HG r r'). reflexivity. Qed.

Lemma Constant_unop (h : Z -> Z) F : Constant F -> Constant (fun r => h (F r)).
Proof. intros HF r r'. rewrite (HF r r'). reflexivity. Qed.

Lemma SemDeg_mono a b F : deg_leb a b = true -> SemDeg a F -> SemDeg b F.
Proof.
  destruct a, b; cbn; try discriminate; intros _ H; try exact H; try exact I.
  - apply Constant_Deg. exact H.
  - apply Constant_Deg. exact H.
  - apply (Deg_mono 1 2); [lia|exact H].
Qed.
End Val.
