(* C12: the theorems about the graph returned by Model.Lift.lift. *)
From stdpp Require Import list sets.
Require Import Model.Lift Spec.CfgSpec Proofs.LiftBasics Proofs.LiftInv Proofs.LiftSteps Proofs.LiftProofs.
Import Base(outcome, Ok, Err, Panic, OutOfFuel, bind).

Definition g_init : graph := [new_block 0 0].

Lemma pre_init : pre g_init 0 (fun _ => False).
Proof.
  split.
  - split.
    + intros i b Hb. destruct i as [|i]; [|by destruct i]. injection Hb as <-.
      split; simpl; try done; [lia|]. unfold shape. simpl. left. split; [by right|done].
    + intros i j bi Hi Hj. destruct i as [|i]; [|by destruct i]. injection Hi as <-. simpl in Hj. set_solver.
    + intros i j bj Hj Hi. destruct j as [|j]; [|by destruct j]. injection Hj as <-. simpl in Hi. set_solver.
    + intros i [[]| ->]. simpl. lia.
  - intros i [].
  - exists (new_block 0 0). split; [done|]. split; [|done]. intros c t f. done.
Qed.

(* everything the later theorems need about the lifted graph *)
Lemma lift_wf body g :
  lift body = Ok g ->
  (exists P, wf g P) /\ g <> [] /\ graph_items g = nesting 0 body.
Proof.
  unfold lift. destruct body as [| |ss| |]; try done. intros H.
  apply bind_ok in H as ([g' ps] & Hv & [= <-]). simpl.
  destruct (visit_post (SBlock ss) 0 g_init _ g' ps pre_init Hv) as [Q1 Q2 Q3 Q4 Q5 Q6 Q7].
  split; [|split].
  - destruct (is_nil ps); [|by eexists]. eexists. apply (pre_wf _ _ _ Q4).
  - intros ->. simpl in Q1. lia.
  - rewrite Q5. done.
Qed.

Section final.
  Context (body : sk) (g : graph) (Hl : lift body = Ok g).

  Lemma lifted_wf : exists P, wf g P.
  Proof. by destruct (lift_wf _ _ Hl) as (? & _). Qed.

  Lemma entry_no_pred :
    (forall i b, g !! i = Some b -> b_index b = i) /\
    exists b0, g !! 0 = Some b0 /\ b_preds b0 = [].
  Proof.
    destruct (lift_wf _ _ Hl) as ((P & Hwf) & Hne & _). split.
    - intros i b Hb. apply (ok_index _ _ _ _ (wf_blk _ _ Hwf _ _ Hb)).
    - destruct g as [|b0 r]; [done|]. exists b0. split; [done|].
      apply (ok_entry _ _ _ _ (wf_blk _ _ Hwf 0 b0 eq_refl) eq_refl).
  Qed.

  Lemma path_snoc a l b c : path g a l b -> edge g b c -> c < length g -> path g a (l ++ [c]) c.
  Proof.
    induction 1 as [i Hi|i k l j He Hp IH]; intros Hbc Hc; simpl.
    - eapply path_cons; [done|by apply path_nil].
    - eapply path_cons; [done|by apply IH].
  Qed.

  (* every block is reached by a path that never goes above it *)
  Lemma descending_path j : j < length g -> exists l, path g 0 l j /\ forall x, x ∈ 0 :: l -> x <= j.
  Proof.
    destruct lifted_wf as (P & Hwf).
    induction j as [j IH] using lt_wf_ind. intros Hj.
    destruct (decide (j = 0)) as [->|Hne].
    - exists []. split; [by apply path_nil|]. set_solver.
    - destruct (lookup_lt_is_Some_2 g j Hj) as (bj & Hbj).
      destruct (ok_spred _ _ _ _ (wf_blk _ _ Hwf _ _ Hbj)) as (p & Hp & Hin); [lia|].
      destruct (wf_m2 _ _ Hwf _ _ _ Hbj Hin) as (bp & Hbp & Hjs).
      destruct (IH p Hp) as (l & Hpath & Hle); [by eapply lookup_lt_Some|].
      exists (l ++ [j]). split.
      + eapply path_snoc; [done| |done]. by exists bp.
      + intros x Hx. rewrite app_comm_cons in Hx. apply elem_of_app in Hx as [Hx|Hx].
        * specialize (Hle _ Hx). lia.
        * apply elem_of_list_singleton in Hx as ->. done.
  Qed.

  Lemma all_reachable j : j < length g -> reachable g j.
  Proof. intros Hj. destruct (descending_path j Hj) as (l & Hp & _). by exists l. Qed.

  Lemma dom_implies_le i j : j < length g -> dominates g i j -> i <= j.
  Proof.
    intros Hj Hdom. destruct (descending_path j Hj) as (l & Hp & Hle). apply Hle, Hdom, Hp.
  Qed.

  Lemma preds_succs_mirror i j :
    (exists bi, g !! i = Some bi /\ j ∈ b_succs bi) <-> (exists bj, g !! j = Some bj /\ i ∈ b_preds bj).
  Proof.
    destruct lifted_wf as (P & Hwf). split.
    - intros (bi & Hbi & Hj). by eapply (wf_m1 _ _ Hwf).
    - intros (bj & Hbj & Hi). by eapply (wf_m2 _ _ Hwf).
  Qed.

  Lemma branch_only_last i b k c t f :
    g !! i = Some b -> b_items b !! k = Some (IBranch c t f) -> S k = length (b_items b).
  Proof.
    destruct lifted_wf as (P & Hwf). intros Hb. apply (ok_branch_last _ _ _ _ (wf_blk _ _ Hwf _ _ Hb)).
  Qed.

  Lemma succs_in_range i b j : g !! i = Some b -> j ∈ b_succs b -> j < length g.
  Proof.
    destruct lifted_wf as (P & Hwf). intros Hb Hj.
    destruct (wf_m1 _ _ Hwf _ _ _ Hb Hj) as (bj & Hbj & _). by eapply lookup_lt_Some.
  Qed.

  Lemma branch_targets_exist_and_are_succs i b c t f :
    g !! i = Some b -> last (b_items b) = Some (IBranch c t f) ->
    t = S i /\ t < length g /\ t ∈ b_succs b /\
    forall x, f = Some x -> x < length g /\ x ∈ b_succs b /\ x <> t.
  Proof.
    destruct lifted_wf as (P & Hwf). intros Hb Hlast.
    pose proof (ok_shape _ _ _ _ (wf_blk _ _ Hwf _ _ Hb)) as Hs. unfold shape in Hs. rewrite Hlast in Hs.
    destruct Hs as (-> & Hlt & [(_ & -> & Hs)|(_ & x & Hx & Hf & Hs)]).
    - split; [done|]. split; [done|]. split; [by apply Hs|]. done.
    - split; [done|]. split; [done|]. split; [apply Hs; by left|].
      intros y ->. destruct Hf as [|[= ->]]; [done|].
      assert (x ∈ b_succs b) by (apply Hs; by right).
      split; [by eapply succs_in_range|done].
  Qed.

  Lemma NoDup_le_two (l : list nat) a b : NoDup l -> (forall y, y ∈ l -> y = a \/ y = b) -> length l <= 2.
  Proof.
    intros Hnd H. destruct l as [|x [|y [|z r]]]; simpl; try lia. exfalso.
    apply NoDup_cons in Hnd as [H1 Hnd]. apply NoDup_cons in Hnd as [H2 Hnd].
    apply NoDup_cons in Hnd as [H3 _].
    destruct (H x) as [->| ->], (H y) as [->| ->], (H z) as [->| ->]; set_solver.
  Qed.

  Lemma NoDup_le_one (l : list nat) a : NoDup l -> (forall y, y ∈ l -> y = a) -> length l <= 1.
  Proof.
    intros Hnd H. destruct l as [|x [|y r]]; simpl; try lia. exfalso.
    apply NoDup_cons in Hnd as [H1 _]. rewrite (H x), (H y) in H1; set_solver.
  Qed.

  Lemma at_most_two_succs i b :
    g !! i = Some b ->
    NoDup (b_succs b) /\ length (b_succs b) <= 2 /\ (~ ends_in_branch b -> length (b_succs b) <= 1).
  Proof.
    destruct lifted_wf as (P & Hwf). intros Hb.
    pose proof (wf_blk _ _ Hwf _ _ Hb) as Hok.
    pose proof (ssorted_NoDup _ (ok_ss _ _ _ _ Hok)) as Hnd.
    pose proof (ok_shape _ _ _ _ Hok) as Hs. unfold shape in Hs.
    split; [done|].
    assert (Hplain : (P i /\ b_succs b = []) \/ (~ P i /\ exists x, forall y, y ∈ b_succs b <-> y = x) ->
                     length (b_succs b) <= 1).
    { intros [[_ ->]|(_ & x & Hx)]; [simpl; lia|]. eapply NoDup_le_one; [done|]. intros y. apply Hx. }
    destruct (last (b_items b)) as [[id|c t f]|] eqn:E.
    - specialize (Hplain Hs). split; [lia|done].
    - split.
      + destruct Hs as (-> & _ & [(_ & _ & Hs)|(_ & x & _ & _ & Hs)]).
        * eapply (NoDup_le_two _ (S i) (S i)); [done|]. intros y Hy. left. by apply Hs.
        * eapply (NoDup_le_two _ (S i) x); [done|]. intros y Hy. by apply Hs.
      + intros Hnb. destruct Hnb. by exists c, t, f.
    - specialize (Hplain Hs). split; [lia|done].
  Qed.

  Lemma loop_depth_is_nesting : graph_items g = nesting 0 body.
  Proof. by destruct (lift_wf _ _ Hl) as (_ & _ & ?). Qed.

  Lemma every_item_exactly_once :
    concat (map (fun b => map item_key (b_items b)) g) = map fst (nesting 0 body).
  Proof.
    rewrite <- loop_depth_is_nesting. unfold graph_items.
    rewrite concat_map. f_equal. rewrite map_map. apply map_ext.
    intros b. by rewrite map_map.
  Qed.
End final.
