(* C07, proof round 4: the hypotheses of Proofs.DegRunLoops.loops_runs_represented are satisfiable
   on a graph WITH A LOOP whose runs differ inside the loop body.

     i = 0;  while (i < 2) { if (a + i == 1) { b <-- i + 5; } else { b2 <-- i + 3; }  i = i + 1; }  b <-- i;

   in SSA form, blocks  0 -> 1(header) -> 2 -> 3 | 4 -> 5 -> 1 ... 1 -> 6.  Two valuations of the
   signal a (true: a = 1, false: a = 0): the first takes the then-arm in the first iteration and
   the else-arm in the second, the other one the other way round; both enter the header three
   times.  The schedule fires block 3 in the first ascending segment (for the first run only) and
   again in the second (for the second run only); the header phi is fired three times and
   overwrites its cell for both runs. *)
From Coq Require Import ZArith NArith List Bool Arith Lia Sorting.Sorted.
Require Import Model.Base Model.Ir Model.SsaCheck Model.Propagate Model.Justify Model.DegJustify Model.DegGraph Model.DegLoops.
Require Import Spec.DegSem Spec.DegRun Proofs.DegRunProofs Proofs.DegRunBranch Proofs.DegRunLoops.
Import ListNotations.
Local Open Scope Z_scope.

Definition lx_k : know := {| kval := None; kdeg := None |}.
Definition lx_m : meta := {| m_start := 0%N; m_end := 0%N; m_file := None |}.
Definition lx_i (v : N) : vname := {| vn_name := [105%N]; vn_suffix := None; vn_version := Some v |}.
Definition lx_z : vname := {| vn_name := [122%N]; vn_suffix := None; vn_version := None |}.
Definition lx_a : vname := {| vn_name := [97%N]; vn_suffix := None; vn_version := None |}.
Definition lx_b : vname := {| vn_name := [98%N]; vn_suffix := None; vn_version := None |}.
Definition lx_num (z : Z) : expr := ENum z lx_k.
Definition lx_var (v : vname) : expr := EVar v lx_k.

Definition lx_g : cfg :=
  {| c_kind := KTemplate; c_params := [];
     c_decls := [(lx_i 0, TLocal); (lx_i 1, TLocal); (lx_i 2, TLocal); (lx_z, TSigOut); (lx_a, TSigIn); (lx_b, TSigOut)];
     c_blocks :=
       [ {| b_index := 0%N; b_depth := 0%N; b_preds := []; b_succs := [1%N];
            b_stmts := [ SSubst lx_m (lx_i 0) OpVar (lx_num 0) None (Some TLocal) ] |};
         {| b_index := 1%N; b_depth := 0%N; b_preds := [0%N; 5%N]; b_succs := [2%N; 6%N];
            b_stmts := [ SSubst lx_m (lx_i 1) OpVar (EPhi [lx_i 0; lx_i 2] lx_k) None (Some TLocal);
                         SIf lx_m (EInfix ILt (lx_var (lx_i 1)) (lx_num 2) lx_k) 2%N (Some 6%N) ] |};
         {| b_index := 2%N; b_depth := 1%N; b_preds := [1%N]; b_succs := [3%N; 4%N];
            b_stmts := [ SIf lx_m (EInfix IEq (EInfix IAdd (lx_var lx_a) (lx_var (lx_i 1)) lx_k) (lx_num 1) lx_k) 3%N (Some 4%N) ] |};
         {| b_index := 3%N; b_depth := 2%N; b_preds := [2%N]; b_succs := [5%N];
            b_stmts := [ SSubst lx_m lx_b OpSig (EInfix IAdd (lx_var (lx_i 1)) (lx_num 5) lx_k) None (Some TSigOut) ] |};
         {| b_index := 4%N; b_depth := 2%N; b_preds := [2%N]; b_succs := [5%N];
            b_stmts := [ SSubst lx_m lx_z OpSig (EInfix IAdd (lx_var (lx_i 1)) (lx_num 3) lx_k) None (Some TSigOut) ] |};
         {| b_index := 5%N; b_depth := 1%N; b_preds := [3%N; 4%N]; b_succs := [1%N];
            b_stmts := [ SSubst lx_m (lx_i 2) OpVar (EInfix IAdd (lx_var (lx_i 1)) (lx_num 1) lx_k) None (Some TLocal) ] |};
         {| b_index := 6%N; b_depth := 0%N; b_preds := [1%N]; b_succs := [];
            b_stmts := [ SSubst lx_m lx_b OpSig (lx_var (lx_i 1)) None (Some TSigOut) ] |} ] |}.

Definition lx_idom : list (option N) := [None; Some 0%N; Some 1%N; Some 2%N; Some 2%N; Some 2%N; Some 1%N].
Definition lx_infos : list binfo :=
  match compute_infos (c_params lx_g) lx_idom (c_blocks lx_g) [] with Some i => i | None => [] end.

Definition lx_sem2 (op : infix_op) (x y : Z) : Z :=
  match op with
  | IAdd => (x + y) mod 7
  | IEq => if x mod 7 =? y mod 7 then 1 else 0
  | ILt => if x <? y then 1 else 0
  | _ => 0
  end.
Definition lx_sem1 (op : prefix_op) (x : Z) : Z := 0.
Definition lx_call (n : ident) (args : list Z) : Z := 0.
Definition lx_code (n : ident) : Z := 0.

Definition lx_aval (rho : bool) : Z := if rho then 1 else 0.
Definition lx_S0 : fstore bool := fun x => if vname_eqb lx_a x then Some (fun _ rho => lx_aval rho) else None.
Definition lx_s0 (rho : bool) : cstore := fun x => if vname_eqb lx_a x then Some (fun _ => lx_aval rho) else None.
Definition lx_sg (rho : bool) : list (list nat) :=
  if rho then [[0; 1; 2; 3; 5]; [1; 2; 4; 5]; [1; 6]]%nat else [[0; 1; 2; 4; 5]; [1; 2; 3; 5]; [1; 6]]%nat.
Definition lx_heads : list nat := [0; 1; 1]%nat.
Definition lx_run (rho : bool) : option cstore :=
  cexec_path 7 lx_sem2 lx_sem1 lx_call lx_code lx_g (params_map (c_params lx_g)) (lx_s0 rho) (concat (lx_sg rho)).
Definition lx_s (rho : bool) : cstore := match lx_run rho with Some s => s | None => lx_s0 rho end.

Lemma lx_run_some rho : lx_run rho = Some (lx_s rho).
Proof.
  unfold lx_s. assert (H : match lx_run rho with Some _ => true | None => false end = true) by (destruct rho; vm_compute; reflexivity).
  destruct (lx_run rho); [reflexivity|discriminate].
Qed.

Lemma lx_picks :
  picks_decided_sched bool 7 lx_sem2 lx_sem1 lx_call lx_code lx_g lx_idom (params_map (c_params lx_g)) lx_s0 [true; false]
                      (length lx_heads * length (c_blocks lx_g)) (blk_s lx_g) (vis_s bool lx_g lx_sg).
Proof.
  intros t b Ht Hb. change (length lx_heads * length (c_blocks lx_g))%nat with 21%nat in Ht.
  do 21 (destruct t as [|t];
         [ vm_compute in Hb; injection Hb as <-;
           intros pre m x op args k sv stt post E Hl r1 r2 _ _ Hne; cbn in E;
           first [ destruct pre; discriminate E
                 | destruct pre as [|s1 pre];
                   [ cbn in E; injection E as <- <- <- <- <- <- <-; exfalso; apply Hne; destruct r1, r2; vm_compute; reflexivity
                   | exfalso; cbn in E; injection E as _ E; destruct pre; discriminate E ] ]
         | ]).
  exfalso. lia.
Qed.

(* every hypothesis of loops_runs_represented, on a graph that is NOT loop-free *)
Theorem loops_example :
  compute_infos (c_params lx_g) lx_idom (c_blocks lx_g) [] = Some lx_infos /\
  infos_ok lx_infos lx_g = true /\ graph_consistent lx_g = true /\ idom_is_dominator_table lx_g lx_idom = true /\
  loops_ok lx_infos lx_g = true /\ forward_b lx_g = false /\
  (forall rho, map (hd 0%nat) (lx_sg rho) = lx_heads /\ Forall (fun seg => seg <> []) (lx_sg rho)) /\
  (forall rho, Forall (StronglySorted lt) (lx_sg rho)) /\
  (forall rho, exists r, In r [true; false] /\ lx_sg r = lx_sg rho) /\
  (forall rho, exists tl, concat (lx_sg rho) = 0%nat :: tl) /\
  (forall rho, rel_store bool rho (lx_s0 rho) lx_S0) /\
  (forall rho, cexec_path 7 lx_sem2 lx_sem1 lx_call lx_code lx_g (params_map (c_params lx_g)) (lx_s0 rho) (concat (lx_sg rho))
               = Some (lx_s rho)) /\
  picks_decided_sched bool 7 lx_sem2 lx_sem1 lx_call lx_code lx_g lx_idom (params_map (c_params lx_g)) lx_s0 [true; false]
                      (length lx_heads * length (c_blocks lx_g)) (blk_s lx_g) (vis_s bool lx_g lx_sg) /\
  (* the paths differ; both runs end with i.1 = 2 in the cell of the header phi, overwritten twice *)
  concat (lx_sg true) <> concat (lx_sg false) /\
  (forall rho, match lx_s rho (lx_i 1) with Some f => f [] | None => 0 end = 2).
Proof.
  split; [vm_compute; reflexivity|]. split; [vm_compute; reflexivity|]. split; [vm_compute; reflexivity|].
  split; [vm_compute; reflexivity|]. split; [vm_compute; reflexivity|]. split; [vm_compute; reflexivity|].
  split.
  { intros [|]; (split; [reflexivity|]); repeat constructor; discriminate. }
  split.
  { intros [|]; cbn; repeat constructor; lia. }
  split.
  { intros [|]; [exists true|exists false]; cbn; auto. }
  split.
  { intros [|]; eexists; reflexivity. }
  split.
  { intros rho x. unfold lx_s0, lx_S0. destruct (vname_eqb lx_a x); cbn; [intros i; reflexivity|exact I]. }
  split; [exact lx_run_some|]. split; [exact lx_picks|].
  split; [discriminate|].
  intros [|]; vm_compute; reflexivity.
Qed.

(* the conjunct update_bases_fresh on an array that is updated element-wise TWICE
     var u[2];  u[0] = a;  u[1] = 1;      i.e.   u.1 = update(u.0, [0], a);  u.2 = update(u.1, [1], 1)
   the base u.0 of the first update is read without a running version and is assigned by no
   statement; the base u.1 of the second is assigned by the first, but it is the running version
   there: loops_ok holds *)
Definition lu_u (v : N) : vname := {| vn_name := [117%N]; vn_suffix := None; vn_version := Some v |}.
Definition lu_g : cfg :=
  {| c_kind := KTemplate; c_params := [];
     c_decls := [(lu_u 0, TLocal); (lu_u 1, TLocal); (lu_u 2, TLocal); (lx_a, TSigIn)];
     c_blocks :=
       [ {| b_index := 0%N; b_depth := 0%N; b_preds := []; b_succs := [];
            b_stmts := [ SSubst lx_m (lu_u 1) OpVar (EUpdate (lu_u 0) [AIdx (lx_num 0)] (lx_var lx_a) lx_k) None (Some TLocal);
                         SSubst lx_m (lu_u 2) OpVar (EUpdate (lu_u 1) [AIdx (lx_num 1)] (lx_num 1) lx_k) None (Some TLocal) ] |} ] |}.
Definition lu_infos : list binfo :=
  match compute_infos (c_params lu_g) [None] (c_blocks lu_g) [] with Some i => i | None => [] end.

Theorem twice_updated_example :
  compute_infos (c_params lu_g) [None] (c_blocks lu_g) [] = Some lu_infos /\ infos_ok lu_infos lu_g = true /\
  existsb (vname_eqb (lu_u 1)) (local_targets_m lu_g) = true /\
  update_bases_fresh lu_infos lu_g = true /\ loops_ok lu_infos lu_g = true.
Proof. vm_compute. repeat split; reflexivity. Qed.

(* ---------- the shape of the fourth audit: a loop header with TWO back edges ----------
     var k = 0; var x = 0;  while (k < 3) { k = k + 1; if (a == x) { x = k; } else { x = 2; } }  o <-- x;
   as the implementation lifts and renames it (declaration statements left out): the `if` is the
   last statement of the body, so both arms jump back to the header, block 1, which has the
   predecessors 0, 3, 4 and the phis  k.1 = phi(k.0, k.2);  x.1 = phi(x.0, x.2, x.3).  Two runs
   that took different arms arrive with different arguments for x.1; the condition that parted
   them, `a == x.1`, reads the target of that very phi - but of no EARLIER phi of the header, and
   in the store of the phi step x.1 still holds the values the condition was evaluated on. *)
Definition hx_k (v : N) : vname := {| vn_name := [107%N]; vn_suffix := None; vn_version := Some v |}.
Definition hx_x (v : N) : vname := {| vn_name := [120%N]; vn_suffix := None; vn_version := Some v |}.
Definition hx_cond : expr := EInfix IEq (lx_var lx_a) (lx_var (hx_x 1)) lx_k.
Definition hx_g : cfg :=
  {| c_kind := KTemplate; c_params := [];
     c_decls := [(lx_a, TSigIn); (hx_k 0, TLocal); (hx_k 1, TLocal); (hx_k 2, TLocal); (lx_b, TSigOut);
                 (hx_x 0, TLocal); (hx_x 1, TLocal); (hx_x 2, TLocal); (hx_x 3, TLocal)];
     c_blocks :=
       [ {| b_index := 0%N; b_depth := 0%N; b_preds := []; b_succs := [1%N];
            b_stmts := [ SSubst lx_m (hx_k 0) OpVar (lx_num 0) None (Some TLocal);
                         SSubst lx_m (hx_x 0) OpVar (lx_num 0) None (Some TLocal) ] |};
         {| b_index := 1%N; b_depth := 0%N; b_preds := [0%N; 3%N; 4%N]; b_succs := [2%N; 5%N];
            b_stmts := [ SSubst lx_m (hx_k 1) OpVar (EPhi [hx_k 0; hx_k 2] lx_k) None (Some TLocal);
                         SSubst lx_m (hx_x 1) OpVar (EPhi [hx_x 0; hx_x 2; hx_x 3] lx_k) None (Some TLocal);
                         SIf lx_m (EInfix ILt (lx_var (hx_k 1)) (lx_num 3) lx_k) 2%N (Some 5%N) ] |};
         {| b_index := 2%N; b_depth := 1%N; b_preds := [1%N]; b_succs := [3%N; 4%N];
            b_stmts := [ SSubst lx_m (hx_k 2) OpVar (EInfix IAdd (lx_var (hx_k 1)) (lx_num 1) lx_k) None (Some TLocal);
                         SIf lx_m hx_cond 3%N (Some 4%N) ] |};
         {| b_index := 3%N; b_depth := 1%N; b_preds := [2%N]; b_succs := [1%N];
            b_stmts := [ SSubst lx_m (hx_x 3) OpVar (lx_var (hx_k 2)) None (Some TLocal) ] |};
         {| b_index := 4%N; b_depth := 1%N; b_preds := [2%N]; b_succs := [1%N];
            b_stmts := [ SSubst lx_m (hx_x 2) OpVar (lx_num 2) None (Some TLocal) ] |};
         {| b_index := 5%N; b_depth := 0%N; b_preds := [1%N]; b_succs := [];
            b_stmts := [ SSubst lx_m lx_b OpSig (lx_var (hx_x 1)) None (Some TSigOut) ] |} ] |}.
Definition hx_idom : list (option N) := [None; Some 0%N; Some 1%N; Some 2%N; Some 2%N; Some 1%N].
Definition hx_infos : list binfo :=
  match compute_infos (c_params hx_g) hx_idom (c_blocks hx_g) [] with Some i => i | None => [] end.
(* the signal a: 0 for the valuation true (then-arm in the first iteration, else-arm afterwards), 5 for false (always else) *)
Definition hx_aval (rho : bool) : Z := if rho then 0 else 5.
Definition hx_S0 : fstore bool := fun x => if vname_eqb lx_a x then Some (fun _ rho => hx_aval rho) else None.
Definition hx_s0 (rho : bool) : cstore := fun x => if vname_eqb lx_a x then Some (fun _ => hx_aval rho) else None.
Definition hx_sg (rho : bool) : list (list nat) :=
  if rho then [[0; 1; 2; 3]; [1; 2; 4]; [1; 2; 4]; [1; 5]]%nat else [[0; 1; 2; 4]; [1; 2; 4]; [1; 2; 4]; [1; 5]]%nat.
Definition hx_heads : list nat := [0; 1; 1; 1]%nat.
Definition hx_run (rho : bool) : option cstore :=
  cexec_path 7 lx_sem2 lx_sem1 lx_call lx_code hx_g (params_map (c_params hx_g)) (hx_s0 rho) (concat (hx_sg rho)).
Definition hx_s (rho : bool) : cstore := match hx_run rho with Some s => s | None => hx_s0 rho end.

Lemma hx_run_some rho : hx_run rho = Some (hx_s rho).
Proof.
  unfold hx_s. assert (H : match hx_run rho with Some _ => true | None => false end = true) by (destruct rho; vm_compute; reflexivity).
  destruct (hx_run rho); [reflexivity|discriminate].
Qed.

Notation hx_ents := (ents bool 7 lx_sem2 lx_sem1 lx_call lx_code hx_g (params_map (c_params hx_g)) hx_s0 (blk_s hx_g) (vis_s bool hx_g hx_sg)).
Notation hx_valid := (Valid bool hx_g [true; false] (blk_s hx_g) (vis_s bool hx_g hx_sg)).

Ltac hx_valid_tac :=
  intros vt Hvlt Hvin _ Hvv;
  do 7 (destruct vt as [|vt];
        [ vm_compute in Hvin; vm_compute in Hvv; try discriminate Hvv;
          repeat (destruct Hvin as [Hvin|Hvin]; [try discriminate Hvin|]); try contradiction | ]);
  exfalso; lia.

Lemma hx_cond_values rho :
  exists v, cval 7 lx_sem2 lx_sem1 lx_call lx_code (hx_ents rho 7%nat) hx_cond = Some v /\ v [] = (if rho then 1 else 0).
Proof.
  assert (H1 : match cval 7 lx_sem2 lx_sem1 lx_call lx_code (hx_ents rho 7%nat) hx_cond with Some _ => true | None => false end = true)
    by (destruct rho; vm_compute; reflexivity).
  assert (H2 : match cval 7 lx_sem2 lx_sem1 lx_call lx_code (hx_ents rho 7%nat) hx_cond with Some v => v [] | None => 2 end = (if rho then 1 else 0))
    by (destruct rho; vm_compute; reflexivity).
  destruct (cval 7 lx_sem2 lx_sem1 lx_call lx_code (hx_ents rho 7%nat) hx_cond) as [v|]; [|discriminate]. exists v. auto.
Qed.

Lemma hx_picks :
  picks_decided_sched bool 7 lx_sem2 lx_sem1 lx_call lx_code hx_g hx_idom (params_map (c_params hx_g)) hx_s0 [true; false]
                      (length hx_heads * length (c_blocks hx_g)) (blk_s hx_g) (vis_s bool hx_g hx_sg).
Proof.
  intros t b Ht Hb. change (length hx_heads * length (c_blocks hx_g))%nat with 24%nat in Ht.
  destruct (Nat.eq_dec t 7) as [->|Hne7].
  - (* the second entry of the header: the runs arrive from different arms *)
    vm_compute in Hb. injection Hb as <-.
    intros pre m x op args k sv stt post E Hl r1 r2 _ _ Hne. cbn in E.
    destruct pre as [|s1 [|s2 pre]].
    + (* the phi of k: the same argument k.2 for both *)
      cbn in E. injection E as <- <- <- <- <- <- <-. exfalso. apply Hne. destruct r1, r2; vm_compute; reflexivity.
    + (* the phi of x *)
      cbn in E. injection E as <- <- <- <- <- <- <- <-.
      assert (Hr : r1 <> r2) by (intros ->; apply Hne; reflexivity).
      split; [cbn; lia|]. clear Hne.
      destruct r1, r2; try (exfalso; apply Hr; reflexivity).
      *
        destruct (hx_cond_values true) as (v1 & Hc1 & Hv1). destruct (hx_cond_values false) as (v2 & Hc2 & Hv2).
        exists hx_cond, v1, v2. split.
        { exists 3%N, 2%N. eexists. exists lx_m, 3%N, (Some 4%N). split; [right; left; reflexivity|]. split; [|split; reflexivity].
          cbn. eapply ab_up; [discriminate|reflexivity|apply ab_here]. }
        split; [exact Hc1|]. split; [exact Hc2|]. split; [rewrite Hv1, Hv2; discriminate|].
        intros y Hy. cbn in Hy. destruct Hy as [<-|[<-|[]]].
        -- split; [hx_valid_tac|]. split; [hx_valid_tac|]. split; [intros []|]. vm_compute. intros [Hq|[]]. discriminate Hq.
        -- split; [hx_valid_tac|]. split; [hx_valid_tac|]. split; [intros []|]. vm_compute. intros [Hq|[]]. discriminate Hq.
      *
        destruct (hx_cond_values false) as (v1 & Hc1 & Hv1). destruct (hx_cond_values true) as (v2 & Hc2 & Hv2).
        exists hx_cond, v1, v2. split.
        { exists 3%N, 2%N. eexists. exists lx_m, 3%N, (Some 4%N). split; [right; left; reflexivity|]. split; [|split; reflexivity].
          cbn. eapply ab_up; [discriminate|reflexivity|apply ab_here]. }
        split; [exact Hc1|]. split; [exact Hc2|]. split; [rewrite Hv1, Hv2; discriminate|].
        intros y Hy. cbn in Hy. destruct Hy as [<-|[<-|[]]].
        -- split; [hx_valid_tac|]. split; [hx_valid_tac|]. split; [intros []|]. vm_compute. intros [Hq|[]]. discriminate Hq.
        -- split; [hx_valid_tac|]. split; [hx_valid_tac|]. split; [intros []|]. vm_compute. intros [Hq|[]]. discriminate Hq.
    + exfalso. cbn in E. injection E as _ _ E. destruct pre; discriminate E.
  - do 24 (destruct t as [|t];
           [ try (exfalso; apply Hne7; reflexivity); vm_compute in Hb; injection Hb as <-;
             intros pre m x op args k sv stt post E Hl r1 r2 _ _ Hne; cbn in E;
             first [ destruct pre; discriminate E
                   | destruct pre as [|s1 [|s2 pre]];
                     [ cbn in E; injection E as <- <- <- <- <- <- <-; exfalso; apply Hne; destruct r1, r2; vm_compute; reflexivity
                     | cbn in E; injection E as <- <- <- <- <- <- <- <-; exfalso; apply Hne; destruct r1, r2; vm_compute; reflexivity
                     | exfalso; cbn in E; injection E as _ _ E; destruct pre; discriminate E ] ]
           | ]).
    exfalso. lia.
Qed.

Theorem header_two_back_edges_example :
  compute_infos (c_params hx_g) hx_idom (c_blocks hx_g) [] = Some hx_infos /\
  infos_ok hx_infos hx_g = true /\ graph_consistent hx_g = true /\ idom_is_dominator_table hx_g hx_idom = true /\
  loops_ok hx_infos hx_g = true /\
  (forall rho, map (hd 0%nat) (hx_sg rho) = hx_heads /\ Forall (fun seg => seg <> []) (hx_sg rho)) /\
  (forall rho, Forall (StronglySorted lt) (hx_sg rho)) /\
  (forall rho, exists r, In r [true; false] /\ hx_sg r = hx_sg rho) /\
  (forall rho, exists tl, concat (hx_sg rho) = 0%nat :: tl) /\
  (forall rho, rel_store bool rho (hx_s0 rho) hx_S0) /\
  (forall rho, cexec_path 7 lx_sem2 lx_sem1 lx_call lx_code hx_g (params_map (c_params hx_g)) (hx_s0 rho) (concat (hx_sg rho))
               = Some (hx_s rho)) /\
  picks_decided_sched bool 7 lx_sem2 lx_sem1 lx_call lx_code hx_g hx_idom (params_map (c_params hx_g)) hx_s0 [true; false]
                      (length hx_heads * length (c_blocks hx_g)) (blk_s hx_g) (vis_s bool hx_g hx_sg) /\
  (* the header has three predecessors, two of them back edges; the deciding condition reads the header's phi target *)
  (exists b1, nth_error (c_blocks hx_g) 1 = Some b1 /\ b_preds b1 = [0%N; 3%N; 4%N] /\
              decides hx_g hx_idom b1 hx_cond /\ In (hx_x 1) (expr_reads hx_cond) /\ In (hx_x 1) (local_targets hx_g (b_stmts b1))).
Proof.
  split; [vm_compute; reflexivity|]. split; [vm_compute; reflexivity|]. split; [vm_compute; reflexivity|].
  split; [vm_compute; reflexivity|]. split; [vm_compute; reflexivity|].
  split.
  { intros [|]; (split; [reflexivity|]); repeat constructor; discriminate. }
  split.
  { intros [|]; cbn; repeat constructor; lia. }
  split.
  { intros [|]; [exists true|exists false]; cbn; auto. }
  split.
  { intros [|]; eexists; reflexivity. }
  split.
  { intros rho x. unfold hx_s0, hx_S0. destruct (vname_eqb lx_a x); cbn; [intros i; reflexivity|exact I]. }
  split; [exact hx_run_some|]. split; [exact hx_picks|].
  eexists. split; [reflexivity|]. split; [reflexivity|]. split.
  { exists 3%N, 2%N. eexists. exists lx_m, 3%N, (Some 4%N). split; [right; left; reflexivity|]. split; [|split; reflexivity].
    cbn. eapply ab_up; [discriminate|reflexivity|apply ab_here]. }
  split; [right; left; reflexivity|]. vm_compute. right. left. reflexivity.
Qed.
