(* C07, proof round 4: the hypotheses of Proofs.DegRunLoops.loops_runs_represented are satisfiable
   on a graph WITH A LOOP whose runs differ inside the loop body.

     i = 0;  while (i < 2) { if (a + i == 1) { b <-- i + 5; } else { b2 <-- i + 3; }  i = i + 1; }  b <-- i;

   in SSA form, blocks  0 -> 1(header) -> 2 -> 3 | 4 -> 5 -> 1 ... 1 -> 6.  Two valuations of the
   signal a (true: a = 1, false: a = 0): the first takes the then-arm in the first iteration and
   the else-arm in the second, the other one the other way round; both enter the header three
   times.  The schedule fires block 3 in the first ascending segment (for the first run only) and
   again in the second (for the second run only); the header phi is fired three times and
   overwrites its cell for both runs. *)
From Coq Require Import ZArith NArith List Bool Arith Lia Sorting.Sorted.
Require Import Model.Base Model.Ir Model.SsaCheck Model.Propagate Model.Justify Model.DegJustify Model.DegGraph Model.DegLoops.
Require Import Spec.DegSem Spec.DegRun Proofs.DegRunProofs Proofs.DegRunBranch Proofs.DegRunLoops.
Import ListNotations.
Local Open Scope Z_scope.

Definition lx_k : know := {| kval := None; kdeg := None |}.
Definition lx_m : meta := {| m_start := 0%N; m_end := 0%N; m_file := None |}.
Definition lx_i (v : N) : vname := {| vn_name := [105%N]; vn_suffix := None; vn_version := Some v |}.
Definition lx_z : vname := {| vn_name := [122%N]; vn_suffix := None; vn_version := None |}.
Definition lx_a : vname := {| vn_name := [97%N]; vn_suffix := None; vn_version := None |}.
Definition lx_b : vname := {| vn_name := [98%N]; vn_suffix := None; vn_version := None |}.
Definition lx_num (z : Z) : expr := ENum z lx_k.
Definition lx_var (v : vname) : expr := EVar v lx_k.

Definition lx_g : cfg :=
  {| c_kind := KTemplate; c_params := [];
     c_decls := [(lx_i 0, TLocal); (lx_i 1, TLocal); (lx_i 2, TLocal); (lx_z, TSigOut); (lx_a, TSigIn); (lx_b, TSigOut)];
     c_blocks :=
       [ {| b_index := 0%N; b_depth := 0%N; b_preds := []; b_succs := [1%N];
            b_stmts := [ SSubst lx_m (lx_i 0) OpVar (lx_num 0) None (Some TLocal) ] |};
         {| b_index := 1%N; b_depth := 0%N; b_preds := [0%N; 5%N]; b_succs := [2%N; 6%N];
            b_stmts := [ SSubst lx_m (lx_i 1) OpVar (EPhi [lx_i 0; lx_i 2] lx_k) None (Some TLocal);
                         SIf lx_m (EInfix ILt (lx_var (lx_i 1)) (lx_num 2) lx_k) 2%N (Some 6%N) ] |};
         {| b_index := 2%N; b_depth := 1%N; b_preds := [1%N]; b_succs := [3%N; 4%N];
            b_stmts := [ SIf lx_m (EInfix IEq (EInfix IAdd (lx_var lx_a) (lx_var (lx_i 1)) lx_k) (lx_num 1) lx_k) 3%N (Some 4%N) ] |};
         {| b_index := 3%N; b_depth := 2%N; b_preds := [2%N]; b_succs := [5%N];
            b_stmts := [ SSubst lx_m lx_b OpSig (EInfix IAdd (lx_var (lx_i 1)) (lx_num 5) lx_k) None (Some TSigOut) ] |};
         {| b_index := 4%N; b_depth := 2%N; b_preds := [2%N]; b_succs := [5%N];
            b_stmts := [ SSubst lx_m lx_z OpSig (EInfix IAdd (lx_var (lx_i 1)) (lx_num 3) lx_k) None (Some TSigOut) ] |};
         {| b_index := 5%N; b_depth := 1%N; b_preds := [3%N; 4%N]; b_succs := [1%N];
            b_stmts := [ SSubst lx_m (lx_i 2) OpVar (EInfix IAdd (lx_var (lx_i 1)) (lx_num 1) lx_k) None (Some TLocal) ] |};
         {| b_index := 6%N; b_depth := 0%N; b_preds := [1%N]; b_succs := [];
            b_stmts := [ SSubst lx_m lx_b OpSig (lx_var (lx_i 1)) None (Some TSigOut) ] |} ] |}.

Definition lx_idom : list (option N) := [None; Some 0%N; Some 1%N; Some 2%N; Some 2%N; Some 2%N; Some 1%N].
Definition lx_infos : list binfo :=
  match compute_infos (c_params lx_g) lx_idom (c_blocks lx_g) [] with Some i => i | None => [] end.

Definition lx_sem2 (op : infix_op) (x y : Z) : Z :=
  match op with
  | IAdd => (x + y) mod 7
  | IEq => if x mod 7 =? y mod 7 then 1 else 0
  | ILt => if x <? y then 1 else 0
  | _ => 0
  end.
Definition lx_sem1 (op : prefix_op) (x : Z) : Z := 0.
Definition lx_call (n : ident) (args : list Z) : Z := 0.
Definition lx_code (n : ident) : Z := 0.

Definition lx_aval (rho : bool) : Z := if rho then 1 else 0.
Definition lx_S0 : fstore bool := fun x => if vname_eqb lx_a x then Some (fun _ rho => lx_aval rho) else None.
Definition lx_s0 (rho : bool) : cstore := fun x => if vname_eqb lx_a x then Some (fun _ => lx_aval rho) else None.
Definition lx_sg (rho : bool) : list (list nat) :=
  if rho then [[0; 1; 2; 3; 5]; [1; 2; 4; 5]; [1; 6]]%nat else [[0; 1; 2; 4; 5]; [1; 2; 3; 5]; [1; 6]]%nat.
Definition lx_heads : list nat := [0; 1; 1]%nat.
Definition lx_run (rho : bool) : option cstore :=
  cexec_path 7 lx_sem2 lx_sem1 lx_call lx_code lx_g (params_map (c_params lx_g)) (lx_s0 rho) (concat (lx_sg rho)).
Definition lx_s (rho : bool) : cstore := match lx_run rho with Some s => s | None => lx_s0 rho end.

Lemma lx_run_some rho : lx_run rho = Some (lx_s rho).
Proof.
  unfold lx_s. assert (H : match lx_run rho with Some _ => true | None => false end = true) by (destruct rho; vm_compute; reflexivity).
  destruct (lx_run rho); [reflexivity|discriminate].
Qed.

Lemma lx_picks :
  picks_decided_sched bool 7 lx_sem2 lx_sem1 lx_call lx_code lx_g lx_idom (params_map (c_params lx_g)) lx_s0 [true; false]
                      (length lx_heads * length (c_blocks lx_g)) (blk_s lx_g) (vis_s bool lx_g lx_sg).
Proof.
  intros t b Ht Hb. change (length lx_heads * length (c_blocks lx_g))%nat with 21%nat in Ht.
  do 21 (destruct t as [|t];
         [ vm_compute in Hb; injection Hb as <-;
           intros m x op args k sv stt Hin Hl r1 r2 _ _ Hne; cbn in Hin;
           first [ contradiction
                 | destruct Hin as [Hin|[]]; injection Hin as <- <- <- <- <- <- <-; exfalso; apply Hne;
                   destruct r1, r2; vm_compute; reflexivity ]
         | ]).
  exfalso. lia.
Qed.

(* every hypothesis of loops_runs_represented, on a graph that is NOT loop-free *)
Theorem loops_example :
  compute_infos (c_params lx_g) lx_idom (c_blocks lx_g) [] = Some lx_infos /\
  infos_ok lx_infos lx_g = true /\ graph_consistent lx_g = true /\ idom_is_dominator_table lx_g lx_idom = true /\
  loops_ok lx_infos lx_g = true /\ forward_b lx_g = false /\
  (forall rho, map (hd 0%nat) (lx_sg rho) = lx_heads /\ Forall (fun seg => seg <> []) (lx_sg rho)) /\
  (forall rho, Forall (StronglySorted lt) (lx_sg rho)) /\
  (forall rho, exists r, In r [true; false] /\ lx_sg r = lx_sg rho) /\
  (forall rho, exists tl, concat (lx_sg rho) = 0%nat :: tl) /\
  (forall rho, rel_store bool rho (lx_s0 rho) lx_S0) /\
  (forall rho, cexec_path 7 lx_sem2 lx_sem1 lx_call lx_code lx_g (params_map (c_params lx_g)) (lx_s0 rho) (concat (lx_sg rho))
               = Some (lx_s rho)) /\
  picks_decided_sched bool 7 lx_sem2 lx_sem1 lx_call lx_code lx_g lx_idom (params_map (c_params lx_g)) lx_s0 [true; false]
                      (length lx_heads * length (c_blocks lx_g)) (blk_s lx_g) (vis_s bool lx_g lx_sg) /\
  (* the paths differ; both runs end with i.1 = 2 in the cell of the header phi, overwritten twice *)
  concat (lx_sg true) <> concat (lx_sg false) /\
  (forall rho, match lx_s rho (lx_i 1) with Some f => f [] | None => 0 end = 2).
Proof.
  split; [vm_compute; reflexivity|]. split; [vm_compute; reflexivity|]. split; [vm_compute; reflexivity|].
  split; [vm_compute; reflexivity|]. split; [vm_compute; reflexivity|]. split; [vm_compute; reflexivity|].
  split.
  { intros [|]; (split; [reflexivity|]); repeat constructor; discriminate. }
  split.
  { intros [|]; cbn; repeat constructor; lia. }
  split.
  { intros [|]; [exists true|exists false]; cbn; auto. }
  split.
  { intros [|]; eexists; reflexivity. }
  split.
  { intros rho x. unfold lx_s0, lx_S0. destruct (vname_eqb lx_a x); cbn; [intros i; reflexivity|exact I]. }
  split; [exact lx_run_some|]. split; [exact lx_picks|].
  split; [discriminate|].
  intros [|]; vm_compute; reflexivity.
Qed.
