(* Proofs about the executable reference of Spec.DomSpec (rootedness test,
   dominance by node deletion). *)
From Coq Require Import ZArith Lia.
From stdpp Require Import list list_numbers sets.
Require Import Model.Dom Spec.DomSpec Proofs.DomProofs.

(* ------------------------------------------------------------------ *)
(* the executable rootedness test is sound (used for the Examples and   *)
(* by the engine to filter the enumerated graphs)                      *)
(* ------------------------------------------------------------------ *)
Lemma forallb_elem_of {A} (f : A → bool) (l : list A) :
  forallb f l = true ↔ ∀ x, x ∈ l → f x = true.
Proof. rewrite forallb_forall. setoid_rewrite elem_of_list_In. done. Qed.

Lemma succs_of_edge g a b : b ∈ succs_of g a ↔ edge g a b.
Proof.
  unfold succs_of, edge. destruct (g !! a) as [x|]; [naive_solver|].
  split; [by intros ?%elem_of_nil|naive_solver].
Qed.

Section reach_sound.
  Context (g : graph) (Hsuccs : ∀ a x b, g !! a = Some x → b ∈ succs x → b < length g).
  Context (avoid : nat).

  Definition avoiding (v : nat) : Prop := ∃ l, path g 0 v l ∧ avoid ∉ l.

  Lemma expand_sound vis :
    (∀ v, v ∈ vis → avoiding v) → ∀ v, v ∈ expand g avoid vis → avoiding v.
  Proof.
    intros Hvis v. unfold expand. rewrite elem_of_remove_dups, elem_of_app, elem_of_list_filter, elem_of_list_bind.
    intros [?|[Hne (u & Hv & Hu)]]; [by apply Hvis|].
    destruct (Hvis u Hu) as (l & Hl & Hnl). apply succs_of_edge in Hv.
    exists (l ++ [v]). split; [|set_solver].
    eapply path_snoc; [done|done|]. destruct Hv as (x & ? & ?). by eapply Hsuccs.
  Qed.

  Lemma reach_sound v : 0 < length g → v ∈ reach_avoiding g avoid → avoiding v.
  Proof.
    intros Hn. unfold reach_avoiding. generalize (length g). intros k. revert v.
    induction k as [|k IH]; intros v; simpl.
    - case_decide; [by intros ?%elem_of_nil|].
      intros ->%elem_of_list_singleton. exists [0]. split; [by constructor|set_solver].
    - by apply expand_sound.
  Qed.
End reach_sound.

Lemma rooted_b_sound g : rooted_b g = true → rooted g.
Proof.
  unfold rooted_b. rewrite !andb_true_iff, !bool_decide_eq_true, !forallb_elem_of.
  intros ((((Hn & Hrange) & Hmirror) & Hentry) & Hreach).
  assert (∀ a x b, g !! a = Some x → b ∈ succs x → b < length g) as Hs.
  { intros a x b Ha Hb. apply elem_of_list_lookup_2 in Ha. apply Hrange in Ha.
    rewrite andb_true_iff, !forallb_elem_of in Ha. destruct Ha as [Ha _].
    apply Ha in Hb. by apply bool_decide_eq_true in Hb. }
  split; [done|done| | | |].
  - intros a x b Ha Hb. apply elem_of_list_lookup_2 in Ha. apply Hrange in Ha.
    rewrite andb_true_iff, !forallb_elem_of in Ha. destruct Ha as [_ Ha].
    apply Ha in Hb. by apply bool_decide_eq_true in Hb.
  - intros a b xa xb Ha Hb.
    assert (a ∈ seq 0 (length g)) as Ha' by (apply elem_of_seq; apply lookup_lt_Some in Ha; lia).
    assert (b ∈ seq 0 (length g)) as Hb' by (apply elem_of_seq; apply lookup_lt_Some in Hb; lia).
    apply Hmirror in Ha'. rewrite forallb_elem_of in Ha'. apply Ha' in Hb'.
    apply bool_decide_eq_true in Hb'. unfold succs_of, preds_of in Hb'. by rewrite Ha, Hb in Hb'.
  - intros x Hx. unfold preds_of in Hentry. by rewrite Hx in Hentry.
  - intros j Hj. assert (j ∈ seq 0 (length g)) as Hj' by (apply elem_of_seq; lia).
    apply Hreach, bool_decide_eq_true in Hj'.
    destruct (reach_sound g Hs (length g) j Hn Hj') as (l & ? & _). eauto.
Qed.

Section reach_complete.
  Context (g : graph) (Hg : rooted g) (avoid : nat).
  Notation n := (length g).
  Notation init := (if decide (avoid = 0) then [] else [0]).
  Notation R k := (Nat.iter k (expand g avoid) init).

  Definition closed (vis : list nat) : Prop :=
    ∀ u v, u ∈ vis → edge g u v → v ≠ avoid → v ∈ vis.

  Lemma elem_of_expand vis v :
    v ∈ expand g avoid vis ↔ v ∈ vis ∨ (v ≠ avoid ∧ ∃ u, u ∈ vis ∧ edge g u v).
  Proof.
    unfold expand. rewrite elem_of_remove_dups, elem_of_app, elem_of_list_filter, elem_of_list_bind.
    setoid_rewrite succs_of_edge. naive_solver.
  Qed.

  Lemma NoDup_R k : NoDup (R k).
  Proof.
    destruct k; simpl; [|apply NoDup_remove_dups].
    case_decide; [constructor|apply NoDup_singleton].
  Qed.

  Lemma R_avoiding k v : v ∈ R k → avoiding g avoid v.
  Proof.
    revert v. induction k as [|k IH]; intros v; simpl.
    - case_decide; [by intros ?%elem_of_nil|].
      intros ->%elem_of_list_singleton. exists [0]. split; [|set_solver].
      constructor. apply (rooted_nonempty g Hg).
    - apply expand_sound; [|done]. apply (rooted_succs g Hg).
  Qed.

  Lemma R_bound k : length (R k) ≤ n.
  Proof.
    rewrite <- (seq_length n 0). apply submseteq_length, NoDup_submseteq; [apply NoDup_R|].
    intros v (l & Hl & _)%R_avoiding. apply elem_of_seq. apply path_dst_lt in Hl. lia.
  Qed.

  Lemma length_expand vis :
    NoDup vis → length vis ≤ length (expand g avoid vis) ∧
                (length (expand g avoid vis) ≤ length vis → closed vis).
  Proof.
    intros Hnd.
    assert (vis ⊆+ expand g avoid vis) as Hsub.
    { apply NoDup_submseteq; [done|]. intros v ?. apply elem_of_expand. by left. }
    split; [by apply submseteq_length|].
    intros Hle. pose proof (submseteq_Permutation_length_le _ _ Hle Hsub) as HP.
    intros u v Hu He Hne. rewrite HP. apply elem_of_expand. right. eauto.
  Qed.

  Lemma closed_expand vis : closed vis → ∀ v, v ∈ expand g avoid vis ↔ v ∈ vis.
  Proof.
    intros Hc v. rewrite elem_of_expand. split; [|by left].
    intros [?|(? & u & ? & ?)]; [done|]. by eapply Hc.
  Qed.

  Lemma closed_stays k m : closed (R k) → ∀ v, v ∈ R (m + k) ↔ v ∈ R k.
  Proof.
    intros Hc. induction m as [|m IH]; intros v; [done|].
    simpl. rewrite closed_expand; [apply IH|].
    intros u w Hu He Hne. apply IH. apply IH in Hu. by eapply Hc.
  Qed.

  Lemma grows k : (∃ k', k' ≤ k ∧ closed (R k')) ∨ k + length init ≤ length (R k).
  Proof.
    induction k as [|k [(k' & Hk' & Hc')|IH]]; [by right|left; exists k'; split; [lia|done]|].
    destruct (length_expand (R k) (NoDup_R k)) as [Hle Hcl].
    destruct (decide (length (R (S k)) ≤ length (R k))) as [Hd|Hd].
    - left. exists k. split; [lia|]. by apply Hcl.
    - right. simpl in *. lia.
  Qed.

  Lemma closed_final : avoid ≠ 0 → closed (R n).
  Proof.
    intros Hne. destruct (grows n) as [(k' & Hk' & Hc)|Hlen].
    - replace n with ((n - k') + k') by lia.
      intros u v Hu He Hv. apply closed_stays; [done|]. apply closed_stays in Hu; [|done]. by eapply Hc.
    - pose proof (R_bound n). assert (length init = 1) as Hi by (by rewrite decide_False). lia.
  Qed.

  Lemma entry_in_R k : avoid ≠ 0 → 0 ∈ R k.
  Proof.
    intros Hne. induction k as [|k IH]; simpl.
    - rewrite decide_False by done. set_solver.
    - apply elem_of_expand. by left.
  Qed.

  Lemma reach_complete v : avoid ≠ 0 → avoiding g avoid v → v ∈ reach_avoiding g avoid.
  Proof.
    intros Hne (l & Hl & Hnl). unfold reach_avoiding. revert v Hl Hnl.
    induction l as [|y l0 IH] using rev_ind; intros v Hl Hnl; [inversion Hl|].
    destruct (path_snoc_inv _ _ _ _ Hl) as [[_ <-]|(l' & b & Heq & Hp & He)].
    - by apply entry_in_R.
    - apply app_inj_tail in Heq as [-> ->].
      apply (closed_final Hne b v); [apply IH; [done|set_solver]|done|set_solver].
  Qed.
End reach_complete.

(* dominance by node deletion decides the path definition *)
Theorem dom_by_deletion_correct g i j :
  rooted g → j < length g → (dom_by_deletion g i j = true ↔ dom g i j).
Proof.
  intros Hg Hj. unfold dom_by_deletion.
  rewrite orb_true_iff, !bool_decide_eq_true. split.
  - intros [->|Hnot]; [apply (dom_refl g Hg)|].
    destruct (decide (i = 0)) as [->|Hne]; [apply (dom_entry g Hg)|].
    intros l Hl. destruct (decide (i ∈ l)) as [|Hnl]; [done|].
    destruct Hnot. apply reach_complete; [done|done|]. by exists l.
  - intros Hd. destruct (decide (i = j)) as [|Hne]; [by left|right].
    intros Hin. apply reach_sound in Hin as (l & Hl & Hnl);
      [|apply (rooted_succs g Hg)|apply (rooted_nonempty g Hg)].
    by apply Hd in Hl.
Qed.

Lemma lookup_total_fmap_seq {B} `{!Inhabited B} (f : nat → B) n i :
  i < n → (f <$> seq 0 n) !!! i = f i.
Proof.
  intros Hi. apply list_lookup_total_correct.
  rewrite list_lookup_fmap, lookup_seq_lt by done. done.
Qed.

(* the tables printed by the engine's spec side are the definitions *)
Section spec_view.
  Context (g : graph) (Hg : rooted g).
  Notation n := (length g).
  Notation T := (avoid_table g).

  Lemma dom_t_correct i j : i < n → j < n → (dom_t T i j = true ↔ dom g i j).
  Proof.
    intros Hi Hj. rewrite <- (dom_by_deletion_correct g i j Hg Hj).
    unfold dom_t, dom_by_deletion, avoid_table.
    by rewrite lookup_total_fmap_seq.
  Qed.

  Lemma sdom_t_correct i j : i < n → j < n → (sdom_t T i j = true ↔ sdom g i j).
  Proof.
    intros Hi Hj. unfold sdom_t, sdom.
    rewrite andb_true_iff, bool_decide_eq_true, dom_t_correct by done. done.
  Qed.

  Lemma spec_dominators_correct j i :
    j < n → (i ∈ spec_dominators n T !!! j ↔ dom g i j).
  Proof.
    intros Hj. unfold spec_dominators.
    rewrite lookup_total_fmap_seq, elem_of_list_filter, elem_of_seq by done. simpl.
    split.
    - intros [Hd ?]. apply dom_t_correct in Hd; [done|lia|done].
    - intros Hd. assert (i < n) by (by eapply (dom_lt g Hg)).
      split; [by apply dom_t_correct|lia].
  Qed.

  Lemma spec_idoms_correct j i : j < n → (i ∈ spec_idoms n T j ↔ idom_spec g i j).
  Proof.
    intros Hj. unfold spec_idoms, idom_spec.
    rewrite elem_of_list_filter, elem_of_seq, Forall_forall. setoid_rewrite elem_of_seq.
    split.
    - intros [[Hs Hall] ?]. assert (i < n) by lia.
      apply sdom_t_correct in Hs; [|done..]. split; [done|].
      intros k Hk. assert (k < n) by apply (sdom_lt g Hg k j Hj Hk).
      apply dom_t_correct; [done..|]. apply Hall; [lia|]. by apply sdom_t_correct.
    - intros [Hs Hall]. assert (i < n) by apply (sdom_lt g Hg i j Hj Hs).
      split; [|lia]. split; [by apply sdom_t_correct|].
      intros k ? Hk. assert (k < n) by lia.
      apply dom_t_correct; [done..|]. apply Hall. by apply sdom_t_correct in Hk.
  Qed.

  Lemma spec_idom_correct j i : j < n → (i ∈ spec_idom n T !!! j ↔ idom_spec g i j).
  Proof.
    intros Hj. unfold spec_idom.
    rewrite lookup_total_fmap_seq by done. by apply spec_idoms_correct.
  Qed.

  Lemma spec_children_correct i j :
    i < n → j < n → (j ∈ spec_children n (spec_idom n T) !!! i ↔ idom_spec g i j).
  Proof.
    intros Hi Hj. unfold spec_children.
    rewrite lookup_total_fmap_seq, elem_of_list_filter, elem_of_seq by done. simpl.
    rewrite spec_idom_correct by done. naive_solver lia.
  Qed.

  Lemma spec_frontier_correct i j :
    i < n → (j ∈ spec_frontier g T !!! i ↔ df_spec g i j).
  Proof.
    intros Hi. unfold spec_frontier.
    rewrite lookup_total_fmap_seq, elem_of_list_filter, elem_of_seq by done. simpl.
    rewrite Exists_exists. unfold df_spec, preds_of. split.
    - intros [[(q & Hq & Hd) Hns] ?]. assert (j < n) as Hj by lia.
      rewrite (lookup_total_node g j Hj) in Hq.
      assert (q < n) by (by eapply (preds_lt g Hg)).
      split.
      + exists (g !!! j), q. split_and!; [by apply lookup_total_node|done|by apply dom_t_correct].
      + intros Hs%sdom_t_correct; [congruence|done..].
    - intros [(x & q & Hx & Hq & Hd) Hns].
      assert (j < n) as Hj by (by eapply lookup_lt_Some).
      assert (q < n) by (by eapply (rooted_preds g Hg)).
      split; [|lia]. split.
      + exists q. rewrite Hx. split; [done|by apply dom_t_correct].
      + destruct (sdom_t T i j) eqn:E; [|done]. destruct Hns. by apply sdom_t_correct.
  Qed.
End spec_view.

Theorem spec_view_correct g :
  rooted g →
  let n := length g in
  let T := avoid_table g in
  (∀ j i, j < n → (i ∈ spec_dominators n T !!! j ↔ dom g i j)) ∧
  (∀ j i, j < n → (i ∈ spec_idom n T !!! j ↔ idom_spec g i j)) ∧
  (∀ i j, i < n → j < n → (j ∈ spec_children n (spec_idom n T) !!! i ↔ idom_spec g i j)) ∧
  (∀ i j, i < n → (j ∈ spec_frontier g T !!! i ↔ df_spec g i j)).
Proof.
  intros Hg. split_and!.
  - apply (spec_dominators_correct g Hg).
  - apply (spec_idom_correct g Hg).
  - apply (spec_children_correct g Hg).
  - apply (spec_frontier_correct g Hg).
Qed.

Lemma orders_ok : order_ok id_order ∧ order_ok rev_order ∧ order_ok rot_order.
Proof.
  split; [|split]; intros i l.
  - reflexivity.
  - symmetry. apply Permutation_rev.
  - unfold rot_order, rotate. rewrite Permutation_app_comm. by rewrite take_drop.
Qed.
