(* C01: the hypotheses of the C01 theorems over other properties' mirrors are met by
   concrete, non-trivial inputs.

   1. [ex_program]: a template  var x = 0; while (x < 3) { x = x + 1; }  run through the
      whole chain of Model.PipelineMirrors (desugarer, renaming + lifting + IR lifting of
      Model.LiftFull, dominator tree, SSA construction, propagation): it meets
      [program_ok], and the chain ends with DROk on a graph with a phi statement at the
      loop header.
   2. [ex_pre]: the pre-SSA graph of that template (what Model.LiftFull.lift_to_ir returns
      for the desugared body) meets the hypotheses of C01_into_ssa_never_panics /
      C01_into_ssa_fuel_suffices with the children lists of its dominator tree, and
      into_ssa returns SOk.
   3. a decidable form of the file-system hypothesis of C01_includes_never_panic
      ([canon_named_b]) and the file system of C19's example. *)
From Coq Require Import ZArith NArith List Bool String Ascii Znumtheory.
Require Import Model.Ast.
Require Model.Base Model.PipelineMirrors Model.Desugar Model.Ir Model.Includes Model.Dom Model.Ssa Model.LiftFull Spec.ExpandSpec.
Require Proofs.PipelineMirrorsProofs Proofs.SsaNoPanic Proofs.SsaFuel Proofs.IncludesProofs Proofs.DomProofs.
From stdpp Require base numbers list.
Import ListNotations.
Module PM := Model.PipelineMirrors.
Module PP := Proofs.PipelineMirrorsProofs.
Local Open Scope string_scope.

(* ---- the program ---- *)
Definition m0 (a b : N) : meta := Meta a b (Some 0%N).
Definition x_ (a b : N) : expression := Variable_ (m0 a b) "x" [].

(* template T() { var x = 0; while (x < 3) { x = x + 1; } } *)
Definition ex_body : statement :=
  Block (m0 0 60)
    [InitializationBlock (m0 1 10) VVar
       [Declaration (m0 1 6) VVar "x" [] true; Substitution (m0 5 10) "x" [] AssignVar (Number (m0 9 10) 0)];
     While (m0 12 50) (InfixOp (m0 19 24) (x_ 19 20) ILesser (Number (m0 23 24) 3))
       (Block (m0 26 50)
          [Substitution (m0 28 38) "x" [] AssignVar (InfixOp (m0 32 37) (x_ 32 33) IAdd (Number (m0 36 37) 1))])].

Definition ex_lib : list (list N) := [[0%N]].
Definition ex_def : PM.definition := PM.Def "T" Ir.KTemplate [] (Some 0%N) (10%N, 12%N) ex_body.
Definition ex_program : PM.program := PM.Program ex_lib [ex_def] [].

(* a file system with one file whose name is its own canonical path *)
Definition ex_run : Base.outcome (list PM.def_result) :=
  PM.run_pipeline_mirrors Dom.id_order (fun l => l) 3%Z 9%nat 9%nat
    (fun q : nat => Some q) (fun _ => false) (fun _ => true) (fun _ => None) (fun a b => b) (fun q => q)
    (fun q => Some q) (fun _ => true) (fun _ => false) (fun _ => false) (fun _ => Includes.Parsed [])
    (fun _ => ex_program) false 5%nat 5%nat [1%nat] [].

Definition is_drok (d : PM.def_result) : bool := match d with PM.DROk _ => true | _ => false end.

(* the SSA graph handed to propagation has a phi statement in block 1 (the loop header) *)
Definition has_phi_in_block_1 (d : PM.def_result) : bool :=
  match d with
  | PM.DROk c => match nth_error (Ir.c_blocks c) 1 with
                 | Some b => existsb (fun s => match s with Ir.SSubst _ _ _ (Ir.EPhi (_ :: _ :: _) _) _ _ => true | _ => false end)
                                     (Ir.b_stmts b)
                 | None => false
                 end
  | _ => false
  end.

Lemma ex_wf_template : ExpandSpec.wf_template ex_lib ex_body.
Proof.
  unfold ExpandSpec.wf_template. repeat split.
  - vm_compute. repeat constructor; (exists 0%N; split; [reflexivity | discriminate]).
  - vm_compute. repeat constructor.
  - vm_compute. repeat constructor.
  - eexists; eexists; reflexivity.
Qed.

Lemma ex_program_ok : PP.program_ok ex_program.
Proof.
  split; [|constructor]. constructor; [|constructor].
  split; [exact ex_wf_template|]. split; [reflexivity|].
  intros b' H. vm_compute in H. injection H as <-. vm_compute. reflexivity.
Qed.

Lemma ex_orders_ok : DomSpec.order_ok Dom.id_order /\ (forall l : list nat, Permutation.Permutation ((fun l => l) l) l).
Proof. split; [intros i l; reflexivity|intros l; apply Permutation.Permutation_refl]. Qed.

Lemma ex_run_ok :
  match ex_run with
  | Base.Ok [d] => is_drok d && has_phi_in_block_1 d
  | _ => false
  end = true.
Proof. vm_compute. reflexivity. Qed.

(* ---- 2. the pre-SSA graph of the same template ---- *)
Definition empty_cfg : Ir.cfg := {| Ir.c_kind := Ir.KTemplate; Ir.c_params := []; Ir.c_decls := []; Ir.c_blocks := [] |}.
Definition ex_pre : Ir.cfg :=
  match Desugar.desugar_template (Desugar.env_of [("T", ex_body)]) ex_lib ex_body with
  | Desugar.DOk b => match LiftFull.lift_to_ir Ir.KTemplate [] (Some 0%N) (10%N, 12%N) b with
                     | Base.Ok c => c
                     | _ => empty_cfg
                     end
  | _ => empty_cfg
  end.

(* the desugared body lifts to three blocks holding 2 + 1 + 1 statements (declaration and
   initialisation; the loop header's IfThenElse; the assignment of the loop body), and the
   declarations of the graph are the one variable *)
Lemma ex_pre_shape :
  map (fun b => List.length (Ir.b_stmts b)) (Ir.c_blocks ex_pre) = [2; 1; 1]%nat /\
  List.length (Ir.c_decls ex_pre) = 1%nat.
Proof. split; vm_compute; reflexivity. Qed.

(* the children and frontier lists DominatorTree::new computes for it: block 0 is the
   parent of block 1 (the loop header), which is the parent of block 2 (the body);
   the header is in the frontier of itself and of the body *)
Definition ex_children : list (list N) := [[1%N]; [2%N]; []].
Definition ex_frontier : list (list N) := [[]; [1%N]; [1%N]].

Lemma ex_tree_is_computed :
  match Dom.dominator_tree (Dom.dom_fuel (PM.dom_of_ir ex_pre)) Dom.id_order (PM.dom_of_ir ex_pre) with
  | Base.Ok t => PM.sets_of (fun l => l) (Dom.dt_children t) = ex_children /\
                 PM.sets_of (fun l => l) (Dom.dt_frontier t) = ex_frontier
  | _ => False
  end.
Proof. vm_compute. split; reflexivity. Qed.

Lemma ex_pre_hypotheses :
  SsaNoPanic.unversioned ex_pre /\ SsaFuel.written_declared ex_pre = true /\
  (0 < List.length (Ir.c_blocks ex_pre))%nat /\
  (forall j k, In k (SsaNoPanic.kids ex_children j) -> (j < k)%nat /\ (k < List.length (Ir.c_blocks ex_pre))%nat) /\
  (forall j, NoDup (SsaNoPanic.kids ex_children j)) /\
  (forall j j' k, In k (SsaNoPanic.kids ex_children j) -> In k (SsaNoPanic.kids ex_children j') -> j = j') /\
  exists c1, Ssa.into_ssa ex_frontier ex_children ex_pre = Ssa.SOk c1.
Proof.
  assert (K : forall j, SsaNoPanic.kids ex_children j =
                        match j with 0 => [1] | 1 => [2] | _ => [] end%nat).
  { intros [|[|[|[|j]]]]; reflexivity. }
  split; [|split; [vm_compute; reflexivity|split; [vm_compute; repeat constructor|split; [|split; [|split]]]]].
  - intros i b H. destruct i as [|[|[|i]]]; vm_compute in H; try discriminate;
      try (injection H as <-; vm_compute; reflexivity). destruct i; discriminate.
  - intros j k H. rewrite K in H. change (List.length (Ir.c_blocks ex_pre)) with 3%nat.
    destruct j as [|[|j]]; simpl in H; try contradiction; destruct H as [<-|[]]; split; repeat constructor.
  - intros j. rewrite K. destruct j as [|[|j]]; repeat constructor; simpl; tauto.
  - intros j j' k H H'. rewrite K in H, H'.
    destruct j as [|[|j]], j' as [|[|j']]; simpl in H, H'; try contradiction; try reflexivity;
      destruct H as [<-|[]]; destruct H' as [H'|[]]; discriminate.
  - eexists. vm_compute. reflexivity.
Qed.

(* ---- 3. the file-system hypothesis of C01_includes_never_panic, decided on a table ---- *)
Import stdpp.base stdpp.list.

Definition canon_named_b (d : Includes.fs_data) : bool :=
  forallb (fun kv : Includes.spath * option Includes.spath =>
             match snd kv with
             | Some c => match Includes.s_file_name c with Some _ => true | None => false end
             | None => true
             end) (Includes.fs_canon d).

Lemma assoc_in {B} k (l : list (Includes.spath * B)) v : Includes.assoc k l = Some v -> In (k, v) l.
Proof.
  induction l as [|[k' v'] r IH]; simpl; [discriminate|].
  destruct (decide (k' = k)) as [->|]; [intros [= ->]; left; reflexivity|intros H; right; apply IH; exact H].
Qed.

Lemma canon_named d : canon_named_b d = true ->
  forall q c, Includes.d_is_dir d q = false -> Includes.d_canon d q = Some c -> Includes.s_file_name c <> None.
Proof.
  intros Hb q c _ Hc. unfold Includes.d_canon in Hc.
  destruct (Includes.assoc q (Includes.fs_canon d)) as [r|] eqn:E; [|discriminate]. subst r.
  apply assoc_in in E. unfold canon_named_b in Hb. rewrite forallb_forall in Hb.
  specialize (Hb _ E). simpl in Hb. destruct (Includes.s_file_name c); [discriminate|discriminate].
Qed.

(* C19's example: a main file including a library file twice (by two spellings) with a
   directory library on the command line; every canonical path of the table has a file
   name, and the run reads both files *)
Lemma ex_fs_hypothesis :
  (forall q c, Includes.d_is_dir IncludesProofs.d23_fs q = false ->
               Includes.d_canon IncludesProofs.d23_fs q = Some c -> Includes.s_file_name c <> None) /\
  exists s, Includes.run_project false IncludesProofs.d23_fs IncludesProofs.d23_argv IncludesProofs.d23_libs = Base.Ok s /\
            List.length (Includes.ps_read s) = 2%nat.
Proof.
  split; [apply canon_named; vm_compute; reflexivity|].
  eexists. split; [vm_compute; reflexivity|reflexivity].
Qed.
