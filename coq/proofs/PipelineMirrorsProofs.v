(* C01: Model.PipelineMirrors.run_pipeline_mirrors never ends in a panic or fuel
   outcome of any composed stage -- assembled from

     files      Proofs.IncludesNoPanic.parse_files_no_panic          (C01_includes_never_panic)
     desugar    Proofs.DesugarTotal.desugar_template_total / check_function_total   (C18_desugar_never_panics)
     shape      Proofs.MirrorsShape.desugar_output_shape              (bridge: C18_desugar_refines_expand)
     lift       Proofs.LiftTotalFlat.lift_never_panics_desugared      (C01_lift_never_panics_on_desugared_shape)
     adapter    Proofs.MirrorsAdapter.ir_of_lift_total                (bridge: C12_every_item_exactly_once)
     dom tree   Proofs.MirrorsDom.lifted_tree                         (bridge: C12 theorems -> rooted; C15_no_panic)
     ssa        Proofs.SsaNoPanic.into_ssa_never_panics_tree          (C01_into_ssa_never_panics)
                Proofs.SsaFuel.into_ssa_never_out_of_fuel             (C01_into_ssa_fuel_suffices)
                with Proofs.MirrorsDom.lifted_children_facts          (bridge: C15_idom_exact, C15_idom_unique, C12_dom_implies_le)
     clean      Proofs.SsaClean.into_ssa_keeps_clean                  (bridge: no value claim before / after SSA)
     propagate  Proofs.PropagateTotal.propagate_completes             (C20_propagate_completes)

   What remains a hypothesis is collected in [program_ok] below. *)
From Coq Require Import ZArith NArith List Bool Lia Znumtheory.
Require Import Model.Ast Model.Desugar Spec.ExpandSpec Proofs.DesugarTotal.
Require Model.Base Model.PipelineMirrors Model.Lift Model.Dom Model.Ir Model.Ssa Model.Propagate Model.Justify
        Model.Clean Model.Includes Spec.DomSpec.
Require Proofs.LiftTotalFlat Proofs.MirrorsShape Proofs.MirrorsAdapter Proofs.MirrorsDom Proofs.SsaNoPanic
        Proofs.SsaFuel Proofs.SsaClean Proofs.PropagateTotal Proofs.IncludesNoPanic.
Import ListNotations.
Local Open Scope list_scope.

Module PM := Model.PipelineMirrors.

(* the outcomes a definition may end with *)
Definition fine (d : PM.def_result) : Prop :=
  match d with PM.DROk _ | PM.DRReport _ => True | PM.DRPanic _ _ | PM.DRFuel _ => False end.

Section Chain.
  Variable ir_stmt : statement -> option Ir.stmt.
  Variable ir_cond : meta -> expression -> option (Ir.meta * Ir.expr).
  Variable ir_head : String.string -> statement -> PM.definition_head.
  Variable ord : nat -> list nat -> list nat.
  Variable horder : list nat -> list nat.
  Variable p : Z.
  Variable kv kd : nat.

  Notation ir_node := (PM.ir_node ir_stmt ir_cond).
  Notation cfg_of_body := (PM.cfg_of_body ir_stmt ir_cond).
  Notation ssa_of := (PM.ssa_of ord horder).
  Notation analyse_cfg := (PM.analyse_cfg ord horder p kv kd).
  Notation analyse_body := (PM.analyse_body ir_stmt ir_cond ord horder p kv kd).
  Notation analyse_template := (PM.analyse_template ir_stmt ir_cond ir_head ord horder p kv kd).
  Notation analyse_function := (PM.analyse_function ir_stmt ir_cond ir_head ord horder p kv kd).
  Notation analyse_program := (PM.analyse_program ir_stmt ir_cond ir_head ord horder p kv kd).

  (* ---- the hypotheses, all decidable ---- *)

  (* about the (unmirrored) IR lifting of the leaves of a body: no variable carries a
     version yet, no node carries a value claim yet (literals non-negative), and a
     local that is assigned is among the declarations *)
  Definition lifted_ok (h : PM.definition_head) (body : statement) : bool :=
    match PM.all_some (map ir_node (PM.table body)) with
    | None => true
    | Some tbl => forallb MirrorsAdapter.node_unv tbl && forallb MirrorsAdapter.node_clean tbl &&
                  forallb (MirrorsAdapter.node_declared h) tbl
    end.

  (* about the graph the SSA construction returns, when it returns one: one defining
     assignment per versioned local -- the second hypothesis of C20_propagate_completes
     (C14_unique_defs states it for graphs C14's validator accepts; it is not proved
     for the construction mirror).  The first one, no value claim yet, is proved:
     Proofs.SsaClean.into_ssa_keeps_clean *)
  Definition ssa_output_ok (h : PM.definition_head) (body : statement) : bool :=
    match cfg_of_body h body with
    | Base.Ok (Some c) =>
        match ssa_of c with
        | Base.Ok (_, Ssa.SOk c1) => Justify.ldefs_unique (Justify.all_stmts (Ir.c_blocks c1))
        | _ => true
        end
    | _ => true
    end.

  Definition body_ok (name : String.string) (b : statement) : Prop :=
    lifted_ok (ir_head name b) b = true /\ ssa_output_ok (ir_head name b) b = true.

  (* a template as the parser hands it on: C18's wf_template, initialisation blocks
     hold declarations and (multi-)substitutions, and the desugared body meets [body_ok] *)
  Definition template_ok (ts : list (String.string * statement)) (lib : file_library)
             (t : String.string * statement) : Prop :=
    wf_template lib (snd t) /\ PM.ast_init_ok (snd t) = true /\
    forall b', desugar_template (env_of ts) lib (snd t) = DOk b' -> body_ok (fst t) b'.

  Definition function_ok (lib : file_library) (f : String.string * statement) : Prop :=
    Forall (meta_known lib) (stmt_metas (snd f)) /\ (exists m l, snd f = Block m l) /\
    PM.ast_init_ok (snd f) = true /\ body_ok (fst f) (snd f).

  Definition program_ok (pr : PM.program) : Prop :=
    Forall (template_ok (PM.pr_templates pr) (PM.pr_lib pr)) (PM.pr_templates pr) /\
    Forall (function_ok (PM.pr_lib pr)) (PM.pr_functions pr).

  Hypothesis Hord : DomSpec.order_ok ord.
  Hypothesis Hh : forall l, Permutation.Permutation (horder l) l.
  Hypothesis Hp1 : prime p.
  Hypothesis Hp2 : (2 < p)%Z.
  Hypothesis Hp3 : (Z.log2 p < 2 ^ 64)%Z.

  (* ---- a body of the shape lifting accepts ---- *)
  Lemma analyse_body_fine h body :
    LiftTotalFlat.desugared_shape (PM.skel body 0) ->
    lifted_ok h body = true -> ssa_output_ok h body = true ->
    fine (analyse_body h body).
  Proof.
    intros Hshape Hl Hs.
    unfold PM.analyse_body. unfold lifted_ok in Hl. unfold ssa_output_ok in Hs.
    destruct (PM.all_some (map ir_node (PM.table body))) as [tbl|] eqn:Et.
    2:{ unfold PM.cfg_of_body. rewrite Et. exact I. }
    apply andb_prop in Hl. destruct Hl as [Hl Hdecl]. apply andb_prop in Hl. destruct Hl as [Hunv Hcl].
    destruct (LiftTotalFlat.lift_never_panics_desugared _ Hshape) as (g & Hg).
    destruct (MirrorsAdapter.ir_of_lift_total ir_stmt ir_cond body tbl Et g Hg h) as (c & Hc).
    assert (E1 : cfg_of_body h body = Base.Ok (Some c)).
    { unfold PM.cfg_of_body. rewrite Et, Hg. cbn [Base.bind]. rewrite Hc. reflexivity. }
    rewrite E1 in Hs |- *.
    destruct (MirrorsDom.lifted_tree _ g Hg ord Hord) as (t & Ht).
    set (frontier := PM.sets_of horder (Dom.dt_frontier t)).
    set (children := PM.sets_of horder (Dom.dt_children t)).
    assert (E2 : ssa_of c = Base.Ok (PM.idom_table t, Ssa.into_ssa frontier children c)).
    { unfold PM.ssa_of. rewrite (MirrorsAdapter.dom_of_ir_of_lift tbl g h c Hc), Ht. reflexivity. }
    unfold PM.analyse_cfg. rewrite E2 in Hs |- *.
    pose proof (MirrorsAdapter.ir_length tbl g h c Hc) as Hlen.
    destruct (MirrorsDom.lifted_children_facts _ g Hg ord Hord t Ht horder Hh) as (K1 & K2 & K3).
    fold children in K1, K2, K3. rewrite <- Hlen in K1.
    assert (Hn : (0 < length (Ir.c_blocks c))%nat).
    { rewrite Hlen. exact (MirrorsDom.lifted_nonempty _ g Hg). }
    pose proof (MirrorsAdapter.ir_unversioned tbl g h c Hc Hunv) as Hu.
    pose proof (MirrorsAdapter.ir_written_declared tbl g h c Hc Hdecl) as Hd.
    pose proof (SsaNoPanic.into_ssa_never_panics_tree frontier children c Hu Hn K1 K2 K3) as NP.
    pose proof (SsaFuel.into_ssa_never_out_of_fuel frontier children c Hu Hd Hn K1) as NF.
    destruct (Ssa.into_ssa frontier children c) as [c1| | |] eqn:Essa; [|exact I|contradiction|contradiction].
    pose proof (SsaClean.into_ssa_keeps_clean frontier children c c1
                  (MirrorsAdapter.ir_clean tbl g h c Hc Hcl) Essa) as Hclean.
    rename Hs into Huniq.
    destruct (PropagateTotal.propagate_completes p Hp1 Hp2 Hp3 kv kd (PM.idom_table t) c1 Hclean Huniq) as (c2 & ->). exact I.
  Qed.

  Lemma analyse_template_fine ts lib t : template_ok ts lib t -> fine (analyse_template (env_of ts) lib t).
  Proof.
    intros (Hwf & Hinit & Hbody). unfold PM.analyse_template.
    pose proof (desugar_template_total lib (env_of ts) (snd t) Hwf) as Hnc.
    destruct (desugar_template (env_of ts) lib (snd t)) as [b'| | |] eqn:Ed; cbn [no_crash] in Hnc; try contradiction; [|exact I].
    destruct (Hbody b' eq_refl) as [Hl Hs].
    apply analyse_body_fine; [|exact Hl|exact Hs].
    destruct Hwf as (_ & Hshort & Hnode & (m & l & Eb)). rewrite Eb in *.
    exact (MirrorsShape.desugar_output_shape lib ts m l b' Hnode Hshort Hinit Ed).
  Qed.

  Lemma analyse_function_fine lib f : function_ok lib f -> fine (analyse_function f).
  Proof.
    intros (Hk & Hb & Hinit & Hl & Hs). unfold PM.analyse_function.
    pose proof (check_function_total lib (snd f) Hk) as Hnc.
    destruct (check_function (snd f)) as [[rs|]| | |]; cbn [no_crash] in Hnc; try contradiction; try exact I.
    apply analyse_body_fine; [|exact Hl|exact Hs].
    apply MirrorsShape.skel_desugared_shape; assumption.
  Qed.

  Theorem analyse_program_fine pr : program_ok pr -> Forall fine (analyse_program pr).
  Proof.
    intros [Ht Hf]. unfold PM.analyse_program. apply Forall_app. split.
    - apply Forall_forall. intros d Hd. apply in_map_iff in Hd. destruct Hd as (t & <- & Hin).
      apply analyse_template_fine. rewrite Forall_forall in Ht. exact (Ht t Hin).
    - apply Forall_forall. intros d Hd. apply in_map_iff in Hd. destruct Hd as (f & <- & Hin).
      apply (analyse_function_fine (PM.pr_lib pr)). rewrite Forall_forall in Hf. exact (Hf f Hin).
  Qed.

  (* ---- with the file stage in front ---- *)
  Section Files.
    Context {path : Type} `{EqDecision0 : stdpp.base.EqDecision path}.
    Variables (canon : path -> option path) (is_dir is_file : path -> bool)
              (read_dir : path -> option (list path)) (join : path -> path -> path)
              (parent : path -> path) (file_name : path -> option path)
              (ext_circom starts_dot has_sep : path -> bool)
              (content : path -> Includes.file_content path).
    Variable parse : @Includes.parse_state path -> PM.program.

    Notation parse_files := (Includes.parse_files canon is_dir is_file read_dir join parent file_name
                                                  ext_circom starts_dot has_sep content).
    Notation run := (PM.run_pipeline_mirrors ir_stmt ir_cond ir_head ord horder p kv kd canon is_dir is_file
                                             read_dir join parent file_name ext_circom starts_dot has_sep
                                             content parse).

    Hypothesis canonical_file_has_name :
      forall q c, is_dir q = false -> canon q = Some c -> file_name c <> None.

    Theorem run_pipeline_mirrors_never_panics d23 dfuel fuel paths libs :
      (forall st, parse_files d23 dfuel fuel paths libs = Base.Ok st -> program_ok (parse st)) ->
      match run d23 dfuel fuel paths libs with
      | Base.Ok ds => Forall fine ds
      | Base.Err _ => True
      | Base.Panic _ => False
      | Base.OutOfFuel => parse_files d23 dfuel fuel paths libs = Base.OutOfFuel
      end.
    Proof.
      intros Hok. unfold PM.run_pipeline_mirrors.
      pose proof (fun s => IncludesNoPanic.parse_files_no_panic canon is_dir is_file read_dir join parent file_name
                             ext_circom starts_dot has_sep content canonical_file_has_name d23 dfuel fuel paths libs s) as NP.
      destruct (parse_files d23 dfuel fuel paths libs) as [st|e|s|] eqn:E; cbn [Base.bind].
      - apply analyse_program_fine. apply Hok. reflexivity.
      - exact I.
      - exact (NP s eq_refl).
      - reflexivity.
    Qed.
  End Files.
End Chain.
