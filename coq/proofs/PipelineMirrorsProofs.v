(* C01: Model.PipelineMirrors.run_pipeline_mirrors never ends in a panic or fuel
   outcome of any composed stage -- assembled from

     files      Proofs.IncludesNoPanic.parse_files_no_panic          (C01_includes_never_panic)
     desugar    Proofs.DesugarTotal.desugar_template_total / check_function_total   (C18_desugar_never_panics)
     shape      Proofs.MirrorsShape.desugar_output_shape              (bridge: C18_desugar_refines_expand)
                Proofs.MirrorsShape.stmt_sugar_free_of_spec           (bridge: C18_desugar_output_sugar_free,
                                                                       C18_function_kept_iff)
     lift       Proofs.LiftFullTotal.lift_to_ir_never_panics          (C01_lift_to_ir_never_panics: renaming,
                                                                       lifting, IR lifting, declarations)
     lifted     Proofs.LiftFullIr.lifted_unversioned / lifted_written_declared / lifted_clean / lifted_dom
                                                                      (what the lifted graph hands on; C13_liftfull_skeleton)
     dom tree   Proofs.MirrorsDom.lifted_tree                         (bridge: C12 theorems -> rooted; C15_no_panic)
     ssa        Proofs.SsaNoPanic.into_ssa_never_panics_tree          (C01_into_ssa_never_panics)
                Proofs.SsaFuel.into_ssa_never_out_of_fuel             (C01_into_ssa_fuel_suffices)
                with Proofs.MirrorsDom.lifted_children_facts          (bridge: C15_idom_exact, C15_idom_unique, C12_dom_implies_le)
     clean      Proofs.SsaClean.into_ssa_keeps_clean                  (bridge: no value claim before / after SSA)
     unique     Proofs.SsaLocalDefs.into_ssa_ldefs_unique             (bridge: C14_construction_unique_defs + the tree walk
                                                                       reaches every block (Proofs.SsaDomBridge, C15) + the tag
                                                                       invariant => one defining assignment per local)
     propagate  Proofs.PropagateTotal.propagate_completes             (C20_propagate_completes)

   What remains a hypothesis is collected in [program_ok] below. *)
From Coq Require Import ZArith NArith List Bool Lia Znumtheory.
Require Import Model.Ast Model.Desugar Spec.ExpandSpec Proofs.DesugarTotal.
Require Model.Base Model.PipelineMirrors Model.Lift Model.LiftFull Model.Dom Model.Ir Model.Ssa Model.Propagate Model.Justify
        Model.Clean Model.Includes Spec.DomSpec.
Require Proofs.DesugarProofs Proofs.LiftTotalFlat Proofs.MirrorsShape Proofs.MirrorsDom Proofs.SsaNoPanic
        Proofs.SsaFuel Proofs.SsaClean Proofs.PropagateTotal Proofs.IncludesNoPanic Proofs.LiftFullTotal Proofs.LiftFullIr
        Proofs.SsaConstruction Proofs.SsaLocalDefs Proofs.SsaDomBridge Model.SsaPre.
Import ListNotations.
Local Open Scope list_scope.

Module PM := Model.PipelineMirrors.

(* the outcomes a definition may end with *)
Definition fine (d : PM.def_result) : Prop :=
  match d with PM.DROk _ | PM.DRReport _ => True | PM.DRPanic _ _ | PM.DRFuel _ => False end.

Section Chain.
  Variable ord : nat -> list nat -> list nat.
  Variable horder : list nat -> list nat.
  Variable p : Z.
  Variable kv kd : nat.

  Notation ssa_of := (PM.ssa_of ord horder).
  Notation analyse_cfg := (PM.analyse_cfg ord horder p kv kd).
  Notation analyse_body := (PM.analyse_body ord horder p kv kd).
  Notation analyse_template := (PM.analyse_template ord horder p kv kd).
  Notation analyse_function := (PM.analyse_function ord horder p kv kd).
  Notation analyse_program := (PM.analyse_program ord horder p kv kd).
  Notation body_ok := PM.body_ok.

  (* ---- the hypotheses ---- *)
  (* [PM.body_ok] (Model.PipelineMirrors; decidable, extracted, evaluated on every explored
     definition) is what remains a hypothesis about a body handed to lifting:
       names_distinct  the declaration keys after the renaming pass are pairwise different
       stmt_lits_ok    number literals are non-negative
     (one defining assignment per local in the graph into_ssa returns -- formerly the third
     clause, a hypothesis about the mirror's own output -- is proved: [lifted_ssa_output_ok]) *)

  (* a template as the parser hands it on: C18's wf_template, initialisation blocks
     hold declarations and (multi-)substitutions, and the desugared body meets [body_ok] *)
  Definition template_ok (ts : list PM.definition) (lib : file_library) (t : PM.definition) : Prop :=
    wf_template lib (PM.d_body t) /\ PM.ast_init_ok (PM.d_body t) = true /\
    forall b', desugar_template (env_of (PM.named_bodies ts)) lib (PM.d_body t) = DOk b' -> body_ok t b' = true.

  (* a function: metas known, the body is a block with well-shaped initialisation blocks,
     and -- when it is handed on (no tuple, no anonymous component) -- it meets [body_ok] *)
  Definition function_ok (lib : file_library) (f : PM.definition) : Prop :=
    Forall (meta_known lib) (stmt_metas (PM.d_body f)) /\ (exists m l, PM.d_body f = Block m l) /\
    PM.ast_init_ok (PM.d_body f) = true /\
    (check_function (PM.d_body f) = DOk None -> body_ok f (PM.d_body f) = true).

  Definition program_ok (pr : PM.program) : Prop :=
    Forall (template_ok (PM.pr_templates pr) (PM.pr_lib pr)) (PM.pr_templates pr) /\
    Forall (function_ok (PM.pr_lib pr)) (PM.pr_functions pr).

  Hypothesis Hord : DomSpec.order_ok ord.
  Hypothesis Hh : forall l, Permutation.Permutation (horder l) l.
  Hypothesis Hp1 : prime p.
  Hypothesis Hp2 : (2 < p)%Z.
  Hypothesis Hp3 : (Z.log2 p < 2 ^ 64)%Z.

  (* ---- the rest of the chain on a graph the lifting mirror returned ---- *)
  (* what the SSA stage is handed and what it hands on, for a graph the lifting mirror returned *)
  Lemma lifted_ssa_facts kind params pfile ploc body r :
    LiftFull.try_lift_impl kind params pfile ploc body = Base.Ok r ->
    let c := LiftFull.erase_cfg (LiftFull.l_cfg r) in
    exists t, ssa_of c = Base.Ok (PM.idom_table t, Ssa.into_ssa (PM.sets_of horder (Dom.dt_frontier t))
                                                                (PM.sets_of horder (Dom.dt_children t)) c) /\
              Ssa.into_ssa (PM.sets_of horder (Dom.dt_frontier t)) (PM.sets_of horder (Dom.dt_children t)) c <> Ssa.SPanic /\
              Ssa.into_ssa (PM.sets_of horder (Dom.dt_frontier t)) (PM.sets_of horder (Dom.dt_children t)) c <> Ssa.SFuel /\
              forall c1, Ssa.into_ssa (PM.sets_of horder (Dom.dt_frontier t)) (PM.sets_of horder (Dom.dt_children t)) c = Ssa.SOk c1 ->
                         Justify.ldefs_unique (Justify.all_stmts (Ir.c_blocks c1)) = true.
  Proof.
    intros Er c.
    assert (Ec : LiftFull.lift_to_ir kind params pfile ploc body = Base.Ok c).
    { unfold LiftFull.lift_to_ir. rewrite Er. reflexivity. }
    set (key := fun _ : Ir.meta => 0%nat).
    destruct (LiftFullIr.lifted_dom key _ _ _ _ _ _ Er) as (Hg & Hdom & Hlen).
    set (g := map (LiftFull.skel_block key) (LiftFull.xc_blocks (LiftFull.l_cfg r))) in *.
    fold c in Hdom, Hlen.
    destruct (MirrorsDom.lifted_tree _ g Hg ord Hord) as (t & Ht).
    exists t.
    set (frontier := PM.sets_of horder (Dom.dt_frontier t)).
    set (children := PM.sets_of horder (Dom.dt_children t)).
    split; [unfold PM.ssa_of; rewrite Hdom, Ht; reflexivity|].
    destruct (MirrorsDom.lifted_children_facts _ g Hg ord Hord t Ht horder Hh) as (K1 & K2 & K3).
    fold children in K1, K2, K3. rewrite <- Hlen in K1.
    assert (Hn : (0 < length (Ir.c_blocks c))%nat).
    { rewrite Hlen. exact (MirrorsDom.lifted_nonempty _ g Hg). }
    pose proof (LiftFullIr.lifted_unversioned _ _ _ _ _ _ Ec) as Hu.
    pose proof (LiftFullIr.lifted_written_declared _ _ _ _ _ _ Ec) as Hd.
    split; [exact (SsaNoPanic.into_ssa_never_panics_tree frontier children c Hu Hn K1 K2 K3)|].
    split; [exact (SsaFuel.into_ssa_never_out_of_fuel frontier children c Hu Hd Hn K1)|].
    intros c1 Essa.
    (* the tree walk reaches every block: the pre-order of an immediate-dominator tree holds every block (C15 via
       Proofs.SsaDomBridge.c15_children_tree); graph_of / sets_of there are dom_of_ir / sets_of here *)
    assert (Hroot : DomSpec.rooted (SsaDomBridge.graph_of c)).
    { change (SsaDomBridge.graph_of c) with (PM.dom_of_ir c). rewrite Hdom. exact (MirrorsDom.lifted_rooted _ g Hg). }
    assert (Ht' : Dom.dominator_tree (Dom.dom_fuel (SsaDomBridge.graph_of c)) ord (SsaDomBridge.graph_of c) = Base.Ok t).
    { change (SsaDomBridge.graph_of c) with (PM.dom_of_ir c). rewrite Hdom. exact Ht. }
    pose proof (SsaDomBridge.c15_children_tree c Hroot ord Hord t Ht' horder Hh) as Htree.
    change (SsaDomBridge.sets_of horder (Dom.dt_children t)) with children in Htree.
    unfold SsaPre.children_treeb in Htree. apply andb_prop in Htree. destruct Htree as [_ Hcov].
    apply SsaConstruction.children_coverb_spec in Hcov.
    exact (SsaLocalDefs.into_ssa_ldefs_unique frontier children c c1 Hu (LiftFullIr.lifted_tags_ok _ _ _ _ _ _ Ec) Hcov Essa).
  Qed.

  (* the former hypothesis ssa_output_ok holds of every body *)
  Theorem lifted_ssa_output_ok d body : PM.ssa_output_ok ord horder d body = true.
  Proof.
    unfold PM.ssa_output_ok, LiftFull.lift_to_ir.
    destruct (LiftFull.try_lift_impl (PM.d_kind d) (PM.d_params d) (PM.d_pfile d) (PM.d_ploc d) body) as [r|e|s|] eqn:Er;
      cbn [Base.bind]; try reflexivity.
    destruct (lifted_ssa_facts _ _ _ _ _ _ Er) as (t & E2 & _ & _ & Hu). cbv zeta in E2, Hu. rewrite E2.
    destruct (Ssa.into_ssa _ _ _) as [c1| | |] eqn:Essa; try reflexivity. exact (Hu c1 eq_refl).
  Qed.

  Lemma analyse_lifted_fine d body r :
    LiftFull.try_lift_impl (PM.d_kind d) (PM.d_params d) (PM.d_pfile d) (PM.d_ploc d) body = Base.Ok r ->
    PM.stmt_lits_ok body = true ->
    fine (analyse_cfg (LiftFull.erase_cfg (LiftFull.l_cfg r))).
  Proof.
    intros Er Hlits.
    assert (Ec : LiftFull.lift_to_ir (PM.d_kind d) (PM.d_params d) (PM.d_pfile d) (PM.d_ploc d) body
                 = Base.Ok (LiftFull.erase_cfg (LiftFull.l_cfg r))).
    { unfold LiftFull.lift_to_ir. rewrite Er. reflexivity. }
    destruct (lifted_ssa_facts _ _ _ _ _ _ Er) as (t & E2 & NP & NF & Hu). cbv zeta in E2, NP, NF, Hu.
    set (c := LiftFull.erase_cfg (LiftFull.l_cfg r)) in *.
    unfold PM.analyse_cfg. rewrite E2.
    destruct (Ssa.into_ssa (PM.sets_of horder (Dom.dt_frontier t)) (PM.sets_of horder (Dom.dt_children t)) c)
      as [c1| | |] eqn:Essa; [|exact I|contradiction|contradiction].
    pose proof (SsaClean.into_ssa_keeps_clean _ _ c c1 (LiftFullIr.lifted_clean _ _ _ _ _ _ Hlits Ec) Essa) as Hclean.
    destruct (PropagateTotal.propagate_completes p Hp1 Hp2 Hp3 kv kd (PM.idom_table t) c1 Hclean (Hu c1 eq_refl)) as (c2 & ->). exact I.
  Qed.

  (* ---- a body of the shape lifting accepts ---- *)
  Lemma analyse_body_fine d body :
    LiftFull.is_block body = true -> LiftFull.stmt_sugar_free body = true -> LiftFull.ast_init_flat body = true ->
    body_ok d body = true -> fine (analyse_body d body).
  Proof.
    intros Hb Hsf Hflat Hok. unfold PM.body_ok in Hok.
    apply andb_prop in Hok. destruct Hok as [Hn Hlits].
    assert (Hwf : LiftFull.definition_wf (PM.d_params d) (PM.d_pfile d) (PM.d_ploc d) body = true).
    { unfold LiftFull.definition_wf. rewrite Hb, Hsf, Hflat. exact Hn. }
    destruct (LiftFullTotal.liftfull_never_panics' (PM.d_kind d) _ _ _ _ Hwf) as [NP NF].
    unfold PM.analyse_body, LiftFull.lift_to_ir.
    destruct (LiftFull.try_lift_impl (PM.d_kind d) (PM.d_params d) (PM.d_pfile d) (PM.d_ploc d) body) as [r|e|s|] eqn:Er;
      cbn [Base.bind].
    - exact (analyse_lifted_fine d body r Er Hlits).
    - exact I.
    - exact (NP s eq_refl).
    - exact (NF eq_refl).
  Qed.

  Lemma analyse_template_fine ts lib t : template_ok ts lib t -> fine (analyse_template (env_of (PM.named_bodies ts)) lib t).
  Proof.
    intros (Hwf & Hinit & Hbody). unfold PM.analyse_template.
    pose proof (desugar_template_total lib (env_of (PM.named_bodies ts)) (PM.d_body t) Hwf) as Hnc.
    destruct (desugar_template (env_of (PM.named_bodies ts)) lib (PM.d_body t)) as [b'| | |] eqn:Ed;
      cbn [no_crash] in Hnc; try contradiction; [|exact I].
    pose proof (DesugarProofs.desugar_output_sugar_free _ _ _ _ Ed) as Hsf.
    destruct Hwf as (_ & Hshort & Hnode & (m & l & Eb)). rewrite Eb in *.
    destruct (MirrorsShape.desugar_output_shape lib (PM.named_bodies ts) m l b' Hnode Hshort Hinit Ed) as (Hb & Hflat & _).
    apply analyse_body_fine; [exact Hb|exact (MirrorsShape.stmt_sugar_free_of_spec _ Hsf)|exact Hflat|exact (Hbody b' eq_refl)].
  Qed.

  Lemma analyse_function_fine lib f : function_ok lib f -> fine (analyse_function f).
  Proof.
    intros (Hk & (m & l & Eb) & Hinit & Hok). unfold PM.analyse_function.
    pose proof (check_function_total lib (PM.d_body f) Hk) as Hnc.
    pose proof (DesugarProofs.check_function_kept (PM.d_body f)) as Hsf.
    destruct (check_function (PM.d_body f)) as [[rs|]| | |]; cbn [no_crash] in Hnc; try contradiction; try exact I.
    apply analyse_body_fine.
    - rewrite Eb. reflexivity.
    - exact (MirrorsShape.stmt_sugar_free_of_spec _ (Hsf eq_refl)).
    - rewrite <- MirrorsShape.ast_init_ok_flat. exact Hinit.
    - exact (Hok eq_refl).
  Qed.

  Theorem analyse_program_fine pr : program_ok pr -> Forall fine (analyse_program pr).
  Proof.
    intros [Ht Hf]. unfold PM.analyse_program. apply Forall_app. split.
    - apply Forall_forall. intros d Hd. apply in_map_iff in Hd. destruct Hd as (t & <- & Hin).
      apply analyse_template_fine. rewrite Forall_forall in Ht. exact (Ht t Hin).
    - apply Forall_forall. intros d Hd. apply in_map_iff in Hd. destruct Hd as (f & <- & Hin).
      apply (analyse_function_fine (PM.pr_lib pr)). rewrite Forall_forall in Hf. exact (Hf f Hin).
  Qed.

  (* ---- with the file stage in front ---- *)
  Section Files.
    Context {path : Type} `{EqDecision0 : stdpp.base.EqDecision path}.
    Variables (canon : path -> option path) (is_dir is_file : path -> bool)
              (read_dir : path -> option (list path)) (join : path -> path -> path)
              (parent : path -> path) (file_name : path -> option path)
              (ext_circom starts_dot has_sep : path -> bool)
              (content : path -> Includes.file_content path).
    Variable parse : @Includes.parse_state path -> PM.program.

    Notation parse_files := (Includes.parse_files canon is_dir is_file read_dir join parent file_name
                                                  ext_circom starts_dot has_sep content).
    Notation run := (PM.run_pipeline_mirrors ord horder p kv kd canon is_dir is_file
                                             read_dir join parent file_name ext_circom starts_dot has_sep
                                             content parse).

    Hypothesis canonical_file_has_name :
      forall q c, is_dir q = false -> canon q = Some c -> file_name c <> None.

    Theorem run_pipeline_mirrors_never_panics d23 dfuel fuel paths libs :
      (forall st, parse_files d23 dfuel fuel paths libs = Base.Ok st -> program_ok (parse st)) ->
      match run d23 dfuel fuel paths libs with
      | Base.Ok ds => Forall fine ds
      | Base.Err _ => True
      | Base.Panic _ => False
      | Base.OutOfFuel => parse_files d23 dfuel fuel paths libs = Base.OutOfFuel
      end.
    Proof.
      intros Hok. unfold PM.run_pipeline_mirrors.
      pose proof (fun s => IncludesNoPanic.parse_files_no_panic canon is_dir is_file read_dir join parent file_name
                             ext_circom starts_dot has_sep content canonical_file_has_name d23 dfuel fuel paths libs s) as NP.
      destruct (parse_files d23 dfuel fuel paths libs) as [st|e|s|] eqn:E; cbn [Base.bind].
      - apply analyse_program_fine. apply Hok. reflexivity.
      - exact I.
      - exact (NP s eq_refl).
      - reflexivity.
    Qed.
  End Files.
End Chain.
