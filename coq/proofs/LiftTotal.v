(* C12: lifting never panics on parser-shaped skeletons (the two assert!s of
   lifting.rs and every NonEmptyVec indexing are panic sites of the model). *)
From stdpp Require Import list sets.
Require Import Model.Lift Spec.CfgSpec Proofs.LiftBasics Proofs.LiftInv Proofs.LiftSteps Proofs.LiftProofs
  Proofs.LiftTheorems.
Import Base(outcome, Ok, Err, Panic, OutOfFuel, bind).

Definition visit_total (s : sk) : Prop :=
  forall d g P0, pre g d P0 -> exists g' ps, visit s d g = Ok (g', ps).

Lemma complete_total g ps d :
  (forall i, i ∈ ps -> i < length g) -> NoDup ps -> exists g', complete g ps d = Ok g'.
Proof.
  intros H1 H2. destruct (complete_spec g ps d H1 H2) as (h & nb & Hc & _). eauto.
Qed.

Lemma bind_ok_intro {A B} (m : outcome A) (f : A -> outcome B) a :
  m = Ok a -> bind m f = f a.
Proof. by intros ->. Qed.

Lemma visit_seq_total ss : Forall visit_total ss ->
  forall d (g0 : graph) (P0 : nat -> Prop) (g1 : graph) (ps1 : list nat),
  (forall i, P0 i -> i < length g0 - 1) ->
  length g0 <= length g1 -> (forall i, i ∈ ps1 -> length g0 - 1 <= i < length g1) -> ssorted ps1 ->
  (if is_nil ps1 then pre g1 d P0 else wf g1 (fun i => P0 i \/ i ∈ ps1)) ->
  exists r, visit_seq d ss ps1 g1 = Ok r.
Proof.
  induction 1 as [|s r Hs _ IH]; intros d g0 P0 g1 ps1 HP0 Hlen Hrange Hss Hst.
  - simpl. eauto.
  - simpl.
    assert (H2 : exists g2, (if is_nil ps1 then Ok g1 else complete g1 ps1 d) = Ok g2 /\
                            pre g2 d P0 /\ length g1 <= length g2).
    { destruct (is_nil ps1) eqn:En; [by exists g1|].
      apply is_nil_false in En.
      destruct (complete_total g1 ps1 d) as (g2 & Hc).
      { intros i Hi. apply (wf_P _ _ Hst). by right. }
      { by apply ssorted_NoDup. }
      exists g2. split; [done|].
      destruct (step_complete g1 ps1 d P0 g2) as (Hp & Hl & _); try done.
      + destruct ps1 as [|p ?]; [done|]. eapply (wf_nonempty _ _ p); [done|]. right. set_solver.
      + intros i Hi HPi. specialize (HP0 _ HPi). specialize (Hrange _ Hi). lia.
      + split; [done|lia]. }
    destruct H2 as (g2 & -> & Hpre2 & Hl2). simpl.
    destruct (Hs d g2 P0 Hpre2) as (g3 & ps3 & Hv). rewrite Hv. simpl.
    destruct (visit_post s d g2 P0 g3 ps3 Hpre2 Hv) as [Q1 Q2 Q3 Q4 Q5 Q6 Q7].
    apply (IH d g0 P0 g3 ps3); try done.
    + lia.
    + intros i Hi. specialize (Q2 _ Hi). lia.
Qed.

Lemma visit_init_total ss : forallb is_leaf ss = true ->
  forall d (g : graph) (P0 : nat -> Prop), pre g d P0 -> exists r, visit_init d ss g = Ok r.
Proof.
  induction ss as [|s r IH]; intros Hall d g P0 Hpre; simpl; [eauto|].
  simpl in Hall. apply andb_true_iff in Hall as [Hs Hr].
  destruct s as [id ret| | | |]; try done.
  simpl. rewrite (pre_last_index _ _ _ Hpre). simpl.
  rewrite upd_last_ok by (by eapply pre_nonempty). simpl.
  destruct (step_leaf g d P0 id _ Hpre (upd_last_ok _ _ (pre_nonempty _ _ _ Hpre))) as (Hp & _).
  by apply (IH Hr d _ P0).
Qed.

Lemma or_last_total g d P0 ps :
  (if is_nil ps then pre g d P0 else wf g (fun i => P0 i \/ i ∈ ps)) ->
  exists ps', or_last g ps = Ok ps'.
Proof.
  unfold or_last. destruct (is_nil ps); [|eauto].
  intros Hpre. rewrite (pre_last_index _ _ _ Hpre). simpl. eauto.
Qed.

Theorem visit_never_panics s : init_ok s = true -> visit_total s.
Proof.
  induction s as [id r|ss IH|ss IH|c body IH|c t e IHt IHe] using sk_ind';
    intros Hok d g P0 Hpre.
  - (* leaf *)
    simpl. rewrite (pre_last_index _ _ _ Hpre). simpl.
    rewrite upd_last_ok by (by eapply pre_nonempty). simpl. eauto.
  - (* initialisation block *)
    rewrite visit_init_eq, (pre_last_index _ _ _ Hpre). simpl.
    destruct (visit_init_total ss Hok d g P0 Hpre) as ([g' ps] & Hv). eauto.
  - (* block *)
    rewrite visit_block_eq, (pre_last_index _ _ _ Hpre). simpl.
    assert (Hall : Forall visit_total ss).
    { simpl in Hok. rewrite forallb_forall in Hok. rewrite Forall_forall in IH |- *.
      intros s Hs. apply IH; [done|]. apply Hok. by apply elem_of_list_In. }
    destruct (visit_seq_total ss Hall d g P0 g []) as ([g' ps] & Hv); try done.
    + apply (pre_P0 _ _ _ Hpre).
    + set_solver.
    + eauto.
  - (* while *)
    simpl in Hok. simpl. rewrite (pre_last_index _ _ _ Hpre). simpl.
    set (l := length g - 1) in *.
    assert (Hlg : length g = S l) by (pose proof (pre_length _ _ _ Hpre); unfold l; lia).
    destruct (complete_total g [l] d) as (g1 & E1).
    { intros i Hi. apply elem_of_list_singleton in Hi as ->. lia. } { apply NoDup_singleton. }
    rewrite E1. simpl.
    destruct (step_complete g [l] d P0 g1) as (Hp1 & Hl1 & _); try done.
    { eapply wf_ext; [|apply (pre_wf _ _ _ Hpre)]. intros i. apply singleton_ext. }
    { by eapply pre_nonempty. }
    { apply ssorted_singleton. }
    { intros i Hi HPi. apply elem_of_list_singleton in Hi as ->. apply (pre_P0 _ _ _ Hpre) in HPi. lia. }
    rewrite upd_last_ok by (by eapply pre_nonempty). simpl.
    set (g2 := alter _ _ g1).
    assert (E2 : upd_last (push_item (IBranch c (S (length g1 - 1)) None)) g1 = Ok g2).
    { rewrite upd_last_ok by (by eapply pre_nonempty). unfold g2. repeat f_equal. lia. }
    destruct (complete_total g2 [l + 1] (d + 1)) as (g3 & E3).
    { intros i Hi. apply elem_of_list_singleton in Hi as ->. unfold g2. rewrite alter_length. lia. }
    { apply NoDup_singleton. }
    rewrite E3. simpl.
    assert (Hh : l + 1 = length g1 - 1) by lia. rewrite Hh in E3 |- *.
    destruct (step_branch g1 d (d + 1) P0 c g2 g3 Hp1 E2 E3) as (Hp3 & Hl3 & _).
    destruct (IH Hok (d + 1) g3 _ Hp3) as (g4 & ps4 & E4). rewrite E4. simpl.
    destruct (visit_post body (d + 1) g3 _ g4 ps4 Hp3 E4) as [Q1 Q2 Q3 Q4 Q5 Q6 Q7].
    destruct (or_last_total g4 (d + 1) _ ps4 Q4) as (ps' & E5). rewrite E5. simpl.
    destruct (or_last_spec g4 (d + 1) _ ps4 ps' Q4 Q3 E5) as (O1 & O2 & O3 & O4 & _).
    destruct (back_fold (length g1 - 1) ps' g4) as (g5 & E6 & _).
    { lia. }
    { intros i Hi. split; [apply (wf_P _ _ O3); by right|].
      destruct (O4 _ Hi) as [Hi'|[-> ->]]; [apply Q2 in Hi'; lia|lia]. }
    { by apply ssorted_NoDup. }
    rewrite E6. simpl. eauto.
  - (* if *)
    simpl in Hok. apply andb_true_iff in Hok as [Hokt Hoke].
    simpl. rewrite (pre_last_index _ _ _ Hpre). simpl.
    set (l := length g - 1) in *.
    assert (Hlg : length g = S l) by (pose proof (pre_length _ _ _ Hpre); unfold l; lia).
    rewrite upd_last_ok by (by eapply pre_nonempty). simpl. fold l.
    set (g1 := alter _ _ g).
    assert (E1 : upd_last (push_item (IBranch c (S (length g - 1)) None)) g = Ok g1).
    { rewrite upd_last_ok by (by eapply pre_nonempty). unfold g1. fold l. repeat f_equal. lia. }
    destruct (complete_total g1 [l] d) as (g2 & E2).
    { intros i Hi. apply elem_of_list_singleton in Hi as ->. unfold g1. rewrite alter_length. lia. }
    { apply NoDup_singleton. }
    rewrite E2. simpl.
    destruct (step_branch g d d P0 c g1 g2 Hpre E1 E2) as (Hp2 & Hl2 & _). fold l in Hp2.
    destruct (IHt Hokt d g2 _ Hp2) as (g3 & ps3 & E3). rewrite E3. simpl.
    destruct (visit_post t d g2 _ g3 ps3 Hp2 E3) as [Q1 Q2 Q3 Q4 Q5 Q6 Q7].
    destruct (or_last_total g3 d _ ps3 Q4) as (psi & E4). rewrite E4. simpl.
    destruct (or_last_spec g3 d _ ps3 psi Q4 Q3 E4) as (O1 & O2 & O3 & O4 & _).
    assert (Hpsi : forall i, i ∈ psi -> length g2 - 1 <= i < length g3).
    { intros i Hi. destruct (O4 _ Hi) as [Hi'|[-> ->]]; [by apply Q2|lia]. }
    destruct e as [e|]; [|eauto].
    destruct (complete_total g3 [l] d) as (g4 & E5).
    { intros i Hi. apply elem_of_list_singleton in Hi as ->. lia. } { apply NoDup_singleton. }
    rewrite E5. simpl.
    destruct (step_complete g3 [l] d (fun i => P0 i \/ i ∈ psi) g4) as (Hp4 & Hl4 & _); try done.
    { eapply wf_ext; [|exact O3]. intros i. simpl. set_solver. }
    { destruct psi as [|p ?]; [done|]. eapply (wf_nonempty _ _ p); [exact O3|]. right. set_solver. }
    { apply ssorted_singleton. }
    { intros i Hi [HPi|HPi]; apply elem_of_list_singleton in Hi as ->.
      - apply (pre_P0 _ _ _ Hpre) in HPi. lia.
      - apply Hpsi in HPi. lia. }
    destruct (IHe e eq_refl Hoke d g4 _ Hp4) as (g5 & ps5 & E6). rewrite E6. simpl.
    destruct (visit_post e d g4 _ g5 ps5 Hp4 E6) as [R1 R2 R3 R4 R5 R6 R7].
    destruct (or_last_total g5 d _ ps5 R4) as (pse & E7). rewrite E7. simpl. eauto.
Qed.

Theorem lift_never_panics body : parser_shaped body -> exists g, lift body = Ok g.
Proof.
  intros [(ss & ->) Hok]. unfold lift.
  destruct (visit_never_panics (SBlock ss) Hok 0 g_init _ pre_init) as (g' & ps & Hv).
  fold g_init. rewrite Hv. simpl. eauto.
Qed.
