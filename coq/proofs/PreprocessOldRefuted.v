(* The defects D12, D13, D14 (DESIGN §1.3) as machine-checked facts about the
   mirror of `preprocess` BEFORE the repair (Model.PreprocessOld, which agreed
   with the unrepaired Rust function on every string of up to 8 symbols over
   slash, star, newline, a, double quote, e-acute; see design.d/C05.md).  Each witness was replayed on the real
   function through harness/src/bin/preprocess.rs before the fix: commit; the
   witnesses are in corpus/C05/ and now pass. *)
Require Import Model.Base Model.Preprocess Model.PreprocessOld Spec.LexSpec.
From Coq Require Import NArith.
Local Open Scope N_scope.

(* D12  `/***/x`: `**/` does not close the comment, the code after it is
   blanked, no error.  The reference lexer keeps the x. *)
Example D12_old_swallows_code :
  preprocess_old [47; 42; 42; 42; 47; 120] = Ok [32; 32; 32; 32; 32; 32] /\
  lex_spec [47; 42; 42; 42; 47; 120] = Ok [32; 32; 32; 32; 32; 120].
Proof. vm_compute. split; reflexivity. Qed.

(* D12, doc-comment shape  `/** d **/ a` *)
Example D12_old_doc_comment :
  preprocess_old [47; 42; 42; 32; 100; 32; 42; 42; 47; 32; 97] = Ok (repeat 32 11) /\
  lex_spec [47; 42; 42; 32; 100; 32; 42; 42; 47; 32; 97] = Ok (repeat 32 10 ++ [97]).
Proof. vm_compute. split; reflexivity. Qed.

(* D13  `/* abc` at end of file: accepted silently *)
Example D13_old_unclosed_not_reported :
  preprocess_old [47; 42; 32; 97; 98; 99] = Ok (repeat 32 6) /\
  lex_spec [47; 42; 32; 97; 98; 99] = Err (UnclosedAt 0).
Proof. vm_compute. split; reflexivity. Qed.

Example D13_old_bare_opener :
  preprocess_old [47; 42] = Ok [32; 32] /\ lex_spec [47; 42] = Err (UnclosedAt 0).
Proof. vm_compute. split; reflexivity. Qed.

(* D14  `ééé/**`: the opener is at byte offset 6; the old code reports 5
   (scalars counted, and the count taken after the opener), which is not even
   a scalar boundary of the file *)
Example D14_old_location_in_scalars :
  preprocess_old [233; 233; 233; 47; 42; 42] = Err (unclosed 5) /\
  lex_spec [233; 233; 233; 47; 42; 42] = Err (UnclosedAt 6).
Proof. vm_compute. split; reflexivity. Qed.

(* D14 on plain ASCII  `ab/**`: reported at 4 (after the opener), opener at 2 *)
Example D14_old_location_after_opener :
  preprocess_old [97; 98; 47; 42; 42] = Err (unclosed 4) /\
  lex_spec [97; 98; 47; 42; 42] = Err (UnclosedAt 2).
Proof. vm_compute. split; reflexivity. Qed.

(* hence the refinement statement of C05 is false for the old code *)
Lemma preprocess_old_refines_lexer_refuted :
  exists s, preprocess_old s <> lex_spec s.
Proof. exists [47; 42]. vm_compute. discriminate. Qed.

(* the repaired mirror on the same witnesses *)
Example repaired_on_witnesses :
  preprocess [47; 42; 42; 42; 47; 120] = Ok [32; 32; 32; 32; 32; 120] /\
  preprocess [47; 42; 32; 97; 98; 99] = Err (unclosed 0) /\
  preprocess [233; 233; 233; 47; 42; 42] = Err (unclosed 6) /\
  preprocess [97; 98; 47; 42; 42] = Err (unclosed 2).
Proof. vm_compute. repeat split; reflexivity. Qed.
