(* C07: concrete runs in graphs WITH LOOPS whose paths differ between valuations (different
   arms of an `if` inside a loop body) but stay in step at the loop headers are represented
   by the lock-step relation of Spec.DegSem.

   The schedule.  An abstract FIRING SCHEDULE is a sequence of blocks  blkf 0 .. blkf (N-1)
   of which every path of the family is a subsequence:  visf rho t  says whether the run of
   valuation rho executes block  blkf t  at step t.  The lock-step relation fires, step by
   step, every statement of  blkf t  for ALL valuations whenever some run visits it
   (speculatively for the others).  In a graph with loops this OVERWRITES cells: a run that
   does not visit the block at step t keeps, in its own store, the value its last visit
   assigned, while the family store now holds the value of the visitors.  The invariant is
   therefore restricted to the cells that are VALID for a run: those whose defining block
   was last fired at a step the run took part in.

   Why that is enough.  A run only reads cells that hold the RUNNING VERSION of their
   variable (C14's validator, Model.SsaCheck.infos_ok: every read names the version most
   recently assigned on the path), and a cell that holds the running version is valid
   ([live_valid]) provided that no cell is overwritten for a run for which it holds the
   running version - hypothesis [Dead] of the abstract schedule, DERIVED in Section Segments
   for schedules that fire the blocks in index order once per ascending segment of the
   paths, from a decidable condition on the validator's maps ([no_future_version]: the
   version current at the exit of a block is never one that a block with a larger index
   defines). *)
From Coq Require Import ZArith NArith List Bool Arith Lia Sorting.Sorted.
Require Import Model.Base Model.Ir Model.SsaCheck Model.Propagate Model.Justify Model.DegJustify.
Require Import Spec.PolyDeg Spec.SsaSpec Spec.DegSem Spec.DegRun Proofs.IrInd Proofs.IrFacts Proofs.ValueProofs Proofs.SsaProofs.
Require Import Proofs.DegRunProofs Proofs.DegRunBranch Proofs.DegRunDecided.
Import ListNotations.
Local Open Scope Z_scope.

(* ---------- the value of an expression depends on the cells it reads only ---------- *)
Fixpoint list_reads (es : list expr) : list vname :=
  match es with [] => [] | x :: tl => expr_reads x ++ list_reads tl end.
Fixpoint acc_reads (acc : list (access expr)) : list vname :=
  match acc with
  | [] => []
  | AIdx x :: tl => expr_reads x ++ acc_reads tl
  | AComp _ :: tl => acc_reads tl
  end.

Section Ext.
Variable p : Z.
Variable sem2 : infix_op -> Z -> Z -> Z.
Variable sem1 : prefix_op -> Z -> Z.
Variable call_sem : ident -> list Z -> Z.
Variable name_code : ident -> Z.
Notation cval := (cval p sem2 sem1 call_sem name_code).
Variables s s' : cstore.

Local Notation agree e := ((forall y, In y (expr_reads e) -> s y = s' y) -> cval s e = cval s' e).

Lemma cval_list_ext (es : list expr) : Forall (fun e => agree e) es ->
  (forall y, In y (list_reads es) -> s y = s' y) ->
  (fix cval_list (es : list expr) : option (list cell) :=
     match es with
     | [] => Some []
     | x :: tl => match cval s x, cval_list tl with
                  | Some v, Some vs => Some (v :: vs)
                  | _, _ => None
                  end
     end) es =
  (fix cval_list (es : list expr) : option (list cell) :=
     match es with
     | [] => Some []
     | x :: tl => match cval s' x, cval_list tl with
                  | Some v, Some vs => Some (v :: vs)
                  | _, _ => None
                  end
     end) es.
Proof.
  induction 1 as [|e tl He _ IH]; intros Hy; [reflexivity|]. cbn [list_reads] in Hy. simpl.
  rewrite He by (intros y H; apply Hy; apply in_or_app; left; exact H).
  rewrite IH by (intros y H; apply Hy; apply in_or_app; right; exact H). reflexivity.
Qed.

Lemma cval_acc_ext (acc : list (access expr)) : Forall (fun e => agree e) (acc_exprs acc) ->
  (forall y, In y (acc_reads acc) -> s y = s' y) ->
  (fix cval_acc (acc : list (access expr)) : option (list Z) :=
     match acc with
     | [] => Some []
     | AIdx x :: tl => match cval s x, cval_acc tl with
                       | Some v, Some idx => Some (v [] :: idx)
                       | _, _ => None
                       end
     | AComp n :: tl => match cval_acc tl with
                        | Some idx => Some (name_code n :: idx)
                        | None => None
                        end
     end) acc =
  (fix cval_acc (acc : list (access expr)) : option (list Z) :=
     match acc with
     | [] => Some []
     | AIdx x :: tl => match cval s' x, cval_acc tl with
                       | Some v, Some idx => Some (v [] :: idx)
                       | _, _ => None
                       end
     | AComp n :: tl => match cval_acc tl with
                        | Some idx => Some (name_code n :: idx)
                        | None => None
                        end
     end) acc.
Proof.
  induction acc as [|a tl IH]; intros Hall Hy; [reflexivity|].
  destruct a as [e|n]; cbn [acc_exprs flat_map app] in Hall; cbn [acc_reads] in Hy; simpl.
  - apply Forall_cons_iff in Hall as [He Ht].
    rewrite He by (intros y H; apply Hy; apply in_or_app; left; exact H).
    rewrite (IH Ht) by (intros y H; apply Hy; apply in_or_app; right; exact H). reflexivity.
  - rewrite (IH Hall Hy). reflexivity.
Qed.

Lemma cval_ext : forall e, agree e.
Proof.
  induction e as [z k|x k|op l r k IHl IHr|op e k IHe|cd t f k IHc IHt IHf|n args k IHargs|vs k IHvs
                  |x acc k IHacc|x acc rhe k IHacc IHrhe|args k] using expr_ind'; intros Hy.
  - reflexivity.
  - cbn [DegRun.cval]. apply Hy. left. reflexivity.
  - cbn [DegRun.cval]. cbn [expr_reads] in Hy.
    rewrite IHl by (intros y H; apply Hy; apply in_or_app; left; exact H).
    rewrite IHr by (intros y H; apply Hy; apply in_or_app; right; exact H). reflexivity.
  - cbn [DegRun.cval]. cbn [expr_reads] in Hy. rewrite IHe by exact Hy. reflexivity.
  - cbn [DegRun.cval]. cbn [expr_reads] in Hy.
    rewrite IHc by (intros y H; apply Hy; apply in_or_app; left; exact H).
    rewrite IHt by (intros y H; apply Hy; apply in_or_app; right; apply in_or_app; left; exact H).
    rewrite IHf by (intros y H; apply Hy; apply in_or_app; right; apply in_or_app; right; exact H). reflexivity.
  - change (expr_reads (ECall n args k)) with (list_reads args) in Hy.
    cbn [DegRun.cval]. rewrite (cval_list_ext args IHargs Hy). reflexivity.
  - change (expr_reads (EArray vs k)) with (list_reads vs) in Hy.
    cbn [DegRun.cval]. rewrite (cval_list_ext vs IHvs Hy). reflexivity.
  - change (expr_reads (EAccess x acc k)) with (x :: acc_reads acc) in Hy.
    cbn [DegRun.cval]. rewrite (Hy x (or_introl eq_refl)).
    rewrite (cval_acc_ext acc IHacc) by (intros y H; apply Hy; right; exact H). reflexivity.
  - change (expr_reads (EUpdate x acc rhe k)) with (x :: expr_reads rhe ++ acc_reads acc) in Hy.
    cbn [DegRun.cval]. rewrite (Hy x (or_introl eq_refl)).
    rewrite (cval_acc_ext acc IHacc) by (intros y H; apply Hy; right; apply in_or_app; right; exact H).
    rewrite IHrhe by (intros y H; apply Hy; right; apply in_or_app; left; exact H). reflexivity.
  - reflexivity.
Qed.
End Ext.

Lemma local_targets_cons c st tl : local_targets c (st :: tl) = local_targets c [st] ++ local_targets c tl.
Proof. unfold local_targets. cbn [flat_map]. rewrite app_nil_r. reflexivity. Qed.

Lemma local_targets_mem c st tl y d :
  In y (local_targets c (st :: tl) ++ d) <-> In y (local_targets c tl ++ (local_targets c [st] ++ d)).
Proof. rewrite local_targets_cons, !in_app_iff. tauto. Qed.

(* ---------- stores synchronised on a set of names ---------- *)
Section Sync.
Variable V : Type.
Variable p : Z.
Variable sem2 : infix_op -> Z -> Z -> Z.
Variable sem1 : prefix_op -> Z -> Z.
Variable call_sem : ident -> list Z -> Z.
Variable name_code : ident -> Z.
Notation den := (den V p sem2 sem1 call_sem name_code).
Notation cval := (cval p sem2 sem1 call_sem name_code).

(* every cell of the concrete store whose name satisfies P is the family's cell at rho *)
Definition sync_on (P : vname -> Prop) (rho : V) (s : cstore) (S : fstore V) : Prop :=
  forall x v, P x -> s x = Some v -> exists F, S x = Some F /\ rel_cell V rho v F.

Lemma sync_on_weaken (P Q : vname -> Prop) rho s S : (forall x, Q x -> P x) -> sync_on P rho s S -> sync_on Q rho s S.
Proof. intros H Hs x v Hq Hx. apply (Hs x v); auto. Qed.

Lemma cval_den_on P rho s S e v : sync_on P rho s S -> (forall y, In y (expr_reads e) -> P y) ->
  cval s e = Some v -> exists F, den S e = Some F /\ rel_cell V rho v F.
Proof.
  intros Hs Hr Hv.
  set (s1 := fun x => if existsb (vname_eqb x) (expr_reads e) then s x else None).
  assert (H1 : cval s1 e = Some v).
  { rewrite <- Hv. apply cval_ext. intros y Hy. unfold s1.
    assert (E : existsb (vname_eqb y) (expr_reads e) = true)
      by (apply existsb_exists; exists y; split; [exact Hy|apply vname_eqb_refl]).
    rewrite E. reflexivity. }
  apply (cval_den_sub V p sem2 sem1 call_sem name_code rho s1 S e v); [|exact H1].
  intros x w Hx. unfold s1 in Hx. destruct (existsb (vname_eqb x) (expr_reads e)) eqn:E; [|discriminate].
  apply existsb_exists in E as (y & Hy & E). apply vname_eqb_eq in E. subst y.
  apply (Hs x w); [apply Hr; exact Hy|exact Hx].
Qed.
End Sync.

(* ---------- one block of the schedule, for all valuations, with overwriting ---------- *)
Section Block.
Variable V : Type.
Variable p : Z.
Variable sem2 : infix_op -> Z -> Z -> Z.
Variable sem1 : prefix_op -> Z -> Z.
Variable call_sem : ident -> list Z -> Z.
Variable name_code : ident -> Z.
Variable c : cfg.
Variable idom : list (option N).
Variable S0 : fstore V.
Notation den := (den V p sem2 sem1 call_sem name_code).
Notation cval := (cval p sem2 sem1 call_sem name_code).
Notation cexec_stmt := (cexec_stmt p sem2 sem1 call_sem name_code).
Notation cexec_body := (cexec_body p sem2 sem1 call_sem name_code).
Notation freachable := (freachable V p sem2 sem1 call_sem name_code c idom S0).
Notation sync_on := (sync_on V).
Notation local_targets := (local_targets c).

Variable vis : V -> bool.          (* the valuations that visit the block at this step *)
Variable r0 : V.
Hypothesis Hr0 : vis r0 = true.
Variable Pv : V -> vname -> Prop.  (* the names that are valid for a valuation before this step *)

(* every read of a statement is valid or was assigned earlier in this firing of the block *)
Fixpoint reads_in (P : vname -> Prop) (done : list vname) (ss : list stmt) : Prop :=
  match ss with
  | [] => True
  | st :: tl => (forall y, In y (stmt_reads st) -> P y \/ In y done) /\ reads_in P (local_targets [st] ++ done) tl
  end.

Lemma body_all ss : forall (done : list vname) (cur : V -> cstore) (S : fstore V),
  (forall st, In st ss -> In st (all_stmts (c_blocks c))) ->
  freachable S ->
  (forall rho, vis rho = true -> sync_on (fun x => Pv rho x \/ In x done) rho (cur rho) S) ->
  (forall rho, vis rho = false -> sync_on (fun x => Pv rho x /\ ~ In x done) rho (cur rho) S) ->
  (forall rho, vis rho = true -> cexec_body c (cur rho) ss <> None) ->
  (forall rho, vis rho = true -> reads_in (Pv rho) done ss) ->
  exists S', freachable S' /\
    (forall rho, vis rho = true -> forall s', cexec_body c (cur rho) ss = Some s' ->
       sync_on (fun x => Pv rho x \/ In x (local_targets ss ++ done)) rho s' S') /\
    (forall rho, vis rho = false -> sync_on (fun x => Pv rho x /\ ~ In x (local_targets ss ++ done)) rho (cur rho) S').
Proof.
  induction ss as [|st tl IH]; intros done cur S Hin Hreach Hv Hnv Hrun Hreads.
  - exists S. split; [exact Hreach|]. split.
    + intros rho Ev s' [= <-]. apply Hv. exact Ev.
    + intros rho Ev. apply Hnv. exact Ev.
  - assert (Hin' : forall st0, In st0 tl -> In st0 (all_stmts (c_blocks c))) by (intros; apply Hin; right; assumption).
    assert (Hmem : forall y d, In y (local_targets (st :: tl) ++ d) <-> In y (local_targets tl ++ (local_targets [st] ++ d)))
      by (intros; apply local_targets_mem).
    destruct (match st with SSubst _ x _ _ _ _ => stores_local c x | _ => false end) eqn:Eloc.
    + destruct st as [| | |m x op rhe sv stt| | |]; try discriminate.
      assert (Ht1 : local_targets [SSubst m x op rhe sv stt] = [x])
        by (unfold DegRunBranch.local_targets; cbn [flat_map]; rewrite Eloc; reflexivity).
      assert (Hval : forall rho, vis rho = true -> exists v, cval (cur rho) rhe = Some v).
      { intros rho Ev. specialize (Hrun rho Ev). cbn [DegRun.cexec_body DegRun.cexec_stmt] in Hrun. rewrite Eloc in Hrun.
        destruct (cval (cur rho) rhe) as [v|]; [eauto|congruence]. }
      assert (Hden : forall rho, vis rho = true -> forall v, cval (cur rho) rhe = Some v ->
                exists F, den S rhe = Some F /\ rel_cell V rho v F).
      { intros rho Ev v Hc.
        apply (cval_den_on V p sem2 sem1 call_sem name_code (fun x0 => Pv rho x0 \/ In x0 done) rho (cur rho) S rhe v); [apply Hv; exact Ev| |exact Hc].
        intros y Hy. destruct (Hreads rho Ev) as [Hr _]. apply Hr. exact Hy. }
      destruct (Hval r0 Hr0) as (v0 & Hv0). destruct (Hden r0 Hr0 v0 Hv0) as (F & HF & _).
      destruct (stores_local_spec c x Eloc) as [Hd Hp].
      set (S1 := fupd V S x (Some F)).
      set (cur1 := fun rho => if vis rho then match cval (cur rho) rhe with Some v => cupd (cur rho) x (Some v) | None => cur rho end
                              else cur rho).
      assert (Hreach1 : freachable S1).
      { eapply fr_step; [exact Hreach|]. eapply fs_assign; eauto.
        - apply Hin. left. reflexivity.
        - eapply den_not_phi; eauto. }
      destruct (IH (x :: done) cur1 S1 Hin' Hreach1) as (S' & Hr' & Hvis' & Hnv').
      { intros rho Ev y w Hy Hc. unfold cur1 in Hc. rewrite Ev in Hc.
        destruct (Hval rho Ev) as (v & Hcv). rewrite Hcv in Hc. destruct (Hden rho Ev v Hcv) as (F' & HF' & Hrel).
        rewrite HF in HF'. injection HF' as <-.
        unfold cupd in Hc. unfold S1, fupd. destruct (vname_eqb x y) eqn:E.
        - injection Hc as <-. eauto.
        - apply (Hv rho Ev y w); [|exact Hc]. destruct Hy as [Hy|[Hy|Hy]]; [left; exact Hy| |right; exact Hy].
          subst y. rewrite vname_eqb_refl in E. discriminate. }
      { intros rho Ev y w [Hy Hnd] Hc. unfold cur1 in Hc. rewrite Ev in Hc. unfold S1, fupd.
        destruct (vname_eqb x y) eqn:E.
        - apply vname_eqb_eq in E. subst y. exfalso. apply Hnd. left. reflexivity.
        - apply (Hnv rho Ev y w); [|exact Hc]. split; [exact Hy|]. intros H. apply Hnd. right. exact H. }
      { intros rho Ev. specialize (Hrun rho Ev). cbn [DegRun.cexec_body DegRun.cexec_stmt] in Hrun. rewrite Eloc in Hrun.
        unfold cur1. rewrite Ev. destruct (cval (cur rho) rhe); [exact Hrun|congruence]. }
      { intros rho Ev. destruct (Hreads rho Ev) as [_ Hr]. rewrite Ht1 in Hr. exact Hr. }
      exists S'. split; [exact Hr'|]. split.
      * intros rho Ev s' Hs'. cbn [DegRun.cexec_body DegRun.cexec_stmt] in Hs'. rewrite Eloc in Hs'.
        eapply sync_on_weaken; [|apply (Hvis' rho Ev s')].
        -- intros y [Hy|Hy]; [left; exact Hy|right]. apply Hmem in Hy. rewrite Ht1 in Hy. exact Hy.
        -- unfold cur1. rewrite Ev. destruct (cval (cur rho) rhe); [exact Hs'|discriminate].
      * intros rho Ev. specialize (Hnv' rho Ev). unfold cur1 in Hnv'. rewrite Ev in Hnv'.
        eapply sync_on_weaken; [|exact Hnv']. intros y [Hy Hn]. split; [exact Hy|]. intros H. apply Hn. apply Hmem. rewrite Ht1. exact H.
    + (* any other statement: no cell changes *)
      assert (Hskip : forall s, cexec_stmt c s st = Some s).
      { intros s. destruct st; cbn [DegRun.cexec_stmt]; try reflexivity. rewrite Eloc. reflexivity. }
      assert (Ht1 : local_targets [st] = []).
      { unfold DegRunBranch.local_targets. cbn [flat_map]. destruct st; try reflexivity. rewrite Eloc. reflexivity. }
      destruct (IH done cur S Hin' Hreach Hv Hnv) as (S' & Hr' & Hvis' & Hnv').
      { intros rho Ev. specialize (Hrun rho Ev). cbn [DegRun.cexec_body] in Hrun. rewrite Hskip in Hrun. exact Hrun. }
      { intros rho Ev. destruct (Hreads rho Ev) as [_ Hr]. rewrite Ht1 in Hr. exact Hr. }
      exists S'. split; [exact Hr'|]. split.
      * intros rho Ev s' Hs'. cbn [DegRun.cexec_body] in Hs'. rewrite Hskip in Hs'.
        eapply sync_on_weaken; [|apply (Hvis' rho Ev s' Hs')].
        intros y [Hy|Hy]; [left; exact Hy|right]. apply Hmem in Hy. rewrite Ht1 in Hy. exact Hy.
      * intros rho Ev. eapply sync_on_weaken; [|apply (Hnv' rho Ev)].
        intros y [Hy Hn]. split; [exact Hy|]. intros H. apply Hn. apply Hmem. rewrite Ht1. exact H.
Qed.
End Block.

Section BlockPhis.
Variable V : Type.
Variable p : Z.
Variable sem2 : infix_op -> Z -> Z -> Z.
Variable sem1 : prefix_op -> Z -> Z.
Variable call_sem : ident -> list Z -> Z.
Variable name_code : ident -> Z.
Variable c : cfg.
Variable idom : list (option N).
Variable S0 : fstore V.
Notation den := (den V p sem2 sem1 call_sem name_code).
Notation cval := (cval p sem2 sem1 call_sem name_code).
Notation freachable := (freachable V p sem2 sem1 call_sem name_code c idom S0).
Notation sync_on := (sync_on V).
Notation local_targets := (local_targets c).

Variable vis : V -> bool.
Variable r0 : V.
Hypothesis Hr0 : vis r0 = true.
Variable Pv : V -> vname -> Prop.
Variable Lof : V -> vmap.         (* the running maps with which the block is entered *)
Variable b : block.
Variable ent0 : V -> cstore.      (* the stores with which the visitors enter the block *)

Definition arg_at (x : vname) (args : list vname) (r : V) : option vname :=
  match vget (Lof r) (key_of x) with Some n => phi_arg x n args | None => None end.
Definition repv (rho : V) : V := if vis rho then rho else r0.
Definition pick_at (x : vname) (args : list vname) : V -> vname :=
  fun rho => match arg_at x args (repv rho) with Some a => a | None => x end.

Lemma repv_vis rho : vis (repv rho) = true.
Proof. unfold repv. destruct (vis rho) eqn:E; [exact E|exact Hr0]. Qed.

(* THE ASSUMPTION about the family, for this firing of the block: two visitors with different
   arriving arguments enter a join and differ on a deciding condition, whose operands are
   valid for both and are not merged by a phi of this block that stands BEFORE the phi in
   question (the condition is read by Spec.DegSem.cond_fixed in the store of the phi step: an
   earlier phi of the block has already overwritten its target there; the target of the phi
   itself and of later ones are still those of the entry).  [done0]: the targets already fired. *)
Definition picks_decided_at (done0 : list vname) (phis : list stmt) : Prop :=
  forall pre m x op args k sv stt post, phis = pre ++ SSubst m x op (EPhi args k) sv stt :: post ->
  stores_local c x = true ->
  forall r1 r2, vis r1 = true -> vis r2 = true -> arg_at x args r1 <> arg_at x args r2 ->
    (2 <= length (b_preds b))%nat /\
    exists cond v1 v2, decides c idom b cond /\ cval (ent0 r1) cond = Some v1 /\ cval (ent0 r2) cond = Some v2 /\
                       v1 [] <> v2 [] /\
                       forall y, In y (expr_reads cond) -> Pv r1 y /\ Pv r2 y /\ ~ In y done0 /\ ~ In y (local_targets pre).

Lemma phis_all phis : forall (done : list vname) (cur : V -> cstore) (S : fstore V),
  Forall (fun s => is_phi_stmt s = true) phis ->
  (forall st, In st phis -> In st (all_stmts (c_blocks c))) ->
  freachable S ->
  (forall rho, vis rho = true -> sync_on (fun x => Pv rho x \/ In x done) rho (cur rho) S) ->
  (forall rho, vis rho = false -> sync_on (fun x => Pv rho x /\ ~ In x done) rho (cur rho) S) ->
  (forall rho, vis rho = true -> forall y, ~ In y done -> cur rho y = ent0 rho y) ->
  (forall rho, vis rho = true -> cexec_phis c (Lof rho) (cur rho) phis <> None) ->
  (forall rho, vis rho = true -> forall x args a, arg_at x args rho = Some a -> Pv rho a) ->
  picks_decided_at done phis ->
  (forall x, In x (local_targets phis) -> forall bq, phi_block_of c x bq -> bq = b) ->
  exists S', freachable S' /\
    (forall rho, vis rho = true -> forall s', cexec_phis c (Lof rho) (cur rho) phis = Some s' ->
       sync_on (fun x => Pv rho x \/ In x (local_targets phis ++ done)) rho s' S') /\
    (forall rho, vis rho = false -> sync_on (fun x => Pv rho x /\ ~ In x (local_targets phis ++ done)) rho (cur rho) S').
Proof.
  induction phis as [|st tl IH]; intros done cur S Hphi Hin Hreach Hv Hnv Hent Hrun Harg Hpd Huniq.
  - exists S. split; [exact Hreach|]. split.
    + intros rho Ev s' [= <-]. apply Hv. exact Ev.
    + intros rho Ev. apply Hnv. exact Ev.
  - assert (Hin' : forall st0, In st0 tl -> In st0 (all_stmts (c_blocks c))) by (intros; apply Hin; right; assumption).
    assert (Hpd' : picks_decided_at (local_targets [st] ++ done) tl).
    { intros pre m x op args k sv stt post E Hl r1 r2 E1 E2 Hne.
      destruct (Hpd (st :: pre) m x op args k sv stt post (f_equal (cons st) E) Hl r1 r2 E1 E2 Hne) as (Hj & cond & v1 & v2 & Hd & H1 & H2 & Hdf & Hcr).
      split; [exact Hj|]. exists cond, v1, v2. repeat (split; [assumption|]).
      intros y Hy. destruct (Hcr y Hy) as (P1 & P2 & N1 & N2). split; [exact P1|]. split; [exact P2|].
      rewrite local_targets_cons in N2. split; [|intros H; apply N2; apply in_or_app; right; exact H].
      intros H. apply in_app_or in H as [H|H]; [apply N2; apply in_or_app; left; exact H|exact (N1 H)]. }
    assert (Hmem : forall y d, In y (local_targets (st :: tl) ++ d) <-> In y (local_targets tl ++ (local_targets [st] ++ d)))
      by (intros; apply local_targets_mem).
    assert (Huniq' : forall x, In x (local_targets tl) -> forall bq, phi_block_of c x bq -> bq = b).
    { intros x Hx. apply Huniq. rewrite local_targets_cons. apply in_or_app. right. exact Hx. }
    apply Forall_cons_iff in Hphi as [Hphi1 Hphi].
    destruct (match st with SSubst _ x _ (EPhi _ _) _ _ => stores_local c x | _ => false end) eqn:Eloc.
    + destruct st as [| | |m x op rhe sv stt| | |]; try discriminate. destruct rhe as [| | | | | | | | |args k]; try discriminate.
      assert (Ht1 : local_targets [SSubst m x op (EPhi args k) sv stt] = [x])
        by (unfold DegRunBranch.local_targets; cbn [flat_map]; rewrite Eloc; reflexivity).
      assert (Hxin : In x (local_targets (SSubst m x op (EPhi args k) sv stt :: tl)))
        by (rewrite local_targets_cons, Ht1; left; reflexivity).
      pose proof (Huniq x Hxin) as Hxb.
      destruct (stores_local_spec c x Eloc) as [Hd Hp].
      (* every visitor finds its argument *)
      assert (Hok : forall rho, vis rho = true -> exists a v, arg_at x args rho = Some a /\ cur rho a = Some v).
      { intros rho Ev. specialize (Hrun rho Ev). cbn [DegRun.cexec_phis DegRun.cexec_phi] in Hrun. rewrite Eloc in Hrun.
        unfold arg_at. destruct (vget (Lof rho) (key_of x)) as [n|]; [|congruence].
        destruct (phi_arg x n args) as [a|]; [|congruence]. destruct (cur rho a) as [v|] eqn:Ec; [eauto|congruence]. }
      set (pick := pick_at x args).
      assert (Hpick : forall rho, exists a v, arg_at x args (repv rho) = Some a /\ pick rho = a /\ cur (repv rho) a = Some v).
      { intros rho. destruct (Hok (repv rho) (repv_vis rho)) as (a & v & Ha & Hc). exists a, v. split; [exact Ha|]. split; [|exact Hc].
        unfold pick, pick_at. rewrite Ha. reflexivity. }
      (* the argument of a visitor is synchronised *)
      assert (Hargsync : forall rho, vis rho = true -> forall a v, arg_at x args rho = Some a -> cur rho a = Some v ->
                exists G, S a = Some G /\ rel_cell V rho v G).
      { intros rho Ev a v Ha Hc. apply (Hv rho Ev a v); [|exact Hc]. left. eapply Harg; eauto. }
      set (S1 := fupd V S x (Some (phi_fam V S pick))).
      set (cur1 := fun rho => if vis rho then match cexec_phi c (Lof rho) (cur rho) (SSubst m x op (EPhi args k) sv stt) with
                                               | Some s1 => s1 | None => cur rho end
                              else cur rho).
      assert (Hreach1 : freachable S1).
      { eapply fr_step; [exact Hreach|]. eapply fs_phi; eauto.
        - apply Hin. left. reflexivity.
        - intros rho. destruct (Hpick rho) as (a & v & Ha & -> & _). unfold arg_at in Ha.
          destruct (vget (Lof (repv rho)) (key_of x)) as [n|]; [|discriminate]. eapply phi_arg_in; eauto.
        - intros rho. destruct (Hpick rho) as (a & v & Ha & -> & Hc).
          destruct (Hargsync (repv rho) (repv_vis rho) a v Ha Hc) as (G & HG & _). congruence.
        - (* the choice varies only under a varying decider *)
          intros bq Hbq Hor r1 r2. destruct (vname_eqb (pick r1) (pick r2)) eqn:E; [apply vname_eqb_eq; exact E|exfalso].
          rewrite (Hxb bq Hbq) in Hor.
          destruct (Hpick r1) as (a1 & w1 & Ha1 & Hp1 & _). destruct (Hpick r2) as (a2 & w2 & Ha2 & Hp2 & _).
          assert (Hne : arg_at x args (repv r1) <> arg_at x args (repv r2)).
          { rewrite Ha1, Ha2. intros [= Heq]. rewrite Hp1, Hp2, Heq, vname_eqb_refl in E. discriminate. }
          destruct (Hpd [] m x op args k sv stt tl eq_refl Eloc (repv r1) (repv r2) (repv_vis r1) (repv_vis r2) Hne)
            as (Hjoin & cond & v1 & v2 & Hdec & Hv1 & Hv2 & Hdiff & Hcr).
          destruct Hor as [Hlt|Hall]; [lia|].
          specialize (Hall cond Hdec). unfold cond_fixed in Hall.
          assert (Hcur : forall r, vis r = true -> cval (cur r) cond = cval (ent0 r) cond).
          { intros r Er. apply cval_ext. intros y Hy. apply (Hent r Er). intros Hyd.
            destruct (Hcr y Hy) as (_ & _ & Hn & _). apply Hn. exact Hyd. }
          destruct (cval_den_on V p sem2 sem1 call_sem name_code (fun x0 => Pv (repv r1) x0 \/ In x0 done) (repv r1) (cur (repv r1)) S cond v1)
            as (C1 & HC1 & Hr1).
          { apply Hv. apply repv_vis. }
          { intros y Hy. left. apply (Hcr y Hy). }
          { rewrite (Hcur _ (repv_vis r1)). exact Hv1. }
          destruct (cval_den_on V p sem2 sem1 call_sem name_code (fun x0 => Pv (repv r2) x0 \/ In x0 done) (repv r2) (cur (repv r2)) S cond v2)
            as (C2 & HC2 & Hr2).
          { apply Hv. apply repv_vis. }
          { intros y Hy. left. apply (Hcr y Hy). }
          { rewrite (Hcur _ (repv_vis r2)). exact Hv2. }
          rewrite HC1 in HC2. injection HC2 as <-. rewrite HC1 in Hall.
          apply Hdiff. rewrite (Hr1 []), (Hr2 []). apply Hall. }
      assert (Hstep : forall rho, vis rho = true -> exists a v, arg_at x args rho = Some a /\ cur rho a = Some v /\
                 cexec_phi c (Lof rho) (cur rho) (SSubst m x op (EPhi args k) sv stt) = Some (cupd (cur rho) x (Some v))).
      { intros rho Ev. destruct (Hok rho Ev) as (a & v & Ha & Hc). exists a, v. split; [exact Ha|]. split; [exact Hc|].
        cbn [DegRun.cexec_phi]. rewrite Eloc. unfold arg_at in Ha.
        destruct (vget (Lof rho) (key_of x)) as [n|]; [|discriminate]. rewrite Ha, Hc. reflexivity. }
      destruct (IH (x :: done) cur1 S1 Hphi Hin' Hreach1) as (S' & Hr' & Hvis' & Hnv').
      { intros rho Ev y w Hy Hc. unfold cur1 in Hc. rewrite Ev in Hc.
        destruct (Hstep rho Ev) as (a & v & Ha & Hca & Hs). rewrite Hs in Hc.
        unfold cupd in Hc. unfold S1, fupd. destruct (vname_eqb x y) eqn:E.
        - injection Hc as <-. eexists. split; [reflexivity|].
          intros i. unfold phi_fam.
          assert (Epick : pick rho = a) by (unfold pick, pick_at, repv; rewrite Ev, Ha; reflexivity).
          rewrite Epick. destruct (Hargsync rho Ev a v Ha Hca) as (G & HG & Hr). rewrite HG. apply Hr.
        - apply (Hv rho Ev y w); [|exact Hc]. destruct Hy as [Hy|[Hy|Hy]]; [left; exact Hy| |right; exact Hy].
          subst y. rewrite vname_eqb_refl in E. discriminate. }
      { intros rho Ev y w [Hy Hnd] Hc. unfold cur1 in Hc. rewrite Ev in Hc. unfold S1, fupd.
        destruct (vname_eqb x y) eqn:E.
        - apply vname_eqb_eq in E. subst y. exfalso. apply Hnd. left. reflexivity.
        - apply (Hnv rho Ev y w); [|exact Hc]. split; [exact Hy|]. intros H. apply Hnd. right. exact H. }
      { intros rho Ev y Hy. unfold cur1. rewrite Ev. destruct (Hstep rho Ev) as (a & v & _ & _ & Hs). rewrite Hs.
        unfold cupd. destruct (vname_eqb x y) eqn:E.
        - apply vname_eqb_eq in E. subst y. exfalso. apply Hy. left. reflexivity.
        - apply (Hent rho Ev). intros H. apply Hy. right. exact H. }
      { intros rho Ev. specialize (Hrun rho Ev). cbn [DegRun.cexec_phis] in Hrun.
        destruct (Hstep rho Ev) as (a & v & _ & _ & Hs). rewrite Hs in Hrun.
        unfold cur1. rewrite Ev, Hs. exact Hrun. }
      { exact Harg. }
      { rewrite Ht1 in Hpd'. exact Hpd'. }
      { exact Huniq'. }
      exists S'. split; [exact Hr'|]. split.
      * intros rho Ev s' Hs'. cbn [DegRun.cexec_phis] in Hs'.
        destruct (Hstep rho Ev) as (a & v & _ & _ & Hs). rewrite Hs in Hs'.
        eapply sync_on_weaken; [|apply (Hvis' rho Ev s')].
        -- intros y [Hy|Hy]; [left; exact Hy|right]. apply Hmem in Hy. rewrite Ht1 in Hy. exact Hy.
        -- unfold cur1. rewrite Ev, Hs. exact Hs'.
      * intros rho Ev. specialize (Hnv' rho Ev). unfold cur1 in Hnv'. rewrite Ev in Hnv'.
        eapply sync_on_weaken; [|exact Hnv']. intros y [Hy Hn]. split; [exact Hy|]. intros H. apply Hn. apply Hmem. rewrite Ht1. exact H.
    + (* not a phi that stores a local: no cell changes *)
      assert (Hskip : forall L s, cexec_phi c L s st = Some s).
      { intros L s. destruct st as [| | |m x op rhe sv stt| | |]; cbn [DegRun.cexec_phi]; try reflexivity.
        destruct rhe; try reflexivity. rewrite Eloc. reflexivity. }
      assert (Ht1 : local_targets [st] = []).
      { unfold DegRunBranch.local_targets. cbn [flat_map]. destruct st as [| | |m x op rhe sv stt| | |]; try reflexivity.
        destruct rhe; try discriminate. rewrite Eloc. reflexivity. }
      destruct (IH done cur S Hphi Hin' Hreach Hv Hnv Hent) as (S' & Hr' & Hvis' & Hnv').
      { intros rho Ev. specialize (Hrun rho Ev). cbn [DegRun.cexec_phis] in Hrun. rewrite Hskip in Hrun. exact Hrun. }
      { exact Harg. }
      { rewrite Ht1 in Hpd'. exact Hpd'. }
      { exact Huniq'. }
      exists S'. split; [exact Hr'|]. split.
      * intros rho Ev s' Hs'. cbn [DegRun.cexec_phis] in Hs'. rewrite Hskip in Hs'.
        eapply sync_on_weaken; [|apply (Hvis' rho Ev s' Hs')].
        intros y [Hy|Hy]; [left; exact Hy|right]. apply Hmem in Hy. rewrite Ht1 in Hy. exact Hy.
      * intros rho Ev. eapply sync_on_weaken; [|apply (Hnv' rho Ev)].
        intros y [Hy Hn]. split; [exact Hy|]. intros H. apply Hn. apply Hmem. rewrite Ht1. exact H.
Qed.
End BlockPhis.

Lemma vname_eq_dec (a b : vname) : {a = b} + {a <> b}.
Proof.
  destruct (vname_eqb a b) eqn:E; [left; apply vname_eqb_eq; exact E|right].
  intros H. apply vname_eqb_eq in H. congruence.
Qed.

(* ---------- running versions ---------- *)
(* the cell x holds the running version of its variable *)
Definition live (L : vmap) (x : vname) : Prop := vget L (key_of x) = vn_version x.

Lemma vname_key_version (x y : vname) : key_of x = key_of y -> vn_version x = vn_version y -> x = y.
Proof. destruct x, y. unfold key_of. cbn. intros [= -> ->] ->. reflexivity. Qed.

(* a statement makes a name live only by defining it *)
Lemma live_track L st x : live (track L st) x -> live L x \/ stmt_def st = Some x.
Proof.
  unfold live, track. destruct (stmt_def st) as [y|] eqn:Ed; [|auto].
  destruct (vn_version y) as [n|] eqn:Ev; [|auto].
  rewrite vget_vset. destruct (key_eqb (key_of y) (key_of x)) eqn:E; [|auto].
  apply key_eqb_eq in E. intros H. right. f_equal. apply vname_key_version; [exact E|congruence].
Qed.

Lemma live_fold_track ss : forall L x, live (fold_left track ss L) x -> live L x \/ exists st, In st ss /\ stmt_def st = Some x.
Proof.
  induction ss as [|st tl IH]; intros L x H; cbn [fold_left] in H; [auto|].
  destruct (IH _ _ H) as [H1|(st' & Hin & Hd)].
  - destruct (live_track L st x H1) as [H2|H2]; [auto|]. right. exists st. split; [left; reflexivity|exact H2].
  - right. exists st'. split; [right; exact Hin|exact Hd].
Qed.

Lemma stmt_def_target c st x : stmt_def st = Some x -> stores_local c x = true -> In x (local_targets c [st]).
Proof.
  destruct st as [| | |m y op rhe sv stt| | |]; cbn [stmt_def]; try discriminate.
  destruct (vn_version y); [|discriminate]. intros [= ->] Hl.
  unfold local_targets. cbn [flat_map]. rewrite Hl. left. reflexivity.
Qed.

Lemma local_targets_in c ss : forall st x, In st ss -> In x (local_targets c [st]) -> In x (local_targets c ss).
Proof.
  intros st x Hin Hx. unfold local_targets in *. cbn [flat_map] in Hx. rewrite app_nil_r in Hx.
  apply in_flat_map. exists st. split; [exact Hin|exact Hx].
Qed.

Lemma block_vmap_live c L b x : live (block_vmap L b) x -> stores_local c x = true ->
  live L x \/ In x (local_targets c (b_stmts b)).
Proof.
  unfold block_vmap. destruct (leading_phis (b_stmts b)) as [phis body] eqn:Elp.
  pose proof (DegRunProofs.leading_phis_app _ _ _ Elp) as Hpb. unfold apply_phis. rewrite <- fold_left_app.
  intros H Hl. destruct (live_fold_track _ _ _ H) as [H1|(st & Hin & Hd)]; [left; exact H1|right].
  rewrite Hpb. eapply local_targets_in; [exact Hin|]. apply stmt_def_target; assumption.
Qed.

(* ---------- an abstract firing schedule ---------- *)
Section Pre.
Variable V : Type.
Variable blkf : nat -> nat.        (* the block fired at a step *)
Variable visf : V -> nat -> bool.  (* whether the run of a valuation executes it then *)
(* the blocks a run has executed before step t *)
Fixpoint pre (rho : V) (t : nat) : list nat :=
  match t with O => [] | S t' => pre rho t' ++ (if visf rho t' then [blkf t'] else []) end.

Lemma pre_prefix rho : forall d t, exists rest, pre rho (t + d) = pre rho t ++ rest.
Proof.
  induction d as [|d IH]; intros t.
  - exists []. rewrite Nat.add_0_r, app_nil_r. reflexivity.
  - destruct (IH t) as (rest & E). replace (t + S d)%nat with (S (t + d)) by lia. cbn [pre]. rewrite E, <- app_assoc. eauto.
Qed.

End Pre.

Section Schedule.
Variable V : Type.
Variable p : Z.
Variable sem2 : infix_op -> Z -> Z -> Z.
Variable sem1 : prefix_op -> Z -> Z.
Variable call_sem : ident -> list Z -> Z.
Variable name_code : ident -> Z.
Variable c : cfg.
Variable idom : list (option N).
Variable S0 : fstore V.
Variable L0 : vmap.
Variable s0 : V -> cstore.
Variable reps : list V.
Variable NS : nat.                 (* the number of steps *)
Variable blkf : nat -> nat.        (* the block fired at a step *)
Variable visf : V -> nat -> bool.  (* whether the run of a valuation executes it then *)
Notation cval := (cval p sem2 sem1 call_sem name_code).
Notation cexec_block := (cexec_block p sem2 sem1 call_sem name_code).
Notation cexec_nocheck := (cexec_nocheck p sem2 sem1 call_sem name_code c).
Notation freachable := (freachable V p sem2 sem1 call_sem name_code c idom S0).
Notation sync_on := (sync_on V).
Notation local_targets := (local_targets c).
Notation alltgts := (local_targets (all_stmts (c_blocks c))).

Notation pre := (pre V blkf visf).

Definition Es (rho : V) (t : nat) : option cstore := cexec_nocheck L0 (s0 rho) (pre rho t).
Definition ents (rho : V) (t : nat) : cstore := match Es rho t with Some s => s | None => s0 rho end.
Definition Lats (rho : V) (t : nat) : vmap := vmap_after c L0 (pre rho t).
Definition firedb (t : nat) : bool := existsb (fun r => visf r t) reps.
Definition tgts (a : nat) : list vname :=
  match nth_error (c_blocks c) a with Some b => local_targets (b_stmts b) | None => [] end.

(* a cell is VALID for a run before step t: the last firing of its defining block before t
   was one the run took part in *)
Definition Valid (rho : V) (t : nat) (x : vname) : Prop :=
  forall t1, (t1 < t)%nat -> In x (tgts (blkf t1)) -> firedb t1 = true -> visf rho t1 = false ->
    exists t2, (t1 < t2 < t)%nat /\ blkf t2 = blkf t1 /\ visf rho t2 = true.

(* the statements of a block read running versions, or names the graph never assigns *)
Fixpoint reads_live (L : vmap) (ss : list stmt) : Prop :=
  match ss with
  | [] => True
  | st :: tl => (forall y, In y (stmt_reads st) -> ~ In y alltgts \/ live L y) /\ reads_live (track L st) tl
  end.

(* THE ASSUMPTION about the family (cf. Proofs.DegRunBranch.picks_decided), per step *)
Definition picks_decided_sched : Prop :=
  forall t b, (t < NS)%nat -> nth_error (c_blocks c) (blkf t) = Some b ->
    picks_decided_at V p sem2 sem1 call_sem name_code c idom (fun rho => visf rho t) (fun rho => Valid rho t)
                     (fun rho => Lats rho t) b (fun rho => ents rho t) [] (fst (leading_phis (b_stmts b))).

Hypothesis Hreps : forall rho, exists r, In r reps /\ forall t, visf r t = visf rho t.
Hypothesis Hrun : forall rho, cexec_nocheck L0 (s0 rho) (pre rho NS) <> None.
Hypothesis H0 : forall rho, sub_store V rho (s0 rho) S0.
Hypothesis Hsa : NoDup alltgts.
Hypothesis Hreads : forall rho t b phis body, (t < NS)%nat -> visf rho t = true ->
  nth_error (c_blocks c) (blkf t) = Some b -> leading_phis (b_stmts b) = (phis, body) ->
  reads_live (apply_phis (Lats rho t) phis) body.
(* no cell is overwritten for a run for which it holds the running version *)
Hypothesis HDead : forall t rho x, (t < NS)%nat -> firedb t = true -> visf rho t = false -> In x (tgts (blkf t)) ->
  ~ live (Lats rho t) x.
Hypothesis Hpick : picks_decided_sched.

Lemma firedb_of rho t : visf rho t = true -> firedb t = true.
Proof.
  intros Hv. destruct (Hreps rho) as (r & Hr & He). unfold firedb. apply existsb_exists. exists r. split; [exact Hr|].
  rewrite He. exact Hv.
Qed.

Lemma Es_some rho t : (t <= NS)%nat -> exists s, Es rho t = Some s.
Proof.
  intros Ht. unfold Es. destruct (pre_prefix V blkf visf rho (NS - t) t) as (rest & E). replace (t + (NS - t))%nat with NS in E by lia.
  pose proof (Hrun rho) as H. rewrite E, nocheck_app in H.
  destruct (cexec_nocheck L0 (s0 rho) (pre rho t)) as [s|]; [eauto|congruence].
Qed.

Lemma Es_ents rho t : (t <= NS)%nat -> Es rho t = Some (ents rho t).
Proof. intros Ht. unfold ents. destruct (Es_some rho t Ht) as (s & ->). reflexivity. Qed.

Lemma Es_step_in rho t : (t < NS)%nat -> visf rho t = true ->
  exists b, nth_error (c_blocks c) (blkf t) = Some b /\ cexec_block c (Lats rho t) (ents rho t) b = Some (ents rho (S t)).
Proof.
  intros Ht Hv. pose proof (Es_ents rho (S t) ltac:(lia)) as H. unfold Es in H. cbn [pre] in H. rewrite Hv, nocheck_app in H.
  fold (Es rho t) in H. rewrite (Es_ents rho t ltac:(lia)) in H. fold (Lats rho t) in H.
  cbn [DegRunBranch.cexec_nocheck] in H. destruct (nth_error (c_blocks c) (blkf t)) as [b|]; [|discriminate].
  exists b. split; [reflexivity|]. destruct (cexec_block c (Lats rho t) (ents rho t) b); [exact H|discriminate].
Qed.

Lemma step_out rho t : visf rho t = false -> ents rho (S t) = ents rho t /\ Lats rho (S t) = Lats rho t.
Proof. intros Hv. unfold ents, Es, Lats. cbn [pre]. rewrite Hv, app_nil_r. auto. Qed.

Lemma Lats_step_in rho t b : visf rho t = true -> nth_error (c_blocks c) (blkf t) = Some b ->
  Lats rho (S t) = block_vmap (Lats rho t) b.
Proof.
  intros Hv Hb. unfold Lats. cbn [pre]. rewrite Hv. unfold vmap_after. rewrite fold_left_app. cbn [fold_left]. rewrite Hb. reflexivity.
Qed.

Lemma tgts_all a x : In x (tgts a) -> In x alltgts.
Proof.
  unfold tgts. destruct (nth_error (c_blocks c) a) as [b|] eqn:Eb; [|contradiction]. intros Hx.
  rewrite (local_targets_blocks c). apply in_flat_map. exists b. split; [eapply nth_error_In; eauto|exact Hx].
Qed.

Lemma tgts_unique a1 a2 x : In x (tgts a1) -> In x (tgts a2) -> a1 = a2.
Proof.
  unfold tgts. destruct (nth_error (c_blocks c) a1) as [b1|] eqn:E1; [|contradiction].
  destruct (nth_error (c_blocks c) a2) as [b2|] eqn:E2; [|contradiction]. intros H1 H2.
  pose proof Hsa as Hnd. rewrite (local_targets_blocks c) in Hnd.
  revert a1 a2 E1 E2 Hnd. generalize (c_blocks c) as bs. induction bs as [|y bs IH]; intros [|a1] [|a2] E1 E2 Hnd; cbn in E1, E2; try discriminate.
  - reflexivity.
  - exfalso. injection E1 as ->. cbn [flat_map] in Hnd. apply (NoDup_app_disj _ _ Hnd x H1).
    apply in_flat_map. exists b2. split; [eapply nth_error_In; eauto|exact H2].
  - exfalso. injection E2 as ->. cbn [flat_map] in Hnd. apply (NoDup_app_disj _ _ Hnd x H2).
    apply in_flat_map. exists b1. split; [eapply nth_error_In; eauto|exact H1].
  - f_equal. cbn [flat_map] in Hnd. apply (IH a1 a2 E1 E2 (NoDup_app_r _ _ Hnd)).
Qed.

(* a name becomes live for a run only by the run executing its defining block *)
Lemma live_gain rho x : stores_local c x = true -> forall d t1, (t1 + d <= NS)%nat ->
  live (Lats rho (t1 + d)) x -> ~ live (Lats rho t1) x ->
  exists t2, (t1 <= t2 < t1 + d)%nat /\ visf rho t2 = true /\ In x (tgts (blkf t2)).
Proof.
  intros Hl. induction d as [|d IH]; intros t1 Hle H1 H2.
  - rewrite Nat.add_0_r in H1. contradiction.
  - replace (t1 + S d)%nat with (S (t1 + d)) in H1 by lia.
    destruct (visf rho (t1 + d)) eqn:Ev.
    + destruct (Es_step_in rho (t1 + d) ltac:(lia) Ev) as (b & Hb & _).
      rewrite (Lats_step_in rho (t1 + d) b Ev Hb) in H1.
      destruct (block_vmap_live c _ b x H1 Hl) as [H3|H3].
      * destruct (IH t1 ltac:(lia) H3 H2) as (t2 & Ht2 & Hv2 & Hx2). exists t2. split; [lia|auto].
      * exists (t1 + d)%nat. split; [lia|]. split; [exact Ev|]. unfold tgts. rewrite Hb. exact H3.
    + destruct (step_out rho (t1 + d) Ev) as [_ EL]. rewrite EL in H1.
      destruct (IH t1 ltac:(lia) H1 H2) as (t2 & Ht2 & Hv2 & Hx2). exists t2. split; [lia|auto].
Qed.

(* THE STATIC FACT: a cell that holds the running version is valid *)
Lemma live_valid rho t x : (t <= NS)%nat -> live (Lats rho t) x -> Valid rho t x.
Proof.
  intros Ht Hlive t1 Hlt Hx Hf Hv.
  assert (Hl : stores_local c x = true) by (eapply local_targets_local; eapply tgts_all; eauto).
  pose proof (HDead t1 rho x ltac:(lia) Hf Hv Hx) as Hdead.
  replace t with (t1 + (t - t1))%nat in Hlive by lia.
  destruct (live_gain rho x Hl (t - t1) t1 ltac:(lia) Hlive Hdead) as (t2 & Ht2 & Hv2 & Hx2).
  exists t2. split; [|split; [eapply tgts_unique; eauto|exact Hv2]].
  destruct (Nat.eq_dec t2 t1) as [->|Hne]; [congruence|lia].
Qed.

Lemma not_target_valid rho t x : ~ In x alltgts -> Valid rho t x.
Proof. intros Hn t1 _ Hx. exfalso. apply Hn. eapply tgts_all; eauto. Qed.

(* the reads of the body of a block are valid or assigned earlier in the block *)
Lemma reads_in_of_live rho t (Ht : (t <= NS)%nat) body : forall L done,
  (forall y, live L y -> In y alltgts -> live (Lats rho t) y \/ In y done) ->
  reads_live L body -> reads_in c (Valid rho t) done body.
Proof.
  induction body as [|st tl IH]; intros L done HL Hr; cbn [reads_in]; [exact I|].
  cbn [reads_live] in Hr. destruct Hr as [Hr1 Hr2]. split.
  - intros y Hy. destruct (Hr1 y Hy) as [Hn|Hlv]; [left; apply not_target_valid; exact Hn|].
    destruct (in_dec vname_eq_dec y alltgts) as [Hin|Hnin].
    + destruct (HL y Hlv Hin) as [H1|H1]; [left; apply live_valid; assumption|right; exact H1].
    + left. apply not_target_valid. exact Hnin.
  - apply (IH (track L st)); [|exact Hr2].
    intros y Hlv Hin. destruct (live_track L st y Hlv) as [H1|H1].
    + destruct (HL y H1 Hin) as [H2|H2]; [left; exact H2|right; apply in_or_app; right; exact H2].
    + right. apply in_or_app. left. apply stmt_def_target; [exact H1|]. eapply local_targets_local; eauto.
Qed.

Lemma valid_step_vis rho t x : Valid rho (S t) x -> Valid rho t x \/ In x (tgts (blkf t)).
Proof.
  intros Hv. destruct (in_dec vname_eq_dec x (tgts (blkf t))) as [Hin|Hnin]; [right; exact Hin|left].
  intros t1 Hlt Hx Hf Hnv. destruct (Hv t1 ltac:(lia) Hx Hf Hnv) as (t2 & Ht2 & Hb2 & Hv2).
  exists t2. split; [|auto]. destruct (Nat.eq_dec t2 t) as [->|Hne]; [|lia]. exfalso. apply Hnin. rewrite Hb2. exact Hx.
Qed.

Lemma valid_step_nonvis rho t x : visf rho t = false -> Valid rho (S t) x ->
  Valid rho t x /\ (firedb t = true -> ~ In x (tgts (blkf t))).
Proof.
  intros Hnv Hv. split.
  - intros t1 Hlt Hx Hf Hnv1. destruct (Hv t1 ltac:(lia) Hx Hf Hnv1) as (t2 & Ht2 & Hb2 & Hv2).
    exists t2. split; [|auto]. destruct (Nat.eq_dec t2 t) as [->|Hne]; [congruence|lia].
  - intros Hf Hx. destruct (Hv t ltac:(lia) Hx Hf Hnv) as (t2 & Ht2 & _). lia.
Qed.

Lemma phi_arg_spec x n args a : phi_arg x n args = Some a -> key_of a = key_of x /\ vn_version a = Some n.
Proof.
  unfold phi_arg. intros H. apply find_some in H as [_ H]. apply andb_true_iff in H as [H1 H2].
  apply key_eqb_eq in H1. apply optN_eqb_eq in H2. auto.
Qed.

Lemma sched_step t : (t < NS)%nat ->
  (exists St, freachable St /\ forall rho, sync_on (Valid rho t) rho (ents rho t) St) ->
  exists St, freachable St /\ forall rho, sync_on (Valid rho (S t)) rho (ents rho (S t)) St.
Proof.
  intros Ht (St & Hreach & Hsync).
  destruct (firedb t) eqn:Ef.
  - (* some run executes the block at this step *)
    pose proof Ef as Ef'. unfold firedb in Ef'. apply existsb_exists in Ef' as (r0 & _ & Hr0).
    destruct (Es_step_in r0 t Ht Hr0) as (b & Hb & _).
    set (vis := fun rho => visf rho t).
    destruct (leading_phis (b_stmts b)) as [phis body] eqn:Elp.
    pose proof (DegRunProofs.leading_phis_app _ _ _ Elp) as Hpb.
    assert (Hinb : In b (c_blocks c)) by (eapply nth_error_In; eauto).
    assert (Hall : forall st, In st (b_stmts b) -> In st (all_stmts (c_blocks c))).
    { intros st Hs. unfold all_stmts. apply in_flat_map. eauto. }
    assert (Htg : forall x, In x (tgts (blkf t)) <-> In x (local_targets body ++ local_targets phis ++ [])).
    { intros x. unfold tgts. rewrite Hb, Hpb. unfold DegRunBranch.local_targets. rewrite flat_map_app, app_nil_r, !in_app_iff. tauto. }
    assert (Hblock : forall rho, vis rho = true -> cexec_block c (Lats rho t) (ents rho t) b = Some (ents rho (S t))).
    { intros rho Ev. destruct (Es_step_in rho t Ht Ev) as (b' & Hb' & H). rewrite Hb in Hb'. injection Hb' as <-. exact H. }
    assert (Hphis_ok : forall rho, vis rho = true -> cexec_phis c (Lats rho t) (ents rho t) phis <> None).
    { intros rho Ev Hn. specialize (Hblock rho Ev). unfold DegRun.cexec_block in Hblock. rewrite Elp, Hn in Hblock. discriminate. }
    destruct (phis_all V p sem2 sem1 call_sem name_code c idom S0 vis r0 Hr0 (fun rho => Valid rho t) (fun rho => Lats rho t) b
                (fun rho => ents rho t) phis [] (fun rho => ents rho t) St)
      as (S1 & Hreach1 & Hvis1 & Hnv1).
    { exact (leading_phis_are_phis _ _ _ Elp). }
    { intros st Hs. apply Hall. rewrite Hpb. apply in_or_app. left. exact Hs. }
    { exact Hreach. }
    { intros rho _. eapply sync_on_weaken; [|apply Hsync]. intros y [Hy|[]]. exact Hy. }
    { intros rho _. eapply sync_on_weaken; [|apply Hsync]. intros y [Hy _]. exact Hy. }
    { intros rho _ y _. reflexivity. }
    { exact Hphis_ok. }
    { intros rho Ev x args a Ha. unfold arg_at in Ha. destruct (vget (Lats rho t) (key_of x)) as [n|] eqn:En; [|discriminate].
      destruct (phi_arg_spec x n args a Ha) as [Hk Hver]. apply live_valid; [lia|]. unfold live. rewrite Hk, En, Hver. reflexivity. }
    { pose proof (Hpick t b Ht Hb) as H. rewrite Elp in H. exact H. }
    { intros x Hx bq (Hbq & m & op & args & k & sv & stt & Hphi).
      pose proof Hsa as Hnd. rewrite (local_targets_blocks c) in Hnd.
      apply (nodup_flat_map_same _ _ Hnd bq b x Hbq Hinb).
      - eapply (in_local_targets c); [exact Hphi|]. eapply local_targets_local; eauto.
      - rewrite Hpb. unfold DegRunBranch.local_targets. rewrite flat_map_app. apply in_or_app. left. exact Hx. }
    set (done2 := local_targets phis ++ []).
    set (cur2 := fun rho => if vis rho then match cexec_phis c (Lats rho t) (ents rho t) phis with Some s => s | None => ents rho t end
                            else ents rho t).
    destruct (body_all V p sem2 sem1 call_sem name_code c idom S0 vis r0 Hr0 (fun rho => Valid rho t) body done2 cur2 S1)
      as (S2 & Hreach2 & Hvis2 & Hnv2).
    { intros st Hs. apply Hall. rewrite Hpb. apply in_or_app. right. exact Hs. }
    { exact Hreach1. }
    { intros rho Ev. unfold cur2. rewrite Ev.
      destruct (cexec_phis c (Lats rho t) (ents rho t) phis) as [s1|] eqn:Ep; [|exfalso; exact (Hphis_ok rho Ev Ep)].
      exact (Hvis1 rho Ev s1 Ep). }
    { intros rho Ev. unfold cur2. rewrite Ev. exact (Hnv1 rho Ev). }
    { intros rho Ev Hn. specialize (Hblock rho Ev). unfold DegRun.cexec_block in Hblock. rewrite Elp in Hblock.
      unfold cur2 in Hn. rewrite Ev in Hn.
      destruct (cexec_phis c (Lats rho t) (ents rho t) phis) as [s1|]; [|discriminate]. rewrite Hn in Hblock. discriminate. }
    { intros rho Ev. apply (reads_in_of_live rho t ltac:(lia) body (apply_phis (Lats rho t) phis) done2).
      - intros y Hlv Hin. unfold apply_phis in Hlv. destruct (live_fold_track _ _ _ Hlv) as [H1|(st & Hst & Hd)]; [left; exact H1|right].
        unfold done2. rewrite app_nil_r. eapply local_targets_in; [exact Hst|]. apply stmt_def_target; [exact Hd|].
        eapply local_targets_local; eauto.
      - exact (Hreads rho t b phis body Ht Ev Hb Elp). }
    exists S2. split; [exact Hreach2|]. intros rho. destruct (vis rho) eqn:Ev.
    + specialize (Hblock rho Ev). unfold DegRun.cexec_block in Hblock. rewrite Elp in Hblock.
      eapply sync_on_weaken; [|apply (Hvis2 rho Ev (ents rho (S t)))].
      * intros x Hx. destruct (valid_step_vis rho t x Hx) as [H1|H1]; [left; exact H1|right; apply Htg; exact H1].
      * unfold cur2. rewrite Ev. destruct (cexec_phis c (Lats rho t) (ents rho t) phis) as [s1|]; [exact Hblock|discriminate].
    + destruct (step_out rho t Ev) as [-> _]. specialize (Hnv2 rho Ev). unfold cur2 in Hnv2. rewrite Ev in Hnv2.
      eapply sync_on_weaken; [|exact Hnv2].
      intros x Hx. destruct (valid_step_nonvis rho t x Ev Hx) as [H1 H2]. split; [exact H1|].
      intros Hin. apply (H2 Ef). apply Htg. exact Hin.
  - (* nobody executes a block at this step *)
    exists St. split; [exact Hreach|]. intros rho.
    assert (Ev : visf rho t = false).
    { destruct (visf rho t) eqn:E; [|reflexivity]. rewrite (firedb_of rho t E) in Ef. discriminate. }
    destruct (step_out rho t Ev) as [-> _].
    eapply sync_on_weaken; [|apply Hsync]. intros x Hx. apply (valid_step_nonvis rho t x Ev Hx).
Qed.

Lemma sched_upto t : (t <= NS)%nat ->
  exists St, freachable St /\ forall rho, sync_on (Valid rho t) rho (ents rho t) St.
Proof.
  induction t as [|t IH]; intros Ht.
  - exists S0. split; [constructor|]. intros rho x v _ Hx. unfold ents, Es in Hx. cbn [pre DegRunBranch.cexec_nocheck] in Hx.
    exact (H0 rho x v Hx).
  - apply sched_step; [lia|]. apply IH. lia.
Qed.

(* THE REPRESENTATION THEOREM for a firing schedule: the final stores of the runs are, on every
   cell that holds the running version of its variable and on every cell the graph never
   assigns, one store reachable by the lock-step relation taken at the valuation *)
Theorem schedule_runs_represented :
  exists S, freachable S /\
    forall rho s', cexec_nocheck L0 (s0 rho) (pre rho NS) = Some s' ->
      sync_on (fun x => ~ In x alltgts \/ live (vmap_after c L0 (pre rho NS)) x) rho s' S.
Proof.
  destruct (sched_upto NS (le_n _)) as (S & Hreach & Hsync). exists S. split; [exact Hreach|].
  intros rho s' Hs'. specialize (Hsync rho). unfold ents, Es in Hsync. rewrite Hs' in Hsync.
  eapply sync_on_weaken; [|exact Hsync]. intros x [Hx|Hx]; [apply not_target_valid; exact Hx|apply live_valid; [lia|exact Hx]].
Qed.
End Schedule.

(* ---------- the decidable hypotheses (Model.DegLoops), as propositions ---------- *)
Require Import Model.DegGraph Model.DegLoops.

Lemma targets_versioned_sound c x : targets_versioned c = true -> In x (local_targets c (all_stmts (c_blocks c))) ->
  vn_version x <> None.
Proof.
  unfold targets_versioned. rewrite forallb_forall. intros H Hx. specialize (H x Hx). destruct (vn_version x); [discriminate|discriminate].
Qed.

Lemma update_bases_fresh_sound infos c i info b phis body : update_bases_fresh infos c = true ->
  nth_error infos i = Some info -> nth_error (c_blocks c) i = Some b -> leading_phis (b_stmts b) = (phis, body) ->
  ubf_body c (bi_in info) body = true.
Proof.
  unfold update_bases_fresh. rewrite forallb_forall. intros H Hi Hb Elp.
  assert (Hin : In (info, b) (combine infos (c_blocks c))).
  { clear -Hi Hb. revert infos Hi Hb. generalize (c_blocks c) as bs.
    induction i as [|i IH]; intros [|b0 bs] [|i0 is_]; cbn; try discriminate.
    - intros [= ->] [= ->]. left. reflexivity.
    - intros H1 H2. right. eapply IH; eauto. }
  specialize (H _ Hin). cbn [fst snd] in H. rewrite Elp in H. exact H.
Qed.

Lemma no_future_version_sound infos c i info a b x : no_future_version infos c = true ->
  nth_error infos i = Some info -> nth_error (c_blocks c) a = Some b -> (i < a)%nat ->
  In x (local_targets c (b_stmts b)) -> vget (bi_out info) (key_of x) <> vn_version x.
Proof.
  unfold no_future_version. rewrite forallb_forall. intros H Hi Hb Hlt Hx.
  pose proof (Proofs.DegGraphProofs.combine_seq_nth infos 0 i info Hi) as Hin1. cbn [Nat.add] in Hin1.
  specialize (H _ Hin1). cbn [fst snd] in H. rewrite forallb_forall in H.
  pose proof (Proofs.DegGraphProofs.combine_seq_nth (c_blocks c) 0 a b Hb) as Hin2. cbn [Nat.add] in Hin2.
  specialize (H _ Hin2). cbn [fst snd] in H. apply orb_true_iff in H as [H|H]; [apply Nat.leb_le in H; lia|].
  rewrite forallb_forall in H. specialize (H x Hx). apply negb_true_iff in H.
  intros E. rewrite E in H. assert (opt_eqb N.eqb (vn_version x) (vn_version x) = true) by (apply optN_eqb_eq; reflexivity). congruence.
Qed.

(* a block that passes the validator's run reads running versions only *)
Lemma body_run_reads_live c : targets_versioned c = true ->
  forall ss m m0 m', meq m m0 -> ubf_body c m0 ss = true -> body_run m ss = Some m' ->
  reads_live c m ss.
Proof.
  intros Htv. induction ss as [|s tl IH]; intros m m0 m' Hm Hu H; cbn [reads_live]; [exact I|].
  cbn [body_run] in H. destruct (body_stmt_ok m s) eqn:Eb; [|discriminate].
  cbn [ubf_body] in Hu. apply andb_true_iff in Hu as [Hu1 Hu2]. split.
  - unfold body_stmt_ok in Eb. apply andb_true_iff in Eb as [_ Hr]. rewrite forallb_forall in Hr.
    intros y Hy. specialize (Hr y Hy). unfold read_ok in Hr. unfold live.
    destruct (vn_version y) as [n|] eqn:Ev.
    + destruct (vget m (key_of y)) as [n'|] eqn:Eg.
      * apply N.eqb_eq in Hr. subst n'. right. reflexivity.
      * destruct (update_base s) as [w|] eqn:Ew; [|discriminate]. apply vname_eqb_eq in Hr. subst w.
        left. rewrite <- (Hm (key_of y)), Eg in Hu1. apply negb_true_iff in Hu1. intros Hin.
        assert (E : existsb (vname_eqb y) (local_targets_m c) = true) by (apply existsb_exists; exists y; split; [exact Hin|apply vname_eqb_refl]).
        congruence.
    + left. intros Hin'. exact (targets_versioned_sound c y Htv Hin' Ev).
  - apply (IH (track m s) (track m0 s) m'); [apply meq_track; exact Hm|exact Hu2|exact H].
Qed.

(* entering a block along an edge: after the phis the running map is the validator's entry map
   (the middle of the proof of Proofs.SsaProofs.enter_step) *)
Lemma enter_in_meq c infos p s ip is_ bs_ L phis body :
  nth_error infos p = Some ip -> nth_error infos s = Some is_ -> nth_error (c_blocks c) s = Some bs_ ->
  edge_ok infos (c_blocks c) p s = true -> block_ok is_ bs_ = true -> meq L (bi_out ip) ->
  leading_phis (b_stmts bs_) = (phis, body) -> meq (apply_phis L phis) (bi_in is_).
Proof.
  intros Hip His Hbs He Hblk HL Elp.
  unfold edge_ok in He. rewrite Hip, His, Hbs in He. rewrite forallb_forall in He.
  unfold block_ok in Hblk. rewrite Elp in Hblk. apply andb_true_iff in Hblk as [Hnd _].
  assert (Hall : forall k, edge_key_ok ip is_ bs_ k = true).
  { intros k. unfold edge_key_ok at 1.
    destruct (vget (bi_out ip) k) as [n|] eqn:Eo.
    - assert (Hin : In k (map fst (bi_out ip) ++ map fst (bi_in is_) ++ phi_key_list bs_))
        by (apply in_or_app; left; eapply vget_some_in; eauto).
      specialize (He k Hin). unfold edge_key_ok in He. rewrite Eo in He. exact He.
    - rewrite Elp. cbn [fst].
      destruct (find_phi phis k) as [[x args]|] eqn:Ef.
      + assert (Hin : In k (map fst (bi_out ip) ++ map fst (bi_in is_) ++ phi_key_list bs_)).
        { apply in_or_app; right. apply in_or_app; right.
          unfold phi_key_list. rewrite Elp. cbn [fst]. eapply find_phi_key_in; eauto. }
        specialize (He k Hin). unfold edge_key_ok in He. rewrite Eo, Elp in He. cbn [fst] in He. rewrite Ef in He. exact He.
      + destruct (vget (bi_in is_) k) as [n|] eqn:Ei; [|reflexivity].
        assert (Hin : In k (map fst (bi_out ip) ++ map fst (bi_in is_) ++ phi_key_list bs_))
          by (apply in_or_app; right; apply in_or_app; left; eapply vget_some_in; eauto).
        specialize (He k Hin). unfold edge_key_ok in He. rewrite Eo, Elp in He. cbn [fst] in He.
        rewrite Ef, Ei in He. exact He. }
  intros k. rewrite (vget_apply_phis phis L k Hnd).
  specialize (Hall k). unfold edge_key_ok in Hall. rewrite Elp in Hall. cbn [fst] in Hall.
  destruct (find_phi phis k) as [[x args]|].
  - apply andb_true_iff in Hall as [_ Hall]. apply optN_eqb_eq in Hall. symmetry. exact Hall.
  - apply optN_eqb_eq in Hall. rewrite (HL k). exact Hall.
Qed.

(* ---------- schedules that fire the blocks in index order, once per ascending segment ---------- *)
Lemma concat_firstn_S {A} (l : list (list A)) : forall j, concat (firstn (S j) l) = concat (firstn j l) ++ nth j l [].
Proof.
  induction l as [|x l IH]; intros [|j]; cbn [firstn concat nth]; try reflexivity.
  - rewrite app_nil_r. reflexivity.
  - rewrite IH, app_assoc. reflexivity.
Qed.

Lemma divmod_at n j a : (a < n)%nat -> ((j * n + a) / n = j /\ (j * n + a) mod n = a)%nat.
Proof.
  intros Ha. assert (Hn : n <> 0%nat) by lia. split.
  - rewrite Nat.div_add_l by exact Hn. rewrite Nat.div_small by exact Ha. lia.
  - rewrite Nat.add_comm, Nat.mod_add by exact Hn. apply Nat.mod_small. exact Ha.
Qed.

Lemma last_below_lt a l d : below a l <> [] -> (last (below a l) d < a)%nat.
Proof.
  intros Hne. assert (Hin : In (last (below a l) d) (below a l)) by (apply Proofs.DegGraphProofs.last_in; exact Hne).
  unfold below in Hin. apply filter_In in Hin as [_ H]. apply Nat.ltb_lt in H. exact H.
Qed.

Section Segments.
Variable V : Type.
Variable p : Z.
Variable sem2 : infix_op -> Z -> Z -> Z.
Variable sem1 : prefix_op -> Z -> Z.
Variable call_sem : ident -> list Z -> Z.
Variable name_code : ident -> Z.
Variable c : cfg.
Variable idom : list (option N).
Variable S0 : fstore V.
Variable infos : list binfo.
Variable sg : V -> list (list nat).   (* the path of a valuation, cut into ascending segments *)
Variable heads : list nat.            (* the first blocks of the segments: the same for every valuation *)
Variable s0 s : V -> cstore.
Variable reps : list V.
Notation L0 := (params_map (c_params c)).
Notation n := (length (c_blocks c)).
Notation K := (length heads).
Notation cexec_path := (cexec_path p sem2 sem1 call_sem name_code).
Notation cexec_nocheck := (cexec_nocheck p sem2 sem1 call_sem name_code c).
Notation alltgts := (local_targets c (all_stmts (c_blocks c))).

Definition blk_s (t : nat) : nat := (t mod n)%nat.
Definition vis_s (rho : V) (t : nat) : bool := existsb (Nat.eqb (t mod n)) (nth (t / n) (sg rho) []).
Notation pre_s := (pre V blk_s vis_s).

Hypothesis Hheads : forall rho, map (hd 0%nat) (sg rho) = heads /\ Forall (fun seg => seg <> []) (sg rho).
Hypothesis Hsorted : forall rho, Forall (StronglySorted lt) (sg rho).
Hypothesis Hreps : forall rho, exists r, In r reps /\ sg r = sg rho.
Hypothesis Hentry : forall rho, exists tl, concat (sg rho) = 0%nat :: tl.
Hypothesis Hrunp : forall rho, cexec_path c L0 (s0 rho) (concat (sg rho)) = Some (s rho).
Hypothesis H0 : forall rho, rel_store V rho (s0 rho) S0.
Hypothesis Hok : infos_ok infos c = true.
Hypothesis Hidx : forall i b, nth_error (c_blocks c) i = Some b -> b_index b = N.of_nat i.
Hypothesis Hsa : NoDup alltgts.
Hypothesis Htv : targets_versioned c = true.
Hypothesis Hub : update_bases_fresh infos c = true.
Hypothesis Hnf : no_future_version infos c = true.

Lemma sg_len rho : length (sg rho) = K.
Proof. destruct (Hheads rho) as [<- _]. rewrite map_length. reflexivity. Qed.

Lemma seg_lt rho : forall i, In i (concat (sg rho)) -> (i < n)%nat.
Proof. intros i Hi. eapply cexec_path_indices; [apply (Hrunp rho)|exact Hi]. Qed.

Lemma seg_nth_lt rho j i : In i (nth j (sg rho) []) -> (i < n)%nat.
Proof.
  intros Hi. apply (seg_lt rho). apply in_concat. exists (nth j (sg rho) []). split; [|exact Hi].
  destruct (Nat.lt_ge_cases j (length (sg rho))) as [H|H]; [apply nth_In; exact H|]. rewrite nth_overflow in Hi by exact H. contradiction.
Qed.

Lemma seg_nth_sorted rho j : StronglySorted lt (nth j (sg rho) []).
Proof.
  destruct (Nat.lt_ge_cases j (length (sg rho))) as [H|H].
  - pose proof (Hsorted rho) as Hs. rewrite Forall_forall in Hs. apply Hs. apply nth_In. exact H.
  - rewrite nth_overflow by exact H. constructor.
Qed.

Lemma npos : (0 < n)%nat.
Proof.
  destruct (SsaProofs.entry_facts c infos Hok Hidx) as (i0 & b0 & _ & Hb0 & _).
  assert (0 < n)%nat by (apply nth_error_Some; congruence). exact H.
Qed.

Lemma vis_s_in rho j a : (a < n)%nat -> vis_s rho (j * n + a) = true <-> In a (nth j (sg rho) []).
Proof.
  intros Ha. unfold vis_s. destruct (divmod_at n j a Ha) as [-> ->]. rewrite existsb_exists. split.
  - intros (x & Hx & E). apply Nat.eqb_eq in E. subst x. exact Hx.
  - intros H. exists a. split; [exact H|apply Nat.eqb_refl].
Qed.

(* what a run has executed before step (j, a) *)
Lemma pre_seg rho : forall j a, (a <= n)%nat ->
  pre_s rho (j * n + a) = concat (firstn j (sg rho)) ++ below a (nth j (sg rho) []).
Proof.
  induction j as [|j IHj].
  - induction a as [|a IHa]; intros Ha.
    + cbn [Nat.mul Nat.add pre firstn concat app]. rewrite below_none; [reflexivity|]. apply Forall_forall. intros; lia.
    + replace (0 * n + S a)%nat with (S (0 * n + a)) by lia. cbn [pre]. rewrite IHa by lia.
      destruct (vis_s rho (0 * n + a)) eqn:Ev.
      * apply vis_s_in in Ev; [|lia]. rewrite (below_S_in a _ (seg_nth_sorted rho 0) Ev). unfold blk_s.
        destruct (divmod_at n 0 a ltac:(lia)) as [_ ->]. rewrite app_assoc. reflexivity.
      * rewrite below_S_notin; [rewrite app_nil_r; reflexivity|]. intros Hin. apply (vis_s_in rho 0 a ltac:(lia)) in Hin. congruence.
  - assert (Hbase : pre_s rho (S j * n + 0) = concat (firstn (S j) (sg rho)) ++ below 0 (nth (S j) (sg rho) [])).
    { replace (S j * n + 0)%nat with (j * n + n)%nat by lia. rewrite (IHj n (le_n _)).
      rewrite (below_all n _ (seg_nth_lt rho j)), concat_firstn_S.
      rewrite below_none; [rewrite app_nil_r; reflexivity|]. apply Forall_forall. intros; lia. }
    induction a as [|a IHa]; intros Ha; [exact Hbase|].
    replace (S j * n + S a)%nat with (S (S j * n + a)) by lia. cbn [pre]. rewrite IHa by lia.
    destruct (vis_s rho (S j * n + a)) eqn:Ev.
    + apply vis_s_in in Ev; [|lia]. rewrite (below_S_in a _ (seg_nth_sorted rho (S j)) Ev). unfold blk_s.
      destruct (divmod_at n (S j) a ltac:(lia)) as [_ ->]. rewrite app_assoc. reflexivity.
    + rewrite below_S_notin; [rewrite app_nil_r; reflexivity|]. intros Hin. apply (vis_s_in rho (S j) a ltac:(lia)) in Hin. congruence.
Qed.

Lemma pre_all rho : pre_s rho (K * n) = concat (sg rho).
Proof.
  replace (K * n)%nat with (K * n + 0)%nat by lia. rewrite (pre_seg rho K 0 ltac:(lia)).
  rewrite <- (sg_len rho), firstn_all, nth_overflow by lia. cbn. apply app_nil_r.
Qed.

(* every prefix of the schedule is a walk from the entry block, and the validator's exit map
   of its last block is the running map *)
Lemma pre_walk rho t d : (t + d = K * n)%nat -> pre_s rho t <> [] ->
  exists tl rest, pre_s rho t = 0%nat :: tl /\ concat (sg rho) = (0%nat :: tl) ++ rest /\ is_walk c 0 (tl ++ rest) /\
    exists il, nth_error infos (last tl 0%nat) = Some il /\ meq (vmap_after c L0 (pre_s rho t)) (bi_out il).
Proof.
  intros Htd Hne. destruct (pre_prefix V blk_s vis_s rho d t) as (rest & E). rewrite Htd, pre_all in E.
  destruct (Hentry rho) as (tl0 & E0). destruct (pre_s rho t) as [|x tl] eqn:Ep; [congruence|].
  rewrite E0 in E. cbn [app] in E. injection E as <- E.
  exists tl, rest. split; [reflexivity|]. split; [rewrite E0, E; reflexivity|].
  assert (W : is_walk c 0 (tl ++ rest)).
  { apply (cexec_path_walk p sem2 sem1 call_sem name_code c _ L0 (s0 rho) 0%nat (s rho)). rewrite <- E, <- E0. apply Hrunp. }
  split; [exact W|]. exact (entry_walk_meq c infos Hok Hidx tl (is_walk_app c tl 0%nat rest W)).
Qed.

Lemma reads_s : forall rho t b phis body, (t < K * n)%nat -> vis_s rho t = true ->
  nth_error (c_blocks c) (blk_s t) = Some b -> leading_phis (b_stmts b) = (phis, body) ->
  reads_live c (apply_phis (Lats V c L0 blk_s vis_s rho t) phis) body.
Proof.
  intros rho t b phis body Ht Ev Hb Elp.
  assert (Hallb : forall st, In st body -> In st (all_stmts (c_blocks c))).
  { intros st Hs. unfold all_stmts. apply in_flat_map. exists b. split; [eapply nth_error_In; eauto|].
    rewrite (DegRunProofs.leading_phis_app _ _ _ Elp). apply in_or_app. right. exact Hs. }
  assert (Hnext : exists rest, concat (sg rho) = pre_s rho t ++ blk_s t :: rest).
  { destruct (pre_prefix V blk_s vis_s rho (K * n - S t) (S t)) as (rest & E).
    replace (S t + (K * n - S t))%nat with (K * n)%nat in E by lia. rewrite pre_all in E. cbn [pre] in E. rewrite Ev, <- app_assoc in E.
    exists rest. exact E. }
  destruct Hnext as (rest1 & Enext).
  unfold Lats. destruct (pre_s rho t) as [|x0 tl0] eqn:Ep.
  - (* the entry block *)
    destruct (Hentry rho) as (tl & E0). rewrite E0 in Enext. cbn [app] in Enext. injection Enext as Eb0 _.
    destruct (SsaProofs.entry_facts c infos Hok Hidx) as (i0 & b0 & Hi0 & Hb0 & Hin0 & Hnophi).
    rewrite <- Eb0, Hb0 in Hb. injection Hb as <-. rewrite Elp in Hnophi. cbn [fst] in Hnophi. subst phis.
    destruct (SsaProofs.block_facts c infos Hok 0 b0 Hb0) as (i0' & Hi0' & Hblk). rewrite Hi0 in Hi0'. injection Hi0' as <-.
    unfold block_ok in Hblk. rewrite Elp in Hblk. apply andb_true_iff in Hblk as [_ Hbody]. rewrite Hin0 in Hbody.
    destruct (body_run L0 body) as [o|] eqn:Ebr; [|discriminate].
    cbn. apply (body_run_reads_live c Htv body L0 (bi_in i0) o); [rewrite Hin0; apply meq_refl| |exact Ebr].
    exact (update_bases_fresh_sound infos c 0 i0 b0 [] body Hub Hi0 Hb0 Elp).
  - destruct (pre_walk rho t (K * n - t) ltac:(lia)) as (tl & rest & Ept & Econ & W & il & Hil & Hm); [rewrite Ep; discriminate|].
    rewrite Ep in Ept, Hm. injection Ept as -> ->.
    assert (Erest : rest = blk_s t :: rest1).
    { rewrite Enext in Econ. apply app_inv_head in Econ. symmetry. exact Econ. }
    subst rest.
    pose proof (walk_edge_at c tl 0%nat (blk_s t) rest1 W) as (bp & Hbp & Hsucc).
    pose proof (SsaProofs.edge_facts c infos Hok _ bp _ Hbp Hsucc (Hidx _ _ Hbp)) as He.
    destruct (SsaProofs.block_facts c infos Hok _ b Hb) as (ib & Hib & Hblk).
    destruct (SsaProofs.enter_step c infos _ _ il ib b _ Hil Hib Hb He Hblk Hm) as (L' & HL' & _).
    unfold enter_block in HL'. rewrite Elp in HL'. destruct (forallb (phi_read_ok _) phis); [|discriminate].
    apply (body_run_reads_live c Htv body _ (bi_in ib) L'); [|exact (update_bases_fresh_sound infos c _ ib b phis body Hub Hib Hb Elp)|exact HL'].
    exact (enter_in_meq c infos _ _ il ib b _ phis body Hil Hib Hb He Hblk Hm Elp).
Qed.


Lemma last_app_ne {A} (l1 l2 : list A) d : l2 <> [] -> last (l1 ++ l2) d = last l2 d.
Proof.
  intros Hne. induction l1 as [|x l1 IH]; [reflexivity|]. cbn [app]. destruct (l1 ++ l2) eqn:E.
  - destruct l1; [cbn in E; congruence|discriminate].
  - cbn [last] in *. exact IH.
Qed.

(* no cell is overwritten for a run for which it holds the running version *)
Lemma dead_s : forall t rho x, (t < K * n)%nat -> firedb V reps vis_s t = true -> vis_s rho t = false ->
  In x (tgts c (blk_s t)) -> ~ live (Lats V c L0 blk_s vis_s rho t) x.
Proof.
  intros t rho x Ht Hf Hnv Hx Hlive.
  pose proof npos as Hn.
  set (j := (t / n)%nat). set (A := (t mod n)%nat).
  assert (HA : (A < n)%nat) by (apply Nat.mod_upper_bound; lia).
  assert (Et : t = (j * n + A)%nat) by (unfold j, A; rewrite Nat.mul_comm; apply Nat.div_mod; lia).
  unfold firedb in Hf. apply existsb_exists in Hf as (r & _ & Hr).
  assert (HrA : In A (nth j (sg r) [])) by (apply (vis_s_in r j A HA); rewrite <- Et; exact Hr).
  assert (HnA : ~ In A (nth j (sg rho) [])) by (intros H; apply (vis_s_in rho j A HA) in H; rewrite <- Et in H; congruence).
  assert (Hj : (j < K)%nat).
  { rewrite <- (sg_len r). destruct (Nat.lt_ge_cases j (length (sg r))) as [H|H]; [exact H|]. rewrite nth_overflow in HrA by exact H. contradiction. }
  (* the two segments start with the same block *)
  assert (Hhd : hd 0%nat (nth j (sg rho) []) = hd 0%nat (nth j (sg r) [])).
  { pose proof (map_nth (hd 0%nat) (sg rho) [] j) as H1. pose proof (map_nth (hd 0%nat) (sg r) [] j) as H2.
    cbn [hd] in H1, H2. rewrite <- H1, <- H2. rewrite (proj1 (Hheads rho)), (proj1 (Hheads r)). reflexivity. }
  assert (Hne : nth j (sg rho) [] <> []).
  { pose proof (proj2 (Hheads rho)) as H. rewrite Forall_forall in H. apply H. apply nth_In. rewrite sg_len. exact Hj. }
  destruct (nth j (sg rho) []) as [|h rest] eqn:Eseg; [congruence|]. cbn [hd] in Hhd.
  assert (HhA : (h < A)%nat).
  { pose proof (seg_nth_sorted r j) as Hs. destruct (nth j (sg r) []) as [|h' rest'] eqn:Er; [contradiction|]. cbn [hd] in Hhd. subst h'.
    destruct HrA as [<-|Hin]; [exfalso; apply HnA; left; reflexivity|].
    apply StronglySorted_inv in Hs as [_ Hall]. rewrite Forall_forall in Hall. exact (Hall A Hin). }
  assert (Hbne : below A (h :: rest) <> []).
  { cbn [below filter]. assert (E : (h <? A)%nat = true) by (apply Nat.ltb_lt; exact HhA). rewrite E. discriminate. }
  assert (Epre : pre_s rho t = concat (firstn j (sg rho)) ++ below A (h :: rest)).
  { rewrite Et at 1. rewrite (pre_seg rho j A ltac:(lia)), Eseg. reflexivity. }
  destruct (pre_walk rho t (K * n - t) ltac:(lia)) as (tl & rest1 & Ept & _ & _ & il & Hil & Hm).
  { rewrite Epre. intros H. apply app_eq_nil in H as [_ H]. exact (Hbne H). }
  assert (Hlast : (last tl 0%nat < A)%nat).
  { rewrite <- (last_cons_cons 0%nat tl 0%nat), <- Ept, Epre, (last_app_ne _ _ 0%nat Hbne). apply last_below_lt. exact Hbne. }
  unfold tgts, blk_s in Hx. fold A in Hx. destruct (nth_error (c_blocks c) A) as [b|] eqn:Eb; [|contradiction].
  apply (no_future_version_sound infos c _ il A b x Hnf Hil Eb Hlast Hx).
  unfold live, Lats in Hlive. rewrite <- (Hm (key_of x)). exact Hlive.
Qed.

(* THE REPRESENTATION THEOREM for families whose ascending segments start at the same blocks *)
Theorem same_heads_runs_represented :
  picks_decided_sched V p sem2 sem1 call_sem name_code c idom L0 s0 reps (K * n) blk_s vis_s ->
  exists S, freachable V p sem2 sem1 call_sem name_code c idom S0 S /\
    forall rho, sync_on V (fun x => ~ In x alltgts \/ live (vmap_after c L0 (concat (sg rho))) x) rho (s rho) S.
Proof.
  intros Hpick.
  destruct (schedule_runs_represented V p sem2 sem1 call_sem name_code c idom S0 L0 s0 reps (K * n) blk_s vis_s) as (S & Hreach & Hsync).
  - intros rho. destruct (Hreps rho) as (r & Hr & E). exists r. split; [exact Hr|]. intros t. unfold vis_s. rewrite E. reflexivity.
  - intros rho. rewrite pre_all. rewrite (cexec_path_nocheck p sem2 sem1 call_sem name_code c _ _ _ _ (Hrunp rho)). discriminate.
  - intros rho. apply rel_sub_store. apply H0.
  - exact Hsa.
  - exact reads_s.
  - exact dead_s.
  - exact Hpick.
  - exists S. split; [exact Hreach|]. intros rho. specialize (Hsync rho (s rho)). rewrite pre_all in Hsync. apply Hsync.
    apply cexec_path_nocheck. apply Hrunp.
Qed.
End Segments.

(* ---------- the statements used by props/C07.v ---------- *)
Require Import Proofs.PolyDegProofs Proofs.DegreeProofs Proofs.DegGraphProofs Proofs.DegGraphRooted.

Lemma loops_ok_parts infos c : loops_ok infos c = true ->
  single_assignment c /\ targets_versioned c = true /\ update_bases_fresh infos c = true /\ no_future_version infos c = true.
Proof.
  unfold loops_ok. intros H. apply andb_true_iff in H as [H H4]. apply andb_true_iff in H as [H H3].
  apply andb_true_iff in H as [H1 H2]. split; [apply single_assignment_b_sound; exact H1|auto].
Qed.

Section Statements.
Variable V : Type.
Variable line : V -> V -> Z -> V.
Variable p : Z.
Variable sem2 : infix_op -> Z -> Z -> Z.
Variable sem1 : prefix_op -> Z -> Z.
Variable call_sem : ident -> list Z -> Z.
Variable name_code : ident -> Z.

(* the cells of the final store of a run that the theorem speaks about: those the graph never
   assigns (signals, parameters, never-assigned locals) and those that hold the running
   version of their variable at the end of the path *)
Definition current_at (c : cfg) (pi : list nat) (x : vname) : Prop :=
  ~ In x (local_targets c (all_stmts (c_blocks c))) \/ live (vmap_after c (params_map (c_params c)) pi) x.

Theorem loops_runs_represented (c : cfg) (idom : list (option N)) (infos : list binfo) (S0 : fstore V)
    (sg : V -> list (list nat)) (heads : list nat) (s0 s : V -> cstore) (reps : list V) :
  infos_ok infos c = true -> graph_consistent c = true -> loops_ok infos c = true ->
  (forall rho, map (hd 0%nat) (sg rho) = heads /\ Forall (fun seg => seg <> []) (sg rho)) ->
  (forall rho, Forall (StronglySorted lt) (sg rho)) ->
  (forall rho, exists r, In r reps /\ sg r = sg rho) ->
  (forall rho, exists tl, concat (sg rho) = 0%nat :: tl) ->
  (forall rho, rel_store V rho (s0 rho) S0) ->
  (forall rho, cexec_path p sem2 sem1 call_sem name_code c (params_map (c_params c)) (s0 rho) (concat (sg rho)) = Some (s rho)) ->
  picks_decided_sched V p sem2 sem1 call_sem name_code c idom (params_map (c_params c)) s0 reps
                      (length heads * length (c_blocks c)) (blk_s c) (vis_s V c sg) ->
  exists S, freachable V p sem2 sem1 call_sem name_code c idom S0 S /\
            forall rho, sync_on V (current_at c (concat (sg rho))) rho (s rho) S.
Proof.
  intros Hok Hgc Hlo Hheads Hsorted Hreps Hentry H0 Hrun Hpick.
  destruct (loops_ok_parts infos c Hlo) as (Hsa & Htv & Hub & Hnf).
  exact (same_heads_runs_represented V p sem2 sem1 call_sem name_code c idom S0 infos sg heads s0 s reps
           Hheads Hsorted Hreps Hentry Hrun H0 Hok (consistent_index c Hgc) Hsa Htv Hub Hnf Hpick).
Qed.

Hypothesis Hsem2 : forall op, op_den p op (sem2 op).
Hypothesis Hsem1 : forall op, prefix_den p op (sem1 op).

Theorem loops_runs_claims_true (c : cfg) (idom : list (option N)) (infos : list binfo) (S0 : fstore V)
    (sg : V -> list (list nat)) (heads : list nat) (s0 s : V -> cstore) (reps : list V) :
  djust_cfg c idom = true -> finit_ok V line p c S0 ->
  infos_ok infos c = true -> graph_consistent c = true -> loops_ok infos c = true ->
  (forall rho, map (hd 0%nat) (sg rho) = heads /\ Forall (fun seg => seg <> []) (sg rho)) ->
  (forall rho, Forall (StronglySorted lt) (sg rho)) ->
  (forall rho, exists r, In r reps /\ sg r = sg rho) ->
  (forall rho, exists tl, concat (sg rho) = 0%nat :: tl) ->
  (forall rho, rel_store V rho (s0 rho) S0) ->
  (forall rho, cexec_path p sem2 sem1 call_sem name_code c (params_map (c_params c)) (s0 rho) (concat (sg rho)) = Some (s rho)) ->
  picks_decided_sched V p sem2 sem1 call_sem name_code c idom (params_map (c_params c)) s0 reps
                      (length heads * length (c_blocks c)) (blk_s c) (vis_s V c sg) ->
  forall e r (val : V -> cell),
  djust_expr c e = true -> expr_deg e = Some r ->
  (forall rho, cval p sem2 sem1 call_sem name_code (s rho) e = Some (val rho)) ->
  (forall rho y, In y (expr_reads e) -> current_at c (concat (sg rho)) y) ->
  forall i, SemDeg V line p (snd r) (fun rho => val rho i).
Proof.
  intros Hv Hi Hok Hgc Hlo Hheads Hsorted Hreps Hentry H0 Hrun Hpick e r val Hj Hd Hval Hcur i.
  destruct (loops_runs_represented c idom infos S0 sg heads s0 s reps Hok Hgc Hlo Hheads Hsorted Hreps Hentry H0 Hrun Hpick)
    as (S & Hreach & Hsync).
  assert (Hden : forall rho, exists F, den V p sem2 sem1 call_sem name_code S e = Some F /\ rel_cell V rho (val rho) F).
  { intros rho. apply (cval_den_on V p sem2 sem1 call_sem name_code (current_at c (concat (sg rho))) rho (s rho) S e (val rho));
      [apply Hsync|apply Hcur|apply Hval]. }
  destruct (den V p sem2 sem1 call_sem name_code S e) as [F|] eqn:EF.
  - apply (SemDeg_ext V line p (snd r) (F i)).
    + intros rho. destruct (Hden rho) as (F' & HF' & Hr). injection HF' as <-. symmetry. apply Hr.
    + exact (justified_degrees_true V line p sem2 sem1 call_sem name_code Hsem2 Hsem1 c idom Hv S0 S e F r Hi Hreach Hj EF Hd i).
  - assert (Hno : forall rho : V, False) by (intros rho; destruct (Hden rho) as (F' & HF' & _); discriminate).
    destruct (snd r); cbn [SemDeg]; auto.
    + intros rho. destruct (Hno rho).
    + intros rho. destruct (Hno rho).
    + intros rho. destruct (Hno rho).
Qed.

(* ---------- OPEN (b): loops whose trip count depends on the valuation ---------- *)
(* What is within reach without runs: in a validated graph, a phi of a join one of whose
   deciding conditions VARIES with the valuation in some reachable store (the loop condition of
   a header whose trip count depends on a signal is such a condition: it ends the header, which
   is on the dominator chain of the back edge) carries no claim, or a claim with upper end
   NonQuadratic. *)
Theorem varying_decider_phi_no_low_claim (c : cfg) (idom : list (option N)) (S0 S : fstore V)
    (b : block) m x op args k sv st
    (cond : expr) (C : fam V) (r1 r2 : V) :
  djust_cfg c idom = true -> finit_ok V line p c S0 ->
  freachable V p sem2 sem1 call_sem name_code c idom S0 S ->
  In b (c_blocks c) -> In (SSubst m x op (EPhi args k) sv st) (b_stmts b) -> (2 <= length (b_preds b))%nat ->
  decides c idom b cond -> den V p sem2 sem1 call_sem name_code S cond = Some C -> C [] r1 <> C [] r2 ->
  kdeg k = None \/ exists rg, kdeg k = Some rg /\ snd rg = DNonQuad.
Proof.
  intros Hv Hi Hreach Hb Hin Hjoin Hdec HC Hvar.
  (* the condition is an expression of the graph: validated *)
  assert (Hjc : djust_expr c cond = true).
  { destruct Hdec as (pp & q & bq & mm & t & f & _ & _ & Hq & Hl).
    assert (Hbq : In bq (c_blocks c)) by (eapply nth_error_In; eauto).
    assert (Hls : In (SIf mm cond t f) (b_stmts bq)).
    { rewrite <- Hl. apply last_in. intros E. rewrite E in Hl. discriminate. }
    pose proof Hv as Hv'. unfold djust_cfg in Hv'. apply andb_true_iff in Hv' as [_ Hv'].
    rewrite forallb_forall in Hv'. specialize (Hv' bq Hbq). unfold djust_block in Hv'. rewrite forallb_forall in Hv'.
    exact (Hv' _ Hls). }
  (* so its claim, if any, is not "constant" *)
  assert (Hnc : cond_nonconst cond = true \/ cond_unknown cond = true).
  { unfold cond_nonconst, cond_unknown. destruct (expr_deg cond) as [rg|] eqn:Ed; [left|right; reflexivity].
    destruct (range_is_constant rg) eqn:Erc; [exfalso|reflexivity].
    pose proof (justified_degrees_true V line p sem2 sem1 call_sem name_code Hsem2 Hsem1 c idom Hv S0 S cond C rg Hi Hreach Hjc HC Ed []) as Hs.
    unfold range_is_constant in Erc. destruct (snd rg); try discriminate. cbn [SemDeg] in Hs. apply Hvar. apply Hs. }
  (* the phi was judged with a control that is not "constant" *)
  pose proof Hv as Hv'. unfold djust_cfg in Hv'. apply andb_true_iff in Hv' as [_ Hv'].
  rewrite forallb_forall in Hv'. specialize (Hv' b Hb). unfold djust_block in Hv'. rewrite forallb_forall in Hv'.
  specialize (Hv' _ Hin). cbn [djust_stmt] in Hv'. unfold deg_claim_is in Hv'.
  destruct (kdeg k) as [rg|]; [right|left; reflexivity]. exists rg. split; [reflexivity|].
  unfold block_ctl in Hv'. destruct (deciding (c_blocks c) idom b) as [cs|] eqn:Edec.
  - pose proof (decides_in_deciding c idom Hv b cond Hb Hdec cs Edec) as Hincs.
    assert (Hctl : ctl_of_conds cs <> MConst).
    { unfold ctl_of_conds. destruct (existsb cond_nonconst cs) eqn:E1; [discriminate|].
      destruct (existsb cond_unknown cs) eqn:E2; [discriminate|]. exfalso.
      destruct Hnc as [Hn|Hn].
      - assert (existsb cond_nonconst cs = true) by (apply existsb_exists; eauto). congruence.
      - assert (existsb cond_unknown cs = true) by (apply existsb_exists; eauto). congruence. }
    unfold opt_drange_eqb in Hv'.
    destruct (phi_adjust (ctl_of_conds cs) (iter_opt (map (var_range c) args))) as [o|] eqn:Epa; [|discriminate].
    destruct (phi_adjust_cases _ _ _ Epa) as [[Hm _]|Hnq]; [contradiction|].
    unfold drange_eqb in Hv'. apply andb_true_iff in Hv' as [_ H2]. rewrite Hnq in H2. destruct (snd rg); try discriminate. reflexivity.
  - exfalso. unfold deciding in Edec. destruct (length (b_preds b) <? 2)%nat eqn:El; [|discriminate]. apply Nat.ltb_lt in El. lia.
Qed.
End Statements.

(* THE FULL STATEMENT that is still open for loops (no hypothesis about the way the valuations go):
   every family of completed concrete runs from the entry block of a validated graph that passes
   the decidable checks - whatever the paths, in particular with trip counts that differ between
   valuations - has every claim true of  valuation |-> concrete value  on the cells the runs
   can still read.  No lock-step store represents such a family (a valuation that has left a
   loop cannot keep its cells while the body fires again for the others), so this needs another
   argument (per iteration context; header phis carry no claim below NonQuadratic by
   [varying_decider_phi_no_low_claim]). *)
Definition C07_valuation_dependent_trip_counts_full_statement : Prop :=
  forall (V : Type) (line : V -> V -> Z -> V) (p : Z)
         (sem2 : infix_op -> Z -> Z -> Z) (sem1 : prefix_op -> Z -> Z) (call_sem : ident -> list Z -> Z) (name_code : ident -> Z),
  (forall op, op_den p op (sem2 op)) -> (forall op, prefix_den p op (sem1 op)) ->
  forall (c : cfg) (idom : list (option N)) (infos : list binfo) (S0 : fstore V) (pth : V -> list nat) (s0 s : V -> cstore),
  djust_cfg c idom = true -> finit_ok V line p c S0 ->
  infos_ok infos c = true -> deg_graph_ok c idom = true -> loops_ok infos c = true ->
  (forall rho, exists tl, pth rho = 0%nat :: tl) ->
  (forall rho, rel_store V rho (s0 rho) S0) ->
  (forall rho, cexec_path p sem2 sem1 call_sem name_code c (params_map (c_params c)) (s0 rho) (pth rho) = Some (s rho)) ->
  forall e r (val : V -> cell),
  djust_expr c e = true -> expr_deg e = Some r ->
  (forall rho, cval p sem2 sem1 call_sem name_code (s rho) e = Some (val rho)) ->
  (forall rho y, In y (expr_reads e) -> current_at c (pth rho) y) ->
  forall i, SemDeg V line p (snd r) (fun rho => val rho i).

(* ... and the part of OPEN (a) that is left: the assumption [picks_decided_sched] of
   [loops_runs_represented] derived from the graph, as Proofs.DegRunDecided does for loop-free
   graphs.  FOURTH AUDIT: without a side condition this is FALSE for a shape real lifting
   produces.  (i) The reviewer's witness - a header with two back edges,
   `while (k<3) { k=k+1; if (a==x) {x=k;} else {x=2;} }`, phis k.1, x.1, parting condition
   `a == x.1` - contradicted the FIRST form of the assumption, which forbade a deciding
   condition to read ANY phi target of the block; the proof only needs that it reads no target
   of a phi standing BEFORE the phi in question (those are the cells already overwritten when
   Spec.DegSem.cond_fixed reads the store), the assumption now says that, and the witness
   satisfies it (Proofs.DegRunLoopsExample.header_two_back_edges_example: every hypothesis of
   the theorem, on that graph, for two runs that part).  (ii) What remains false: with a THIRD
   merged variable, `.. if (a==x) {x=k; z=1;} else {x=2; z=2;} ..` (header phis k.1, x.1, z.1 in
   this order on the real tool), two runs arrive with different arguments for z.1 and every
   condition that separates them reads x.1, the target of an earlier phi: when the phi of z.1
   fires in block order, x.1 is already overwritten.  The relation itself has no program
   counter and could fire the phi of z.1 first; this proof does not (it fires the leading phis
   in block order), and when two merged variables both occur in the parting condition no order
   helps.  The side condition [deciders_avoid_earlier_phis] excludes exactly that: a condition
   [decides] names for a block b, ending a block OTHER than b (the header's own loop condition
   always reads its phis, but two runs that are both back at the header in the same segment
   were not parted by it), reads no target of a phi of b that stands before another phi of b.
   WHAT THE ANALYSIS CLAIMS THERE, and why it is believed sound: the validator judges every phi
   of the header with the control of the header (Model.Propagate.block_ctl: all deciding
   conditions, `a == x.1` among them); `a` is a signal, so the control is not constant and every
   phi of the header carries no claim or upper end NonQuadratic
   ([varying_decider_phi_no_low_claim]); nothing is claimed that a finer relation could refute. *)
Definition deciders_avoid_earlier_phis (c : cfg) (idom : list (option N)) : Prop :=
  forall b pre st post, In b (c_blocks c) -> fst (leading_phis (b_stmts b)) = pre ++ st :: post ->
  forall p q bq m cond t f,
    In p (b_preds b) ->
    above idom (match nth_error idom (N.to_nat (b_index b)) with Some o => o | None => None end) p q ->
    nth_error (c_blocks c) (N.to_nat q) = Some bq -> last (b_stmts bq) (SLog m []) = SIf m cond t f ->
    q <> b_index b ->
    forall y, In y (expr_reads cond) -> ~ In y (local_targets c pre).

Definition C07_loops_picks_decided_full_statement : Prop :=
  forall (V : Type) (p : Z) (sem2 : infix_op -> Z -> Z -> Z) (sem1 : prefix_op -> Z -> Z)
         (call_sem : ident -> list Z -> Z) (name_code : ident -> Z)
         (c : cfg) (idom : list (option N)) (infos : list binfo) (g : list Lift.block) (body : Lift.sk)
         (sg : V -> list (list nat)) (heads : list nat) (s0 s : V -> cstore) (reps : list V),
  infos_ok infos c = true -> deg_graph_ok c idom = true -> idom_shape c idom = true -> loops_ok infos c = true ->
  dom_graph_of c = MirrorsDom.to_dom g -> Lift.lift body = Ok g ->
  deciders_avoid_earlier_phis c idom ->
  (forall rho, map (hd 0%nat) (sg rho) = heads /\ Forall (fun seg => seg <> []) (sg rho)) ->
  (forall rho, Forall (StronglySorted lt) (sg rho)) ->
  (forall rho, exists r, In r reps /\ sg r = sg rho) ->
  (forall rho, exists tl, concat (sg rho) = 0%nat :: tl) ->
  (forall rho, cexec_path p sem2 sem1 call_sem name_code c (params_map (c_params c)) (s0 rho) (concat (sg rho)) = Some (s rho)) ->
  picks_decided_sched V p sem2 sem1 call_sem name_code c idom (params_map (c_params c)) s0 reps
                      (length heads * length (c_blocks c)) (blk_s c) (vis_s V c sg).
