(* C05 — the comment stripper connected to the parse entry points
   (Model.ParseEntry): whatever the parser behind `preprocess` does, it cannot
   tell two sources apart that have the same reference-lexer image; the
   content of a comment is irrelevant. *)
Require Import Model.Base Model.Preprocess Model.ParseEntry Spec.LexSpec Proofs.PreprocessProofs.
From Coq Require Import NArith Lia List.
Import ListNotations.
Local Open Scope N_scope.

(* ------------------------------------------------------------------ *)
(* the content of a comment is irrelevant (stripper level)             *)
(* ------------------------------------------------------------------ *)

Lemma spaces_add : forall n m, spaces (n + m) = spaces n ++ spaces m.
Proof. intros n m. unfold spaces. apply repeat_app. Qed.

Lemma blanks_spaces : forall l, blanks l = spaces (text_bytes l).
Proof.
  induction l as [|c r IH]; [reflexivity|].
  rewrite blanks_cons, text_bytes_cons, spaces_add, IH. reflexivity.
Qed.

Lemma blanks_same_bytes : forall c1 c2, text_bytes c1 = text_bytes c2 -> blanks c1 = blanks c2.
Proof. intros c1 c2 H. now rewrite !blanks_spaces, H. Qed.

Theorem block_comment_content_irrelevant : forall a c1 c2 b,
  plain_code a -> block_comment c1 -> block_comment c2 -> text_bytes c1 = text_bytes c2 ->
  preprocess (a ++ c1 ++ b) = preprocess (a ++ c2 ++ b).
Proof.
  intros a c1 c2 b Ha H1 H2 Hb.
  rewrite <- (one_block_comment_blanked a c1 b Ha H1), <- (one_block_comment_blanked a c2 b Ha H2).
  now rewrite (blanks_same_bytes c1 c2 Hb).
Qed.

Theorem line_comment_content_irrelevant : forall a c1 c2 b,
  plain_code a -> line_comment c1 -> line_comment c2 -> text_bytes c1 = text_bytes c2 ->
  (b = [] \/ exists b', b = 10 :: b') ->
  preprocess (a ++ c1 ++ b) = preprocess (a ++ c2 ++ b).
Proof.
  intros a c1 c2 b Ha H1 H2 Hb Hnl.
  rewrite <- (one_line_comment_blanked a c1 b Ha H1 Hnl), <- (one_line_comment_blanked a c2 b Ha H2 Hnl).
  now rewrite (blanks_same_bytes c1 c2 Hb).
Qed.

(* ------------------------------------------------------------------ *)
(* parse_file / parse_string                                           *)
(* ------------------------------------------------------------------ *)
(* Consequences of the modelled data flow (Model.ParseEntry): [parser] is a
   function of the pre-processed text and has no access to [src], so these
   lemmas are parametricity facts — true of the model whatever the code does.
   They are NOT obligations of props/C05.v (removed there after the second
   review); the tie of this data flow to parser_logic.rs is the run-time AST
   comparison through the hook parser::verif::parse_source (lib/props/C05.py,
   part "parse entry"). *)

Section Entry.
  Variables R A : Type.
  Variable parser : list N -> R.
  Variable finish : R -> outcome A.
  Variable ok : R -> option A.

  (* the parser runs on the reference-lexer image of the file, and only if
     there is one *)
  Lemma parse_file_factors : forall s,
    parse_file parser finish s = bind (lex_spec s) (fun t => finish (parser t)).
  Proof. intro s. unfold parse_file. now rewrite preprocess_refines_lexer. Qed.

  Lemma parse_string_factors : forall s,
    parse_string parser ok s = match lex_spec s with Ok t => ok (parser t) | _ => None end.
  Proof. intro s. unfold parse_string. now rewrite preprocess_refines_lexer. Qed.

  Lemma parse_file_sees_only_lexed_text : forall s1 s2,
    lex_spec s1 = lex_spec s2 -> parse_file parser finish s1 = parse_file parser finish s2.
  Proof. intros s1 s2 H. now rewrite !parse_file_factors, H. Qed.

  Lemma parse_string_sees_only_lexed_text : forall s1 s2,
    lex_spec s1 = lex_spec s2 -> parse_string parser ok s1 = parse_string parser ok s2.
  Proof. intros s1 s2 H. now rewrite !parse_string_factors, H. Qed.

  Lemma parse_file_blank_invariant : forall s,
    parse_file parser finish (blank_comments s) = parse_file parser finish s.
  Proof. intro s. apply parse_file_sees_only_lexed_text, lex_blank_invariant. Qed.

  Lemma parse_string_blank_invariant : forall s,
    parse_string parser ok (blank_comments s) = parse_string parser ok s.
  Proof. intro s. apply parse_string_sees_only_lexed_text, lex_blank_invariant. Qed.

  Lemma parse_file_block_comment_content_irrelevant : forall a c1 c2 b,
    plain_code a -> block_comment c1 -> block_comment c2 -> text_bytes c1 = text_bytes c2 ->
    parse_file parser finish (a ++ c1 ++ b) = parse_file parser finish (a ++ c2 ++ b).
  Proof.
    intros a c1 c2 b Ha H1 H2 Hb. unfold parse_file.
    now rewrite (block_comment_content_irrelevant a c1 c2 b Ha H1 H2 Hb).
  Qed.

  Lemma parse_file_line_comment_content_irrelevant : forall a c1 c2 b,
    plain_code a -> line_comment c1 -> line_comment c2 -> text_bytes c1 = text_bytes c2 ->
    (b = [] \/ exists b', b = 10 :: b') ->
    parse_file parser finish (a ++ c1 ++ b) = parse_file parser finish (a ++ c2 ++ b).
  Proof.
    intros a c1 c2 b Ha H1 H2 Hb Hnl. unfold parse_file.
    now rewrite (line_comment_content_irrelevant a c1 c2 b Ha H1 H2 Hb Hnl).
  Qed.

  (* a file that ends inside a block comment: the answer is the unclosed-comment
     error at the opener, whatever the parser would have said *)
  Lemma parse_file_unclosed_comment : forall s o,
    open_block_at_end s o -> parse_file parser finish s = Err (unclosed o).
  Proof.
    intros s o H. apply unclosed_comment_iff_open_block in H.
    unfold parse_file. now rewrite H.
  Qed.

  Lemma parse_string_unclosed_comment : forall s o,
    open_block_at_end s o -> parse_string parser ok s = None.
  Proof.
    intros s o H. apply unclosed_comment_iff_open_block in H.
    unfold parse_string. now rewrite H.
  Qed.

  (* otherwise the parser is run exactly once, on the file with its comment
     scalars blanked (same byte length, every other scalar at its offset) *)
  Lemma parse_file_parser_input : forall s,
    (exists o, open_block_at_end s o) \/
    exists t, blanked s t /\ text_bytes t = text_bytes s /\
              parse_file parser finish s = finish (parser t) /\
              parse_string parser ok s = ok (parser t).
  Proof.
    intro s. destruct (preprocess_total s) as [(t & E)|(o & E)].
    - right. exists t. repeat split.
      + now apply preprocess_blanked.
      + now apply preprocess_length.
      + unfold parse_file. now rewrite E.
      + unfold parse_string. now rewrite E.
    - left. exists o. now apply unclosed_comment_iff_open_block.
  Qed.
End Entry.
