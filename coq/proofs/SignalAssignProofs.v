(* Proofs for C08 over Model.SignalAssign against Spec.SigAssignSpec. *)
From Coq Require Import ZArith NArith List Bool Lia.
Require Import Model.Base Model.Ir Model.SignalAssign Spec.SigAssignSpec.
Import ListNotations.

(* ------------------------------------------------------------------ *)
(* nested induction on expressions                                      *)
(* ------------------------------------------------------------------ *)

Section expr_ind_nested.
  Variable P : expr -> Prop.
  Definition Pacc (a : access expr) : Prop := match a with AIdx e => P e | AComp _ => True end.
  Hypothesis Hnum : forall z k, P (ENum z k).
  Hypothesis Hvar : forall v k, P (EVar v k).
  Hypothesis Hinfix : forall op l r k, P l -> P r -> P (EInfix op l r k).
  Hypothesis Hprefix : forall op e k, P e -> P (EPrefix op e k).
  Hypothesis Hswitch : forall c t f k, P c -> P t -> P f -> P (ESwitch c t f k).
  Hypothesis Hcall : forall n args k, Forall P args -> P (ECall n args k).
  Hypothesis Harray : forall vs k, Forall P vs -> P (EArray vs k).
  Hypothesis Haccess : forall v acc k, Forall Pacc acc -> P (EAccess v acc k).
  Hypothesis Hupdate : forall v acc r k, Forall Pacc acc -> P r -> P (EUpdate v acc r k).
  Hypothesis Hphi : forall args k, P (EPhi args k).

  Fixpoint expr_ind_nested (e : expr) : P e :=
    match e with
    | ENum z k => Hnum z k
    | EVar v k => Hvar v k
    | EInfix op l r k => Hinfix op l r k (expr_ind_nested l) (expr_ind_nested r)
    | EPrefix op x k => Hprefix op x k (expr_ind_nested x)
    | ESwitch c t f k => Hswitch c t f k (expr_ind_nested c) (expr_ind_nested t) (expr_ind_nested f)
    | ECall n args k =>
      Hcall n args k
        ((fix go (l : list expr) : Forall P l :=
            match l with
            | [] => Forall_nil _
            | x :: l' => Forall_cons x (expr_ind_nested x) (go l')
            end) args)
    | EArray vs k =>
      Harray vs k
        ((fix go (l : list expr) : Forall P l :=
            match l with
            | [] => Forall_nil _
            | x :: l' => Forall_cons x (expr_ind_nested x) (go l')
            end) vs)
    | EAccess v acc k =>
      Haccess v acc k
        ((fix go (l : list (access expr)) : Forall Pacc l :=
            match l with
            | [] => Forall_nil _
            | a :: l' =>
              Forall_cons a
                (match a return Pacc a with AIdx x => expr_ind_nested x | AComp _ => I end) (go l')
            end) acc)
    | EUpdate v acc r k =>
      Hupdate v acc r k
        ((fix go (l : list (access expr)) : Forall Pacc l :=
            match l with
            | [] => Forall_nil _
            | a :: l' =>
              Forall_cons a
                (match a return Pacc a with AIdx x => expr_ind_nested x | AComp _ => I end) (go l')
            end) acc)
        (expr_ind_nested r)
    | EPhi args k => Hphi args k
    end.
End expr_ind_nested.

(* ------------------------------------------------------------------ *)
(* hash sets as deduplicated lists                                      *)
(* ------------------------------------------------------------------ *)

Lemma nth_error_app_l : forall A (l l' : list A) i, i < length l -> nth_error (l ++ l') i = nth_error l i.
Proof. intros. apply nth_error_app1. assumption. Qed.

Lemma fold_insert_distinct : forall A (eqb : A -> A -> bool) (l acc : list A),
  distinct_keys eqb (acc ++ l) -> fold_left (set_insert eqb) l acc = acc ++ l.
Proof.
  intros A eqb l. induction l as [|x l IH]; intros acc H; simpl.
  - now rewrite app_nil_r.
  - unfold set_insert at 2.
    assert (E : existsb (eqb x) acc = false).
    { destruct (existsb (eqb x) acc) eqn:Ex; [|reflexivity].
      apply existsb_exists in Ex. destruct Ex as [y [Hy Hxy]].
      apply In_nth_error in Hy. destruct Hy as [i Hi].
      assert (Hlt : i < length acc) by (apply nth_error_Some; congruence).
      rewrite (H (length acc) i x y) in Hxy; [discriminate | lia | |].
      - rewrite nth_error_app2 by lia. now rewrite Nat.sub_diag.
      - rewrite nth_error_app1 by assumption. assumption. }
    rewrite E. rewrite IH.
    + now rewrite <- app_assoc.
    + now rewrite <- app_assoc.
Qed.

Lemma fold_insert_subset : forall A (eqb : A -> A -> bool) (l acc : list A) x,
  In x (fold_left (set_insert eqb) l acc) -> In x acc \/ In x l.
Proof.
  intros A eqb l. induction l as [|y l IH]; intros acc x H; simpl in *.
  - now left.
  - apply IH in H. destruct H as [H|H]; [|now right; right].
    unfold set_insert in H. destruct (existsb (eqb y) acc).
    + now left.
    + apply in_app_or in H. destruct H as [H|[H|[]]]; [now left | right; left; assumption].
Qed.

Lemma pairwise_distinct_spec : forall A (eqb : A -> A -> bool) (l : list A),
  pairwise_distinct eqb l = true <-> distinct_keys eqb l.
Proof.
  intros A eqb l. induction l as [|x l IH]; simpl.
  - split; [|reflexivity]. intros _ i j a b _ Hi. destruct i; discriminate.
  - rewrite !andb_true_iff, !negb_true_iff, IH. split.
    + intros [[H1 H2] H3] i j a b Hij Hi Hj.
      destruct i as [|i], j as [|j]; simpl in *.
      * congruence.
      * injection Hi as <-. apply nth_error_In in Hj.
        destruct (eqb x b) eqn:E; [|reflexivity].
        assert (existsb (eqb x) l = true) by (apply existsb_exists; eauto). congruence.
      * injection Hj as <-. apply nth_error_In in Hi.
        destruct (eqb a x) eqn:E; [|reflexivity].
        assert (existsb (fun y => eqb y x) l = true) by (apply existsb_exists; eauto). congruence.
      * apply (H3 i j); auto.
    + intros H. repeat split.
      * destruct (existsb (eqb x) l) eqn:E; [|reflexivity].
        apply existsb_exists in E. destruct E as [y [Hy Hxy]].
        apply In_nth_error in Hy. destruct Hy as [j Hj].
        rewrite (H 0 (S j) x y) in Hxy; simpl; auto; discriminate.
      * destruct (existsb (fun y => eqb y x) l) eqn:E; [|reflexivity].
        apply existsb_exists in E. destruct E as [y [Hy Hxy]].
        apply In_nth_error in Hy. destruct Hy as [j Hj].
        rewrite (H (S j) 0 y x) in Hxy; simpl; auto; discriminate.
      * intros i j a b Hij Hi Hj. apply (H (S i) (S j)); simpl; auto.
Qed.

Lemma keys_distinct_b_spec : forall g, keys_distinct_b g = true <-> keys_distinct g.
Proof. intros. apply pairwise_distinct_spec. Qed.

Lemma constraint_keys_distinct_b_spec : forall g,
  constraint_keys_distinct_b g = true <-> constraint_keys_distinct g.
Proof. intros. apply pairwise_distinct_spec. Qed.

Lemma subkeys_distinct_b_spec : forall g, subkeys_distinct_b g = true <-> subkeys_distinct g.
Proof. intros. apply pairwise_distinct_spec. Qed.

(* equal Assignment keys have equal sub-keys ... *)
Lemma accs_eqb_ports : forall a b, accs_eqb a b = true -> idents_eqb (acc_ports a) (acc_ports b) = true.
Proof.
  induction a as [|x a IH]; intros [|y b] H; simpl in *; try discriminate; [reflexivity|].
  apply andb_true_iff in H. destruct H as [Hxy Hab].
  destruct x as [ex|nx], y as [ey|ny]; simpl in Hxy; try discriminate.
  - now apply IH.
  - simpl. rewrite Hxy. now apply IH.
Qed.

Lemma assignment_eqb_subkey : forall a b, assignment_eqb a b = true -> subkey_eqb a b = true.
Proof.
  intros a b H. unfold assignment_eqb in H. unfold subkey_eqb.
  apply andb_true_iff in H. destruct H as [H Hd].
  apply andb_true_iff in H. destruct H as [H Ha].
  apply andb_true_iff in H. destruct H as [Hm Hv].
  unfold vname_eqb in Hv.
  apply andb_true_iff in Hv. destruct Hv as [Hv _].
  apply andb_true_iff in Hv. destruct Hv as [Hn _].
  rewrite Hm, Hn. simpl. now apply accs_eqb_ports.
Qed.

(* ... so distinct sub-keys are distinct keys *)
Lemma subkeys_distinct_suffice : forall g, subkeys_distinct g -> keys_distinct g.
Proof.
  intros g H i j a b Hij Hi Hj.
  destruct (assignment_eqb a b) eqn:E; [|reflexivity].
  apply assignment_eqb_subkey in E. rewrite (H i j a b Hij Hi Hj) in E. discriminate.
Qed.

Lemma filter_map_app : forall A B (f : A -> option B) l l',
  filter_map f (l ++ l') = filter_map f l ++ filter_map f l'.
Proof.
  intros A B f l l'. induction l as [|x l IH]; simpl; [reflexivity|].
  destruct (f x); simpl; now rewrite IH.
Qed.

Lemma filter_map_in : forall A B (f : A -> option B) l y,
  In y (filter_map f l) -> exists x, In x l /\ f x = Some y.
Proof.
  intros A B f l y. induction l as [|x l IH]; simpl; [tauto|].
  destruct (f x) eqn:E; simpl.
  - intros [<-|H]; [eauto|]. destruct (IH H) as [x' [? ?]]. eauto.
  - intros H. destruct (IH H) as [x' [? ?]]. eauto.
Qed.

(* ------------------------------------------------------------------ *)
(* the walk                                                             *)
(* ------------------------------------------------------------------ *)

Lemma visit_stmts_assignments : forall ds ss su,
  su_assignments (fold_left (visit_statement ds) ss su)
  = fold_left (set_insert assignment_eqb) (filter_map assignment_of ss) (su_assignments su).
Proof.
  intros ds ss. induction ss as [|s ss IH]; intros su; simpl; [reflexivity|].
  rewrite IH. destruct s as [| | |m v op rhe sv st| | |]; try reflexivity.
  destruct op; reflexivity.
Qed.

Lemma visit_stmts_constraints : forall ds ss su,
  su_constraints (fold_left (visit_statement ds) ss su)
  = fold_left (set_insert constraint_eqb) (filter_map (constraint_of ds) ss) (su_constraints su).
Proof.
  intros ds ss. induction ss as [|s ss IH]; intros su; simpl; [reflexivity|].
  rewrite IH. destruct s as [| | |m v op rhe sv st| | |]; try reflexivity.
  destruct op; reflexivity.
Qed.

Lemma visit_blocks_assignments : forall ds bs su,
  su_assignments (fold_left (visit_block ds) bs su)
  = fold_left (set_insert assignment_eqb) (filter_map assignment_of (flat_map b_stmts bs)) (su_assignments su).
Proof.
  intros ds bs. induction bs as [|b bs IH]; intros su; simpl; [reflexivity|].
  rewrite IH. unfold visit_block. rewrite visit_stmts_assignments.
  now rewrite filter_map_app, fold_left_app.
Qed.

Lemma visit_blocks_constraints : forall ds bs su,
  su_constraints (fold_left (visit_block ds) bs su)
  = fold_left (set_insert constraint_eqb) (filter_map (constraint_of ds) (flat_map b_stmts bs)) (su_constraints su).
Proof.
  intros ds bs. induction bs as [|b bs IH]; intros su; simpl; [reflexivity|].
  rewrite IH. unfold visit_block. rewrite visit_stmts_constraints.
  now rewrite filter_map_app, fold_left_app.
Qed.

Lemma collect_assignments : forall g,
  su_assignments (collect g)
  = fold_left (set_insert assignment_eqb) (filter_map assignment_of (all_stmts g)) [].
Proof. intros. unfold collect. now rewrite visit_blocks_assignments. Qed.

Lemma collect_constraints : forall g,
  su_constraints (collect g)
  = fold_left (set_insert constraint_eqb) (filter_map (constraint_of (c_decls g)) (all_stmts g)) [].
Proof. intros. unfold collect. now rewrite visit_blocks_constraints. Qed.

Lemma collect_assignments_distinct : forall g, keys_distinct g ->
  su_assignments (collect g) = filter_map assignment_of (all_stmts g).
Proof. intros g H. rewrite collect_assignments. now rewrite fold_insert_distinct. Qed.

Lemma collect_constraints_distinct : forall g, constraint_keys_distinct g ->
  su_constraints (collect g) = filter_map (constraint_of (c_decls g)) (all_stmts g).
Proof. intros g H. rewrite collect_constraints. now rewrite fold_insert_distinct. Qed.

(* ------------------------------------------------------------------ *)
(* cached uses vs occurrences                                           *)
(* ------------------------------------------------------------------ *)

Definition all_reads (u : uses) : list vuse := u_sigread u ++ u_compread u.

Definition uses_list ds (xs : list expr) : uses :=
  (fix go (xs : list expr) : uses :=
     match xs with [] => uses0 | x :: xs' => uses_app (expr_uses ds x) (go xs') end) xs.

Definition uses_accs ds (xs : list (access expr)) : uses :=
  (fix goa (xs : list (access expr)) : uses :=
     match xs with
     | [] => uses0
     | AIdx x :: xs' => uses_app (expr_uses ds x) (goa xs')
     | AComp _ :: xs' => goa xs'
     end) xs.

Lemma in_all_reads_app : forall a b x,
  In x (all_reads (uses_app a b)) <-> In x (all_reads a) \/ In x (all_reads b).
Proof.
  intros a b x. unfold all_reads, uses_app; simpl. rewrite !in_app_iff. tauto.
Qed.

Lemma compwritten_app : forall a b, u_compwritten (uses_app a b) = u_compwritten a ++ u_compwritten b.
Proof. reflexivity. Qed.

Lemma in_all_reads_classify : forall ds v acc x,
  In x (all_reads (classify ds v acc)) <-> sig_or_comp ds v /\ x = (v, acc).
Proof.
  intros ds v acc x. unfold classify, sig_or_comp.
  destruct (decl_type ds v) as [t|] eqn:E.
  - destruct (is_signal t) eqn:Es; [|destruct (is_comp t) eqn:Ec]; unfold all_reads; simpl.
    + split; [intros [<-|[]]; split; eauto | intros [_ ->]; now left].
    + split; [intros [<-|[]]; split; eauto | intros [_ ->]; now left].
    + split; [tauto|]. intros [[t' [Ht [H|H]]] _]; injection Ht as <-; congruence.
  - unfold all_reads; simpl. split; [tauto|]. intros [[t' [Ht _]] _]. discriminate.
Qed.

Lemma classify_compwritten : forall ds v acc, u_compwritten (classify ds v acc) = [].
Proof.
  intros. unfold classify. destruct (decl_type ds v) as [t|]; [|reflexivity].
  destruct (is_signal t); [reflexivity|]. destruct (is_comp t); reflexivity.
Qed.

Lemma expr_uses_spec : forall ds e,
  (forall v acc, In (v, acc) (all_reads (expr_uses ds e)) <-> occurs ds e v acc)
  /\ u_compwritten (expr_uses ds e) = [].
Proof.
  intros ds e. induction e using expr_ind_nested.
  - split; [|reflexivity]. intros; simpl; split; [tauto | inversion 1].
  - split; [|apply classify_compwritten]. intros w acc. simpl. rewrite in_all_reads_classify. split.
    + intros [H E]. injection E as -> ->. now constructor.
    + inversion 1; subst. split; auto.
  - destruct IHe1 as [A1 B1], IHe2 as [A2 B2]. split.
    + intros w acc. simpl. rewrite in_all_reads_app, A1, A2. split.
      * intros [H|H]; [now apply occ_infix_l | now apply occ_infix_r].
      * inversion 1; subst; tauto.
    + simpl. now rewrite ?compwritten_app, B1, B2.
  - destruct IHe as [A B]. split; [|assumption].
    intros w acc. simpl. rewrite A. split; [now apply occ_prefix | inversion 1; subst; assumption].
  - destruct IHe1 as [A1 B1], IHe2 as [A2 B2], IHe3 as [A3 B3]. split.
    + intros w acc. simpl. rewrite !in_all_reads_app, A1, A2, A3. split.
      * intros [H|[H|H]]; [now apply occ_switch_c | now apply occ_switch_t | now apply occ_switch_f].
      * inversion 1; subst; tauto.
    + simpl. now rewrite ?compwritten_app, B1, B2, B3.
  - (* call *)
    change (expr_uses ds (ECall n args k)) with (uses_list ds args).
    assert (L : (forall v acc, In (v, acc) (all_reads (uses_list ds args)) <->
                               exists x, In x args /\ occurs ds x v acc)
                /\ u_compwritten (uses_list ds args) = []).
    { induction H as [|x l [Hx Bx] Hl [IHa IHb]]; simpl.
      - split; [|reflexivity]. intros. split; [tauto | intros [x [[] _]]].
      - split.
        + intros v acc. fold (uses_list ds l). rewrite in_all_reads_app, Hx, IHa. split.
          * intros [Ho|[y [Hy Ho]]]; eauto.
          * intros [y [[<-|Hy] Ho]]; eauto.
        + fold (uses_list ds l). now rewrite ?compwritten_app, Bx, IHb. }
    destruct L as [LA LB]. split; [|assumption].
    intros v acc. rewrite LA. split.
    + intros [x [Hx Ho]]. eapply occ_call; eauto.
    + inversion 1; subst. eauto.
  - (* array *)
    change (expr_uses ds (EArray vs k)) with (uses_list ds vs).
    assert (L : (forall v acc, In (v, acc) (all_reads (uses_list ds vs)) <->
                               exists x, In x vs /\ occurs ds x v acc)
                /\ u_compwritten (uses_list ds vs) = []).
    { induction H as [|x l [Hx Bx] Hl [IHa IHb]]; simpl.
      - split; [|reflexivity]. intros. split; [tauto | intros [x [[] _]]].
      - split.
        + intros v acc. fold (uses_list ds l). rewrite in_all_reads_app, Hx, IHa. split.
          * intros [Ho|[y [Hy Ho]]]; eauto.
          * intros [y [[<-|Hy] Ho]]; eauto.
        + fold (uses_list ds l). now rewrite ?compwritten_app, Bx, IHb. }
    destruct L as [LA LB]. split; [|assumption].
    intros v acc. rewrite LA. split.
    + intros [x [Hx Ho]]. eapply occ_array; eauto.
    + inversion 1; subst. eauto.
  - (* access *)
    change (expr_uses ds (EAccess v acc k)) with (uses_app (uses_accs ds acc) (classify ds v acc)).
    assert (L : (forall w a, In (w, a) (all_reads (uses_accs ds acc)) <->
                             exists x, In (AIdx x) acc /\ occurs ds x w a)
                /\ u_compwritten (uses_accs ds acc) = []).
    { induction H as [|x l Hx Hl [IHa IHb]]; simpl.
      - split; [|reflexivity]. intros. split; [tauto | intros [x [[] _]]].
      - destruct x as [x|n]; simpl in Hx.
        + destruct Hx as [Hx Bx]. split.
          * intros w a. fold (uses_accs ds l). rewrite in_all_reads_app, Hx, IHa. split.
            -- intros [Ho|[y [Hy Ho]]]; eauto.
            -- intros [y [[E|Hy] Ho]]; [injection E as <-; now left | eauto].
          * fold (uses_accs ds l). now rewrite ?compwritten_app, Bx, IHb.
        + fold (uses_accs ds l). split; [|assumption].
          intros w a. rewrite IHa. split.
          * intros [y [Hy Ho]]; eauto.
          * intros [y [[E|Hy] Ho]]; [discriminate | eauto]. }
    destruct L as [LA LB]. split.
    + intros w a. rewrite in_all_reads_app, LA, in_all_reads_classify. split.
      * intros [[x [Hx Ho]]|[Hs E]]; [eapply occ_access_idx; eauto|].
        injection E as -> ->. now constructor.
      * inversion 1; subst; [right; split; auto | left; eauto].
    + now rewrite ?compwritten_app, LB, classify_compwritten.
  - (* update *)
    change (expr_uses ds (EUpdate v acc e k))
      with (uses_app (expr_uses ds e) (uses_app (uses_accs ds acc) (classify ds v []))).
    destruct IHe as [A B].
    assert (L : (forall w a, In (w, a) (all_reads (uses_accs ds acc)) <->
                             exists x, In (AIdx x) acc /\ occurs ds x w a)
                /\ u_compwritten (uses_accs ds acc) = []).
    { induction H as [|x l Hx Hl [IHa IHb]]; simpl.
      - split; [|reflexivity]. intros. split; [tauto | intros [x [[] _]]].
      - destruct x as [x|n]; simpl in Hx.
        + destruct Hx as [Hx Bx]. split.
          * intros w a. fold (uses_accs ds l). rewrite in_all_reads_app, Hx, IHa. split.
            -- intros [Ho|[y [Hy Ho]]]; eauto.
            -- intros [y [[E|Hy] Ho]]; [injection E as <-; now left | eauto].
          * fold (uses_accs ds l). now rewrite ?compwritten_app, Bx, IHb.
        + fold (uses_accs ds l). split; [|assumption].
          intros w a. rewrite IHa. split.
          * intros [y [Hy Ho]]; eauto.
          * intros [y [[E|Hy] Ho]]; [discriminate | eauto]. }
    destruct L as [LA LB]. split.
    + intros w a. rewrite !in_all_reads_app, A, LA, in_all_reads_classify. split.
      * intros [Ho|[[x [Hx Ho]]|[Hs E]]].
        -- now apply occ_update_rhe.
        -- eapply occ_update_idx; eauto.
        -- injection E as -> ->. now constructor.
      * inversion 1; subst; [right; right; split; auto | right; left; eauto | now left].
    + now rewrite ?compwritten_app, B, LB, classify_compwritten.
  - split; [|reflexivity]. intros; simpl; split; [tauto | inversion 1].
Qed.

Lemma existsb_reads_mentions : forall ds e v acc,
  existsb (use_matches v acc) (all_reads (expr_uses ds e)) = true <-> expr_mentions ds e v acc.
Proof.
  intros ds e v acc. rewrite existsb_exists. unfold expr_mentions, same_use, use_matches. split.
  - intros [[v' acc'] [Hin Hm]]. apply andb_true_iff in Hm. simpl in Hm.
    exists v', acc'. split; [now apply expr_uses_spec | assumption].
  - intros [v' [acc' [Ho Hm]]]. exists (v', acc'). split; [now apply expr_uses_spec|].
    simpl. now apply andb_true_iff.
Qed.

Lemma existsb_app_true : forall A (f : A -> bool) l l',
  existsb f (l ++ l') = true <-> existsb f l = true \/ existsb f l' = true.
Proof. intros. rewrite existsb_app. apply orb_true_iff. Qed.

(* the boolean the model filters constraint statements with *)
Definition stmt_mentions_b ds (v : vname) (acc : list (access expr)) (s : stmt) : bool :=
  match constraint_of ds s with
  | Some c => constraint_mentions ds v acc c
  | None => false
  end.

Lemma existsb_cons_true : forall A (f : A -> bool) x l,
  existsb f (x :: l) = true <-> f x = true \/ existsb f l = true.
Proof. intros. simpl. apply orb_true_iff. Qed.

Lemma existsb_nil_true : forall A (f : A -> bool), existsb f [] = true <-> False.
Proof. intros. simpl. split; [discriminate | tauto]. Qed.

Lemma use_matches_same : forall v acc w a, use_matches v acc (w, a) = true <-> same_use v acc w a.
Proof. intros. unfold use_matches, same_use. simpl. apply andb_true_iff. Qed.

Ltac norm_existsb :=
  repeat first [ rewrite existsb_app_true | rewrite existsb_cons_true
               | rewrite existsb_nil_true | rewrite use_matches_same ].

Lemma any_read_mentions : forall ds e v acc,
  any_read ds v acc e = true <-> expr_mentions ds e v acc.
Proof. intros. unfold any_read. apply (existsb_reads_mentions ds e v acc). Qed.

Lemma existsb_idx_mentions : forall ds v acc target,
  existsb (fun a => match a with AIdx x => any_read ds v acc x | AComp _ => false end) target = true
  <-> exists x, In (AIdx x) target /\ expr_mentions ds x v acc.
Proof.
  intros ds v acc target. rewrite existsb_exists. split.
  - intros [a [Hin Ha]]. destruct a as [x|n]; [|discriminate].
    exists x. split; [assumption | now apply any_read_mentions].
  - intros [x [Hin Hm]]. exists (AIdx x). split; [assumption | now apply any_read_mentions].
Qed.

Lemma update_mentions_b_spec : forall ds v acc var target rhe,
  use_matches v acc (var, target) || any_read ds v acc rhe
  || existsb (fun a => match a with AIdx x => any_read ds v acc x | AComp _ => false end) target = true
  <-> update_mentions ds var target rhe v acc.
Proof.
  intros. unfold update_mentions.
  rewrite !orb_true_iff, use_matches_same, any_read_mentions, existsb_idx_mentions. tauto.
Qed.

Lemma stmt_mentions_b_spec : forall ds v acc s,
  stmt_mentions_b ds v acc s = true <-> stmt_mentions ds s v acc.
Proof.
  intros ds v acc s. unfold stmt_mentions_b.
  destruct s as [| | |m w op rhe sv st|m l r| |]; simpl; try (split; [discriminate | tauto]).
  - destruct op; simpl; try (split; [discriminate | tauto]).
    unfold constraint_mentions; simpl.
    assert (G : existsb (use_matches v acc)
                  (u_sigread (subst_uses ds w OpCSig rhe st) ++ u_compread (subst_uses ds w OpCSig rhe st))
                || any_read ds v acc rhe
                || existsb (use_matches v acc) (u_compwritten (subst_uses ds w OpCSig rhe st)) = true
                <-> expr_mentions ds rhe v acc \/
                    ((exists t, st = Some t /\ (is_signal t = true \/ is_comp t = true))
                     /\ same_use v acc w (subst_access rhe))).
    { pose proof (existsb_reads_mentions ds rhe v acc) as HR. unfold all_reads in HR.
      rewrite existsb_app_true in HR.
      rewrite !orb_true_iff, any_read_mentions.
      unfold subst_uses.
      destruct st as [t|].
      + destruct (is_signal t) eqn:Es; [|destruct (is_comp t) eqn:Ec]; cbn [u_sigread u_compread u_compwritten].
        * assert (EX : exists t0, Some t = Some t0 /\ (is_signal t0 = true \/ is_comp t0 = true))
            by (exists t; auto).
          norm_existsb. tauto.
        * assert (EX : exists t0, Some t = Some t0 /\ (is_signal t0 = true \/ is_comp t0 = true))
            by (exists t; auto).
          norm_existsb. tauto.
        * assert (NEX : ~ exists t0, Some t = Some t0 /\ (is_signal t0 = true \/ is_comp t0 = true))
            by (intros [t0 [E [H|H]]]; injection E as <-; congruence).
          norm_existsb. tauto.
      + cbn [u_sigread u_compread u_compwritten].
        assert (NEX : ~ exists t0 : vtype, None = Some t0 /\ (is_signal t0 = true \/ is_comp t0 = true))
          by (intros [t0 [E _]]; discriminate).
        norm_existsb. tauto. }
    destruct rhe; try exact G.
    apply update_mentions_b_spec.
  - unfold constraint_mentions; simpl.
    assert (G : existsb (use_matches v acc) (u_sigread (expr_uses ds l) ++ u_compread (expr_uses ds l))
                || any_read ds v acc r
                || existsb (use_matches v acc) (u_compwritten (expr_uses ds l)) = true
                <-> expr_mentions ds l v acc \/ expr_mentions ds r v acc).
    { pose proof (existsb_reads_mentions ds l v acc) as HL. unfold all_reads in HL.
      destruct (expr_uses_spec ds l) as [_ Bl]. rewrite Bl.
      rewrite !orb_true_iff, any_read_mentions, HL. simpl. intuition discriminate. }
    destruct r; try exact G.
    apply update_mentions_b_spec.
Qed.

(* ------------------------------------------------------------------ *)
(* statements vs records                                                *)
(* ------------------------------------------------------------------ *)

Lemma constraints_filter : forall ds v acc l,
  map c_meta (filter (constraint_mentions ds v acc) (filter_map (constraint_of ds) l))
  = map stmt_meta (filter (stmt_mentions_b ds v acc) (filter is_constraint l)).
Proof.
  intros ds v acc l. induction l as [|s l IH]; simpl; [reflexivity|].
  destruct s as [| | |m w op rhe sv st|m a b| |]; simpl; try exact IH.
  - destruct op; simpl; try exact IH.
    unfold stmt_mentions_b; simpl.
    destruct (constraint_mentions ds v acc _); simpl; [f_equal|]; exact IH.
  - unfold stmt_mentions_b; simpl.
    destruct (constraint_mentions ds v acc _); simpl; [f_equal|]; exact IH.
Qed.

Lemma flat_map_map : forall A B C (f : A -> B) (g : B -> list C) l,
  flat_map g (map f l) = flat_map (fun x => g (f x)) l.
Proof. intros. induction l; simpl; [reflexivity | now rewrite IHl]. Qed.

Lemma quadratic_claim : forall m v rhe,
  assignment_quadratic {| a_meta := m; a_signal := v; a_access := subst_access rhe; a_degree := expr_deg rhe |} = true
  <-> claimed_quadratic rhe.
Proof.
  intros. unfold assignment_quadratic, claimed_quadratic, range_quadratic; simpl.
  destruct (expr_deg rhe) as [[lo hi]|]; simpl.
  - split.
    + intros H. exists (lo, hi). split; [reflexivity|]. simpl. destruct hi; congruence.
    + intros [r [E H]]. injection E as <-. simpl in H. destruct hi; congruence.
  - split; [discriminate | intros [r [E _]]; discriminate].
Qed.

Lemma report_of_finding : forall g m v rhe sv st,
  constraint_keys_distinct g ->
  finding_for g (SSubst m v OpSig rhe sv st)
    (report_of (c_decls g) (collect g)
       {| a_meta := m; a_signal := v; a_access := subst_access rhe; a_degree := expr_deg rhe |}).
Proof.
  intros g m v rhe sv st HC. unfold finding_for, report_of.
  pose proof (quadratic_claim m v rhe) as Q.
  destruct (assignment_quadratic _) eqn:E; simpl.
  - split; [reflexivity|]. split; [auto|]. intros N. exfalso. apply N. now apply Q.
  - split; [reflexivity|]. split.
    + intros H. apply Q in H. discriminate.
    + intros _. split; [reflexivity|].
      exists (filter (stmt_mentions_b (c_decls g) v (subst_access rhe)) (constraint_stmts g)).
      split; [|split].
      * unfold get_constraint_metas. rewrite collect_constraints_distinct by assumption.
        unfold constraint_stmts. rewrite constraints_filter. now rewrite flat_map_map.
      * intros c. rewrite filter_In, stmt_mentions_b_spec. tauto.
      * eexists. reflexivity.
Qed.

Lemma Forall2_assign : forall (R : stmt -> report -> Prop) (f : assignment -> report) l,
  (forall m v rhe sv st, In (SSubst m v OpSig rhe sv st) l ->
     R (SSubst m v OpSig rhe sv st)
       (f {| a_meta := m; a_signal := v; a_access := subst_access rhe; a_degree := expr_deg rhe |})) ->
  Forall2 R (filter is_assign l) (map f (filter_map assignment_of l)).
Proof.
  intros R f l. induction l as [|s l IH]; intros H; simpl; [constructor|].
  destruct s as [| | |m v op rhe sv st| | |]; simpl; try (apply IH; intros; apply H; now right).
  destruct op; simpl; try (apply IH; intros; apply H; now right).
  constructor; [apply H; now left | apply IH; intros; apply H; now right].
Qed.

(* ------------------------------------------------------------------ *)
(* the property theorems                                                *)
(* ------------------------------------------------------------------ *)

Theorem sigassign_bijection : forall g,
  c_kind g = KTemplate ->
  keys_distinct g ->
  constraint_keys_distinct g ->
  Forall2 (finding_for g) (assign_stmts g) (find_signal_assignments g).
Proof.
  intros g K HA HC. unfold find_signal_assignments, assign_stmts. rewrite K. simpl.
  rewrite collect_assignments_distinct by assumption.
  apply Forall2_assign. intros. now apply report_of_finding.
Qed.

Lemma Forall2_len : forall A B (R : A -> B -> Prop) l l', Forall2 R l l' -> length l = length l'.
Proof. induction 1; simpl; congruence. Qed.

Corollary sigassign_count : forall g,
  c_kind g = KTemplate -> keys_distinct g -> constraint_keys_distinct g ->
  length (find_signal_assignments g) = length (assign_stmts g).
Proof.
  intros g K HA HC. symmetry. eapply Forall2_len. now apply sigassign_bijection.
Qed.

Theorem no_reports_for_function_or_custom : forall g,
  c_kind g <> KTemplate -> find_signal_assignments g = [].
Proof.
  intros g H. unfold find_signal_assignments. destruct (c_kind g); simpl; congruence.
Qed.

(* Without any hypothesis: every report is anchored at a `<--` statement of
   the cfg (never at a `<==`, `=`, `===`, declaration, ...), carries one of the
   two codes by that statement's degree claim, and its secondary labels are
   metas of constraint statements that mention the assigned signal. *)
Theorem only_assign_signal_reported : forall g r,
  In r (find_signal_assignments g) ->
  c_kind g = KTemplate /\
  exists m v rhe sv st,
    In (SSubst m v OpSig rhe sv st) (all_stmts g) /\
    r_primary r = label_of m /\
    (claimed_quadratic rhe -> r_code r = CS0013 /\ r_secondary r = []) /\
    (~ claimed_quadratic rhe -> r_code r = CS0005) /\
    (forall l, In l (r_secondary r) ->
       exists c, In c (constraint_stmts g) /\ stmt_mentions (c_decls g) c v (subst_access rhe)
                 /\ In l (label_of (stmt_meta c))).
Proof.
  intros g r H. unfold find_signal_assignments in H.
  destruct (c_kind g) eqn:K; simpl in H; try contradiction.
  split; [reflexivity|].
  apply in_map_iff in H. destruct H as [a [<- Ha]].
  rewrite collect_assignments in Ha. apply fold_insert_subset in Ha. destruct Ha as [[]|Ha].
  apply filter_map_in in Ha. destruct Ha as [s [Hs Ea]].
  destruct s as [| | |m v op rhe sv st| | |]; simpl in Ea; try discriminate.
  destruct op; try discriminate. injection Ea as <-.
  exists m, v, rhe, sv, st. split; [assumption|].
  pose proof (quadratic_claim m v rhe) as Q. unfold report_of.
  destruct (assignment_quadratic _) eqn:E; simpl.
  - split; [reflexivity|]. split; [auto|]. split; [|intros l []].
    intros N. exfalso. apply N. now apply Q.
  - split; [reflexivity|]. split; [|split; [reflexivity|]].
    + intros Hq. apply Q in Hq. discriminate.
    + intros l Hl. apply in_flat_map in Hl. destruct Hl as [mm [Hmm Hl]].
      unfold get_constraint_metas in Hmm. apply in_map_iff in Hmm. destruct Hmm as [c [<- Hc]].
      apply filter_In in Hc. destruct Hc as [Hc Hm].
      rewrite collect_constraints in Hc. apply fold_insert_subset in Hc. destruct Hc as [[]|Hc].
      apply filter_map_in in Hc. destruct Hc as [s [Hs' Ec]].
      exists s. split; [|split].
      * unfold constraint_stmts. apply filter_In. split; [assumption|].
        destruct s as [| | |m' v' op' rhe' sv' st'| | |]; simpl in Ec; try discriminate; [|reflexivity].
        destruct op'; try discriminate; reflexivity.
      * apply stmt_mentions_b_spec. unfold stmt_mentions_b. now rewrite Ec.
      * destruct s as [| | |m' v' op' rhe' sv' st'|m' l' r'| |]; simpl in Ec; try discriminate.
        -- destruct op'; try discriminate. injection Ec as <-. assumption.
        -- injection Ec as <-. assumption.
Qed.

(* the hypothesis is needed: with two `<--` statements of equal key the hash
   set keeps one, so one statement stays without its own finding *)
Definition dup_meta : meta := {| m_start := 10; m_end := 20; m_file := Some 0%N |}.
Definition dup_var : vname := {| vn_name := [97%N]; vn_suffix := None; vn_version := None |}.
Definition dup_stmt : stmt := SSubst dup_meta dup_var OpSig (ENum 1 know0) None (Some TSigOut).
Definition dup_cfg : cfg :=
  {| c_kind := KTemplate; c_params := []; c_decls := [(dup_var, TSigOut)];
     c_blocks := [{| b_index := 0; b_depth := 0; b_stmts := [dup_stmt; dup_stmt]; b_preds := []; b_succs := [] |}] |}.

Lemma keys_distinct_needed :
  exists g, c_kind g = KTemplate /\ ~ keys_distinct g /\
            length (assign_stmts g) = 2 /\ length (find_signal_assignments g) = 1.
Proof.
  exists dup_cfg. split; [reflexivity|]. split; [|split; reflexivity].
  intros H. apply keys_distinct_b_spec in H. vm_compute in H. discriminate.
Qed.

(* the source-level hypothesis gives the bijection as well *)
Theorem sigassign_bijection_source_keys : forall g,
  c_kind g = KTemplate -> subkeys_distinct g -> constraint_keys_distinct g ->
  Forall2 (finding_for g) (assign_stmts g) (find_signal_assignments g).
Proof. intros g Hk Hs Hc. apply sigassign_bijection; auto using subkeys_distinct_suffice. Qed.

(* [keys_distinct] does NOT follow from the parser giving distinct statements
   distinct ranges: the SSA cfg the real front end builds for

     template D() {
         signal input x;
         signal (b, b) <-- (x % 2, x % 2);
     }

   (transcribed from the dump of the harness; known finding
   C08-decl-tuple-duplicate-name).  split_declaration_into_single_nodes_and_
   multi_substitution gives every element of a declaration tuple the
   declaration's meta (39..71), the second declaration of `b` is renamed `b_0`
   and both elements resolve to it: two `<--` statements, one Assignment key,
   one finding. *)
Definition kf_x : vname := {| vn_name := [120%N]; vn_suffix := None; vn_version := None |}.
Definition kf_b : vname := {| vn_name := [98%N]; vn_suffix := None; vn_version := None |}.
Definition kf_b0 : vname := {| vn_name := [98%N]; vn_suffix := Some [48%N]; vn_version := None |}.
Definition kf_decl : meta := {| m_start := 39; m_end := 71; m_file := Some 0%N |}.
Definition kf_rhe : expr :=
  EInfix IMod (EVar kf_x {| kval := None; kdeg := Some (DLin, DLin) |})
    (ENum 2 {| kval := Some (VField 2); kdeg := Some (DConst, DConst) |})
    {| kval := None; kdeg := Some (DNonQuad, DNonQuad) |}.
Definition kf_subst : stmt := SSubst kf_decl kf_b0 OpSig kf_rhe None (Some TSigInt).
Definition kf_cfg : cfg :=
  {| c_kind := KTemplate; c_params := [];
     c_decls := [(kf_b, TSigInt); (kf_b0, TSigInt); (kf_x, TSigIn)];
     c_blocks := [{| b_index := 0; b_depth := 0; b_preds := []; b_succs := [];
       b_stmts := [ SDecl {| m_start := 19; m_end := 33; m_file := Some 0%N |} [kf_x] TSigIn [];
                    SDecl kf_decl [kf_b] TSigInt []; SDecl kf_decl [kf_b0] TSigInt [];
                    kf_subst; kf_subst ] |}] |}.

Lemma keys_distinct_fails_on_lifted_source :
  c_kind kf_cfg = KTemplate /\ ~ keys_distinct kf_cfg /\ ~ subkeys_distinct kf_cfg /\
  length (assign_stmts kf_cfg) = 2 /\
  find_signal_assignments kf_cfg =
    [ {| r_code := CS0005; r_primary := [(39, 71, 0)%N]; r_secondary := [] |} ].
Proof.
  split; [reflexivity|]. split; [|split; [|split; reflexivity]].
  - intros H. apply keys_distinct_b_spec in H. vm_compute in H. discriminate.
  - intros H. apply subkeys_distinct_b_spec in H. vm_compute in H. discriminate.
Qed.
