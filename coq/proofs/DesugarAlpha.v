(* C18: the specified expansion does not depend on the scheme that names the
   introduced components and counters, up to renaming.

   [expand_spec] is parametric in [comp_name] and [counter_name].  For every
   renaming [f] that leaves the body itself unchanged, composing both naming
   functions with [f] gives the [f]-renamed expansion:

     expand_spec sig (f o comp_name) (f o counter_name) body
       = option_map (ren_s f) (expand_spec sig comp_name counter_name body).

   With Proofs.DesugarRefine.desugar_is_expand this turns "the desugarer's output
   EQUALS expand_spec under the implementation's own naming function" into "the
   desugarer's output, renamed by f, IS expand_spec under the naming scheme
   f o (implementation's scheme)" for every such f: the statement no longer
   depends on which names were plugged in. *)
From Coq Require Import ZArith NArith List Bool String Lia.
Require Import Model.Ast Model.Desugar Spec.ExpandSpec Spec.RenameSpec Proofs.DesugarProofs Proofs.DesugarRefine.
Import ListNotations.
Local Open Scope list_scope.

(* ---- small list facts --------------------------------------------------- *)

Lemma map_fix_Forall : forall {A} (g : A -> A) l, map g l = l -> Forall (fun x => g x = x) l.
Proof.
  induction l as [|x l IH]; intros H; [constructor|].
  simpl in H. injection H as H1 H2. constructor; auto.
Qed.

Lemma Forall_map_fix : forall {A} (g : A -> A) l, Forall (fun x => g x = x) l -> map g l = l.
Proof. induction 1; simpl; congruence. Qed.

Lemma all_some_map_map : forall {A B} (g : A -> B) (l : list (option A)),
  all_some (map (option_map g) l) = option_map (map g) (all_some l).
Proof.
  induction l as [|[a|] l IH]; simpl; [reflexivity| |reflexivity].
  rewrite IH. destruct (all_some l); reflexivity.
Qed.

Lemma flat_map_map : forall {A B C} (g : A -> B) (h : B -> list C) l,
  flat_map h (map g l) = flat_map (fun x => h (g x)) l.
Proof. induction l; simpl; congruence. Qed.

Lemma map_flat_map : forall {A B C} (g : B -> C) (h : A -> list B) l,
  map g (flat_map h l) = flat_map (fun x => map g (h x)) l.
Proof. induction l; simpl; [reflexivity|]. rewrite map_app. congruence. Qed.

Lemma flat_map_ext_all : forall {A B} (g h : A -> list B) l, (forall x, g x = h x) -> flat_map g l = flat_map h l.
Proof. intros. induction l; simpl; congruence. Qed.

Lemma nth_error_map' : forall {A B} (g : A -> B) l k, nth_error (map g l) k = option_map g (nth_error l k).
Proof. induction l; destruct k; simpl; auto. Qed.

Lemma filter_map_commute : forall {A} (p : A -> bool) (g : A -> A) l,
  (forall x, p (g x) = p x) -> filter p (map g l) = map g (filter p l).
Proof.
  induction l as [|x l IH]; intros H; simpl; [reflexivity|].
  rewrite H. destruct (p x); simpl; rewrite IH; auto.
Qed.

Section Alpha.
  Variable f : string -> string.
  Variable sig_of : string -> option (list string * list string).
  Variable cn : string -> meta -> option string.
  Variable kn : meta -> option string.

  (* fix f58b98e: whether a loop has a counter is decided by the NAME of the counter occurring as a
     dimension among the declarations of its body.  A renaming that sends another name onto the image of
     a loop counter changes that decision, so the renaming theorems need: no other name is identified
     with a loop counter. *)
  Hypothesis Hsep : forall m k x, kn m = Some k -> f x = f k -> x = k.

  Definition cn' (id : string) (m : meta) : option string := option_map f (cn id m).
  Definition kn' (m : meta) : option string := option_map f (kn m).

  Notation RE := (ren_e f).
  Notation RS := (ren_s f).
  Notation RA := (map (ren_a f)).

  Notation xres := (option (list statement * list statement * list expression)).

  Definition ren3 (t : list statement * list statement * list expression) :=
    (map RS (fst (fst t)), map RS (snd (fst t)), map RE (snd t)).
  Definition ren_xres (r : xres) : xres := option_map ren3 r.

  Definition ren2 (t : list statement * list statement) := (map RS (fst t), map RS (snd t)).
  Definition ren1 (t : list statement * list statement * expression) :=
    (map RS (fst (fst t)), map RS (snd (fst t)), RE (snd t)).

  Lemma is_single_ren : forall e r, is_single e (ren_xres r) = option_map ren1 (is_single e r).
  Proof.
    intros e r. destruct r as [[[pre dec] vs]|]; destruct e; simpl; try reflexivity;
      destruct vs as [|v0 [|? ?]]; reflexivity.
  Qed.

  Lemma xconcat_ren : forall l, xconcat (map ren_xres l) = ren_xres (xconcat l).
  Proof.
    intros l. unfold xconcat, ren_xres. rewrite all_some_map_map.
    destruct (all_some l) as [rs|]; simpl; [|reflexivity].
    unfold ren3. simpl. f_equal. f_equal; [f_equal|].
    - rewrite flat_map_map, map_flat_map. reflexivity.
    - rewrite flat_map_map, map_flat_map. reflexivity.
    - rewrite flat_map_map, map_flat_map. reflexivity.
  Qed.

  (* the anonymous component, given that its arguments commute *)
  Lemma xanon_ren : forall ix m id par ps args names argres,
    map RE ps = ps ->
    xanon sig_of cn' (RA ix) m id par ps args names (map ren_xres argres) =
    ren_xres (xanon sig_of cn ix m id par ps args names argres).
  Proof.
    intros ix m id par ps args names argres Hps.
    unfold xanon, cn'. destruct (sig_of id) as [[ins outs]|]; [|reflexivity].
    destruct (cn id m) as [c|]; cbn [option_map]; [|reflexivity].
    destruct (forallb plain ps && (List.length ins =? List.length args)%nat &&
              match names with Some nm => (List.length nm =? List.length args)%nat | None => true end); [|reflexivity].
    match goal with
    | |- match all_some (map ?F ?L) with _ => _ end = ren_xres (match all_some (map ?G ?L) with _ => _ end) =>
        assert (E : forall p, F p = option_map ren2 (G p));
        [| replace (map F L) with (map (option_map ren2) (map G L))
             by (rewrite map_map; apply map_ext; intros p; symmetry; apply E);
           rewrite all_some_map_map; destruct (all_some (map G L)) as [fed|]; cbn [option_map]; [|reflexivity] ]
    end.
    { intros [k input]. destruct (argument_of names k input) as [[j o]|]; [|reflexivity].
      rewrite nth_error_map'. destruct (nth_error args j) as [a|]; [|reflexivity].
      destruct (nth_error argres j) as [r|]; cbn [option_map]; [|reflexivity].
      rewrite is_single_ren. destruct (is_single a r) as [[[pre dec] v]|]; cbn [option_map]; [|reflexivity].
      unfold ren1, ren2. cbn [fst snd]. rewrite map_app. cbn [map ren_s]. rewrite map_app. reflexivity. }
    unfold ren_xres, ren3. cbn [option_map fst snd]. f_equal. f_equal; [f_equal|].
    - cbn [map ren_s]. f_equal. f_equal.
      assert (Ecall : RE (if par then ParallelOp m (Call m id ps) else Call m id ps)
                      = (if par then ParallelOp m (Call m id ps) else Call m id ps))
        by (destruct par; cbn [ren_e]; rewrite Hps; reflexivity).
      rewrite Ecall. f_equal. rewrite flat_map_map, map_flat_map. reflexivity.
    - cbn [map]. f_equal.
      + destruct ix as [|[s|v] ix']; cbn [map ren_a ren_s]; reflexivity.
      + rewrite flat_map_map, map_flat_map. reflexivity.
    - rewrite map_map. apply map_ext. intros o. cbn [ren_e]. f_equal.
      change (fun a : access => match a with ArrayAccess i => ArrayAccess (ren_e f i) | ComponentAccess s => ComponentAccess s end)
        with (ren_a f).
      rewrite map_app. reflexivity.
  Qed.

  (* ---- expressions ------------------------------------------------------ *)

  Definition X (ix : list access) (e : expression) : Prop :=
    xvals sig_of cn' (RA ix) e = ren_xres (xvals sig_of cn ix e).

  Definition PX (e : expression) : Prop :=
    RE e = e -> forall ix, X ix e /\ X ix (make_anonymous_parallel e).

  Lemma X_plain_case : forall ix e, RE e = e ->
    (forall sg c i, xvals sg c i e = if plain e then Some ([], [], [e]) else None) -> X ix e.
  Proof.
    intros ix e Hfix Hx. unfold X. rewrite !Hx. destruct (plain e); [|reflexivity].
    unfold ren_xres, ren3. cbn [option_map fst snd map]. rewrite Hfix. reflexivity.
  Qed.

  Lemma X_anon : forall ix m id par ps ss names,
    map RE ps = ps -> Forall (X ix) ss -> X ix (AnonymousComponent m id par ps ss names).
  Proof.
    intros ix m id par ps ss names Hps Hss. unfold X. cbn [xvals].
    replace (map (xvals sig_of cn' (RA ix)) ss) with (map ren_xres (map (xvals sig_of cn ix) ss)).
    - apply xanon_ren. assumption.
    - rewrite map_map. apply map_ext_Forall. eapply Forall_impl; [|exact Hss]. intros a Ha. symmetry. exact Ha.
  Qed.

  Lemma xvals_ren_all : forall e, PX e.
  Proof.
    apply expression_ind'; unfold PX.
    - intros m l o r _ _ Hfix ix. cbn [make_anonymous_parallel]. split; apply X_plain_case; auto.
    - intros m o r _ Hfix ix. cbn [make_anonymous_parallel]. split; apply X_plain_case; auto.
    - intros m c t e' _ _ _ Hfix ix. cbn [make_anonymous_parallel]. split; apply X_plain_case; auto.
    - intros m r IH Hfix ix. cbn [make_anonymous_parallel].
      assert (Hr : RE r = r) by (cbn [ren_e] in Hfix; injection Hfix; auto).
      assert (G : X ix (ParallelOp m r)).
      { destruct r; try (apply X_plain_case; auto; fail).
        destruct (IH Hr ix) as [_ H2]. cbn [make_anonymous_parallel] in H2. unfold X in *. cbn [xvals] in *. exact H2. }
      split; exact G.
    - intros m n acc _ Hfix ix. cbn [make_anonymous_parallel]. split; apply X_plain_case; auto.
    - intros m v Hfix ix. cbn [make_anonymous_parallel]. split; apply X_plain_case; auto.
    - intros m id args _ Hfix ix. cbn [make_anonymous_parallel]. split; apply X_plain_case; auto.
    - intros m id par ps ss names _ IHss Hfix ix. cbn [make_anonymous_parallel].
      cbn [ren_e] in Hfix. injection Hfix as Hps Hss.
      assert (Hall : Forall (X ix) ss).
      { apply map_fix_Forall in Hss. rewrite Forall_forall in *. intros a Ha. exact (proj1 (IHss a Ha (Hss a Ha) ix)). }
      split; apply X_anon; assumption.
    - intros m vs _ Hfix ix. cbn [make_anonymous_parallel]. split; apply X_plain_case; auto.
    - intros m vs IH Hfix ix. cbn [make_anonymous_parallel].
      cbn [ren_e] in Hfix. injection Hfix as Hvs. apply map_fix_Forall in Hvs.
      assert (G : X ix (Tuple m vs)).
      { unfold X. cbn [xvals].
        replace (map (xvals sig_of cn' (RA ix)) vs) with (map ren_xres (map (xvals sig_of cn ix) vs)).
        - apply xconcat_ren.
        - rewrite map_map. apply map_ext_Forall. rewrite Forall_forall in *. intros a Ha. symmetry.
          exact (proj1 (IH a Ha (Hvs a Ha) ix)). }
      split; exact G.
  Qed.

  Lemma xvals_ren : forall e ix, RE e = e ->
    xvals sig_of cn' (RA ix) e = ren_xres (xvals sig_of cn ix e).
  Proof. intros e ix H. exact (proj1 (xvals_ren_all e H ix)). Qed.

  (* ---- destinations and log arguments are sub-terms of the body ---------- *)

  Lemma all_some_concat_Forall : forall {A B} (Q : B -> Prop) (g : A -> option (list B)) vs ll,
    Forall (fun v => forall ls, g v = Some ls -> Forall Q ls) vs ->
    all_some (map g vs) = Some ll -> Forall Q (List.concat ll).
  Proof.
    intros A B Q g. induction vs as [|v vs IH]; intros ll HF H.
    - simpl in H. inversion H; subst. constructor.
    - simpl in H. destruct (g v) as [ls|] eqn:Eg; [|discriminate].
      destruct (all_some (map g vs)) as [rest|] eqn:Er; [|discriminate]. simpl in H. inversion H; subst.
      inversion HF; subst. simpl. apply Forall_app. split; [auto|]. apply IH; auto.
  Qed.

  Lemma lvalues_fix : forall e, RE e = e -> forall ls, lvalues e = Some ls -> Forall (fun l => RE l = l) ls.
  Proof.
    apply (expression_ind' (fun e => RE e = e -> forall ls, lvalues e = Some ls -> Forall (fun l => RE l = l) ls));
      try (intros; discriminate).
    - intros m n acc _ Hfix ls H. cbn [lvalues] in H. destruct (plain (Variable_ m n acc)); [|discriminate].
      inversion H; subst. constructor; [assumption|constructor].
    - intros m vs IH Hfix ls H. cbn [lvalues] in H. cbn [ren_e] in Hfix. injection Hfix as Hvs. apply map_fix_Forall in Hvs.
      destruct (all_some (map lvalues vs)) as [ll|] eqn:El; [|discriminate]. simpl in H. inversion H; subst.
      eapply all_some_concat_Forall; [|exact El].
      rewrite Forall_forall in *. intros v Hv. apply IH; auto.
  Qed.

  Lemma log_values_fix : forall e, RE e = e -> forall l, log_values e = Some l -> Forall (fun a => ren_log f a = a) l.
  Proof.
    assert (Hplain : forall e, RE e = e -> forall l, (if plain e then Some [LogExp e] else None) = Some l ->
                                 Forall (fun a => ren_log f a = a) l).
    { intros e He l H. destruct (plain e); [|discriminate]. inversion H; subst.
      constructor; [cbn [ren_log]; rewrite He; reflexivity | constructor]. }
    apply (expression_ind' (fun e => RE e = e -> forall l, log_values e = Some l -> Forall (fun a => ren_log f a = a) l));
      try (intros; cbn [log_values] in *; eapply Hplain; eauto; fail).
    intros m vs IH Hfix l H. cbn [log_values] in H. cbn [ren_e] in Hfix. injection Hfix as Hvs. apply map_fix_Forall in Hvs.
    destruct (all_some (map log_values vs)) as [ll|] eqn:El; [|discriminate]. simpl in H. inversion H; subst.
    constructor; [reflexivity|]. apply Forall_app. split; [|constructor; [reflexivity|constructor]].
    eapply all_some_concat_Forall; [|exact El].
    rewrite Forall_forall in *. intros v Hv. apply IH; auto.
  Qed.

  Lemma assignments_ren : forall o ls rs, Forall (fun l => RE l = l) ls ->
    assignments o ls (map RE rs) = map RS (assignments o ls rs).
  Proof.
    intros o ls. induction ls as [|l ls IH]; intros rs HF; [reflexivity|].
    destruct rs as [|r rs]; [reflexivity|]. inversion HF as [|? ? Hl HF']; subst.
    unfold assignments in *. cbn [map combine flat_map]. rewrite IH by assumption. rewrite map_app. f_equal.
    destruct l; try reflexivity.
    cbn [ren_e] in Hl. injection Hl as Hn Hacc.
    destruct (String.eqb name "_"); [reflexivity|]. cbn [map ren_s].
    change (fun a : access => match a with ArrayAccess i => ArrayAccess (ren_e f i) | ComponentAccess s => ComponentAccess s end)
      with (ren_a f) in Hacc.
    rewrite Hn, Hacc. reflexivity.
  Qed.

  Lemma seq_block_ren : forall m pre st, RS (seq_block m pre st) = seq_block m (map RS pre) (RS st).
  Proof. intros m [|p pre] st; [reflexivity|]. cbn [seq_block map ren_s]. rewrite map_app. reflexivity. Qed.

  (* ---- statements ----------------------------------------------------------- *)

  Definition ren_sd (t : statement * list statement) := (RS (fst t), map RS (snd t)).

  Definition XSt (ix : list access) (s : statement) : Prop :=
    xstmt sig_of cn' kn' (RA ix) s = option_map ren_sd (xstmt sig_of cn kn ix s).

  Lemma xstmt_list_gen : forall (cx : string -> meta -> option string) kx ix (mk : list statement -> statement) l
    (go := fix go (l : list statement) : option (list statement * list statement) :=
       match l with
       | [] => Some ([], [])
       | x :: r =>
           match xstmt sig_of cx kx ix x, go r with
           | Some (x', d), Some (r', d') => Some (x' :: r', d ++ d')
           | _, _ => None
           end
       end),
    option_map (fun '(l', d) => (mk l', d)) (go l) =
    option_map (fun rs => (mk (map fst rs), flat_map snd rs)) (mapO (xstmt sig_of cx kx ix) l).
  Proof.
    intros cx kx ix mk l go.
    assert (Hgo : forall l0, go l0 = option_map (fun rs => (map fst rs, flat_map snd rs)) (mapO (xstmt sig_of cx kx ix) l0)).
    { induction l0 as [|x r IH]; [reflexivity|]. rewrite mapO_cons.
      change (go (x :: r)) with (match xstmt sig_of cx kx ix x, go r with
                                 | Some (x', d), Some (r', d') => Some (x' :: r', d ++ d')
                                 | _, _ => None
                                 end).
      rewrite IH. destruct (xstmt sig_of cx kx ix x) as [[x' d]|]; cbn [obind]; [|reflexivity].
      destruct (mapO (xstmt sig_of cx kx ix) r); reflexivity. }
    rewrite Hgo. destruct (mapO (xstmt sig_of cx kx ix) l); reflexivity.
  Qed.

  Lemma xstmt_block_gen : forall cx kx ix m l,
    xstmt sig_of cx kx ix (Block m l) =
    option_map (fun rs => (Block m (map fst rs), flat_map snd rs)) (mapO (xstmt sig_of cx kx ix) l).
  Proof. intros. cbn [xstmt]. apply (xstmt_list_gen cx kx ix (Block m)). Qed.

  Lemma xstmt_init_gen : forall cx kx ix m t l,
    xstmt sig_of cx kx ix (InitializationBlock m t l) =
    option_map (fun rs => (InitializationBlock m t (map fst rs), flat_map snd rs)) (mapO (xstmt sig_of cx kx ix) l).
  Proof. intros. cbn [xstmt]. apply (xstmt_list_gen cx kx ix (InitializationBlock m t)). Qed.

  Lemma mapO_ren : forall ix l, Forall (XSt ix) l ->
    mapO (xstmt sig_of cn' kn' (RA ix)) l = option_map (map ren_sd) (mapO (xstmt sig_of cn kn ix) l).
  Proof.
    intros ix l HF. rewrite (mapO_ext _ (fun s => option_map ren_sd (xstmt sig_of cn kn ix s))).
    - unfold mapO at 1. apply all_some_map_option_map.
    - exact HF.
  Qed.

  Lemma list_case_ren : forall (mk : list statement -> statement) rs,
    (forall l, RS (mk l) = mk (map RS l)) ->
    (mk (map fst (map ren_sd rs)), flat_map snd (map ren_sd rs)) =
    ren_sd (mk (map fst rs), flat_map snd rs).
  Proof.
    intros mk rs Hmk. unfold ren_sd. cbn [fst snd]. rewrite Hmk. f_equal.
    - f_equal. rewrite !map_map. reflexivity.
    - rewrite flat_map_map, map_flat_map. reflexivity.
  Qed.

  Lemma counted_ren : forall m k, kn m = Some k -> forall s, counted_by (f k) (RS s) = counted_by k s.
  Proof.
    intros m k Ek s. destruct s as [| | | |dm dt dn dims dc| | | | | |]; cbn [ren_s counted_by]; try reflexivity.
    induction dims as [|e l IH]; cbn [map existsb]; [reflexivity|]. rewrite IH. f_equal.
    destruct e as [| | | |vm vn vacc| | | | |]; cbn [ren_e]; try reflexivity.
    destruct (String.eqb_spec vn k) as [->|Hne]; [apply String.eqb_refl|].
    apply String.eqb_neq. intros E. apply Hne. eapply Hsep; eauto.
  Qed.

  Lemma existsb_counted_ren : forall m k, kn m = Some k -> forall d,
    existsb (counted_by (f k)) (map RS d) = existsb (counted_by k) d.
  Proof.
    intros m k Ek d. induction d as [|s d IH]; cbn [map existsb]; [reflexivity|].
    rewrite IH, (counted_ren m k Ek). reflexivity.
  Qed.

  Definition PS (s : statement) : Prop := RS s = s -> forall ix, XSt ix s.

  Lemma xstmt_ren_all : forall s, PS s.
  Proof.
    apply statement_ind'; unfold PS.
    - (* IfThenElse *)
      intros m c i e IHi IHe Hfix ix. cbn [ren_s] in Hfix. injection Hfix as Hc Hi He.
      unfold XSt. cbn [xstmt]. destruct (plain c); [|reflexivity].
      rewrite (IHi Hi ix). destruct (xstmt sig_of cn kn ix i) as [[i' d]|]; cbn [option_map ren_sd fst snd]; [|reflexivity].
      destruct e as [e'|].
      + assert (He' : RS e' = e') by (injection He; auto).
        rewrite (IHe e' eq_refl He' ix).
        destruct (xstmt sig_of cn kn ix e') as [[e2 d2]|]; cbn [option_map ren_sd fst snd]; [|reflexivity].
        unfold ren_sd. cbn [fst snd ren_s]. rewrite Hc, map_app. reflexivity.
      + cbn [option_map]. unfold ren_sd. cbn [fst snd ren_s]. rewrite Hc. reflexivity.
    - (* While *)
      intros m c b IHb Hfix ix. cbn [ren_s] in Hfix. injection Hfix as Hc Hb.
      unfold XSt. cbn [xstmt]. destruct (plain c); [|reflexivity].
      change (kn' m) with (option_map f (kn m)). destruct (kn m) as [k|] eqn:Ek; cbn [option_map]; [|reflexivity].
      pose proof (IHb Hb [ArrayAccess (Variable_ m k [])]) as Hbody. unfold XSt in Hbody.
      cbn [map ren_a ren_e] in Hbody. rewrite Hbody.
      destruct (xstmt sig_of cn kn [ArrayAccess (Variable_ m k [])] b) as [[b' d]|]; cbn [option_map ren_sd fst snd]; [|reflexivity].
      rewrite (existsb_counted_ren m k Ek d).
      destruct (existsb (counted_by k) d); cbn [map option_map]; unfold ren_sd; cbn [fst snd ren_s ren_e map app];
        rewrite ?map_app; cbn [map ren_s ren_e]; rewrite Hc; reflexivity.
    - (* Return *)
      intros m v Hfix ix. unfold XSt. cbn [xstmt]. destruct (plain v); [|reflexivity].
      unfold ren_sd. cbn [option_map fst snd map]. rewrite Hfix. reflexivity.
    - (* InitializationBlock *)
      intros m t l IH Hfix ix. cbn [ren_s] in Hfix. injection Hfix as Hl. apply map_fix_Forall in Hl.
      unfold XSt. rewrite !xstmt_init_gen. rewrite mapO_ren.
      + destruct (mapO (xstmt sig_of cn kn ix) l) as [rs|]; cbn [option_map]; [|reflexivity].
        f_equal. apply (list_case_ren (InitializationBlock m t)). reflexivity.
      + rewrite Forall_forall in *. intros x Hx. apply IH; auto.
    - (* Declaration *)
      intros m t n d c Hfix ix. unfold XSt. cbn [xstmt]. destruct (forallb plain d); [|reflexivity].
      cbn [ren_s] in Hfix. injection Hfix as Hn Hd.
      unfold ren_sd. cbn [option_map fst snd map ren_s]. rewrite Hn, Hd. reflexivity.
    - (* Substitution *)
      intros m v a o r Hfix ix. cbn [ren_s] in Hfix. injection Hfix as Hv Ha Hr.
      unfold XSt. cbn [xstmt]. destruct (acc_plain a); [|reflexivity].
      rewrite (xvals_ren r ix Hr), is_single_ren.
      destruct (is_single r (xvals sig_of cn ix r)) as [[[pre dec] value]|]; cbn [option_map]; [|reflexivity].
      unfold ren1, ren_sd. cbn [fst snd]. rewrite seq_block_ren. f_equal. f_equal. f_equal.
      destruct (String.eqb v "_"); [reflexivity|]. cbn [ren_s]. rewrite Hv, Ha. reflexivity.
    - (* MultiSubstitution *)
      intros m l o r Hfix ix. cbn [ren_s] in Hfix. injection Hfix as Hl Hr.
      unfold XSt. cbn [xstmt]. rewrite (xvals_ren r ix Hr).
      destruct l; try reflexivity.
      destruct (lvalues (Tuple m0 values)) as [ls|] eqn:Els; [|reflexivity].
      destruct (tuple_valued sig_of r); [|reflexivity].
      destruct (xvals sig_of cn ix r) as [[[pre dec] rs]|]; cbn [ren_xres option_map ren3 fst snd]; [|reflexivity].
      rewrite map_length. destruct (List.length ls =? List.length rs)%nat; [|reflexivity].
      cbn [option_map]. unfold ren_sd. cbn [fst snd]. rewrite seq_block_ren. cbn [ren_s].
      rewrite (assignments_ren o ls rs (lvalues_fix _ Hl _ Els)). reflexivity.
    - (* ConstraintEquality *)
      intros m l r Hfix ix. unfold XSt. cbn [xstmt]. destruct (plain l && plain r); [|reflexivity].
      unfold ren_sd. cbn [option_map fst snd map]. rewrite Hfix. reflexivity.
    - (* LogCall *)
      intros m a Hfix ix. cbn [ren_s] in Hfix. injection Hfix as Ha. apply map_fix_Forall in Ha.
      unfold XSt. cbn [xstmt].
      destruct (all_some (map (xlog) a)) as [ll|] eqn:El; cbn [option_map]; [|reflexivity].
      unfold ren_sd. cbn [fst snd map ren_s]. f_equal. f_equal. f_equal. symmetry. apply Forall_map_fix.
      eapply all_some_concat_Forall; [|exact El].
      rewrite Forall_forall in *. intros x Hx ls Hls. specialize (Ha x Hx).
      destruct x as [str|e]; cbn [xlog] in Hls.
      + inversion Hls; subst. destruct (String.eqb str ""); repeat constructor.
      + cbn [ren_log] in Ha. injection Ha as He. eapply log_values_fix; eauto.
    - (* Block *)
      intros m l IH Hfix ix. cbn [ren_s] in Hfix. injection Hfix as Hl. apply map_fix_Forall in Hl.
      unfold XSt. rewrite !xstmt_block_gen. rewrite mapO_ren.
      + destruct (mapO (xstmt sig_of cn kn ix) l) as [rs|]; cbn [option_map]; [|reflexivity].
        f_equal. apply (list_case_ren (Block m)). reflexivity.
      + rewrite Forall_forall in *. intros x Hx. apply IH; auto.
    - (* Assert *)
      intros m a Hfix ix. unfold XSt. cbn [xstmt]. destruct (plain a); [|reflexivity].
      unfold ren_sd. cbn [option_map fst snd map]. rewrite Hfix. reflexivity.
  Qed.

  (* ---- the whole expansion ---------------------------------------------------- *)

  Lemma is_decl_of_ren : forall p s, is_decl_of p (RS s) = is_decl_of p s.
  Proof. intros p s. destruct s; reflexivity. Qed.

  Lemma expand_spec_ren_fix : forall body, RS body = body ->
    expand_spec sig_of cn' kn' body = option_map RS (expand_spec sig_of cn kn body).
  Proof.
    intros body Hfix. unfold expand_spec.
    pose proof (xstmt_ren_all body Hfix []) as H. unfold XSt in H. cbn [map] in H. rewrite H.
    destruct (xstmt sig_of cn kn [] body) as [[b d]|]; cbn [option_map ren_sd fst snd]; [|reflexivity].
    destruct b; try reflexivity. cbn [ren_s option_map]. f_equal. f_equal.
    rewrite !map_app. cbn [map ren_s].
    rewrite !filter_map_commute; try reflexivity; intros x; destruct x; reflexivity.
  Qed.

  (* a renaming that moves none of the body's own names leaves the body unchanged *)
  Lemma ren_e_fix : forall e, (forall x, In x (expr_names e) -> f x = x) -> RE e = e.
  Proof.
    assert (Hlist : forall vs, Forall (fun e => (forall x, In x (expr_names e) -> f x = x) -> RE e = e) vs ->
                               (forall x, In x (flat_map expr_names vs) -> f x = x) -> map RE vs = vs).
    { intros vs HF Hn. apply Forall_map_fix. rewrite Forall_forall in *. intros a Ha. apply HF; [assumption|].
      intros x Hx. apply Hn. apply in_flat_map. exists a. auto. }
    apply (expression_ind' (fun e => (forall x, In x (expr_names e) -> f x = x) -> RE e = e));
      intros; cbn [ren_e expr_names] in *.
    - rewrite H, H0; [reflexivity| |]; intros x Hx; apply H1; rewrite in_app_iff; auto.
    - rewrite H; [reflexivity|]. assumption.
    - rewrite H, H0, H1; [reflexivity| | |]; intros x Hx; apply H2; rewrite !in_app_iff; auto.
    - rewrite H; [reflexivity|]. assumption.
    - rewrite (H0 n (or_introl eq_refl)). f_equal.
      apply Forall_map_fix. rewrite Forall_forall in *. intros a Ha. specialize (H a Ha).
      destruct a as [s|i]; [reflexivity|]. cbn [access_all] in H. f_equal. apply H.
      intros x Hx. apply H0. right. apply in_flat_map. exists (ArrayAccess i). auto.
    - reflexivity.
    - rewrite Hlist; auto.
    - rewrite !Hlist; auto; intros x Hx; apply H1; rewrite in_app_iff; auto.
    - rewrite Hlist; auto.
    - rewrite Hlist; auto.
  Qed.

  Lemma ren_a_fix : forall acc, (forall x, In x (access_names acc) -> f x = x) -> RA acc = acc.
  Proof.
    intros acc H. apply Forall_map_fix. rewrite Forall_forall. intros a Ha.
    destruct a as [s|i]; [reflexivity|]. cbn [ren_a]. f_equal. apply ren_e_fix.
    intros x Hx. apply H. unfold access_names. apply in_flat_map. exists (ArrayAccess i). auto.
  Qed.

  Lemma ren_s_fix : forall s, (forall x, In x (stmt_names s) -> f x = x) -> RS s = s.
  Proof.
    assert (Hel : forall vs, (forall x, In x (flat_map expr_names vs) -> f x = x) -> map RE vs = vs).
    { intros vs Hn. apply Forall_map_fix. rewrite Forall_forall. intros a Ha. apply ren_e_fix.
      intros x Hx. apply Hn. apply in_flat_map. exists a. auto. }
    assert (Hsl : forall l, Forall (fun s => (forall x, In x (stmt_names s) -> f x = x) -> RS s = s) l ->
                            (forall x, In x (flat_map stmt_names l) -> f x = x) -> map RS l = l).
    { intros l HF Hn. apply Forall_map_fix. rewrite Forall_forall in *. intros a Ha. apply HF; [assumption|].
      intros x Hx. apply Hn. apply in_flat_map. exists a. auto. }
    apply (statement_ind' (fun s => (forall x, In x (stmt_names s) -> f x = x) -> RS s = s));
      intros; cbn [ren_s stmt_names] in *.
    - rewrite ren_e_fix, H by (intros x Hx; apply H1; rewrite !in_app_iff; auto).
      destruct e as [e'|]; [|reflexivity].
      rewrite (H0 e' eq_refl); [reflexivity|]. intros x Hx; apply H1; rewrite !in_app_iff; auto.
    - rewrite ren_e_fix, H by (intros x Hx; apply H0; rewrite !in_app_iff; auto). reflexivity.
    - rewrite ren_e_fix by assumption. reflexivity.
    - rewrite Hsl; auto.
    - rewrite (H n (or_introl eq_refl)), Hel; [reflexivity|]. intros x Hx. apply H. right. assumption.
    - rewrite (H v (or_introl eq_refl)), ren_a_fix, ren_e_fix; [reflexivity| |];
        intros x Hx; apply H; right; rewrite in_app_iff; auto.
    - rewrite !ren_e_fix; [reflexivity| |]; intros x Hx; apply H; rewrite in_app_iff; auto.
    - rewrite !ren_e_fix; [reflexivity| |]; intros x Hx; apply H; rewrite in_app_iff; auto.
    - f_equal. apply Forall_map_fix. rewrite Forall_forall. intros x Hx. destruct x as [str|e]; [reflexivity|].
      cbn [ren_log]. f_equal. apply ren_e_fix. intros y Hy. apply H. apply in_flat_map. exists (LogExp e). auto.
    - rewrite Hsl; auto.
    - rewrite ren_e_fix by assumption. reflexivity.
  Qed.
End Alpha.

(* THE THEOREM: for every renaming [f] that moves none of the names the body itself
   uses, the expansion under the naming scheme "f after (comp_name, counter_name)"
   is the [f]-renamed expansion under (comp_name, counter_name); defined for the
   same bodies. *)
Definition counters_separate (f : string -> string) (counter_name : meta -> option string) : Prop :=
  forall m k x, counter_name m = Some k -> f x = f k -> x = k.

Theorem expand_spec_naming_independent :
  forall (f : string -> string) sig_of comp_name counter_name body,
    fixes_names f body ->
    counters_separate f counter_name ->
    expand_spec sig_of (fun id m => option_map f (comp_name id m)) (fun m => option_map f (counter_name m)) body =
    option_map (ren_s f) (expand_spec sig_of comp_name counter_name body).
Proof.
  intros f sig_of cn kn body Hfix Hsep.
  exact (expand_spec_ren_fix f sig_of cn kn Hsep body (ren_s_fix f body Hfix)).
Qed.

(* with C18_desugar_is_expand: the desugarer's output, renamed, is the specified
   expansion under ANY naming scheme obtained from the implementation's by such a
   renaming -- "equals the hand expansion up to the choice of the new names" *)
Theorem desugar_is_expand_up_to_names :
  forall (f : string -> string) (lib : file_library) ts m l,
    Forall wf_node (stmt_exprs (Block m l)) ->
    Forall short_node (sub_stmts (Block m l)) ->
    fixes_names f (Block m l) ->
    counters_separate f (name_opt lib "anon_var") ->
    option_map (ren_s f) (to_opt (desugar_template (env_of ts) lib (Block m l))) =
    expand_spec (sig_table ts) (fun id mm => option_map f (name_opt lib id mm))
                (fun mm => option_map f (name_opt lib "anon_var" mm)) (Block m l).
Proof.
  intros f lib ts m l Hwf Hshort Hfix Hsep.
  rewrite (desugar_is_expand lib ts m l Hwf Hshort).
  symmetry. apply expand_spec_naming_independent; assumption.
Qed.
