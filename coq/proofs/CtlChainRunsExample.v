(* C07: the hypotheses of Proofs.CtlChainRuns.chain_loop_free_claims_true are satisfiable, END TO
   END: the body
       signal input a;  var x = 0;  if (a == 1) { x = 1; } else { x = 2; }  x = x + 4;
   as an AST goes through the mirrors of lifting, SSA conversion (a phi for x at the join, under
   a SIGNAL-DEPENDENT branch) and propagation; the annotated graph, with the declaration table
   read off its declaration statements, passes every validator; and the family of concrete runs
   over the valuations rho of the signal a - those with rho = 1 (mod 7) through the then-branch,
   the others through the else-branch - meets the hypotheses about the family. *)
From Coq Require Import ZArith NArith List Bool String Ascii Lia.
Require Import Model.Ast.
Require Model.Base Model.Ir Model.Dom Model.Ssa Model.SsaPre Model.SsaCheck Model.LiftFull Model.Lift Model.Propagate
        Model.DegGraph Model.DegJustify Model.Justify.
Require Spec.PolyDeg Spec.DegSem Spec.DegRun Proofs.DegreeProofs Proofs.DegGraphProofs Proofs.DegRunProofs Proofs.DegSemTotal.
Require Import Proofs.CtlChainExample.
Import ListNotations.
Local Open Scope string_scope.

Definition cs_body : statement :=
  Block (cm 0 120)
    [InitializationBlock (cm 1 4) (VSignal SInput []) [Declaration (cm 1 4) (VSignal SInput []) "a" [] true];
     InitializationBlock (cm 5 14) VVar
       [Declaration (cm 5 10) VVar "x" [] true; Substitution (cm 9 14) "x" [] AssignVar (Number (cm 13 14) 0)];
     IfThenElse (cm 16 60) (InfixOp (cm 20 26) (Variable_ (cm 20 21) "a" []) IEq (Number (cm 25 26) 1))
       (Block (cm 28 40) [Substitution (cm 30 36) "x" [] AssignVar (Number (cm 34 35) 1)])
       (Some (Block (cm 46 58) [Substitution (cm 48 54) "x" [] AssignVar (Number (cm 52 53) 2)]));
     Substitution (cm 62 72) "x" [] AssignVar (InfixOp (cm 66 71) (cx 66 67) IAdd (Number (cm 70 71) 4))].

(* the declaration table the implementation keeps, read off the declaration statements *)
Definition decls_of_stmts (ss : list Ir.stmt) : list (Ir.vname * Ir.vtype) :=
  flat_map (fun st => match st with Ir.SDecl _ names t _ => map (fun n => (n, t)) names | _ => [] end) ss.
Definition with_decls (c : Ir.cfg) : Ir.cfg :=
  {| Ir.c_kind := Ir.c_kind c; Ir.c_params := Ir.c_params c;
     Ir.c_decls := decls_of_stmts (Justify.all_stmts (Ir.c_blocks c)); Ir.c_blocks := Ir.c_blocks c |}.

Definition cs_r : LiftFull.lifted :=
  match LiftFull.try_lift_impl Ir.KTemplate [] (Some 0%N) (10%N, 12%N) cs_body with
  | Base.Ok r => r
  | _ => cc_r
  end.
Definition cs_c0 : Ir.cfg := LiftFull.erase_cfg (LiftFull.l_cfg cs_r).
Definition cs_c1 : Ir.cfg := match Ssa.into_ssa cc_frontier cc_children cs_c0 with Ssa.SOk c => c | _ => cs_c0 end.
Definition cs_c2 : Ir.cfg := match Propagate.propagate 9 9 7 cc_idom cs_c1 with Base.Ok c => c | _ => cs_c1 end.
Definition cs_c : Ir.cfg := Eval vm_compute in with_decls cs_c2.
Definition cs_infos : list SsaCheck.binfo :=
  match SsaCheck.compute_infos (Ir.c_params cs_c) cc_idom (Ir.c_blocks cs_c) [] with Some i => i | None => [] end.

Local Open Scope Z_scope.
Definition cs_sem2 (op : Ir.infix_op) (x y : Z) : Z :=
  match op with
  | Ir.IAdd => (x + y) mod 7 | Ir.ISub => (x - y) mod 7 | Ir.IMul => (x * y) mod 7
  | Ir.IDiv => (x * (y ^ 5 mod 7)) mod 7
  | Ir.IEq => if x mod 7 =? y mod 7 then 1 else 0
  | _ => 0
  end.
Definition cs_sem1 (op : Ir.prefix_op) (x : Z) : Z := match op with Ir.PNeg => (x * -1) mod 7 | _ => 0 end.
Definition cs_a : Ir.vname := {| Ir.vn_name := [97%N]; Ir.vn_suffix := None; Ir.vn_version := None |}.
Definition cs_S0 : DegSem.fstore Z := fun x => if Ir.vname_eqb cs_a x then Some (fun _ rho => rho) else None.
Definition cs_s0 (rho : Z) : DegRun.cstore := fun x => if Ir.vname_eqb cs_a x then Some (fun _ => rho) else None.
Definition cs_then (rho : Z) : bool := rho mod 7 =? 1.
Definition cs_pth (rho : Z) : list nat := if cs_then rho then [0; 1; 3]%nat else [0; 2; 3]%nat.
Definition cs_run (rho : Z) : option DegRun.cstore :=
  DegRun.cexec_path 7 cs_sem2 cs_sem1 (fun _ _ => 0) (fun _ => 0) cs_c (SsaCheck.params_map (Ir.c_params cs_c)) (cs_s0 rho) (cs_pth rho).
Definition cs_s (rho : Z) : DegRun.cstore := match cs_run rho with Some s => s | None => cs_s0 rho end.

Lemma chain_runs_example :
  LiftFull.try_lift_impl Ir.KTemplate [] (Some 0%N) (10%N, 12%N) cs_body = Base.Ok cs_r /\
  SsaPre.phi_free cs_c0 = true /\ SsaPre.decls_ok cs_c0 = true /\
  Ssa.into_ssa cc_frontier cc_children cs_c0 = Ssa.SOk cs_c1 /\
  Propagate.propagate 9 9 7 cc_idom cs_c1 = Base.Ok cs_c2 /\
  Ir.c_blocks cs_c = Ir.c_blocks cs_c2 /\
  DegJustify.djust_cfg cs_c cc_idom = true /\ SsaCheck.infos_ok cs_infos cs_c = true /\
  DegGraph.deg_graph_ok cs_c cc_idom = true /\ DegGraph.loop_free_ok cs_c = true /\
  (forall op, DegreeProofs.op_den 7 op (cs_sem2 op)) /\ (forall op, DegreeProofs.prefix_den 7 op (cs_sem1 op)) /\
  DegGraphProofs.finit_ok Z DegSemTotal.zline 7 cs_c cs_S0 /\
  (forall rho, exists tl, cs_pth rho = 0%nat :: tl) /\
  (forall rho, exists r0, In r0 [1; 0] /\ cs_pth r0 = cs_pth rho) /\
  (forall rho, DegRunProofs.rel_store Z rho (cs_s0 rho) cs_S0) /\
  (forall rho, cs_run rho = Some (cs_s rho)).
Proof.
  split; [vm_compute; reflexivity|]. split; [vm_compute; reflexivity|]. split; [vm_compute; reflexivity|].
  split; [vm_compute; reflexivity|]. split; [vm_compute; reflexivity|]. split; [vm_compute; reflexivity|].
  split; [vm_compute; reflexivity|]. split; [vm_compute; reflexivity|]. split; [vm_compute; reflexivity|].
  split; [vm_compute; reflexivity|].
  split; [intros []; cbn; auto; exists (fun y => y ^ 5 mod 7); reflexivity|].
  split; [intros []; cbn; auto|].
  split.
  { intros x F Hx. unfold cs_S0 in Hx. destruct (Ir.vname_eqb cs_a x) eqn:E; [|discriminate].
    apply ValueProofs.vname_eqb_eq in E. subst x. injection Hx as <-.
    right. left. split; [reflexivity|]. split; [exists Ir.TSigIn; split; [reflexivity|discriminate]|].
    intros i rho delta t. cbn [PolyDeg.Dn]. unfold PolyDeg.Dd, DegSemTotal.zline. replace (_ - _) with 0 by ring. reflexivity. }
  split; [intros rho; unfold cs_pth; destruct (cs_then rho); eauto|].
  split.
  { intros rho. unfold cs_pth. destruct (cs_then rho) eqn:E.
    - exists 1. split; [left; reflexivity|reflexivity].
    - exists 0. split; [right; left; reflexivity|reflexivity]. }
  split.
  { intros rho x. unfold cs_s0, cs_S0. destruct (Ir.vname_eqb cs_a x); cbn; [intros i; reflexivity|exact I]. }
  intros rho. unfold cs_s. destruct (cs_run rho) as [sr|] eqn:E; [reflexivity|exfalso].
  unfold cs_run, cs_pth in E. destruct (cs_then rho) eqn:Et; unfold cs_then in Et;
    cbn in E; change ((1 mod 7) mod 7) with 1 in E; rewrite Et in E; discriminate.
Qed.
