(* Propagation rewrites statements only: whatever the pass budgets, every block of the
   result is the corresponding block of the input with other statements (set_stmts), so
   every projection of a block that ignores its statements - index, depth, predecessor and
   successor lists, the node DominatorTree::new reads - is unchanged (C07: the graph facts
   proved of the graph handed to propagation hold of the annotated graph). *)
From Coq Require Import ZArith NArith List Bool.
Require Import Model.Base Model.Ir Model.Propagate Model.DegGraph.
Import ListNotations.

Section Shape.
Variable A : Type.
Variable f : block -> A.
Hypothesis Hf : forall b ss, f (set_stmts b ss) = f b.

Lemma pd_blocks_shape idom : forall bs env res pre b bs' env',
  pd_blocks idom env res pre bs = (b, bs', env') -> map f bs' = map f bs.
Proof.
  induction bs as [|blk tl IH]; intros env res pre b bs' env'; cbn [pd_blocks].
  - intros [= <- <- <-]. reflexivity.
  - destruct res; [intros [= <- <- <-]; reflexivity|].
    destruct (pd_stmts _ false (b_stmts blk)) as [[r1 ss'] env1].
    destruct (pd_blocks idom env1 r1 (pre ++ [set_stmts blk ss']) tl) as [[r2 tl'] env2] eqn:Et. intros [= <- <- <-].
    cbn [map]. rewrite (IH _ _ _ _ _ _ Et), Hf. reflexivity.
Qed.

Lemma degrees_passes_shape idom : forall k env bs bs' env',
  degrees_passes k idom env bs = (bs', env') -> map f bs' = map f bs.
Proof.
  induction k as [|k IH]; intros env bs bs' env'; cbn [degrees_passes].
  - intros [= <- <-]. reflexivity.
  - destruct (pd_blocks idom env false [] bs) as [[rerun bs1] env1] eqn:Ep.
    pose proof (pd_blocks_shape idom _ _ _ _ _ _ _ Ep) as H1. destruct rerun.
    + intros Hk. rewrite (IH _ _ _ _ Hk). exact H1.
    + intros [= <- <-]. exact H1.
Qed.

Lemma pv_blocks_shape p : forall bs env res b bs' env',
  pv_blocks p env res bs = Ok (b, bs', env') -> map f bs' = map f bs.
Proof.
  induction bs as [|blk tl IH]; intros env res b bs' env'; cbn [pv_blocks].
  - intros [= <- <- <-]. reflexivity.
  - destruct res; [intros [= <- <- <-]; reflexivity|].
    destruct (pv_stmts p env false (b_stmts blk)) as [[[r1 ss'] env1]| | |] eqn:Es; try discriminate. cbn [bind].
    destruct (pv_blocks p env1 r1 tl) as [[[r2 tl'] env2]| | |] eqn:Et; try discriminate. cbn [bind].
    intros [= <- <- <-]. cbn [map]. rewrite (IH _ _ _ _ _ Et), Hf. reflexivity.
Qed.

Lemma values_passes_shape p : forall k env bs bs' env',
  values_passes k p env bs = Ok (bs', env') -> map f bs' = map f bs.
Proof.
  induction k as [|k IH]; intros env bs bs' env'; cbn [values_passes].
  - intros [= <- <-]. reflexivity.
  - destruct (pv_blocks p env false bs) as [[[rerun bs1] env1]| | |] eqn:Ep; try discriminate. cbn [bind].
    pose proof (pv_blocks_shape p _ _ _ _ _ _ Ep) as H1. destruct rerun.
    + intros Hk. rewrite (IH _ _ _ _ Hk). exact H1.
    + intros [= <- <-]. exact H1.
Qed.

Lemma propagate_shape kv kd p idom c c' : propagate kv kd p idom c = Ok c' ->
  map f (c_blocks c') = map f (c_blocks c).
Proof.
  unfold propagate.
  destruct (values_passes kv p [] (c_blocks c)) as [[bs1 env1]| | |] eqn:Ev; try discriminate. cbn [bind].
  destruct (degrees_passes kd idom (denv_init (c_kind c) (c_params c)) bs1) as [bs2 env2] eqn:Ed.
  intros [= <-]. cbn [set_blocks c_blocks].
  rewrite (degrees_passes_shape idom _ _ _ _ _ Ed). exact (values_passes_shape p _ _ _ _ _ Ev).
Qed.
End Shape.

(* the node DominatorTree::new reads *)
Theorem propagate_keeps_dom_graph kv kd p idom c c' : propagate kv kd p idom c = Ok c' ->
  dom_graph_of c' = dom_graph_of c.
Proof.
  intros H. unfold dom_graph_of.
  exact (propagate_shape _ (fun b => Dom.Node (map N.to_nat (b_preds b)) (map N.to_nat (b_succs b)))
                         (fun b ss => eq_refl) kv kd p idom c c' H).
Qed.
