(* C07: the regenerated degree tables (Gen.DegreeTable, obtained by executing
   degree_meta.rs) are at least the hand-written composition rule
   Spec.PolyDeg.sound_deg, which is semantically sound for the calculus of
   Proofs.PolyDegProofs.  The finite obligations are re-checked on every run
   against the table regenerated from the current source. *)
From Coq Require Import ZArith List Bool Lia.
Require Import Model.Base Model.Ir Model.Propagate Gen.DegreeTable Spec.PolyDeg Proofs.PolyDegProofs.
Import ListNotations.
Local Open Scope Z_scope.

(* ---------- finite obligations over the regenerated tables ---------- *)
Lemma degree_order_is_rank a b : deg_le a b = deg_leb a b.
Proof. destruct a, b; reflexivity. Qed.

Lemma degree_table_sound op a b : deg_leb (sound_deg op a b) (deg_infix op a b) = true.
Proof. destruct op, a, b; reflexivity. Qed.

Lemma degree_prefix_table_sound op a : deg_leb (sound_deg_prefix op a) (deg_prefix op a) = true.
Proof. destruct op, a; reflexivity. Qed.

Lemma degree_table_monotone op a a' b b' :
  deg_leb a' a = true -> deg_leb b' b = true ->
  deg_leb (deg_infix op a' b') (deg_infix op a b) = true.
Proof. destruct op, a, a', b, b'; cbn; intros; try reflexivity; discriminate. Qed.

Lemma degree_prefix_table_monotone op a a' :
  deg_leb a' a = true -> deg_leb (deg_prefix op a') (deg_prefix op a) = true.
Proof. destruct op, a, a'; cbn; intros; try reflexivity; discriminate. Qed.

Definition drange_eqb (a b : drange) : bool :=
  degree_eqb (fst a) (fst b) && degree_eqb (snd a) (snd b).

(* the DegreeRange-level functions of degree_meta.rs, as executed, are the
   pointwise liftings the model uses *)
Lemma range_tables_consistent :
  forallb (fun '(op, a, b, r) => drange_eqb (range_infix op a b) r) range_infix_table = true /\
  forallb (fun '(op, a, r) => drange_eqb (range_prefix op a) r) range_prefix_table = true /\
  forallb (fun '(a, b, r) => drange_eqb (range_inf a b) r) range_inf_table = true /\
  forallb (fun '(a, (c, l, q)) =>
             Bool.eqb (range_is_constant a) c && Bool.eqb (range_is_linear a) l && Bool.eqb (range_is_quadratic a) q)
          range_pred_table = true.
Proof. vm_compute. repeat split; reflexivity. Qed.

Lemma range_tables_complete :
  N.of_nat (length range_infix_table) = 5120%N /\ N.of_nat (length range_prefix_table) = 48%N /\
  N.of_nat (length range_inf_table) = 256%N /\ N.of_nat (length range_pred_table) = 16%N.
Proof. vm_compute. repeat split; reflexivity. Qed.

(* ---------- semantic soundness ---------- *)
Section Sem.
Variable V : Type.
Variable line : V -> V -> Z -> V.
Variable p : Z.
Notation Deg := (Deg V line p).
Notation Constant := (Constant V).
Notation SemDeg := (SemDeg V line p).

(* what the value of `F op G` is, as far as the degree argument needs it *)
Definition op_den (op : infix_op) (h : Z -> Z -> Z) : Prop :=
  match op with
  | IAdd => forall x y, h x y = (x + y) mod p
  | ISub => forall x y, h x y = (x - y) mod p
  | IMul => forall x y, h x y = (x * y) mod p
  | IDiv => exists inv : Z -> Z, forall x y, h x y = (x * inv y) mod p
  | _ => True
  end.

Definition prefix_den (op : prefix_op) (h : Z -> Z) : Prop :=
  match op with
  | PNeg => forall x, h x = (x * -1) mod p
  | _ => True
  end.

Lemma SemDeg_to_Deg d F : SemDeg d F -> (deg_rank d <= 2)%nat -> Deg (deg_rank d) F.
Proof.
  destruct d; cbn; intros H Hr; try exact H; try lia.
  apply Constant_Deg. exact H.
Qed.

Lemma Deg_to_SemDeg n F : Deg n F -> (1 <= n)%nat -> SemDeg (deg_of_rank n) F.
Proof.
  intros H Hn. destruct n as [|[|[|n]]]; cbn; try lia; try exact H; exact I.
Qed.

Lemma fun_ext_SemDeg d (F G : V -> Z) : (forall r, F r = G r) -> SemDeg d G -> SemDeg d F.
Proof.
  intros E. destruct d; cbn; try tauto.
  - intros H r r'. rewrite !E. apply H.
  - intros H rho delta t. rewrite (Dn_ext _ _ (fun u => G (line rho delta u))) by (intros; apply E). apply H.
  - intros H rho delta t. rewrite (Dn_ext _ _ (fun u => G (line rho delta u))) by (intros; apply E). apply H.
Qed.

Lemma sound_deg_sem op a b F G h :
  op_den op h -> SemDeg a F -> SemDeg b G -> SemDeg (sound_deg op a b) (fun r => h (F r) (G r)).
Proof.
  intros Hden HF HG.
  destruct (deg_rank (sound_deg op a b) =? 3)%nat eqn:Hnq.
  { destruct (sound_deg op a b); try discriminate. exact I. }
  destruct op; cbn [op_den] in Hden;
    try (destruct a, b; cbn in Hnq |- *; try discriminate; apply Constant_binop; assumption).
  - (* mul *)
    apply (fun_ext_SemDeg _ _ (fun r => (F r * G r) mod p)); [intros; apply Hden|].
    destruct a, b; cbn in Hnq; try discriminate;
      try (apply Constant_binop with (h := fun x y => (x * y) mod p); assumption);
      match goal with
      | |- SemDeg (sound_deg IMul ?a ?b) _ =>
        apply (Deg_to_SemDeg (deg_rank a + deg_rank b)); [|cbn; lia];
        apply Deg_mul; apply SemDeg_to_Deg; cbn; (assumption || lia)
      end.
  - (* div by a constant *)
    destruct Hden as [inv Hden].
    destruct b; cbn in Hnq |- *; try discriminate.
    destruct a; cbn [SemDeg] in *.
    + apply Constant_binop; assumption.
    + apply (fun_ext_SemDeg DLin _ (fun r => (F r * inv (G (line r r 0))) mod p)).
      * intros r. rewrite Hden. rewrite (HG r (line r r 0)). reflexivity.
      * cbn. intros rho delta t.
        rewrite (Dn_ext _ _ (fun u => (F (line rho delta u) * inv (G rho)) mod p)).
        -- apply (Deg_scale V line p 1 (inv (G rho)) F HF rho delta).
        -- intros u. rewrite (HG _ rho). reflexivity.
    + apply (fun_ext_SemDeg DQuad _ (fun r => (F r * inv (G (line r r 0))) mod p)).
      * intros r. rewrite Hden. rewrite (HG r (line r r 0)). reflexivity.
      * cbn. intros rho delta t.
        rewrite (Dn_ext _ _ (fun u => (F (line rho delta u) * inv (G rho)) mod p)).
        -- apply (Deg_scale V line p 2 (inv (G rho)) F HF rho delta).
        -- intros u. rewrite (HG _ rho). reflexivity.
    + discriminate.
  - (* add *)
    apply (fun_ext_SemDeg _ _ (fun r => (F r + G r) mod p)); [intros; apply Hden|].
    destruct a, b; cbn in Hnq; try discriminate;
      try (apply Constant_binop with (h := fun x y => (x + y) mod p); assumption);
      match goal with
      | |- SemDeg (sound_deg IAdd ?a ?b) _ =>
        apply (Deg_to_SemDeg (Nat.max (deg_rank a) (deg_rank b))); [|cbn; lia];
        apply Deg_add; apply SemDeg_to_Deg; cbn; (assumption || lia)
      end.
  - (* sub *)
    apply (fun_ext_SemDeg _ _ (fun r => (F r - G r) mod p)); [intros; apply Hden|].
    destruct a, b; cbn in Hnq; try discriminate;
      try (apply Constant_binop with (h := fun x y => (x - y) mod p); assumption);
      match goal with
      | |- SemDeg (sound_deg ISub ?a ?b) _ =>
        apply (Deg_to_SemDeg (Nat.max (deg_rank a) (deg_rank b))); [|cbn; lia];
        apply Deg_sub; apply SemDeg_to_Deg; cbn; (assumption || lia)
      end.
Qed.

(* the bound the implementation's table attaches to `F op G` is true *)
Theorem infix_bound_sound op a b F G h :
  op_den op h -> SemDeg a F -> SemDeg b G -> SemDeg (deg_infix op a b) (fun r => h (F r) (G r)).
Proof.
  intros Hden HF HG.
  apply (SemDeg_mono V line p (sound_deg op a b)); [apply degree_table_sound|].
  apply sound_deg_sem; assumption.
Qed.

Theorem prefix_bound_sound op a F h :
  prefix_den op h -> SemDeg a F -> SemDeg (deg_prefix op a) (fun r => h (F r)).
Proof.
  intros Hden HF.
  apply (SemDeg_mono V line p (sound_deg_prefix op a)); [apply degree_prefix_table_sound|].
  destruct op; cbn [prefix_den sound_deg_prefix] in *.
  - destruct a; cbn; try exact I. apply Constant_unop. exact HF.
  - destruct a; cbn [SemDeg] in *.
    + apply Constant_unop. exact HF.
    + apply (fun_ext_SemDeg DLin _ (fun r => (F r * -1) mod p)); [intros; apply Hden|].
      cbn. apply Deg_scale. exact HF.
    + apply (fun_ext_SemDeg DQuad _ (fun r => (F r * -1) mod p)); [intros; apply Hden|].
      cbn. apply Deg_scale. exact HF.
    + exact I.
  - destruct a; cbn; try exact I. apply Constant_unop. exact HF.
Qed.

(* joins under a decision that does not depend on the valuation (phi, switch
   with a constant condition, inline arrays): whichever operand is selected,
   the infimum range's upper end bounds it *)
Theorem inf_bound_sound a b F :
  SemDeg a F \/ SemDeg b F -> SemDeg (snd (range_inf (a, a) (b, b))) F.
Proof.
  intros [H|H]; unfold range_inf, deg_max; cbn [fst snd]; rewrite degree_order_is_rank.
  - destruct (deg_leb a b) eqn:E; [apply (SemDeg_mono V line p a b F E H)|exact H].
  - destruct (deg_leb a b) eqn:E; [exact H|].
    apply (SemDeg_mono V line p b a F); [|exact H]. destruct a, b; cbn in *; congruence.
Qed.
End Sem.
