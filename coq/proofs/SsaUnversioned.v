(* What the validator condition SsaCheck.unversioned_reads_ok says (third audit, C14):
   in a graph that passes it, a statement that reads a name without a version reads
   a name that is neither a parameter nor (the key of) a declared version of a local,
   i.e. a signal, a component or an undeclared name.  A lemma, not an obligation: it
   is the unfolding of the executable condition. *)
From Coq Require Import ZArith NArith List Bool.
Require Import Model.Base Model.Ir Model.SsaCheck.
Import ListNotations.

Lemma unversioned_reads_ok_spec : forall c b s v,
  unversioned_reads_ok c = true ->
  In b (c_blocks c) -> In s (b_stmts b) -> In v (stmt_reads s) ->
  vn_version v = None -> local_key c (key_of v) = false.
Proof.
  intros c b s v H Hb Hs Hv Hn.
  unfold unversioned_reads_ok in H.
  rewrite forallb_forall in H. specialize (H b Hb).
  rewrite forallb_forall in H. specialize (H s Hs).
  rewrite forallb_forall in H. specialize (H v Hv).
  unfold unversioned_read_ok in H. rewrite Hn in H.
  now apply negb_true_iff in H.
Qed.
