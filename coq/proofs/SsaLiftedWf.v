(* C12, "after into_cfg AND after into_ssa", on the graphs with statements.

     lifted_phi_free       the graph Model.LiftFull.lift_to_ir returns holds no phi
                           expression (the hypothesis of Proofs.SsaWellFormed.into_ssa_shape)
     lifted_cfg_wf         ... and satisfies every clause of Spec.IrCfgSpec.cfg_wf: the
                           theorems of props/C12.v about Model.Lift.lift, moved from the
                           skeleton graph to the graph with statements through
                           Proofs.LiftFullProofs.liftfull_skeleton
     lifted_ssa_cfg_wf     so does the graph Model.Ssa.into_ssa makes of it (any frontier /
                           children tables)
     lifted_ssa_skeleton   and the skeleton of that graph behind its phi assignments
                           (Spec.IrSkel.ir_skel) IS the graph Model.Lift.lift builds from the
                           skeleton of the body: every C12 / C13 theorem stated about
                           [lift (skel key body) = Ok g] speaks about the SSA graph *)
From Coq Require Import ZArith NArith Ascii String.
From stdpp Require Import list.
Require Import Model.Lift Model.LiftFull Proofs.LiftBasics Proofs.LiftProofs Proofs.LiftFullProofs Proofs.LiftTheorems.
Require Model.Ir Model.Ssa Model.SsaPre Model.SsaCheck Spec.CfgSpec Spec.IrCfgSpec Spec.IrSkel.
Require Proofs.SsaFrame Proofs.SsaWellFormed Proofs.SsaConstruction.
Import Base(outcome, Ok, Err, Panic, OutOfFuel, bind).
Local Open Scope nat_scope.

Module W := Spec.IrCfgSpec.
Module K := Spec.IrSkel.
Module SW := Proofs.SsaWellFormed.

(* ======================================================================= *)
(* 1. lifting builds no phi expression                                      *)
(* ======================================================================= *)
Fixpoint erase_nophi (e : xexpr) : SsaPre.expr_nophi (erase_expr e) = true.
Proof.
  destruct e as [m z|m v|m op l r|m op e|m c t f|m n args|m vs|m v acc|m v acc rhe]; simpl.
  - reflexivity.
  - reflexivity.
  - by rewrite (erase_nophi l), (erase_nophi r).
  - apply erase_nophi.
  - by rewrite (erase_nophi c), (erase_nophi t), (erase_nophi f).
  - induction args as [|x tl IH]; [reflexivity|]. simpl. by rewrite (erase_nophi x), IH.
  - induction vs as [|x tl IH]; [reflexivity|]. simpl. by rewrite (erase_nophi x), IH.
  - induction acc as [|a tl IH]; [reflexivity|]. simpl. destruct a as [x|n]; [|exact IH]. by rewrite (erase_nophi x), IH.
  - rewrite (erase_nophi rhe), andb_true_r.
    induction acc as [|a tl IH]; [reflexivity|]. simpl. destruct a as [x|n]; [|exact IH]. by rewrite (erase_nophi x), IH.
Qed.

Lemma erase_list_nophi l : SsaPre.list_nophi (map erase_expr l) = true.
Proof. induction l as [|x tl IH]; [reflexivity|]. simpl. by rewrite erase_nophi, IH. Qed.

Lemma erase_stmt_nophi s : SsaPre.stmt_nophi (erase_stmt s) = true.
Proof.
  destruct s as [m names t dims|m c t f|m e|m v op rhe st|m l r|m args|m e]; simpl;
    rewrite ?erase_nophi, ?erase_list_nophi; try reflexivity.
  induction args as [|a tl IH]; [reflexivity|]. simpl. rewrite IH, andb_true_r.
  destruct a; simpl; [reflexivity|apply erase_nophi].
Qed.

Theorem erased_phi_free c : SsaPre.phi_free (erase_cfg c) = true.
Proof.
  unfold SsaPre.phi_free, erase_cfg. simpl. apply forallb_forall. intros b Hb.
  apply in_map_iff in Hb as (xb & <- & _). simpl. apply forallb_forall. intros s Hs.
  apply in_map_iff in Hs as (x & <- & _). apply erase_stmt_nophi.
Qed.

Theorem lifted_phi_free kind params pfile ploc body c :
  lift_to_ir kind params pfile ploc body = Ok c -> SsaPre.phi_free c = true.
Proof. unfold lift_to_ir. intros H. inv_bind H. injection H as <-. apply erased_phi_free. Qed.

(* ======================================================================= *)
(* 2. from the skeleton graph to the graph with statements                  *)
(* ======================================================================= *)
Lemma nth_error_lookup {A} (l : list A) i : nth_error l i = l !! i.
Proof. revert i. induction l as [|x tl IH]; intros [|i]; simpl; auto. Qed.

Lemma in_map_of_nat j l : In (N.of_nat j) (map N.of_nat l) <-> j ∈ l.
Proof.
  rewrite <- elem_of_list_In. split.
  - intros H. apply elem_of_list_fmap in H as (y & Hy & Hin). apply Nat2N.inj in Hy. by subst.
  - intros H. apply elem_of_list_fmap. eauto.
Qed.

Lemma in_map_of_nat_inv x l : In x (map N.of_nat l) -> exists j, x = N.of_nat j /\ j ∈ l.
Proof. intros H. apply in_map_iff in H as (j & <- & Hj). exists j. split; [done|]. by apply elem_of_list_In. Qed.

Lemma erase_stmt_branch x m e t f : erase_stmt x = Ir.SIf m e t f ->
  exists c t0 f0, x = XIf m c t0 f0 /\ t = N.of_nat t0 /\ f = option_map N.of_nat f0.
Proof. destruct x; simpl; intros H; try discriminate. injection H as <- <- <- <-. by eexists _, _, _. Qed.

Section Bridge.
Context (key : Ir.meta -> nat) (body : sk) (xbs : list xblock) (c : Ir.cfg).
Hypothesis Hl : Lift.lift body = Ok (map (skel_block key) xbs).
Hypothesis Hc : Ir.c_blocks c = map erase_block xbs.

Local Notation g := (map (skel_block key) xbs).

Lemma blk_inv i b : W.blk c i = Some b -> exists xb, xbs !! i = Some xb /\ b = erase_block xb.
Proof.
  unfold W.blk. rewrite Hc, nth_error_lookup. intros H.
  change (map erase_block xbs) with (erase_block <$> xbs) in H. rewrite list_lookup_fmap in H.
  destruct (xbs !! i) as [xb|]; [|discriminate]. injection H as <-. eauto.
Qed.

Lemma blk_of i xb : xbs !! i = Some xb -> W.blk c i = Some (erase_block xb).
Proof.
  intros H. unfold W.blk. rewrite Hc, nth_error_lookup.
  change (map erase_block xbs) with (erase_block <$> xbs). by rewrite list_lookup_fmap, H.
Qed.

Lemma g_of i xb : xbs !! i = Some xb -> g !! i = Some (skel_block key xb).
Proof. intros H. change g with (skel_block key <$> xbs). by rewrite list_lookup_fmap, H. Qed.

Lemma g_inv i b : g !! i = Some b -> exists xb, xbs !! i = Some xb /\ b = skel_block key xb.
Proof.
  change g with (skel_block key <$> xbs). rewrite list_lookup_fmap.
  destruct (xbs !! i) as [xb|]; [|discriminate]. intros H. injection H as <-. eauto.
Qed.

Lemma nblocks_g : W.nblocks c = length g.
Proof. unfold W.nblocks. by rewrite Hc, !map_length. Qed.

Lemma edge_iff i j : W.edge c i j <-> CfgSpec.edge g i j.
Proof.
  split.
  - intros (b & Hb & Hin). destruct (blk_inv _ _ Hb) as (xb & Hx & ->). simpl in Hin.
    apply in_map_of_nat in Hin. exists (skel_block key xb). split; [by apply g_of|done].
  - intros (b & Hb & Hin). destruct (g_inv _ _ Hb) as (xb & Hx & ->). simpl in Hin.
    exists (erase_block xb). split; [by apply blk_of|]. simpl. by apply in_map_of_nat.
Qed.

Lemma path_iff i l j : W.path c i l j <-> CfgSpec.path g i l j.
Proof.
  split; intros H; induction H as [i Hi|i k l j He _ IH].
  - constructor. by rewrite <- nblocks_g.
  - econstructor; [by apply edge_iff|done].
  - constructor. by rewrite nblocks_g.
  - econstructor; [by apply edge_iff|done].
Qed.

Lemma in_cons_iff (i : nat) l : In i (0 :: l) <-> i ∈ 0 :: l.
Proof. by rewrite elem_of_list_In. Qed.

(* the last statement *)
Lemma last_branch xb m e t f : W.last_stmt (erase_block xb) = Some (Ir.SIf m e t f) ->
  exists t0 f0, last (b_items (skel_block key xb)) = Some (IBranch (key m) t0 f0) /\
                t = N.of_nat t0 /\ f = option_map N.of_nat f0.
Proof.
  unfold W.last_stmt. simpl. rewrite nth_error_lookup, map_length.
  change (map erase_stmt (xb_stmts xb)) with (erase_stmt <$> xb_stmts xb). rewrite list_lookup_fmap.
  destruct (xb_stmts xb !! pred (length (xb_stmts xb))) as [x|] eqn:E; [|discriminate]. simpl. intros H.
  injection H as H. apply erase_stmt_branch in H as (c0 & t0 & f0 & -> & -> & ->).
  exists t0, f0. split; [|done]. rewrite last_lookup, map_length.
  change (map (skel_item key) (xb_stmts xb)) with (skel_item key <$> xb_stmts xb). by rewrite list_lookup_fmap, E.
Qed.

Lemma ends_branch_iff xb : W.ends_in_branch (erase_block xb) <-> CfgSpec.ends_in_branch (skel_block key xb).
Proof.
  split.
  - intros (s & Hs & (m & e & t & f & ->)). destruct (last_branch _ _ _ _ _ Hs) as (t0 & f0 & H & _). do 3 eexists. exact H.
  - intros (cc & t & f & H). rewrite last_lookup in H. simpl in H. rewrite map_length in H.
    change (map (skel_item key) (xb_stmts xb)) with (skel_item key <$> xb_stmts xb) in H. rewrite list_lookup_fmap in H.
    destruct (xb_stmts xb !! pred (length (xb_stmts xb))) as [x|] eqn:E; [|discriminate]. simpl in H.
    destruct x as [| m c0 t0 f0| | | | |]; try discriminate.
    exists (erase_stmt (XIf m c0 t0 f0)). split; [|simpl; do 4 eexists; reflexivity].
    unfold W.last_stmt. simpl. rewrite nth_error_lookup, map_length.
    change (map erase_stmt (xb_stmts xb)) with (erase_stmt <$> xb_stmts xb). by rewrite list_lookup_fmap, E.
Qed.

Theorem skeleton_cfg_wf : W.cfg_wf c.
Proof.
  pose proof (entry_no_pred _ _ Hl) as [E1 (b0 & E2 & E3)].
  pose proof (preds_succs_mirror _ _ Hl) as M.
  constructor.
  - intros i b Hb. destruct (blk_inv _ _ Hb) as (xb & Hx & ->). simpl. f_equal.
    exact (E1 _ _ (g_of _ _ Hx)).
  - destruct (g_inv _ _ E2) as (xb & Hx & ->). exists (erase_block xb). split; [by apply blk_of|].
    simpl in *. by rewrite E3.
  - intros i b x Hb Hx. destruct (blk_inv _ _ Hb) as (xb & Hxb & ->). rewrite nblocks_g. simpl in Hx.
    destruct Hx as [Hx|Hx]; apply in_map_of_nat_inv in Hx as (j & -> & Hj); rewrite Nat2N.id.
    + destruct (proj1 (M i j)) as (bj & Hbj & _); [exists (skel_block key xb); split; [by apply g_of|done]|].
      by apply lookup_lt_Some in Hbj.
    + destruct (proj2 (M j i)) as (bj & Hbj & _); [exists (skel_block key xb); split; [by apply g_of|done]|].
      by apply lookup_lt_Some in Hbj.
  - intros i j. split.
    + intros (bi & Hbi & Hin). destruct (blk_inv _ _ Hbi) as (xb & Hx & ->). simpl in Hin. apply in_map_of_nat in Hin.
      destruct (proj1 (M i j)) as (bj & Hbj & Hin'); [exists (skel_block key xb); split; [by apply g_of|done]|].
      destruct (g_inv _ _ Hbj) as (xj & Hxj & ->). exists (erase_block xj). split; [by apply blk_of|].
      simpl. by apply in_map_of_nat.
    + intros (bj & Hbj & Hin). destruct (blk_inv _ _ Hbj) as (xb & Hx & ->). simpl in Hin. apply in_map_of_nat in Hin.
      destruct (proj2 (M i j)) as (bi & Hbi & Hin'); [exists (skel_block key xb); split; [by apply g_of|done]|].
      destruct (g_inv _ _ Hbi) as (xi & Hxi & ->). exists (erase_block xi). split; [by apply blk_of|].
      simpl. by apply in_map_of_nat.
  - intros i b k s Hb Hk (m & e & t & f & ->). destruct (blk_inv _ _ Hb) as (xb & Hx & ->). simpl in *.
    rewrite nth_error_lookup in Hk. change (map erase_stmt (xb_stmts xb)) with (erase_stmt <$> xb_stmts xb) in Hk.
    rewrite list_lookup_fmap in Hk. destruct (xb_stmts xb !! k) as [x|] eqn:E; [|discriminate]. injection Hk as Hk.
    apply erase_stmt_branch in Hk as (c0 & t0 & f0 & -> & _ & _).
    pose proof (branch_only_last _ _ Hl i (skel_block key xb) k (key m) t0 f0 (g_of _ _ Hx)) as B. simpl in B.
    rewrite map_length in *. apply B.
    change (map (skel_item key) (xb_stmts xb)) with (skel_item key <$> xb_stmts xb). by rewrite list_lookup_fmap, E.
  - intros i b m e t f Hb Hlast. destruct (blk_inv _ _ Hb) as (xb & Hx & ->).
    destruct (last_branch _ _ _ _ _ Hlast) as (t0 & f0 & Hl0 & -> & ->).
    destruct (branch_targets_exist_and_are_succs _ _ Hl i _ _ _ _ (g_of _ _ Hx) Hl0) as (T1 & T2 & T3 & T4).
    rewrite nblocks_g, Nat2N.id. split; [by rewrite T1|]. split; [done|]. split; [simpl; by apply in_map_of_nat|].
    intros x Hf. destruct f0 as [y|]; [|discriminate]. injection Hf as <-.
    destruct (T4 y eq_refl) as (F1 & F2 & F3). rewrite Nat2N.id. split; [done|]. split; [simpl; by apply in_map_of_nat|].
    intros Heq. apply Nat2N.inj in Heq. done.
  - intros i b Hb. destruct (blk_inv _ _ Hb) as (xb & Hx & ->).
    destruct (at_most_two_succs _ _ Hl i _ (g_of _ _ Hx)) as (A1 & A2 & A3). simpl in *.
    rewrite map_length. split; [|split; [done|]].
    + apply NoDup_ListNoDup. change (map N.of_nat (xb_succs xb)) with (N.of_nat <$> xb_succs xb).
      assert (Inj eq eq N.of_nat) by (intros ? ?; apply Nat2N.inj). by apply NoDup_fmap_2.
    + intros Hn. apply A3. intros He. apply Hn. by apply ends_branch_iff.
  - intros j Hj. rewrite nblocks_g in Hj. destruct (all_reachable _ _ Hl j Hj) as (l & Hp). exists l. by apply path_iff.
  - intros i j Hj Hd. rewrite nblocks_g in Hj. apply (dom_implies_le _ _ Hl i j Hj).
    intros l Hp. apply in_cons_iff. apply Hd. by apply path_iff.
  - intros j Hj. rewrite nblocks_g in Hj. destruct (descending_path _ _ Hl j Hj) as (l & Hp & Hle). exists l.
    split; [by apply path_iff|]. intros x Hx. apply Hle. by apply in_cons_iff.
Qed.
End Bridge.

Theorem lifted_cfg_wf kind params pfile ploc body c :
  lift_to_ir kind params pfile ploc body = Ok c -> W.cfg_wf c.
Proof.
  unfold lift_to_ir. intros H. inv_bind H. injection H as <-.
  eapply (skeleton_cfg_wf (fun _ => 0)); [exact (liftfull_skeleton _ _ _ _ _ _ _ E)|reflexivity].
Qed.

Theorem lifted_ssa_cfg_wf kind params pfile ploc body c frontier children c' :
  lift_to_ir kind params pfile ploc body = Ok c ->
  Ssa.into_ssa frontier children c = Ssa.SOk c' ->
  W.ssa_shape_of c c' /\ W.cfg_wf c'.
Proof.
  intros H Hs. pose proof (SW.into_ssa_shape _ _ _ _ (lifted_phi_free _ _ _ _ _ _ H) Hs) as Sh.
  split; [exact Sh|]. eapply SW.ssa_shape_keeps_wf; [exact Sh|]. eapply lifted_cfg_wf. exact H.
Qed.

(* ======================================================================= *)
(* 3. the skeleton of the SSA graph is the lifted skeleton graph            *)
(* ======================================================================= *)
Lemma is_phi_b_iff s : K.is_phi_b s = true <-> W.is_phi s.
Proof.
  split.
  - destruct s as [| | |m v op rhe sval stype| | |]; try discriminate. destruct rhe; try discriminate.
    intros _. do 7 eexists. reflexivity.
  - intros (m & x & op & args & k & sv & st & ->). reflexivity.
Qed.

Lemma drop_phis_app P B : Forall W.is_phi P -> Forall (fun s => ~ W.is_phi s) B -> K.drop_phis (P ++ B) = B.
Proof.
  intros HP HB. induction HP as [|p tl Hp _ IH]; simpl.
  - destruct HB as [|s tb Hs _]; [done|]. simpl. destruct (K.is_phi_b s) eqn:E; [|done].
    by apply is_phi_b_iff in E.
  - apply is_phi_b_iff in Hp. by rewrite Hp.
Qed.

Lemma same_kind_item key a s : W.same_kind a s -> K.ir_item key s = K.ir_item key a.
Proof.
  destruct a, s; simpl; try done.
  - by intros [-> _].
  - by intros (-> & -> & ->).
  - by intros ->.
  - by intros [-> _].
  - by intros ->.
  - by intros ->.
  - by intros ->.
Qed.

Lemma same_kind_items key : forall A B, Forall2 W.same_kind A B -> map (K.ir_item key) B = map (K.ir_item key) A.
Proof. intros A B H. induction H as [|a s ta tb Hk _ IH]; [done|]. simpl. by rewrite (same_kind_item key a s Hk), IH. Qed.

Lemma erase_item key x : K.ir_item key (erase_stmt x) = skel_item key x.
Proof. destruct x as [| m c t f| | | | |]; simpl; try done. rewrite Nat2N.id. by destruct f as [y|]; simpl; rewrite ?Nat2N.id. Qed.

Lemma map_to_of_nat l : map N.to_nat (map N.of_nat l) = l.
Proof. rewrite map_map. rewrite <- (map_id l) at 2. apply map_ext. apply Nat2N.id. Qed.

Lemma shape_skel_block key xb b' :
  W.same_frame (erase_block xb) b' -> W.phis_then_image (erase_block xb) b' ->
  K.ir_skel_block key b' = skel_block key xb.
Proof.
  intros (Hi & Hd & Hp & Hs) (P & B & Hst & HP & HB & HK). unfold K.ir_skel_block, skel_block.
  rewrite Hi, Hd, Hp, Hs, Hst, (drop_phis_app _ _ HP HB), (same_kind_items key _ _ HK). simpl.
  rewrite !Nat2N.id, !map_to_of_nat. f_equal. rewrite map_map. apply map_ext. apply erase_item.
Qed.

Lemma shape_skel key xc c' : W.ssa_shape_of (erase_cfg xc) c' -> K.ir_skel key c' = map (skel_block key) (xc_blocks xc).
Proof.
  unfold W.ssa_shape_of, K.ir_skel, erase_cfg. simpl. generalize (Ir.c_blocks c'). induction (xc_blocks xc) as [|xb tl IH];
    intros l H; inversion H as [|? b' ? t' [Hf Hi] Ht]; subst; [done|].
  simpl. by rewrite (shape_skel_block key xb b' Hf Hi), (IH _ Ht).
Qed.

Theorem lifted_ssa_skeleton key kind params pfile ploc body r frontier children c' :
  try_lift_impl kind params pfile ploc body = Ok r ->
  Ssa.into_ssa frontier children (erase_cfg (l_cfg r)) = Ssa.SOk c' ->
  Lift.lift (skel key body) = Ok (K.ir_skel key c').
Proof.
  intros H Hs. rewrite (shape_skel key (l_cfg r) c').
  - exact (liftfull_skeleton key _ _ _ _ _ _ H).
  - exact (SW.into_ssa_shape _ _ _ _ (erased_phi_free _) Hs).
Qed.

(* e.g. the loop depths recorded in the SSA graph are the syntactic loop nesting of the source *)
Theorem lifted_ssa_loop_depths key kind params pfile ploc body r frontier children c' :
  try_lift_impl kind params pfile ploc body = Ok r ->
  Ssa.into_ssa frontier children (erase_cfg (l_cfg r)) = Ssa.SOk c' ->
  CfgSpec.graph_items (K.ir_skel key c') = CfgSpec.nesting 0 (skel key body).
Proof. intros H Hs. apply loop_depth_is_nesting. eapply lifted_ssa_skeleton; eassumption. Qed.

(* before the conversion: the same view of the lifted graph itself *)
Theorem lifted_skeleton key kind params pfile ploc body r :
  try_lift_impl kind params pfile ploc body = Ok r ->
  Lift.lift (skel key body) = Ok (K.ir_skel key (erase_cfg (l_cfg r))).
Proof.
  intros H. rewrite (liftfull_skeleton key _ _ _ _ _ _ H). f_equal. symmetry.
  unfold K.ir_skel, erase_cfg. simpl. rewrite map_map. apply map_ext. intros xb.
  unfold K.ir_skel_block, skel_block. simpl. rewrite !Nat2N.id, !map_to_of_nat. f_equal.
  assert (D : K.drop_phis (map erase_stmt (xb_stmts xb)) = map erase_stmt (xb_stmts xb)).
  { destruct (xb_stmts xb) as [|x tl]; [done|]. simpl. destruct x as [| | |m v op rhe st| | |]; try done. by destruct rhe. }
  rewrite D, map_map. apply map_ext. apply erase_item.
Qed.

(* both facts about the lifted graph in one statement (props/C12.v) *)
Theorem lifted_graph_wf kind params pfile ploc body c :
  lift_to_ir kind params pfile ploc body = Ok c -> SsaPre.phi_free c = true /\ W.cfg_wf c.
Proof. intros H. split; [eapply lifted_phi_free|eapply lifted_cfg_wf]; exact H. Qed.
