(* C14, SSA construction, part 1: phi placement by the work list [insert_phis].
   For ALL frontier tables and ALL unversioned graphs, when the work list ends:
     - every block is its original block with statements  x = phi()  prepended, for
       variables x that some block of the original graph assigns (tag Local);
     - placement is CLOSED: if block a assigns x (or has received a phi for x) then every
       block listed in the frontier row of a has a phi for x                     (H1). *)
From Coq Require Import ZArith NArith List Bool Lia Arith.
Require Import Model.Base Model.Ir Model.SsaCheck Model.SsaErase Model.Ssa Model.SsaPre.
Require Import Proofs.IrInd Proofs.IrFacts Proofs.SsaNoPanic Proofs.SsaFuel Proofs.SsaConstruction.
Import ListNotations.

Lemma dedup_v_in_conv : forall l v, In v l -> In v (dedup_v l).
Proof.
  induction l as [|x tl IH]; simpl; intros v H; [exact H|].
  destruct (existsb (vname_eqb x) tl) eqn:E.
  - destruct H as [->|H]; [|apply IH; exact H].
    apply existsb_exists in E. destruct E as (y & Hy & Hxy). apply vname_eqb_eq in Hxy. subst y. apply IH. exact Hy.
  - destruct H as [->|H]; [left; reflexivity|right; apply IH; exact H].
Qed.

Lemma vars_written_iff b v : In v (vars_written b) <-> In v (wr b).
Proof. split; [apply vars_written_wr|apply dedup_v_in_conv]. Qed.

Lemma has_phi_exists v b : has_phi v b = true <-> exists s, In s (b_stmts b) /\ is_phi_for v s = true.
Proof. unfold has_phi. apply existsb_exists. Qed.

(* ---- add_phis ---- *)
Lemma add_phis_spec : forall vars b p b' p', add_phis vars b p = (b', p') ->
  (forall v, In v vars -> vn_version v = None -> has_phi v b' = true) /\
  (forall v, has_phi v b = true -> has_phi v b' = true) /\
  (p' = p -> b' = b) /\ p <= p' /\
  exists vs', b_stmts b' = map phi_stmt_for vs' ++ b_stmts b /\ (forall v, In v vs' -> In v vars) /\
              b_succs b' = b_succs b.
Proof.
  induction vars as [|v tl IH]; intros b p b' p' H; simpl in H.
  - inversion H; subst. split; [intros v []|]. split; [auto|]. split; [auto|]. split; [lia|].
    exists []. split; [reflexivity|]. split; [intros v []|reflexivity].
  - destruct (existsb (is_phi_for v) (b_stmts b)) eqn:E.
    + destruct (IH _ _ _ _ H) as (A & M & Q & L & vs' & S1 & S2 & S3). repeat split; auto.
      * intros w [<-|Hw] Hv; [apply M; exact E|apply A; assumption].
      * exists vs'. repeat split; auto. intros w Hw. right. apply S2. exact Hw.
    + destruct (IH _ _ _ _ H) as (A & M & Q & L & vs' & S1 & S2 & S3).
      assert (M1 : forall w, has_phi w b = true -> has_phi w (set_stmts b (phi_stmt_for v :: b_stmts b)) = true).
      { intros w Hw. unfold has_phi in *. cbn [set_stmts b_stmts existsb]. rewrite Hw. apply orb_true_r. }
      repeat split.
      * intros w [<-|Hw] Hv; [|apply A; assumption]. apply M. unfold has_phi. cbn [set_stmts b_stmts existsb].
        rewrite (is_phi_for_own _ Hv). reflexivity.
      * intros w Hw. apply M. apply M1. exact Hw.
      * intros Hp. lia.
      * lia.
      * exists (vs' ++ [v]). cbn [set_stmts b_stmts] in S1, S3. rewrite S1, map_app, <- app_assoc. repeat split; auto.
        intros w Hw. apply in_app_or in Hw. destruct Hw as [Hw|[<-|[]]]; [right; apply S2; exact Hw|left; reflexivity].
Qed.

(* block b' is block b with phis for some of [vars] prepended *)
Definition grows (vars : list vname) (b b' : block) : Prop :=
  (forall v, has_phi v b = true -> has_phi v b' = true) /\
  exists vs', b_stmts b' = map phi_stmt_for vs' ++ b_stmts b /\ (forall v, In v vs' -> In v vars) /\
              b_succs b' = b_succs b.

Lemma grows_refl vars b : grows vars b b.
Proof. split; [auto|]. exists []. repeat split; auto. intros v []. Qed.

Lemma grows_trans vars a b c : grows vars a b -> grows vars b c -> grows vars a c.
Proof.
  intros (M1 & v1 & S1 & I1 & U1) (M2 & v2 & S2 & I2 & U2). split; [auto|].
  exists (v2 ++ v1). rewrite S2, S1, map_app, <- app_assoc. repeat split; [|congruence].
  intros v Hv. apply in_app_or in Hv. destruct Hv; auto.
Qed.

(* ---- process_frontier ---- *)
Lemma nth_error_update_nth_const {A} (l : list A) i x y :
  nth_error l i = Some x -> nth_error (update_nth l i (fun _ => y)) i = Some y.
Proof. intros H. rewrite (update_nth_same (fun _ => y) l i x H). reflexivity. Qed.

Lemma update_nth_id {A} (l : list A) i x : nth_error l i = Some x -> update_nth l i (fun _ => x) = l.
Proof.
  revert i. induction l as [|y tl IH]; intros [|i] H; simpl in *; try discriminate.
  - inversion H. reflexivity.
  - rewrite (IH i H). reflexivity.
Qed.

Lemma process_frontier_spec vars : forall fr bs work bs' work',
  process_frontier vars fr bs work = (bs', work') ->
  (forall f bf v, In f fr -> nth_error bs' (N.to_nat f) = Some bf -> In v vars -> vn_version v = None -> has_phi v bf = true) /\
  (forall i b', nth_error bs' i = Some b' -> exists b, nth_error bs i = Some b /\ grows vars b b') /\
  (forall i, nth_error bs' i = nth_error bs i \/ In i work') /\
  (forall i, In i work -> In i work') /\
  length bs' = length bs.
Proof.
  induction fr as [|f tl IH]; intros bs work bs' work' H; simpl in H.
  - inversion H; subst. repeat split; auto.
    intros i b' Hb. exists b'. split; [exact Hb|apply grows_refl].
  - destruct (nth_error bs (N.to_nat f)) as [b|] eqn:Eb.
    + destruct (add_phis vars b 0) as [b1 pushes] eqn:Ea.
      destruct (add_phis_spec _ _ _ _ _ Ea) as (A & M & Q & _ & vs' & S1 & S2 & S3).
      assert (G1 : grows vars b b1) by (split; [exact M|exists vs'; auto]).
      destruct (IH _ _ _ _ H) as (A2 & G2 & C2 & W2 & L2).
      set (bs1 := update_nth bs (N.to_nat f) (fun _ => b1)) in *.
      assert (Hf1 : nth_error bs1 (N.to_nat f) = Some b1) by (eapply nth_error_update_nth_const; exact Eb).
      repeat split.
      * intros f' bf v [<-|Hf'] Hbf Hv Hn; [|eapply A2; eassumption].
        destruct (G2 _ _ Hbf) as (bm & Hbm & Mm & _). rewrite Hf1 in Hbm. inversion Hbm; subst bm.
        apply Mm. apply A; assumption.
      * intros i b' Hb'. destruct (G2 _ _ Hb') as (bm & Hbm & Gm).
        destruct (Nat.eq_dec (N.to_nat f) i) as [<-|Hne].
        -- rewrite Hf1 in Hbm. inversion Hbm; subst bm. exists b. split; [exact Eb|eapply grows_trans; eassumption].
        -- unfold bs1 in Hbm. rewrite update_nth_other in Hbm by exact Hne. exists bm. auto.
      * intros i. destruct (C2 i) as [Hs|Hw]; [|right; exact Hw].
        destruct (Nat.eq_dec (N.to_nat f) i) as [<-|Hne].
        -- destruct pushes as [|k].
           ++ left. rewrite Hs. unfold bs1. rewrite (Q eq_refl), (update_nth_id bs _ b Eb). reflexivity.
           ++ right. apply W2. apply in_or_app. left. simpl. left. reflexivity.
        -- left. rewrite Hs. unfold bs1. apply update_nth_other. exact Hne.
      * intros i Hi. apply W2. apply in_or_app. right. exact Hi.
      * rewrite L2. unfold bs1. apply update_nth_length.
    + destruct (IH _ _ _ _ H) as (A2 & G2 & C2 & W2 & L2). repeat split; auto.
      intros f' bf v [<-|Hf'] Hbf Hv Hn; [|eapply A2; eassumption].
      destruct (G2 _ _ Hbf) as (bm & Hbm & _). congruence.
Qed.

(* ---- the work list ---- *)
Section WorkList.
Variable frontier : list (list N).
Variable bs0 : list block.

Definition written_any (v : vname) : Prop := exists b0, In b0 bs0 /\ In v (wr b0).

(* block b is the original block b0 with phi statements prepended *)
Definition placed (b0 b : block) : Prop :=
  b_succs b = b_succs b0 /\
  exists vs, b_stmts b = map phi_stmt_for vs ++ b_stmts b0 /\
             forall v, In v vs -> vn_version v = None /\ written_any v.

Definition closed_at (bs : list block) (a : nat) : Prop :=
  forall ba v f bf, nth_error bs a = Some ba -> In v (vars_written ba) -> In f (nth a frontier []) ->
    nth_error bs (N.to_nat f) = Some bf -> has_phi v bf = true.

Hypothesis Hunv : forall b0 v, In b0 bs0 -> In v (wr b0) -> vn_version v = None.

Lemma wr_app_phis vs ss b :
  b_stmts b = map phi_stmt_for vs ++ ss ->
  wr b = map without_version vs ++ flat_map (fun s => match stmt_local_written s with Some v => [v] | None => [] end) ss.
Proof.
  intros H. unfold wr. rewrite H, flat_map_app. f_equal. clear H.
  induction vs as [|v tl IH]; [reflexivity|]. simpl. f_equal. exact IH.
Qed.

Lemma without_version_unv v : vn_version v = None -> without_version v = v.
Proof. destruct v; simpl; intros ->; reflexivity. Qed.

Lemma map_without_version_unv vs : (forall v, In v vs -> vn_version v = None) -> map without_version vs = vs.
Proof.
  induction vs as [|v tl IH]; intros H; [reflexivity|]. simpl. rewrite (without_version_unv v), IH; auto.
  - intros w Hw. apply H. right. exact Hw.
  - apply H. left. reflexivity.
Qed.

Lemma placed_wr b0 b v : In b0 bs0 -> placed b0 b -> In v (wr b) -> vn_version v = None /\ written_any v.
Proof.
  intros Hb0 (_ & vs & Hs & Hvs) Hv. rewrite (wr_app_phis vs (b_stmts b0) b Hs) in Hv.
  rewrite map_without_version_unv in Hv by (intros w Hw; apply Hvs; exact Hw).
  apply in_app_or in Hv. destruct Hv as [Hv|Hv]; [apply Hvs; exact Hv|].
  split; [eapply Hunv; eassumption|]. exists b0. auto.
Qed.

Lemma placed_grows vars b0 b b' :
  placed b0 b -> grows vars b b' -> (forall v, In v vars -> vn_version v = None /\ written_any v) -> placed b0 b'.
Proof.
  intros (Su & vs & Hs & Hvs) (_ & vs' & Hs' & Hvs' & Su') Hvars. split; [congruence|].
  exists (vs' ++ vs). rewrite Hs', Hs, map_app, <- app_assoc. split; [reflexivity|].
  intros v Hv. apply in_app_or in Hv. destruct Hv as [Hv|Hv]; [apply Hvars; apply Hvs'; exact Hv|apply Hvs; exact Hv].
Qed.

Definition wl_inv (bs : list block) (work : list nat) : Prop :=
  Forall2 placed bs0 bs /\ forall a, ~ In a work -> closed_at bs a.

Lemma forall2_nth_l {A B} (R : A -> B -> Prop) : forall l0 l i x, Forall2 R l0 l -> nth_error l i = Some x ->
  exists x0, nth_error l0 i = Some x0 /\ R x0 x.
Proof.
  intros l0 l i x H. revert i. induction H as [|x0 y t0 t Hx Ht IH]; intros [|i] Hi; simpl in *; try discriminate.
  - inversion Hi; subst. eauto.
  - apply IH. exact Hi.
Qed.

Lemma forall2_pointwise {A B} (R : A -> B -> Prop) : forall l0 l, length l0 = length l ->
  (forall i x0 x, nth_error l0 i = Some x0 -> nth_error l i = Some x -> R x0 x) -> Forall2 R l0 l.
Proof.
  induction l0 as [|a t IH]; intros [|b t'] HL H; simpl in HL; try discriminate; constructor.
  - apply (H 0); reflexivity.
  - apply IH; [lia|]. intros i x0 x H1 H2. apply (H (S i)); assumption.
Qed.

Lemma insert_phis_closed : forall fuel bs work bs',
  insert_phis fuel frontier bs work = SOk bs' -> wl_inv bs work -> wl_inv bs' [].
Proof.
  induction fuel as [|fuel IH]; intros bs work bs' H Hi.
  - destruct work; simpl in H; [|discriminate]. inversion H; subst. exact Hi.
  - destruct work as [|cur rest]; simpl in H; [inversion H; subst; exact Hi|].
    destruct (nth_error bs cur) as [b|] eqn:Eb; [|discriminate].
    destruct Hi as [HP HC].
    destruct (vars_written b) as [|v0 vs0] eqn:Ev.
    + eapply IH; [exact H|]. split; [exact HP|]. intros a Ha.
      destruct (Nat.eq_dec a cur) as [->|Hne].
      * intros ba v f bf Hba Hv. rewrite Eb in Hba. inversion Hba; subst ba. rewrite Ev in Hv. destruct Hv.
      * apply HC. intros [E|Hin]; [congruence|exact (Ha Hin)].
    + destruct (process_frontier (v0 :: vs0) (nth cur frontier []) bs rest) as [bs1 work1] eqn:Ep.
      destruct (process_frontier_spec _ _ _ _ _ _ Ep) as (A & G & C & W & L).
      eapply IH; [exact H|].
      (* the written variables of the popped block are unversioned and written in the original graph *)
      destruct (forall2_nth_l _ _ _ _ _ HP Eb) as (b0 & Hb0 & Pb).
      assert (Hvars : forall v, In v (v0 :: vs0) -> vn_version v = None /\ written_any v).
      { intros v Hv. rewrite <- Ev in Hv. apply vars_written_iff in Hv.
        eapply placed_wr; [eapply nth_error_In; exact Hb0|exact Pb|exact Hv]. }
      split.
      * apply forall2_pointwise.
        { rewrite L. clear -HP. induction HP; simpl; congruence. }
        intros i x0 x Hx0 Hx. destruct (G _ _ Hx) as (bm & Hbm & Gm).
        destruct (forall2_nth_l _ _ _ _ _ HP Hbm) as (x0' & Hx0' & Pm). rewrite Hx0 in Hx0'. inversion Hx0'; subst x0'.
        eapply placed_grows; eassumption.
      * intros a Ha ba v f bf Hba Hv Hf Hbf.
        destruct (C a) as [Hs|Hw]; [|contradiction].
        rewrite Hs in Hba.
        destruct (Nat.eq_dec a cur) as [->|Hne].
        -- rewrite Eb in Hba. inversion Hba; subst ba. rewrite Ev in Hv.
           eapply A; [exact Hf|exact Hbf|exact Hv|apply Hvars; exact Hv].
        -- destruct (G _ _ Hbf) as (bm & Hbm & Mm & _). apply Mm.
           eapply (HC a); [|exact Hba|exact Hv|exact Hf|exact Hbm].
           intros [E|Hin]; [congruence|]. apply Ha. apply W. exact Hin.
Qed.

Lemma placed_self : forall bs, Forall2 (fun b0 b => b_succs b = b_succs b0 /\
    exists vs, b_stmts b = map phi_stmt_for vs ++ b_stmts b0 /\ forall v, In v vs -> vn_version v = None /\ written_any v) bs bs.
Proof.
  induction bs as [|b tl IH]; constructor; [|exact IH]. split; [reflexivity|]. exists []. split; [reflexivity|intros v []].
Qed.

(* H1: when the work list is empty, placement is closed *)
Theorem phi_placement fuel bs1 :
  insert_phis fuel frontier bs0 (rev (seq 0 (length bs0))) = SOk bs1 ->
  Forall2 placed bs0 bs1 /\ forall a, closed_at bs1 a.
Proof.
  intros H. destruct (insert_phis_closed _ _ _ _ H) as [HP HC].
  - split; [apply placed_self|]. intros a Ha ba v f bf Hba. exfalso. apply Ha.
    apply in_rev. rewrite <- in_rev. apply -> in_rev. apply in_seq. split; [lia|]. simpl. apply nth_error_Some. congruence.
  - split; [exact HP|]. intros a. apply HC. intros [].
Qed.
End WorkList.

(* ---- a block that lies in no frontier row receives no phi ---- *)
Lemma process_frontier_untouched vars i : forall fr bs work,
  ~ In i (map N.to_nat fr) -> nth_error (fst (process_frontier vars fr bs work)) i = nth_error bs i.
Proof.
  induction fr as [|f tl IH]; intros bs work Hi; simpl; [reflexivity|].
  assert (Hne : N.to_nat f <> i) by (intros E; apply Hi; left; exact E).
  assert (Htl : ~ In i (map N.to_nat tl)) by (intros E; apply Hi; right; exact E).
  destruct (nth_error bs (N.to_nat f)) as [b|]; [|apply IH; exact Htl].
  destruct (add_phis vars b 0) as [b' pushes]. rewrite IH by exact Htl. apply update_nth_other. exact Hne.
Qed.

Lemma process_frontier_work_lt vars : forall fr bs work,
  Forall (fun a => a < length bs) work -> Forall (fun a => a < length bs) (snd (process_frontier vars fr bs work)).
Proof.
  induction fr as [|f tl IH]; intros bs work Hw; simpl; [exact Hw|].
  destruct (nth_error bs (N.to_nat f)) as [b|] eqn:E; [|apply IH; exact Hw].
  destruct (add_phis vars b 0) as [b' pushes].
  set (bs1 := update_nth bs (N.to_nat f) (fun _ => b')).
  assert (L : length bs1 = length bs) by apply update_nth_length.
  rewrite <- L. apply IH. rewrite L. apply Forall_app. split; [|exact Hw].
  apply Forall_forall. intros x Hx. apply repeat_spec in Hx. subst x. apply nth_error_Some. congruence.
Qed.

Lemma insert_phis_untouched frontier i : forall fuel bs work bs',
  insert_phis fuel frontier bs work = SOk bs' -> Forall (fun a => a < length bs) work ->
  (forall a, a < length bs -> ~ In i (map N.to_nat (nth a frontier []))) ->
  nth_error bs' i = nth_error bs i.
Proof.
  induction fuel as [|fuel IH]; intros bs work bs' H Hw Hf.
  - destruct work; simpl in H; [|discriminate]. inversion H; subst. reflexivity.
  - destruct work as [|cur rest]; simpl in H; [inversion H; subst; reflexivity|].
    inversion Hw as [|? ? Hc Hr]; subst.
    destruct (nth_error bs cur) as [b|]; [|discriminate].
    destruct (vars_written b) as [|v vs] eqn:Ev; [eapply IH; eassumption|].
    destruct (process_frontier (v :: vs) (nth cur frontier []) bs rest) as [bs1 work1] eqn:Ep.
    pose proof (process_frontier_untouched (v :: vs) i (nth cur frontier []) bs rest (Hf cur Hc)) as U.
    pose proof (process_frontier_work_lt (v :: vs) (nth cur frontier []) bs rest Hr) as W.
    pose proof (process_frontier_length (v :: vs) (nth cur frontier []) bs rest) as L.
    rewrite Ep in U, W, L. cbn [fst snd] in U, W, L.
    rewrite <- U. eapply IH; [exact H|rewrite L; exact W|]. intros a Ha. apply Hf. rewrite <- L. exact Ha.
Qed.
