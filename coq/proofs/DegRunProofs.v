(* C07: the lock-step relation of Spec.DegSem REPRESENTS the concrete executions of
   Spec.DegRun.  For every family of concrete runs, one per valuation, that follow the
   same path of blocks (valuation-independent control), the family of their stores is
   reachable by Spec.DegSem.fstep - cell by cell, element by element.  Hence every
   claim of a validated graph is true of the function  valuation |-> concrete value.

   Method: a symbolic executor [sexec_*] that walks the path once for all valuations
   (assignments store denotations; a leading phi copies the argument with the running
   version, the same for every valuation); the concrete executor commutes with taking
   the store at one valuation ([cexec_*_rel]); every symbolic step is a step of
   Spec.DegSem ([sexec_*_reach]; the phi choice is constant, so pick_ok holds whatever
   the deciding conditions are). *)
From Coq Require Import ZArith NArith List Bool Lia.
Require Import Model.Base Model.Ir Model.SsaCheck Model.Propagate Model.Justify Model.DegJustify.
Require Import Spec.PolyDeg Spec.DegSem Spec.DegRun Proofs.IrInd Proofs.PolyDegProofs Proofs.DegreeProofs Proofs.DegGraphProofs.
Import ListNotations.
Local Open Scope Z_scope.

Definition orel {A B} (R : A -> B -> Prop) (a : option A) (b : option B) : Prop :=
  match a, b with
  | Some x, Some y => R x y
  | None, None => True
  | _, _ => False
  end.

Lemma cprefix_of_eq a i : cprefix_of a i = prefix_of a i.
Proof. revert i. induction a as [|x a IH]; intros [|y i]; cbn; try reflexivity; try (rewrite IH; reflexivity). Qed.

Lemma leading_phis_app ss : forall phis body, leading_phis ss = (phis, body) -> ss = phis ++ body.
Proof.
  induction ss as [|s tl IH]; intros phis body; cbn [leading_phis].
  - intros [= <- <-]. reflexivity.
  - destruct (is_phi_stmt s).
    + destruct (leading_phis tl) as [p0 b0]. intros [= <- <-]. cbn. f_equal. apply IH. reflexivity.
    + intros [= <- <-]. reflexivity.
Qed.

Section Rep.
Variable V : Type.
Variable p : Z.
Variable sem2 : infix_op -> Z -> Z -> Z.
Variable sem1 : prefix_op -> Z -> Z.
Variable call_sem : ident -> list Z -> Z.
Variable name_code : ident -> Z.
Notation den := (den V p sem2 sem1 call_sem name_code).
Notation cval := (cval p sem2 sem1 call_sem name_code).
Notation cexec_stmt := (cexec_stmt p sem2 sem1 call_sem name_code).
Notation cexec_body := (cexec_body p sem2 sem1 call_sem name_code).
Notation cexec_block := (cexec_block p sem2 sem1 call_sem name_code).
Notation cexec_path := (cexec_path p sem2 sem1 call_sem name_code).
Notation fstep := (fstep V p sem2 sem1 call_sem name_code).
Notation freachable := (freachable V p sem2 sem1 call_sem name_code).

(* the concrete cell is the family at the valuation rho, element by element *)
Definition rel_cell (rho : V) (v : cell) (F : fam V) : Prop := forall i, v i = F i rho.
Definition rel_store (rho : V) (s : cstore) (S : fstore V) : Prop := forall x, orel (rel_cell rho) (s x) (S x).

(* ---------- evaluation commutes with taking the store at one valuation ---------- *)
Section Eval.
Variable rho : V.
Variable s : cstore.
Variable S : fstore V.
Hypothesis Hrel : rel_store rho s S.

Local Notation ok e := (orel (rel_cell rho) (cval s e) (den S e)).

Lemma cval_list_rel (es : list expr) : Forall (fun e => ok e) es ->
  orel (Forall2 (rel_cell rho))
    ((fix cval_list (es : list expr) : option (list cell) :=
        match es with
        | [] => Some []
        | x :: tl => match cval s x, cval_list tl with
                     | Some v, Some vs => Some (v :: vs)
                     | _, _ => None
                     end
        end) es)
    ((fix den_list (es : list expr) : option (list (fam V)) :=
        match es with
        | [] => Some []
        | x :: tl => match den S x, den_list tl with
                     | Some F, Some Fs => Some (F :: Fs)
                     | _, _ => None
                     end
        end) es).
Proof.
  induction 1 as [|x tl Hx _ IH]; [constructor|]. simpl.
  destruct (cval s x) as [v|], (den S x) as [F|]; cbn [orel] in Hx; try contradiction.
  - match goal with |- orel _ (match ?a with Some _ => _ | None => _ end) (match ?b with Some _ => _ | None => _ end) =>
      destruct a as [vs|], b as [Fs|]; cbn [orel] in IH |- *; try contradiction; auto end.
  - exact I.
Qed.

Lemma cval_acc_rel (acc : list (access expr)) : Forall (fun e => ok e) (acc_exprs acc) ->
  orel (fun (idx : list Z) (Is : list (V -> Z)) => idx = map (fun Ix : V -> Z => Ix rho) Is)
    ((fix cval_acc (acc : list (access expr)) : option (list Z) :=
        match acc with
        | [] => Some []
        | AIdx x :: tl => match cval s x, cval_acc tl with
                          | Some v, Some idx => Some (v [] :: idx)
                          | _, _ => None
                          end
        | AComp n :: tl => match cval_acc tl with
                           | Some idx => Some (name_code n :: idx)
                           | None => None
                           end
        end) acc)
    ((fix den_acc (acc : list (access expr)) : option (list (V -> Z)) :=
        match acc with
        | [] => Some []
        | AIdx x :: tl => match den S x, den_acc tl with
                          | Some Ix, Some Is => Some (Ix [] :: Is)
                          | _, _ => None
                          end
        | AComp n :: tl => match den_acc tl with
                           | Some Is => Some ((fun _ => name_code n) :: Is)
                           | None => None
                           end
        end) acc).
Proof.
  induction acc as [|a tl IH]; intros Hall; [reflexivity|].
  destruct a as [x|n]; cbn [acc_exprs flat_map app] in Hall.
  - apply Forall_cons_iff in Hall as [Hx Ht]. specialize (IH Ht). simpl.
    destruct (cval s x) as [v|], (den S x) as [F|]; cbn [orel] in Hx; try contradiction.
    + match goal with |- orel _ (match ?a with Some _ => _ | None => _ end) (match ?b with Some _ => _ | None => _ end) =>
        destruct a as [idx|], b as [Is|]; cbn [orel] in IH |- *; try contradiction; auto end.
      cbn [map]. rewrite IH, (Hx []). reflexivity.
    + exact I.
  - specialize (IH Hall). simpl.
    match goal with |- orel _ (match ?a with Some _ => _ | None => _ end) (match ?b with Some _ => _ | None => _ end) =>
      destruct a as [idx|], b as [Is|]; cbn [orel] in IH |- *; try contradiction; auto end.
    cbn [map]. rewrite IH. reflexivity.
Qed.

Lemma cval_den : forall e, ok e.
Proof.
  induction e as [z k|v k|op l r k IHl IHr|op e k IHe|cd t f k IHc IHt IHf|n args k IHargs|vs k IHvs
                  |v acc k IHacc|v acc rhe k IHacc IHrhe|args k] using expr_ind';
    cbn [DegRun.cval DegSem.den].
  - intros i. reflexivity.
  - apply Hrel.
  - destruct (cval s l) as [a|], (den S l) as [Fa|]; cbn [orel] in IHl; try contradiction;
      destruct (cval s r) as [b|], (den S r) as [Fb|]; cbn [orel] in IHr |- *; try contradiction; auto.
    intros i. rewrite (IHl i), (IHr i). reflexivity.
  - destruct (cval s e) as [a|], (den S e) as [Fa|]; cbn [orel] in IHe |- *; try contradiction; auto.
    intros i. rewrite (IHe i). reflexivity.
  - destruct (cval s cd) as [a|], (den S cd) as [Fa|]; cbn [orel] in IHc; try contradiction;
      destruct (cval s t) as [b|], (den S t) as [Fb|]; cbn [orel] in IHt; try contradiction;
      destruct (cval s f) as [d|], (den S f) as [Fd|]; cbn [orel] in IHf |- *; try contradiction; auto.
    intros i. rewrite (IHc []), (IHt i), (IHf i). reflexivity.
  - pose proof (cval_list_rel args IHargs) as H.
    match type of H with orel _ ?a ?b => destruct a as [cs|], b as [Fs|] end; cbn [orel] in H |- *; try contradiction; auto.
    intros i. f_equal. clear -H. induction H as [|v F vs Fs Hv _ IH]; [reflexivity|]. cbn [map]. rewrite (Hv []), IH. reflexivity.
  - pose proof (cval_list_rel vs IHvs) as H.
    match type of H with orel _ ?a ?b => destruct a as [cs|], b as [Fs|] end; cbn [orel] in H |- *; try contradiction; auto.
    intros i. unfold array_cell, array_fam. destruct i as [|j rest]; [reflexivity|]. destruct (j <? 0); [reflexivity|].
    generalize (Z.to_nat j). clear -H. induction H as [|v F cs Fs Hv _ IH]; intros [|m]; cbn [nth_error]; auto.
  - pose proof (Hrel v) as Hv. pose proof (cval_acc_rel acc IHacc) as H.
    destruct (s v) as [A|], (S v) as [FA|]; cbn [orel] in Hv; try contradiction;
      (match type of H with orel _ ?a ?b => destruct a as [idx|], b as [Is|] end);
      cbn [orel] in H |- *; try contradiction; auto.
    intros i. unfold access_cell, access_fam. rewrite H. apply Hv.
  - pose proof (Hrel v) as Hv. pose proof (cval_acc_rel acc IHacc) as H.
    destruct (s v) as [A|], (S v) as [FA|]; cbn [orel] in Hv; try contradiction;
      (match type of H with orel _ ?a ?b => destruct a as [idx|], b as [Is|] end);
      cbn [orel] in H; try contradiction;
      destruct (cval s rhe) as [R|], (den S rhe) as [FR|]; cbn [orel] in IHrhe |- *; try contradiction; auto.
    intros i. unfold update_cell, update_fam. rewrite H, cprefix_of_eq.
    destruct (prefix_of _ i); [apply IHrhe|apply Hv].
  - exact I.
Qed.
End Eval.

(* ---------- the symbolic walk along a path, once for all valuations ---------- *)
Variable c : cfg.
Variable idom : list (option N).

Definition sexec_stmt (S : fstore V) (st : stmt) : option (fstore V) :=
  match st with
  | SSubst _ x _ rhe _ _ =>
    if stores_local c x then
      match den S rhe with Some F => Some (fupd V S x (Some F)) | None => None end
    else Some S
  | _ => Some S
  end.

Fixpoint sexec_body (S : fstore V) (ss : list stmt) : option (fstore V) :=
  match ss with
  | [] => Some S
  | st :: tl => match sexec_stmt S st with Some S1 => sexec_body S1 tl | None => None end
  end.

Definition sexec_phi (L : vmap) (S : fstore V) (st : stmt) : option (fstore V) :=
  match st with
  | SSubst _ x _ (EPhi args _) _ _ =>
    if stores_local c x then
      match vget L (key_of x) with
      | Some n =>
        match phi_arg x n args with
        | Some a => match S a with Some _ => Some (fupd V S x (Some (phi_fam V S (fun _ => a)))) | None => None end
        | None => None
        end
      | None => None
      end
    else Some S
  | _ => Some S
  end.

Fixpoint sexec_phis (L : vmap) (S : fstore V) (phis : list stmt) : option (fstore V) :=
  match phis with
  | [] => Some S
  | st :: tl => match sexec_phi L S st with Some S1 => sexec_phis L S1 tl | None => None end
  end.

Definition sexec_block (L : vmap) (S : fstore V) (b : block) : option (fstore V) :=
  let '(phis, body) := leading_phis (b_stmts b) in
  match sexec_phis L S phis with
  | Some S1 => sexec_body S1 body
  | None => None
  end.

Fixpoint sexec_path (L : vmap) (S : fstore V) (pi : list nat) : option (fstore V) :=
  match pi with
  | [] => Some S
  | i :: tl =>
    match nth_error (c_blocks c) i with
    | None => None
    | Some b =>
      match sexec_block L S b with
      | None => None
      | Some S1 => sexec_path (block_vmap L b) S1 tl
      end
    end
  end.

Lemma rel_store_upd rho s S x v F : rel_store rho s S -> rel_cell rho v F ->
  rel_store rho (cupd s x (Some v)) (fupd V S x (Some F)).
Proof. intros H Hv y. unfold cupd, fupd. destruct (vname_eqb x y); [exact Hv|apply H]. Qed.

Lemma cexec_stmt_rel rho s S st : rel_store rho s S ->
  orel (rel_store rho) (cexec_stmt c s st) (sexec_stmt S st).
Proof.
  intros H. destruct st; cbn [DegRun.cexec_stmt sexec_stmt orel]; try exact H.
  destruct (stores_local c v); [|exact H].
  pose proof (cval_den rho s S H rhe) as Hv.
  destruct (cval s rhe) as [a|], (den S rhe) as [F|]; cbn [orel] in Hv |- *; try contradiction; auto.
  apply rel_store_upd; assumption.
Qed.

Lemma cexec_body_rel rho ss : forall s S, rel_store rho s S ->
  orel (rel_store rho) (cexec_body c s ss) (sexec_body S ss).
Proof.
  induction ss as [|st tl IH]; intros s S H; cbn [DegRun.cexec_body sexec_body]; [exact H|].
  pose proof (cexec_stmt_rel rho s S st H) as H1.
  destruct (cexec_stmt c s st) as [s1|], (sexec_stmt S st) as [S1|]; cbn [orel] in H1 |- *; try contradiction; auto.
Qed.

Lemma cexec_phi_rel rho L s S st : rel_store rho s S ->
  orel (rel_store rho) (cexec_phi c L s st) (sexec_phi L S st).
Proof.
  intros H. destruct st; cbn [cexec_phi sexec_phi orel]; try exact H.
  destruct rhe; try exact H.
  destruct (stores_local c v); [|exact H].
  destruct (vget L (key_of v)) as [n|]; [|exact I].
  destruct (phi_arg v n args) as [a|]; [|exact I].
  pose proof (H a) as Ha.
  destruct (s a) as [va|] eqn:Esa, (S a) as [G|] eqn:ESa; cbn [orel] in Ha |- *; try contradiction; auto.
  apply rel_store_upd; [exact H|]. intros i. unfold phi_fam. rewrite ESa. apply Ha.
Qed.

Lemma cexec_phis_rel rho L phis : forall s S, rel_store rho s S ->
  orel (rel_store rho) (cexec_phis c L s phis) (sexec_phis L S phis).
Proof.
  induction phis as [|st tl IH]; intros s S H; cbn [cexec_phis sexec_phis]; [exact H|].
  pose proof (cexec_phi_rel rho L s S st H) as H1.
  destruct (cexec_phi c L s st) as [s1|], (sexec_phi L S st) as [S1|]; cbn [orel] in H1 |- *; try contradiction; auto.
Qed.

Lemma cexec_block_rel rho L s S b : rel_store rho s S ->
  orel (rel_store rho) (cexec_block c L s b) (sexec_block L S b).
Proof.
  intros H. unfold DegRun.cexec_block, sexec_block. destruct (leading_phis (b_stmts b)) as [phis body].
  pose proof (cexec_phis_rel rho L phis s S H) as H1.
  destruct (cexec_phis c L s phis) as [s1|], (sexec_phis L S phis) as [S1|]; cbn [orel] in H1 |- *; try contradiction; auto.
  apply cexec_body_rel. exact H1.
Qed.

(* a concrete run along pi is the symbolic walk along pi, taken at its valuation *)
Lemma cexec_path_rel rho pi : forall L s S s', rel_store rho s S -> cexec_path c L s pi = Some s' ->
  exists S', sexec_path L S pi = Some S' /\ rel_store rho s' S'.
Proof.
  induction pi as [|i tl IH]; intros L s S s' H; cbn [DegRun.cexec_path sexec_path].
  - intros [= <-]. eauto.
  - destruct (nth_error (c_blocks c) i) as [b|]; [|discriminate].
    pose proof (cexec_block_rel rho L s S b H) as H1.
    destruct (cexec_block c L s b) as [s1|], (sexec_block L S b) as [S1|]; cbn [orel] in H1; try contradiction; try discriminate.
    destruct (match tl with [] => true | j :: _ => branch_okb p sem2 sem1 call_sem name_code s1 b j end); [|discriminate].
    apply IH. exact H1.
Qed.

(* ---------- every symbolic step is a step of Spec.DegSem ---------- *)
Variable S0 : fstore V.

Lemma stores_local_spec x : stores_local c x = true -> decl_of c x = Some TLocal /\ is_param c x = false.
Proof.
  unfold stores_local. intros H. apply andb_true_iff in H as [H1 H2]. apply negb_true_iff in H2.
  split; [|exact H2]. destruct (decl_of c x) as [[]|]; try discriminate. reflexivity.
Qed.

Lemma den_not_phi S e F : den S e = Some F -> is_phi_e e = false.
Proof. destruct e; cbn; try reflexivity. discriminate. Qed.

Lemma sexec_stmt_reach S st S' : In st (all_stmts (c_blocks c)) -> sexec_stmt S st = Some S' ->
  freachable c idom S0 S -> freachable c idom S0 S'.
Proof.
  intros Hin He Hr. destruct st; cbn [sexec_stmt] in He; try (injection He as <-; exact Hr).
  destruct (stores_local c v) eqn:El; [|injection He as <-; exact Hr].
  destruct (stores_local_spec v El) as [Hd Hp].
  destruct (den S rhe) as [F|] eqn:Ed; [|discriminate]. injection He as <-.
  eapply fr_step; [exact Hr|]. eapply fs_assign; eauto. eapply den_not_phi; eauto.
Qed.

Lemma sexec_body_reach ss : forall S S', (forall st, In st ss -> In st (all_stmts (c_blocks c))) ->
  sexec_body S ss = Some S' -> freachable c idom S0 S -> freachable c idom S0 S'.
Proof.
  induction ss as [|st tl IH]; intros S S' Hin He Hr; cbn [sexec_body] in He.
  - injection He as <-. exact Hr.
  - destruct (sexec_stmt S st) as [S1|] eqn:E1; [|discriminate].
    apply (IH S1 S'); [intros; apply Hin; right; assumption|exact He|].
    eapply sexec_stmt_reach; eauto. apply Hin. left. reflexivity.
Qed.

Lemma phi_arg_in x n args a : phi_arg x n args = Some a -> In a args.
Proof. unfold phi_arg. intros H. apply find_some in H. apply H. Qed.

Lemma sexec_phi_reach L S st S' : In st (all_stmts (c_blocks c)) -> sexec_phi L S st = Some S' ->
  freachable c idom S0 S -> freachable c idom S0 S'.
Proof.
  intros Hin He Hr. destruct st; cbn [sexec_phi] in He; try (injection He as <-; exact Hr).
  destruct rhe; try (injection He as <-; exact Hr).
  destruct (stores_local c v) eqn:El; [|injection He as <-; exact Hr].
  destruct (stores_local_spec v El) as [Hd Hp].
  destruct (vget L (key_of v)) as [n|]; [|discriminate].
  destruct (phi_arg v n args) as [a|] eqn:Ea; [|discriminate].
  destruct (S a) as [G|] eqn:ESa; [|discriminate]. injection He as <-.
  eapply fr_step; [exact Hr|]. eapply fs_phi; eauto.
  - intros _. eapply phi_arg_in; eauto.
  - intros _. congruence.
  - (* the same argument for every valuation: nothing to decide *)
    intros b _ _ r r'. reflexivity.
Qed.

Lemma sexec_phis_reach L ss : forall S S', (forall st, In st ss -> In st (all_stmts (c_blocks c))) ->
  sexec_phis L S ss = Some S' -> freachable c idom S0 S -> freachable c idom S0 S'.
Proof.
  induction ss as [|st tl IH]; intros S S' Hin He Hr; cbn [sexec_phis] in He.
  - injection He as <-. exact Hr.
  - destruct (sexec_phi L S st) as [S1|] eqn:E1; [|discriminate].
    apply (IH S1 S'); [intros; apply Hin; right; assumption|exact He|].
    eapply sexec_phi_reach; eauto. apply Hin. left. reflexivity.
Qed.

Lemma sexec_path_reach pi : forall L S S', sexec_path L S pi = Some S' ->
  freachable c idom S0 S -> freachable c idom S0 S'.
Proof.
  induction pi as [|i tl IH]; intros L S S' He Hr; cbn [sexec_path] in He.
  - injection He as <-. exact Hr.
  - destruct (nth_error (c_blocks c) i) as [b|] eqn:Eb; [|discriminate].
    destruct (sexec_block L S b) as [S1|] eqn:E1; [|discriminate].
    apply (IH _ S1 S' He). unfold sexec_block in E1.
    destruct (leading_phis (b_stmts b)) as [phis body] eqn:Elp.
    pose proof (leading_phis_app _ _ _ Elp) as Happ.
    assert (Hall : forall st, In st (b_stmts b) -> In st (all_stmts (c_blocks c))).
    { intros st Hst. unfold all_stmts. apply in_flat_map. exists b. split; [eapply nth_error_In; eauto|exact Hst]. }
    destruct (sexec_phis L S phis) as [S2|] eqn:E2; [|discriminate].
    eapply (sexec_body_reach body S2 S1); [|exact E1|].
    + intros st Hst. apply Hall. rewrite Happ. apply in_or_app. right. exact Hst.
    + eapply (sexec_phis_reach L phis S S2); [|exact E2|exact Hr].
      intros st Hst. apply Hall. rewrite Happ. apply in_or_app. left. exact Hst.
Qed.

(* THE REPRESENTATION THEOREM, valuation-independent control: a family of concrete runs,
   one per valuation, along the same path pi, from initial stores that are the initial
   family S0 taken at the valuation, ends in stores that are ONE reachable store of the
   lock-step relation taken at the valuation. *)
Theorem same_path_runs_represented (L0 : vmap) (pi : list nat) (s0 s : V -> cstore) :
  (forall rho, rel_store rho (s0 rho) S0) ->
  (forall rho, cexec_path c L0 (s0 rho) pi = Some (s rho)) ->
  exists S, freachable c idom S0 S /\ forall rho, rel_store rho (s rho) S.
Proof.
  intros H0 Hrun. destruct (sexec_path L0 S0 pi) as [S|] eqn:E.
  - exists S. split; [eapply sexec_path_reach; [exact E|constructor]|].
    intros rho. destruct (cexec_path_rel rho pi L0 (s0 rho) S0 (s rho) (H0 rho) (Hrun rho)) as (S' & E' & Hrel).
    rewrite E in E'. injection E' as <-. exact Hrel.
  - exists S0. split; [constructor|]. intros rho. exfalso.
    destruct (cexec_path_rel rho pi L0 (s0 rho) S0 (s rho) (H0 rho) (Hrun rho)) as (S' & E' & _). congruence.
Qed.
End Rep.

(* ---------- consequence: the claims of a validated graph are true of concrete values ---------- *)
Section Claims.
Variable V : Type.
Variable line : V -> V -> Z -> V.
Variable p : Z.
Variable sem2 : infix_op -> Z -> Z -> Z.
Variable sem1 : prefix_op -> Z -> Z.
Variable call_sem : ident -> list Z -> Z.
Variable name_code : ident -> Z.
Hypothesis Hsem2 : forall op, op_den p op (sem2 op).
Hypothesis Hsem1 : forall op, prefix_den p op (sem1 op).

Lemma SemDeg_ext d (F G : V -> Z) : (forall rho, F rho = G rho) -> SemDeg V line p d F -> SemDeg V line p d G.
Proof.
  intros E. destruct d; cbn [SemDeg]; auto.
  - intros H r r'. rewrite <- !E. apply H.
  - intros H rho delta t. rewrite (Dn_ext 2 _ (fun u => F (line rho delta u))) by (intros u; symmetry; apply E). apply H.
  - intros H rho delta t. rewrite (Dn_ext 3 _ (fun u => F (line rho delta u))) by (intros u; symmetry; apply E). apply H.
Qed.

Theorem concrete_runs_claims_true (c : cfg) (idom : list (option N)) :
  djust_cfg c idom = true ->
  forall (S0 : fstore V) (L0 : vmap) (pi : list nat) (s0 s : V -> cstore),
  finit_ok V line p c S0 ->
  (forall rho, rel_store V rho (s0 rho) S0) ->
  (forall rho, cexec_path p sem2 sem1 call_sem name_code c L0 (s0 rho) pi = Some (s rho)) ->
  forall e r (val : V -> cell),
  djust_expr c e = true -> expr_deg e = Some r ->
  (forall rho, cval p sem2 sem1 call_sem name_code (s rho) e = Some (val rho)) ->
  forall i, SemDeg V line p (snd r) (fun rho => val rho i).
Proof.
  intros Hv S0 L0 pi s0 s Hi H0 Hrun e r val Hj Hd Hval i.
  destruct (same_path_runs_represented V p sem2 sem1 call_sem name_code c idom S0 L0 pi s0 s H0 Hrun) as (S & Hreach & Hrel).
  destruct (den V p sem2 sem1 call_sem name_code S e) as [F|] eqn:EF.
  - apply (SemDeg_ext (snd r) (F i)).
    + intros rho. pose proof (cval_den V p sem2 sem1 call_sem name_code rho (s rho) S (Hrel rho) e) as H.
      rewrite (Hval rho), EF in H. cbn [orel] in H. symmetry. apply H.
    + exact (justified_degrees_true V line p sem2 sem1 call_sem name_code Hsem2 Hsem1 c idom Hv S0 S e F r Hi Hreach Hj EF Hd i).
  - (* no denotation: then no valuation has a value *)
    assert (Hno : forall rho : V, False).
    { intros rho. pose proof (cval_den V p sem2 sem1 call_sem name_code rho (s rho) S (Hrel rho) e) as H.
      rewrite (Hval rho), EF in H. exact H. }
    destruct (snd r); cbn [SemDeg]; auto.
    + intros rho. destruct (Hno rho).
    + intros rho. destruct (Hno rho).
    + intros rho. destruct (Hno rho).
Qed.
End Claims.
