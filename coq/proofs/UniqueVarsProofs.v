(* Proofs for C10, first half: the mirror of ensure_unique_variables renames
   every occurrence to the name of the declaration the stack resolver of
   Proofs.ScopeStack (blocks are the only scopes, as in the pass) assigns to
   it, on EVERY statement tree; the renaming is injective on declarations, the
   reports are exactly that resolver's shadowing set, duplicate parameters are
   reported, the name.suffix split inverts the renaming.  The step from the
   stack resolver to the specification Spec.ScopeSpec.resolve (every loop body
   and branch is a scope) is Proofs.ScopeBridge; the theorems of props/C10.v
   are stated there. *)
From Coq Require Import List NArith Arith Bool Lia Decimal DecimalNat.
Require Import Model.Base Model.Ir Model.UniqueVars Spec.ScopeSpec Proofs.ScopeStack.
Import ListNotations.

(* ------------------------------------------------------------------ *)
(* identifiers                                                         *)
(* ------------------------------------------------------------------ *)

Lemma ident_eqb_eq : forall a b, ident_eqb a b = true <-> a = b.
Proof.
  intros a b. unfold ident_eqb. destruct (list_eq_dec N.eq_dec a b); split; congruence.
Qed.

Lemma ident_eqb_refl : forall a, ident_eqb a a = true.
Proof. intros. apply ident_eqb_eq. reflexivity. Qed.

Lemma ident_eqb_neq : forall a b, a <> b -> ident_eqb a b = false.
Proof.
  intros a b H. destruct (ident_eqb a b) eqn:E; auto. apply ident_eqb_eq in E. contradiction.
Qed.

Lemma find_name_assoc : forall V n (b : list (name * V)), find_name n b = assoc n b.
Proof. induction b as [|[m v] r IH]; simpl; [reflexivity|]. unfold name_eqb. rewrite IH. reflexivity. Qed.

Lemma assoc_app : forall V n (a b : list (name * V)),
  assoc n (a ++ b) = match assoc n a with Some v => Some v | None => assoc n b end.
Proof.
  induction a as [|[m v] r IH]; simpl; intros; auto.
  destruct (name_eqb n m); auto.
Qed.

Lemma get_variable_concat : forall V n (e : venv V), get_variable n e = assoc n (concat e).
Proof.
  induction e as [|b r IH]; simpl; auto.
  rewrite assoc_app, IH. reflexivity.
Qed.

Lemma lookup_concat : forall n stk, lookup n stk = assoc n (concat stk).
Proof.
  induction stk as [|b r IH]; simpl; auto.
  rewrite assoc_app, IH, find_name_assoc. reflexivity.
Qed.

Lemma assoc_none_notin : forall V n (b : list (name * V)),
  (forall v, ~ In (n, v) b) -> assoc n b = None.
Proof.
  induction b as [|[m v] r IH]; simpl; intros H; auto.
  unfold name_eqb. destruct (ident_eqb n m) eqn:E.
  - apply ident_eqb_eq in E. subst. exfalso. apply (H v). left. reflexivity.
  - apply IH. intros v' Hin. apply (H v'). right. exact Hin.
Qed.

Lemma assoc_in : forall V n (b : list (name * V)) v, assoc n b = Some v -> In (n, v) b.
Proof.
  induction b as [|[m w] r IH]; simpl; intros v H; try discriminate.
  unfold name_eqb in H. destruct (ident_eqb n m) eqn:E.
  - apply ident_eqb_eq in E. inversion H. subst. left. reflexivity.
  - right. apply IH. exact H.
Qed.

(* ------------------------------------------------------------------ *)
(* the three environments as projections of the resolver's state        *)
(* ------------------------------------------------------------------ *)

Definition dproj (b : list entry) : list (name * loc) :=
  map (fun e : entry => (fst e, snd (snd e))) b.
Definition sproj (b : list entry) : list (name * nat) :=
  flat_map (fun e : entry => match fst (snd e) with 0 => [] | S v => [(fst e, v)] end) b.
Definition gproj (c : list (name * nat)) : list (name * option nat) :=
  map (fun e : name * nat => (fst e, match snd e with S (S v) => Some v | _ => None end)) c.

Definition sorted_for (l : list entry) : Prop :=
  forall l1 n k lo l2, l = l1 ++ (n, (k, lo)) :: l2 ->
  forall k' lo', In (n, (k', lo')) l2 -> k' < k.
Definition bounded (l : list entry) (c : list (name * nat)) : Prop :=
  forall n k lo, In (n, (k, lo)) l -> k < count n c.

Record Inv (env : denv) (st : sstate) : Prop := {
  inv_decl : declarations env = map dproj (sstack st);
  inv_scoped : scoped_versions env = map sproj (sstack st);
  inv_global : global_versions env = [gproj (scount st)];
  inv_nonempty : sstack st <> [];
  inv_sorted : sorted_for (concat (sstack st));
  inv_bounded : bounded (concat (sstack st)) (scount st);
  inv_pos : forall n, find_name n (scount st) <> Some 0
}.

Lemma concat_map_dproj : forall stk, concat (map dproj stk) = dproj (concat stk).
Proof. induction stk; simpl; auto. unfold dproj in *. rewrite map_app, IHstk. reflexivity. Qed.

Lemma concat_map_sproj : forall stk, concat (map sproj stk) = sproj (concat stk).
Proof. induction stk; simpl; auto. unfold sproj in *. rewrite flat_map_app, IHstk. reflexivity. Qed.

Lemma assoc_dproj : forall n l, assoc n (dproj l) = option_map snd (assoc n l).
Proof.
  induction l as [|[m [k lo]] r IH]; simpl; auto.
  destruct (name_eqb n m); auto.
Qed.

Lemma sorted_tail : forall a l, sorted_for (a ++ l) -> sorted_for l.
Proof.
  intros a l H l1 n k lo l2 E k' lo' Hin.
  apply (H (a ++ l1) n k lo l2) with (lo' := lo'); auto.
  rewrite E, app_assoc. reflexivity.
Qed.

Lemma sproj_notin : forall n l, (forall k lo, ~ In (n, (k, lo)) l) -> assoc n (sproj l) = None.
Proof.
  intros n l H. apply assoc_none_notin. intros v Hin.
  unfold sproj in Hin. apply in_flat_map in Hin. destruct Hin as [[m [k lo]] [Hin1 Hin2]].
  simpl in Hin2. destruct k; simpl in Hin2; [contradiction|].
  destruct Hin2 as [E|[]]. inversion E. subst. apply (H (S v) lo). exact Hin1.
Qed.

Lemma assoc_sproj : forall n l, sorted_for l ->
  assoc n (sproj l) = match assoc n l with Some (S v, _) => Some v | _ => None end.
Proof.
  induction l as [|[m [k lo]] r IH]; intros Hs; simpl; auto.
  assert (Hr : sorted_for r) by (apply (sorted_tail [(m, (k, lo))]); exact Hs).
  unfold name_eqb. destruct (ident_eqb n m) eqn:E.
  - apply ident_eqb_eq in E. subst m. destruct k as [|v]; simpl.
    + apply sproj_notin. intros k lo' Hin.
      specialize (Hs [] n 0 lo r eq_refl k lo' Hin). lia.
    + unfold name_eqb. rewrite ident_eqb_refl. reflexivity.
  - destruct k as [|v]; simpl.
    + apply IH. exact Hr.
    + unfold name_eqb. rewrite E. apply IH. exact Hr.
Qed.

(* a use is renamed to the name of the declaration the resolver finds *)
Lemma rename_use_spec : forall env st n, Inv env st ->
  rename_use env n =
  match option_map fst (lookup n (sstack st)) with Some k => vname_of n k | None => n end.
Proof.
  intros env st n I. unfold rename_use, get_current_version.
  rewrite (inv_scoped _ _ I), get_variable_concat, concat_map_sproj, lookup_concat.
  rewrite assoc_sproj by apply (inv_sorted _ _ I).
  destruct (assoc n (concat (sstack st))) as [[[|v] lo]|]; reflexivity.
Qed.

Lemma get_declaration_spec : forall env st n, Inv env st ->
  get_declaration n env = option_map snd (lookup n (sstack st)).
Proof.
  intros env st n I. unfold get_declaration.
  rewrite (inv_decl _ _ I), get_variable_concat, concat_map_dproj, lookup_concat, assoc_dproj.
  reflexivity.
Qed.

Lemma uses_spec : forall env st k uses, Inv env st ->
  map (pair k) (map (rename_use env) uses) = map ren_of (map (stk_use_occ k st) uses).
Proof.
  intros. rewrite !map_map. apply map_ext. intros n. unfold stk_use_occ, ren_of.
  rewrite (rename_use_spec env st n H). reflexivity.
Qed.

(* ------------------------------------------------------------------ *)
(* the environment operations preserve the invariant                    *)
(* ------------------------------------------------------------------ *)

Definition ver (k : nat) : option nat := match k with 0 => None | S v => Some v end.

Lemma count_declare : forall n p l st,
  count n (scount (declare p l st)) = if ident_eqb n p then S (count n (scount st)) else count n (scount st).
Proof.
  intros. unfold declare, count. simpl. destruct (ident_eqb n p) eqn:E; auto.
  apply ident_eqb_eq in E. subst. reflexivity.
Qed.

Lemma sstack_declare : forall n l st b r, sstack st = b :: r ->
  sstack (declare n l st) = ((n, (count n (scount st), l)) :: b) :: r.
Proof. intros. unfold declare. simpl. rewrite H. reflexivity. Qed.

Lemma scount_declare : forall n l st, scount (declare n l st) = (n, S (count n (scount st))) :: scount st.
Proof. reflexivity. Qed.

Lemma assoc_gproj : forall n c,
  assoc n (gproj c) = option_map (fun c => match c with S (S v) => Some v | _ => None end) (find_name n c).
Proof.
  induction c as [|[m k] t IH]; simpl; [reflexivity|].
  unfold name_eqb. destruct (ident_eqb n m); auto.
Qed.

Lemma add_declaration_spec : forall env st n l, Inv env st ->
  exists env', add_declaration n l env = Ok (ver (count n (scount st)), env') /\ Inv env' (declare n l st).
Proof.
  intros env st n l I.
  destruct I as [Hd Hs Hg Hne Hsort Hb Hpos].
  destruct (sstack st) as [|b r] eqn:Estk; [contradiction|].
  pose proof (sstack_declare n l st b r Estk) as Estk'.
  simpl in Hsort, Hb.
  assert (Hsort' : sorted_for (concat (sstack (declare n l st)))).
  { rewrite Estk'. simpl. intros l1 m k lo l2 E k' lo' Hin.
    destruct l1 as [|x l1]; simpl in E; inversion E; subst.
    - apply (Hb m k' lo'). exact Hin.
    - apply (Hsort l1 m k lo l2) with (lo' := lo'); auto. }
  assert (Hb' : bounded (concat (sstack (declare n l st))) (scount (declare n l st))).
  { rewrite Estk'. intros m k lo Hin. rewrite count_declare. simpl in Hin.
    destruct Hin as [E|Hin].
    - inversion E. subst. rewrite ident_eqb_refl. lia.
    - specialize (Hb m k lo Hin).
      destruct (ident_eqb m n) eqn:E; [|exact Hb].
      apply ident_eqb_eq in E. subst. lia. }
  assert (Hpos' : forall m, find_name m (scount (declare n l st)) <> Some 0).
  { intros m. rewrite scount_declare. simpl. destruct (ident_eqb m n); [discriminate|apply Hpos]. }
  assert (Hne' : sstack (declare n l st) <> []).
  { rewrite Estk'. discriminate. }
  unfold add_declaration. rewrite Hd. simpl.
  unfold get_next_version. simpl. rewrite Hg. simpl.
  rewrite assoc_gproj.
  specialize (Hpos n). unfold count in *.
  destruct (find_name n (scount st)) as [[|[|v]]|] eqn:Ec; simpl.
  - contradiction.
  - (* seen exactly once: version 0 *)
    rewrite Hs. simpl. eexists. split; [reflexivity|].
    constructor; cbn [declarations scoped_versions global_versions]; auto; rewrite ?Estk', ?scount_declare; unfold count; rewrite ?Ec; reflexivity.
  - (* seen more than once *)
    rewrite Hs. simpl. rewrite Nat.add_1_r. eexists. split; [reflexivity|].
    constructor; cbn [declarations scoped_versions global_versions]; auto; rewrite ?Estk', ?scount_declare; unfold count; rewrite ?Ec; reflexivity.
  - (* not seen before: unversioned *)
    eexists. split; [reflexivity|].
    constructor; cbn [declarations scoped_versions global_versions]; auto; rewrite ?Estk', ?scount_declare; unfold count; rewrite ?Ec; try reflexivity.
    rewrite Hs. reflexivity.
Qed.

Lemma push_inv : forall env st, Inv env st -> Inv (denv_add_block env) (push st).
Proof.
  intros env st [Hd Hs Hg Hne Hsort Hb Hpos].
  constructor; cbn [declarations scoped_versions global_versions denv_add_block push sstack scount]; auto.
  - unfold add_variable_block. rewrite Hd. reflexivity.
  - unfold add_variable_block. rewrite Hs. reflexivity.
  - discriminate.
Qed.

Lemma pop_inv : forall env st b r, Inv env st -> sstack st = b :: r -> r <> [] ->
  exists env', denv_remove_block env = Ok env' /\ Inv env' (pop st).
Proof.
  intros env st b r [Hd Hs Hg Hne Hsort Hb Hpos] E Hr.
  unfold denv_remove_block. rewrite Hd, Hs, E. simpl.
  eexists. split; [reflexivity|].
  rewrite E in Hsort, Hb. simpl in Hsort, Hb.
  constructor; cbn [declarations scoped_versions global_versions pop sstack scount]; rewrite ?E; simpl; auto.
  - apply sorted_tail in Hsort. exact Hsort.
  - intros n k lo Hin. apply (Hb n k lo). apply in_or_app. right. exact Hin.
Qed.

(* ------------------------------------------------------------------ *)
(* induction principle for the nested statement type                   *)
(* ------------------------------------------------------------------ *)

Section ustmt_ind_nested.
  Variable P : ustmt -> Prop.
  Hypothesis HB : forall ss, Forall P ss -> P (UBlock ss).
  Hypothesis HI : forall ss, Forall P ss -> P (UInit ss).
  Hypothesis HD : forall k n l dims, P (UDecl k n l dims).
  Hypothesis HS : forall n uses, P (USubst n uses).
  Hypothesis HE : forall k uses, P (UExpr k uses).
  Hypothesis HW : forall c b, P b -> P (UWhile c b).
  Hypothesis HF1 : forall c t, P t -> P (UIf c t None).
  Hypothesis HF2 : forall c t e0, P t -> P e0 -> P (UIf c t (Some e0)).

  Fixpoint ustmt_ind_nested (s : ustmt) : P s :=
    match s with
    | UBlock ss =>
      HB ss ((fix go (l : list ustmt) : Forall P l :=
                match l with [] => Forall_nil P | x :: r => Forall_cons x (ustmt_ind_nested x) (go r) end) ss)
    | UInit ss =>
      HI ss ((fix go (l : list ustmt) : Forall P l :=
                match l with [] => Forall_nil P | x :: r => Forall_cons x (ustmt_ind_nested x) (go r) end) ss)
    | UDecl k n l dims => HD k n l dims
    | USubst n uses => HS n uses
    | UExpr k uses => HE k uses
    | UWhile c b => HW c b (ustmt_ind_nested b)
    | UIf c t e =>
      match e as e' return P (UIf c t e') with
      | Some e0 => HF2 c t e0 (ustmt_ind_nested t) (ustmt_ind_nested e0)
      | None => HF1 c t (ustmt_ind_nested t)
      end
    end.
End ustmt_ind_nested.

(* ------------------------------------------------------------------ *)
(* the pass and the resolver run in lockstep                           *)
(* ------------------------------------------------------------------ *)

Definition sim (s : ustmt) : Prop :=
  forall env reports st, Inv env st ->
  forall o sh st', stk_resolve s st = (o, sh, st') ->
  exists s' env',
    visit s (env, reports) = Ok (s', (env', reports ++ map report_of sh)) /\
    Inv env' st' /\ length (sstack st') = length (sstack st) /\ occs s' = map ren_of o.

Definition sim_list (ss : list ustmt) : Prop :=
  forall env reports st, Inv env st ->
  forall o sh st', resolve_list stk_resolve ss st = (o, sh, st') ->
  exists ss' env',
    mapfold visit ss (env, reports) = Ok (ss', (env', reports ++ map report_of sh)) /\
    Inv env' st' /\ length (sstack st') = length (sstack st) /\ flat_map occs ss' = map ren_of o.

Lemma sim_list_of : forall ss, Forall sim ss -> sim_list ss.
Proof.
  induction 1 as [|s ss Hs _ IH]; intros env reports st I o sh st' R; simpl in R.
  - inversion R; subst. exists [], env. simpl. rewrite app_nil_r. auto.
  - destruct (stk_resolve s st) as [[o1 sh1] st1] eqn:R1.
    destruct (resolve_list stk_resolve ss st1) as [[o2 sh2] st2] eqn:R2.
    inversion R; subst.
    destruct (Hs env reports st I _ _ _ R1) as (s' & env1 & V1 & I1 & L1 & O1).
    destruct (IH env1 (reports ++ map report_of sh1) st1 I1 _ _ _ R2) as (ss' & env2 & V2 & I2 & L2 & O2).
    exists (s' :: ss'), env2. cbn [mapfold]. rewrite V1, V2.
    rewrite map_app, app_assoc. split; [reflexivity|]. split; [exact I2|]. split; [congruence|].
    cbn [flat_map]. rewrite O1, O2, map_app. reflexivity.
Qed.

Lemma visit_sim : forall s, sim s.
Proof.
  induction s using ustmt_ind_nested; intros env reports st I o sh st' R.
  - (* UBlock *)
    apply sim_list_of in H. cbn [stk_resolve] in R.
    destruct (resolve_list stk_resolve ss (push st)) as [[o1 sh1] st1] eqn:R1.
    inversion R; subst.
    destruct (H _ reports _ (push_inv _ _ I) _ _ _ R1) as (ss' & env1 & V1 & I1 & L1 & O1).
    cbn [push sstack length] in L1.
    destruct (sstack st1) as [|b r] eqn:E1; [discriminate|].
    assert (Hr : r <> []).
    { intro. subst r. simpl in L1. pose proof (inv_nonempty _ _ I). destruct (sstack st); [contradiction|discriminate]. }
    destruct (pop_inv _ _ _ _ I1 E1 Hr) as (env2 & P2 & I2).
    exists (UBlock ss'), env2. cbn [visit]. unfold denv_add_block in *. rewrite V1, P2.
    split; [reflexivity|]. split; [exact I2|]. split.
    + unfold pop. cbn [sstack]. rewrite E1. simpl in *. lia.
    + exact O1.
  - (* UInit *)
    apply sim_list_of in H. cbn [stk_resolve] in R.
    destruct (H _ reports _ I _ _ _ R) as (ss' & env1 & V1 & I1 & L1 & O1).
    exists (UInit ss'), env1. cbn [visit]. rewrite V1. auto.
  - (* UDecl *)
    cbn [stk_resolve] in R. inversion R; subst. clear R.
    destruct (add_declaration_spec env st n l I) as (env' & A & I').
    cbn [visit]. rewrite A, (get_declaration_spec env st n I).
    assert (L : length (sstack (declare n l st)) = length (sstack st)).
    { pose proof (inv_nonempty _ _ I). destruct (sstack st) as [|b r] eqn:E; [contradiction|].
      rewrite (sstack_declare n l st b r E). reflexivity. }
    assert (Rep : (match option_map snd (lookup n (sstack st)) with
                   | Some prev => reports ++ [Shadowing n l prev]
                   | None => reports
                   end) =
                  reports ++ map report_of (match lookup n (sstack st) with
                                            | Some prev => [(n, (count n (scount st), l), prev)]
                                            | None => []
                                            end)).
    { destruct (lookup n (sstack st)) as [[k' l']|]; simpl; [reflexivity|]. rewrite app_nil_r. reflexivity. }
    rewrite Rep.
    destruct (count n (scount st)) as [|v] eqn:Ec; cbn [ver].
    + eexists. eexists. split; [reflexivity|]. split; [exact I'|]. split; [exact L|].
      cbn [occs]. rewrite map_app, (uses_spec env st OUse dims I). reflexivity.
    + eexists. eexists. split; [reflexivity|]. split; [exact I'|]. split; [exact L|].
      cbn [occs]. rewrite map_app, (uses_spec env st OUse dims I). reflexivity.
  - (* USubst *)
    cbn [stk_resolve] in R. inversion R; subst. clear R.
    eexists. eexists. cbn [visit]. rewrite app_nil_r. split; [reflexivity|]. split; [exact I|]. split; [reflexivity|].
    cbn [occs map]. rewrite (uses_spec env st' OUse uses I). f_equal.
    unfold stk_use_occ, ren_of. rewrite (rename_use_spec env st' n I). reflexivity.
  - (* UExpr *)
    cbn [stk_resolve] in R. inversion R; subst. clear R.
    eexists. eexists. cbn [visit]. rewrite app_nil_r. split; [reflexivity|]. split; [exact I|]. split; [reflexivity|].
    cbn [occs]. apply (uses_spec env st' OUse uses I).
  - (* UWhile *)
    cbn [stk_resolve] in R. destruct (stk_resolve s st) as [[o1 sh1] st1] eqn:R1. inversion R; subst. clear R.
    destruct (IHs env reports st I _ _ _ R1) as (b' & env1 & V1 & I1 & L1 & O1).
    eexists. eexists. cbn [visit]. rewrite V1. split; [reflexivity|]. split; [exact I1|]. split; [exact L1|].
    cbn [occs]. rewrite map_app, (uses_spec env st OUse c I), O1. reflexivity.
  - (* UIf, no else *)
    cbn [stk_resolve] in R. destruct (stk_resolve s st) as [[o1 sh1] st1] eqn:R1.
    destruct (IHs env reports st I _ _ _ R1) as (t' & env1 & V1 & I1 & L1 & O1).
    inversion R; subst. clear R.
    eexists. eexists. cbn [visit]. rewrite V1.
    split; [reflexivity|]. split; [exact I1|]. split; [exact L1|].
    cbn [occs]. rewrite !map_app, (uses_spec env st OUse c I), O1, app_nil_r. reflexivity.
  - (* UIf with else *)
    cbn [stk_resolve] in R. destruct (stk_resolve s1 st) as [[o1 sh1] st1] eqn:R1.
    destruct (IHs1 env reports st I _ _ _ R1) as (t' & env1 & V1 & I1 & L1 & O1).
    destruct (stk_resolve s2 st1) as [[o2 sh2] st2] eqn:R2. inversion R; subst. clear R.
    destruct (IHs2 env1 (reports ++ map report_of sh1) st1 I1 _ _ _ R2) as (e' & env2 & V2 & I2 & L2 & O2).
    eexists. eexists. cbn [visit]. rewrite V1, V2. rewrite map_app, app_assoc.
    split; [reflexivity|]. split; [exact I2|]. split; [congruence|].
    cbn [occs]. rewrite !map_app, (uses_spec env st OUse c I), O1, O2. reflexivity.
Qed.

(* ------------------------------------------------------------------ *)
(* parameters                                                          *)
(* ------------------------------------------------------------------ *)

Definition st0 : sstate := {| sstack := [[]]; scount := [] |}.

Lemma inv_initial : Inv denv_new st0.
Proof.
  constructor; simpl; auto; try discriminate.
  - intros l1 n k lo l2 E. destruct l1; discriminate.
  - intros n k lo [].
Qed.

Definition declare_all (ps : list name) (ploc : loc) (st : sstate) : sstate :=
  fold_left (fun st p => declare p ploc st) ps st.

Lemma env_of_params_spec : forall ps ploc env st, Inv env st ->
  (exists env', env_of_params ps ploc env = Ok (inl env') /\ Inv env' (declare_all ps ploc st) /\
                NoDup ps /\ (forall p, In p ps -> count p (scount st) = 0))
  \/
  (exists l1 p l2, ps = l1 ++ p :: l2 /\ env_of_params ps ploc env = Ok (inr (ParamCollision p ploc)) /\
                   NoDup l1 /\ (forall q, In q l1 -> count q (scount st) = 0) /\
                   (In p l1 \/ count p (scount st) <> 0)).
Proof.
  induction ps as [|p r IH]; intros ploc env st I.
  - left. exists env. split; [reflexivity|]. split; [exact I|]. split; [constructor|]. intros p [].
  - destruct (add_declaration_spec env st p ploc I) as (env1 & A & I1).
    cbn [env_of_params]. rewrite A.
    destruct (count p (scount st)) as [|v] eqn:Ec; cbn [ver].
    + destruct (IH ploc env1 (declare p ploc st) I1) as [(env' & E & I' & ND & Z)|(l1 & q & l2 & E & C & ND & Z & W)].
      * left. exists env'. split; [exact E|]. split; [exact I'|].
        assert (Hnotin : ~ In p r).
        { intro Hin. specialize (Z p Hin). rewrite count_declare, ident_eqb_refl in Z. discriminate. }
        split; [constructor; assumption|].
        intros q [->|Hin]; [exact Ec|].
        specialize (Z q Hin). rewrite count_declare in Z.
        destruct (ident_eqb q p); [discriminate|exact Z].
      * right. exists (p :: l1), q, l2. split; [simpl; rewrite E; reflexivity|]. split; [exact C|].
        assert (Hnotin : ~ In p l1).
        { intro Hin. specialize (Z p Hin). rewrite count_declare, ident_eqb_refl in Z. discriminate. }
        split; [constructor; assumption|]. split.
        -- intros q' [->|Hin]; [exact Ec|].
           specialize (Z q' Hin). rewrite count_declare in Z.
           destruct (ident_eqb q' p); [discriminate|exact Z].
        -- destruct W as [W|W]; [left; right; exact W|].
           rewrite count_declare in W. destruct (ident_eqb q p) eqn:Eq.
           ++ apply ident_eqb_eq in Eq. subst. left. left. reflexivity.
           ++ right. exact W.
    + right. exists [], p, r. split; [reflexivity|]. split; [reflexivity|].
      split; [constructor|]. split; [intros q []|]. right. lia.
Qed.

Lemma in_not_nodup : forall A (l1 : list A) p l2, In p l1 -> ~ NoDup (l1 ++ p :: l2).
Proof.
  intros A l1 p l2 Hin ND. apply NoDup_remove_2 in ND. apply ND. apply in_or_app. left. exact Hin.
Qed.

(* ------------------------------------------------------------------ *)
(* main theorems about the pass                                        *)
(* ------------------------------------------------------------------ *)

Lemma resolve_def_eq : forall params ploc body,
  stk_resolve_def params ploc body = fst (stk_resolve body (declare_all params ploc st0)).
Proof. reflexivity. Qed.

Lemma ensure_cases : forall params ploc ss,
  (NoDup params /\ exists body' env',
     ensure_unique_variables params ploc (UBlock ss) =
       Renamed body' (map report_of (snd (stk_resolve_def params ploc (UBlock ss)))) /\
     occs body' = map ren_of (fst (stk_resolve_def params ploc (UBlock ss))) /\
     Inv env' (snd (stk_resolve (UBlock ss) (declare_all params ploc st0))))
  \/
  (exists l1 p l2, params = l1 ++ p :: l2 /\ NoDup l1 /\ In p l1 /\
     ensure_unique_variables params ploc (UBlock ss) = Collision (ParamCollision p ploc)).
Proof.
  intros params ploc ss. rewrite resolve_def_eq. unfold ensure_unique_variables. cbn [is_block negb].
  destruct (env_of_params_spec params ploc denv_new st0 inv_initial)
    as [(env & E & I & ND & _)|(l1 & p & l2 & E & C & ND & _ & W)].
  - left. split; [exact ND|]. rewrite E.
    destruct (stk_resolve (UBlock ss) (declare_all params ploc st0)) as [[o sh] st'] eqn:R.
    destruct (visit_sim (UBlock ss) env [] _ I _ _ _ R) as (s' & env' & V & I' & _ & O).
    rewrite V. exists s', env'. cbn [fst snd app]. auto.
  - right. exists l1, p, l2. rewrite C. repeat split; auto.
    destruct W as [W|W]; [exact W|]. exfalso. apply W. reflexivity.
Qed.

Lemma not_block_panics : forall params ploc body,
  is_block body = false -> ensure_unique_variables params ploc body = Panicked site_not_a_block.
Proof. intros. unfold ensure_unique_variables. rewrite H. reflexivity. Qed.

Theorem renaming_preserves_binding : forall params ploc body body' reports,
  ensure_unique_variables params ploc body = Renamed body' reports ->
  occs body' = map ren_of (fst (stk_resolve_def params ploc body)).
Proof.
  intros params ploc body body' reports H.
  destruct body; try (rewrite not_block_panics in H by reflexivity; discriminate).
  destruct (ensure_cases params ploc ss) as [(_ & b & e & E & O & _)|(l1 & p & l2 & _ & _ & _ & E)];
    rewrite E in H; [|discriminate].
  inversion H; subst. exact O.
Qed.

Theorem shadowing_reports_exact : forall params ploc body body' reports,
  ensure_unique_variables params ploc body = Renamed body' reports ->
  reports = map report_of (snd (stk_resolve_def params ploc body)).
Proof.
  intros params ploc body body' reports H.
  destruct body; try (rewrite not_block_panics in H by reflexivity; discriminate).
  destruct (ensure_cases params ploc ss) as [(_ & b & e & E & O & _)|(l1 & p & l2 & _ & _ & _ & E)];
    rewrite E in H; [|discriminate].
  inversion H; subst. reflexivity.
Qed.

Theorem duplicate_parameters_reported : forall params ploc ss,
  (NoDup params -> exists body' reports,
     ensure_unique_variables params ploc (UBlock ss) = Renamed body' reports) /\
  (~ NoDup params -> exists l1 p l2,
     params = l1 ++ p :: l2 /\ NoDup l1 /\ In p l1 /\
     ensure_unique_variables params ploc (UBlock ss) = Collision (ParamCollision p ploc)).
Proof.
  intros params ploc ss.
  destruct (ensure_cases params ploc ss) as [(ND & b & e & E & _)|(l1 & p & l2 & E & ND & Hin & C)].
  - split; [intros _; eauto|]. intros H. contradiction.
  - split.
    + intros H. exfalso. subst params. exact (in_not_nodup _ _ _ _ Hin H).
    + intros _. exists l1, p, l2. auto.
Qed.

Theorem pass_never_panics : forall params ploc ss site,
  ensure_unique_variables params ploc (UBlock ss) <> Panicked site.
Proof.
  intros params ploc ss site.
  destruct (ensure_cases params ploc ss) as [(_ & b & e & E & _)|(l1 & p & l2 & _ & _ & _ & E)];
    rewrite E; discriminate.
Qed.

(* ------------------------------------------------------------------ *)
(* name.version strings, the split of lifting.rs, the SSA keys         *)
(* ------------------------------------------------------------------ *)

Lemma bytes_of_uint_inj : forall d d', bytes_of_uint d = bytes_of_uint d' -> d = d'.
Proof.
  induction d; destruct d'; simpl; intros H; try discriminate; try reflexivity;
    inversion H; f_equal; auto.
Qed.

Lemma show_nat_inj : forall a b, show_nat a = show_nat b -> a = b.
Proof. intros a b H. apply Unsigned.to_uint_inj, bytes_of_uint_inj, H. Qed.

Lemma bytes_of_uint_nodot : forall d, nodot (bytes_of_uint d).
Proof.
  unfold nodot, dot. induction d; simpl; intros H; auto; destruct H as [H|H]; try discriminate; auto.
Qed.

Lemma show_nat_nodot : forall v, nodot (show_nat v).
Proof. intros. apply bytes_of_uint_nodot. Qed.

Lemma split_dot_nodot : forall a, nodot a -> split_dot a = [a].
Proof.
  induction a as [|c r IH]; intros H; [reflexivity|].
  cbn [split_dot].
  assert (Hc : N.eqb c dot = false).
  { apply N.eqb_neq. intro. subst. apply H. left. reflexivity. }
  rewrite Hc, IH; [reflexivity|]. intro Hin. apply H. right. exact Hin.
Qed.

Lemma split_dot_app : forall a s, nodot a -> split_dot (a ++ dot :: s) = a :: split_dot s.
Proof.
  induction a as [|c r IH]; intros s H.
  - cbn [app split_dot]. rewrite N.eqb_refl. reflexivity.
  - cbn [app split_dot].
    assert (Hc : N.eqb c dot = false).
    { apply N.eqb_neq. intro. subst. apply H. left. reflexivity. }
    rewrite Hc, IH; [reflexivity|]. intro Hin. apply H. right. exact Hin.
Qed.

(* lifted_names_roundtrip: splitting what the pass joined gives the pair back *)
Theorem lifted_names_roundtrip : forall v,
  vn_version v = None -> nodot (vn_name v) ->
  (forall s, vn_suffix v = Some s -> nodot s) ->
  lift_name (join_name v) = Some v.
Proof.
  intros [a [s|] ver] Hv Ha Hs; simpl in *; subst ver; unfold lift_name, join_name; simpl.
  - rewrite split_dot_app by exact Ha. rewrite split_dot_nodot by (apply Hs; reflexivity). reflexivity.
  - rewrite split_dot_nodot by exact Ha. reflexivity.
Qed.

Lemma lift_vname_of : forall n k, nodot n -> lift_name (vname_of n k) = Some (lifted_of n k).
Proof.
  intros n [|v] H.
  - apply (lifted_names_roundtrip (lifted_of n 0)); simpl; auto. discriminate.
  - apply (lifted_names_roundtrip (lifted_of n (S v))); simpl; auto.
    intros s E. inversion E. apply show_nat_nodot.
Qed.

Lemma lifted_of_inj : forall n k n' k', lifted_of n k = lifted_of n' k' -> n = n' /\ k = k'.
Proof.
  intros n k n' k' H. unfold lifted_of in H. inversion H. split; [reflexivity|].
  destruct k, k'; try discriminate; auto.
  inversion H2. f_equal. apply show_nat_inj. assumption.
Qed.

Lemma first_sep_unique : forall (c : N) a a' s s',
  ~ In c a -> ~ In c a' -> a ++ c :: s = a' ++ c :: s' -> a = a' /\ s = s'.
Proof.
  intros c. induction a as [|x r IH]; intros [|x' r'] s s' Ha Ha' E; simpl in E.
  - inversion E. auto.
  - inversion E. subst. exfalso. apply Ha'. left. reflexivity.
  - inversion E. subst. exfalso. apply Ha. left. reflexivity.
  - inversion E. subst.
    destruct (IH r' s s') as [E1 E2]; auto.
    + intro Hin. apply Ha. right. exact Hin.
    + intro Hin. apply Ha'. right. exact Hin.
    + subst. auto.
Qed.

Lemma ident_ok_notin : forall n c, ident_ok n = true -> ident_char c = false -> ~ In c n.
Proof.
  unfold ident_ok. intros n c H Hc Hin. rewrite forallb_forall in H.
  rewrite (H c Hin) in Hc. discriminate.
Qed.

(* every key format accepted by key_format_ok identifies (name, suffix), for
   names made of identifier characters *)
Theorem separating_key_formats_injective : forall some none,
  key_format_ok some none = true ->
  forall v1 v2,
  ident_ok (vn_name v1) = true -> ident_ok (vn_name v2) = true ->
  ssa_key_with some none v1 = ssa_key_with some none v2 ->
  vn_name v1 = vn_name v2 /\ vn_suffix v1 = vn_suffix v2.
Proof.
  intros some none F.
  unfold key_format_ok in F.
  repeat match type of F with
         | context [match ?x with _ => _ end] => is_var x; destruct x; try discriminate F
         end.
  match type of F with negb (ident_char ?x) = true => rename x into c end.
  match goal with |- context [KLit (c :: ?r)] => rename r into rest end.
  apply negb_true_iff in F.
  intros [a [s|] v] [a' [s'|] v'] H1 H2 E; unfold ssa_key_with, render_key in E; cbn [flat_map vn_name vn_suffix] in E;
    rewrite ?app_nil_r in E; simpl in H1, H2; cbn [vn_name vn_suffix].
  - change ((c :: rest) ++ s) with (c :: rest ++ s) in E. change ((c :: rest) ++ s') with (c :: rest ++ s') in E.
    destruct (first_sep_unique c _ _ _ _ (ident_ok_notin _ _ H1 F) (ident_ok_notin _ _ H2 F) E) as [Ea Es].
    apply app_inv_head in Es. subst. auto.
  - exfalso. apply (ident_ok_notin _ _ H2 F). rewrite <- E. apply in_or_app. right. left. reflexivity.
  - exfalso. apply (ident_ok_notin _ _ H1 F). rewrite E. apply in_or_app. right. left. reflexivity.
  - subst. auto.
Qed.

(* the decision for the format of Model.UniqueVars.ssa_key (Environment::version_key) *)
Lemma ssa_key_format_separates : key_format_ok version_key_some version_key_none = true.
Proof. vm_compute. reflexivity. Qed.

Theorem ssa_keys_injective : forall v1 v2,
  ident_ok (vn_name v1) = true -> ident_ok (vn_name v2) = true ->
  ssa_key v1 = ssa_key v2 ->
  vn_name v1 = vn_name v2 /\ vn_suffix v1 = vn_suffix v2.
Proof. exact (separating_key_formats_injective _ _ ssa_key_format_separates). Qed.

(* D20: the key used before the repair identifies x with suffix 0 and the identifier x_0 *)
Theorem ssa_keys_injective_refuted : exists v1 v2,
  ident_ok (vn_name v1) = true /\ ident_ok (vn_name v2) = true /\
  ssa_key_old v1 = ssa_key_old v2 /\
  (vn_name v1, vn_suffix v1) <> (vn_name v2, vn_suffix v2).
Proof.
  exists {| vn_name := [120%N]; vn_suffix := Some [48%N]; vn_version := None |},
         {| vn_name := [120%N; 95%N; 48%N]; vn_suffix := None; vn_version := None |}.
  repeat split; try reflexivity. simpl. discriminate.
Qed.

Lemma ident_ok_nodot : forall n, ident_ok n = true -> nodot n.
Proof.
  unfold ident_ok, nodot. intros n H Hin.
  rewrite forallb_forall in H. specialize (H dot Hin). vm_compute in H. discriminate.
Qed.

(* ------------------------------------------------------------------ *)
(* the resolver numbers declaration occurrences injectively            *)
(* ------------------------------------------------------------------ *)

Definition decl_ids (o : list rocc) : list (name * nat) :=
  flat_map (fun r : rocc =>
              match r with
              | (ODecl, n, d) => [(n, match d with Some k => k | None => 0 end)]
              | _ => []
              end) o.

Lemma decl_ids_app : forall a b, decl_ids (a ++ b) = decl_ids a ++ decl_ids b.
Proof. intros. apply flat_map_app. Qed.

Lemma decl_ids_uses : forall st l, decl_ids (map (stk_use_occ OUse st) l) = [].
Proof. induction l; simpl; auto. Qed.

Lemma decl_names_ren : forall o,
  decl_names (map ren_of o) = map (fun p => vname_of (fst p) (snd p)) (decl_ids o).
Proof.
  induction o as [|[[k n] d] r IH]; [reflexivity|].
  unfold decl_names, decl_ids in *. cbn [map flat_map ren_of].
  destruct k; cbn [app]; rewrite IH; [|reflexivity|reflexivity].
  destruct d; reflexivity.
Qed.

Lemma NoDup_app_intro : forall A (a b : list A),
  NoDup a -> NoDup b -> (forall x, In x a -> ~ In x b) -> NoDup (a ++ b).
Proof.
  induction a as [|x a IH]; intros b Ha Hb Hd; simpl; auto.
  inversion Ha; subst. constructor.
  - intro Hin. apply in_app_or in Hin. destruct Hin; [contradiction|].
    apply (Hd x); [left; reflexivity|assumption].
  - apply IH; auto. intros y Hy. apply Hd. right. exact Hy.
Qed.

Lemma NoDup_map_inj_on : forall A B (f : A -> B) l,
  (forall x y, In x l -> In y l -> f x = f y -> x = y) -> NoDup l -> NoDup (map f l).
Proof.
  induction l as [|a l IH]; intros Hinj ND; simpl; constructor; inversion ND; subst.
  - intro Hin. apply in_map_iff in Hin. destruct Hin as (y & E & Hy).
    assert (y = a) by (apply Hinj; [right; exact Hy|left; reflexivity|exact E]).
    subst. contradiction.
  - apply IH; auto. intros x y Hx Hy. apply Hinj; right; assumption.
Qed.

Definition ids_ok (s : ustmt) : Prop :=
  forall st o sh st', stk_resolve s st = (o, sh, st') ->
  NoDup (decl_ids o) /\
  (forall n k, In (n, k) (decl_ids o) ->
     count n (scount st) <= k < count n (scount st') /\ In n (declared s)) /\
  (forall n, count n (scount st) <= count n (scount st')).

Definition ids_ok_list (ss : list ustmt) : Prop :=
  forall st o sh st', resolve_list stk_resolve ss st = (o, sh, st') ->
  NoDup (decl_ids o) /\
  (forall n k, In (n, k) (decl_ids o) ->
     count n (scount st) <= k < count n (scount st') /\ In n (flat_map declared ss)) /\
  (forall n, count n (scount st) <= count n (scount st')).

Lemma ids_ok_app : forall (o1 o2 : list rocc) (c0 c1 c2 : name -> nat) (D1 D2 : list name),
  NoDup (decl_ids o1) -> NoDup (decl_ids o2) ->
  (forall n k, In (n, k) (decl_ids o1) -> c0 n <= k < c1 n /\ In n D1) ->
  (forall n k, In (n, k) (decl_ids o2) -> c1 n <= k < c2 n /\ In n D2) ->
  (forall n, c0 n <= c1 n) -> (forall n, c1 n <= c2 n) ->
  NoDup (decl_ids (o1 ++ o2)) /\
  (forall n k, In (n, k) (decl_ids (o1 ++ o2)) -> c0 n <= k < c2 n /\ In n (D1 ++ D2)) /\
  (forall n, c0 n <= c2 n).
Proof.
  intros o1 o2 c0 c1 c2 D1 D2 N1 N2 R1 R2 M1 M2. rewrite decl_ids_app. split; [|split].
  - apply NoDup_app_intro; auto. intros [n k] H1 H2.
    destruct (R1 n k H1) as [? _]. destruct (R2 n k H2) as [? _]. lia.
  - intros n k Hin. apply in_app_or in Hin. destruct Hin as [H|H].
    + destruct (R1 n k H). specialize (M2 n). split; [lia|]. apply in_or_app. left. assumption.
    + destruct (R2 n k H). specialize (M1 n). split; [lia|]. apply in_or_app. right. assumption.
  - intros n. specialize (M1 n). specialize (M2 n). lia.
Qed.

Lemma ids_ok_list_of : forall ss, Forall ids_ok ss -> ids_ok_list ss.
Proof.
  induction 1 as [|s ss Hs _ IH]; intros st o sh st' R; simpl in R.
  - inversion R; subst. simpl. split; [constructor|]. split; [intros n k []|auto].
  - destruct (stk_resolve s st) as [[o1 sh1] st1] eqn:R1.
    destruct (resolve_list stk_resolve ss st1) as [[o2 sh2] st2] eqn:R2.
    inversion R; subst.
    destruct (Hs _ _ _ _ R1) as (N1 & Rg1 & M1). destruct (IH _ _ _ _ R2) as (N2 & Rg2 & M2).
    cbn [flat_map].
    apply (ids_ok_app o1 o2 (fun n => count n (scount st)) (fun n => count n (scount st1))
                      (fun n => count n (scount st'))); auto.
Qed.

Lemma resolve_ids_ok : forall s, ids_ok s.
Proof.
  induction s using ustmt_ind_nested; intros st o sh st' R.
  - (* UBlock *)
    apply ids_ok_list_of in H. cbn [stk_resolve] in R.
    destruct (resolve_list stk_resolve ss (push st)) as [[o1 sh1] st1] eqn:R1. inversion R; subst.
    exact (H _ _ _ _ R1).
  - (* UInit *)
    apply ids_ok_list_of in H. cbn [stk_resolve] in R. exact (H _ _ _ _ R).
  - (* UDecl *)
    cbn [stk_resolve] in R. inversion R; subst. clear R.
    rewrite decl_ids_app, decl_ids_uses. cbn [app decl_ids flat_map declared].
    split; [constructor; [intros []|constructor]|]. split.
    + intros m j [E|[]]. inversion E; subst. rewrite count_declare, ident_eqb_refl.
      split; [lia|left; reflexivity].
    + intros m. rewrite count_declare. destruct (ident_eqb m n); lia.
  - (* USubst *)
    cbn [stk_resolve] in R. inversion R; subst. clear R.
    unfold decl_ids. cbn [flat_map stk_use_occ app]. fold (decl_ids (map (stk_use_occ OUse st') uses)).
    rewrite decl_ids_uses. split; [constructor|]. split; [intros m j []|auto].
  - (* UExpr *)
    cbn [stk_resolve] in R. inversion R; subst. clear R.
    rewrite decl_ids_uses. split; [constructor|]. split; [intros m j []|auto].
  - (* UWhile *)
    cbn [stk_resolve] in R. destruct (stk_resolve s st) as [[o1 sh1] st1] eqn:R1. inversion R; subst. clear R.
    rewrite decl_ids_app, decl_ids_uses. cbn [app declared]. exact (IHs _ _ _ _ R1).
  - (* UIf, no else *)
    cbn [stk_resolve] in R. destruct (stk_resolve s st) as [[o1 sh1] st1] eqn:R1. inversion R; subst. clear R.
    rewrite decl_ids_app, decl_ids_uses. cbn [app declared]. rewrite app_nil_r. exact (IHs _ _ _ _ R1).
  - (* UIf with else *)
    cbn [stk_resolve] in R. destruct (stk_resolve s1 st) as [[o1 sh1] st1] eqn:R1.
    destruct (stk_resolve s2 st1) as [[o2 sh2] st2] eqn:R2. inversion R; subst. clear R.
    rewrite decl_ids_app, decl_ids_uses. cbn [app declared].
    destruct (IHs1 _ _ _ _ R1) as (N1 & Rg1 & M1). destruct (IHs2 _ _ _ _ R2) as (N2 & Rg2 & M2).
    apply (ids_ok_app o1 o2 (fun n => count n (scount st)) (fun n => count n (scount st1))
                      (fun n => count n (scount st'))); auto.
Qed.

Lemma count_declare_all_mono : forall ps ploc st n,
  count n (scount st) <= count n (scount (declare_all ps ploc st)).
Proof.
  induction ps as [|p r IH]; intros; simpl; auto.
  etransitivity; [|apply IH]. rewrite count_declare. destruct (ident_eqb n p); lia.
Qed.

Lemma count_declare_all_in : forall ps ploc st p, In p ps ->
  1 <= count p (scount (declare_all ps ploc st)).
Proof.
  induction ps as [|q r IH]; intros ploc st p Hin; [destruct Hin|].
  simpl. destruct Hin as [->|Hin].
  - etransitivity; [|apply count_declare_all_mono]. rewrite count_declare, ident_eqb_refl. lia.
  - apply IH. exact Hin.
Qed.

Theorem renaming_injective_on_declarations : forall params ploc body body' reports,
  ensure_unique_variables params ploc body = Renamed body' reports ->
  Forall nodot (params ++ declared body) ->
  NoDup (map lift_name (params ++ decl_names (occs body'))) /\
  Forall (fun n => lift_name n <> None) (params ++ decl_names (occs body')).
Proof.
  intros params ploc body body' reports H Hok.
  destruct body; try (rewrite not_block_panics in H by reflexivity; discriminate).
  destruct (ensure_cases params ploc ss) as [(ND & b & e & E & O & _)|(l1 & p & l2 & _ & _ & _ & E)];
    rewrite E in H; [|discriminate].
  inversion H; subst b. clear H H2 E.
  rewrite resolve_def_eq in O.
  destruct (stk_resolve (UBlock ss) (declare_all params ploc st0)) as [[o sh] st'] eqn:R.
  cbn [fst] in O.
  destruct (resolve_ids_ok (UBlock ss) _ _ _ _ R) as (N & Rg & _).
  set (vn := fun p : name * nat => vname_of (fst p) (snd p)).
  set (IDS := map (fun p : name => (p, 0)) params ++ decl_ids o).
  assert (Enames : params ++ decl_names (occs body') = map vn IDS).
  { unfold IDS. rewrite map_app, map_map, O, decl_names_ren. f_equal.
    rewrite <- (map_id params) at 1. apply map_ext. reflexivity. }
  assert (Hnd : forall x, In x IDS -> nodot (fst x)).
  { rewrite Forall_forall in Hok. intros [n k] Hin. simpl. apply Hok.
    unfold IDS in Hin. apply in_app_or in Hin. apply in_or_app. destruct Hin as [Hin|Hin].
    - left. apply in_map_iff in Hin. destruct Hin as (q & Eq & Hq). inversion Eq; subst. exact Hq.
    - right. apply (Rg n k Hin). }
  assert (NI : NoDup IDS).
  { unfold IDS. apply NoDup_app_intro; auto.
    - apply NoDup_map_inj_on; auto. intros x y _ _ Exy. inversion Exy. reflexivity.
    - intros [n k] H1 H2. apply in_map_iff in H1. destruct H1 as (q & Eq & Hq). inversion Eq; subst.
      destruct (Rg n 0 H2) as [Hr _].
      pose proof (count_declare_all_in params ploc st0 n Hq). lia. }
  rewrite Enames, map_map. split.
  - apply NoDup_map_inj_on; auto. intros [n k] [n' k'] Hx Hy Exy. unfold vn in Exy. simpl in Exy.
    rewrite (lift_vname_of n k (Hnd _ Hx)), (lift_vname_of n' k' (Hnd _ Hy)) in Exy.
    assert (Exy' : lifted_of n k = lifted_of n' k') by congruence.
    destruct (lifted_of_inj n k n' k' Exy') as [-> ->]. reflexivity.
  - apply Forall_forall. intros m Hin. apply in_map_iff in Hin. destruct Hin as ([n k] & Em & Hx).
    subst m. unfold vn. simpl. rewrite (lift_vname_of n k (Hnd _ Hx)). discriminate.
Qed.
