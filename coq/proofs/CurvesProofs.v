(* Lemmas of property C11.  Every lemma that mentions a regenerated table
   (Gen.CurveTables, Gen.DocTable, Gen.Primes, Gen.CurveNames) is re-checked
   against the current tree on every run. *)
From Coq Require Import ZArith List ListDec Bool String Ascii NArith Lia.
Require Import Model.Base Model.Curves Spec.CurvesSpec.
Require Import Gen.CurveTables Gen.DocTable Gen.Primes Gen.CurveNames.
Import ListNotations.
Local Open Scope Z_scope.

(* ------------------------------------------------------------------ *)
(* generic list facts                                                   *)
(* ------------------------------------------------------------------ *)
Definition incl_b (l1 l2 : list string) : bool :=
  forallb (fun x => existsb (String.eqb x) l2) l1.

Lemma existsb_eqb_In : forall name l, existsb (String.eqb name) l = true <-> In name l.
Proof.
  intros name l. rewrite existsb_exists. split.
  - intros [x [Hin He]]. apply String.eqb_eq in He. subst. exact Hin.
  - intro H. exists name. split; [exact H | apply String.eqb_refl].
Qed.

Lemma incl_b_sound : forall l1 l2, incl_b l1 l2 = true -> forall x, In x l1 -> In x l2.
Proof.
  intros l1 l2 H x Hx. unfold incl_b in H. rewrite forallb_forall in H.
  apply existsb_eqb_In. apply H. exact Hx.
Qed.

Lemma existsb_same_elements : forall l1 l2,
  incl_b l1 l2 && incl_b l2 l1 = true ->
  forall name, existsb (String.eqb name) l1 = existsb (String.eqb name) l2.
Proof.
  intros l1 l2 H name. apply andb_true_iff in H. destruct H as [H1 H2].
  destruct (existsb (String.eqb name) l1) eqn:E1; destruct (existsb (String.eqb name) l2) eqn:E2; auto.
  - apply existsb_eqb_In in E1. apply (incl_b_sound _ _ H1) in E1. apply existsb_eqb_In in E1. congruence.
  - apply existsb_eqb_In in E2. apply (incl_b_sound _ _ H2) in E2. apply existsb_eqb_In in E2. congruence.
Qed.

Lemma existsb_map_filter : forall {A} (g : A -> string) (h : A -> bool) name l,
  existsb (fun row => String.eqb (g row) name && h row) l = existsb (String.eqb name) (map g (filter h l)).
Proof.
  intros A g h name l. induction l as [|x l IH]; simpl; auto.
  destruct (h x); simpl.
  - rewrite andb_true_r. rewrite IH. rewrite (String.eqb_sym (g x) name). reflexivity.
  - rewrite andb_false_r. simpl. exact IH.
Qed.

Lemma indices_where_gen : forall {A} (f : A -> bool) (l : list A) k i,
  In i (map fst (filter (fun p => f (snd p)) (combine (seq k (length l)) l))) <->
  exists x, (k <= i)%nat /\ nth_error l (i - k) = Some x /\ f x = true.
Proof.
  intros A f l. induction l as [|y l IH]; intros k i; simpl.
  - split; [tauto|]. intros [x [_ [H _]]]. destruct (i - k)%nat; discriminate.
  - destruct (f y) eqn:Fy; simpl; rewrite IH; split.
    + intros [H | [x [Hk [Hn Hf]]]].
      * subst. exists y. rewrite Nat.sub_diag. simpl. auto.
      * exists x. split; [lia|]. split; auto.
        replace (i - k)%nat with (S (i - S k)) by lia. exact Hn.
    + intros [x [Hk [Hn Hf]]]. destruct (Nat.eq_dec i k) as [->|Hne]; [left; reflexivity|right].
      exists x. split; [lia|]. split; auto.
      replace (i - k)%nat with (S (i - S k)) in Hn by lia. exact Hn.
    + intros [x [Hk [Hn Hf]]]. exists x. split; [lia|]. split; auto.
      replace (i - k)%nat with (S (i - S k)) by lia. exact Hn.
    + intros [x [Hk [Hn Hf]]]. destruct (Nat.eq_dec i k) as [->|Hne].
      * rewrite Nat.sub_diag in Hn. simpl in Hn. inversion Hn. subst. congruence.
      * exists x. split; [lia|]. split; auto.
        replace (i - k)%nat with (S (i - S k)) in Hn by lia. exact Hn.
Qed.

Lemma indices_where_spec : forall {A} (f : A -> bool) (l : list A) i,
  In i (indices_where f l) <-> exists x, nth_error l i = Some x /\ f x = true.
Proof.
  intros A f l i. unfold indices_where. rewrite indices_where_gen. rewrite Nat.sub_0_r.
  split; intros [x H]; exists x; intuition lia.
Qed.

(* ------------------------------------------------------------------ *)
(* the regenerated tables are complete (no default of the model is used) *)
(* ------------------------------------------------------------------ *)
Lemma tables_total : forall c,
  stored_curve c = Some c /\
  (exists p s, constants c = Some (variant_name c, (p, s)) /\ 2 < p /\ 2 <= s) /\
  (exists d, assoc (variant_name c) bn254_dispatch = Some d /\
             match d with Some arr => assoc arr const_arrays <> None | None => True end) /\
  bn254_exact_match = true /\
  from_str_normaliser = "to_ascii_uppercase"%string /\
  Forall (fun e => Z.of_nat (length (snd (snd e))) = fst (snd e)) const_arrays.
Proof.
  intro c.
  assert (HF : Forall (fun e => Z.of_nat (length (snd (snd e))) = fst (snd e)) const_arrays)
    by (repeat constructor).
  destruct c; (split; [vm_compute; reflexivity|]);
    (split; [eexists; eexists; split; [vm_compute; reflexivity| split; reflexivity || (vm_compute; congruence)]|]);
    (split; [eexists; split; [vm_compute; reflexivity| try exact I; vm_compute; congruence]|]);
    (split; [reflexivity|]); (split; [reflexivity| exact HF]).
Qed.

(* ------------------------------------------------------------------ *)
(* BN254-specific circuits: code arrays = documentation table           *)
(* ------------------------------------------------------------------ *)
Definition code_list (c : curve) : list string :=
  match problematic_templates c with
  | Some l => if bn254_exact_match then l else []
  | None => []
  end.

Definition doc_list (c : curve) : list string :=
  match index_of (variant_name c) doc_columns with
  | None => []
  | Some col => map (fun row => circomlib_spelling (fst row)) (filter (fun row => nth col (snd row) false) doc_table)
  end.

Lemma flagged_code_list : forall c name, flagged c name = existsb (String.eqb name) (code_list c).
Proof.
  intros c name. unfold flagged, code_list.
  destruct (problematic_templates c); [destruct bn254_exact_match|]; reflexivity.
Qed.

Lemma doc_marks_doc_list : forall c name, doc_marks c name = existsb (String.eqb name) (doc_list c).
Proof.
  intros c name. unfold doc_marks, doc_list.
  destruct (index_of (variant_name c) doc_columns); [|reflexivity].
  apply (existsb_map_filter (fun row : string * list bool => circomlib_spelling (fst row))).
Qed.

(* the proof obligation over the two regenerated tables *)
Lemma code_and_doc_lists_agree : forall c, incl_b (code_list c) (doc_list c) && incl_b (doc_list c) (code_list c) = true.
Proof. intro c. destruct c; vm_compute; reflexivity. Qed.

Lemma bn254_table_exact : forall c name, flagged c name = doc_marks c name.
Proof.
  intros c name. rewrite flagged_code_list, doc_marks_doc_list.
  apply existsb_same_elements. apply code_and_doc_lists_agree.
Qed.

Lemma bn254_never_flagged_by_default : forall name, flagged Bn254 name = false /\ doc_marks Bn254 name = false.
Proof.
  intro name. rewrite flagged_code_list, doc_marks_doc_list.
  replace (code_list Bn254) with (@nil string) by (vm_compute; reflexivity).
  replace (doc_list Bn254) with (@nil string) by (vm_compute; reflexivity).
  split; reflexivity.
Qed.

Fixpoint nodup_b (l : list string) : bool :=
  match l with [] => true | x :: r => negb (existsb (String.eqb x) r) && nodup_b r end.

Lemma nodup_b_sound : forall l, nodup_b l = true -> NoDup l.
Proof.
  induction l as [|x l IH]; intro H; [constructor|].
  simpl in H. apply andb_true_iff in H. destruct H as [H1 H2]. constructor; [|auto].
  intro Hin. apply existsb_eqb_In in Hin. rewrite Hin in H1. discriminate.
Qed.

(* the table has the documented shape: 26 rows, every one marked for Goldilocks *)
Lemma doc_table_shape :
  length doc_table = 26%nat /\ length (doc_list Goldilocks) = 26%nat /\ length (doc_list Bls12_381) = 13%nat /\
  NoDup (doc_list Goldilocks).
Proof.
  split; [reflexivity|]. split; [vm_compute; reflexivity|]. split; [vm_compute; reflexivity|].
  apply nodup_b_sound. vm_compute. reflexivity.
Qed.

Lemma bn254_reports_exact : forall c prog i,
  In i (bn254_reports c prog) <->
  exists k var acc cl, nth_error prog i = Some (SAssign k var acc (RCall cl)) /\
                       tk_exits k = false /\ doc_marks c (cname cl) = true.
Proof.
  intros c prog i. unfold bn254_reports. rewrite indices_where_spec. split.
  - intros [s [Hn Hv]]. destruct s as [k var acc r| |]; simpl in Hv; try discriminate.
    destruct r as [cl|]; try discriminate.
    apply andb_true_iff in Hv. destruct Hv as [Hk Hf].
    exists k, var, acc, cl. split; [exact Hn|]. split.
    + destruct (tk_exits k); [discriminate|reflexivity].
    + rewrite <- bn254_table_exact. exact Hf.
  - intros [k [var [acc [cl [Hn [Hk Hd]]]]]]. eexists. split; [exact Hn|]. simpl.
    rewrite Hk. simpl. rewrite bn254_table_exact. exact Hd.
Qed.

(* ------------------------------------------------------------------ *)
(* primes                                                               *)
(* ------------------------------------------------------------------ *)
Lemma primes_are_documented : forall c,
  prime c = doc_prime c /\ prime_size c = bit_size (doc_prime c) /\ doc_bits c = Some (prime_size c).
Proof. intro c. destruct c; vm_compute; repeat split; reflexivity. Qed.

(* READER CHECK, not a property theorem (third audit): the Python source reader
   (lib/props/c11shape.py) reported exactly the anchored items of
   Spec.CurvesSpec.anchored_items and marked each as matched.  This re-reads
   booleans the reader wrote; its content is the reader.  It is kept here so that
   an unmatched item also stops the build of the proofs. *)
Lemma reader_matched_every_item :
  map fst source_shape = anchored_items /\ Forall (fun e => snd e = true) source_shape.
Proof. split; [vm_compute; reflexivity | repeat constructor]. Qed.

(* READER / EXECUTION CROSS-CHECK, not a property theorem (fourth audit: demoted
   from the obligations): the decimal literals the Python reader finds in
   Curve::prime() are the executed primes; the executed prime_size() is the bit
   length of the executed prime (also a consequence of primes_are_documented) *)
Lemma prime_literals_are_executed_primes :
  (forall c, assoc (variant_name c) source_prime_literals = Some (prime c)) /\
  (forall c, prime_size c = bit_size (prime c)).
Proof. split; intro c; destruct c; vm_compute; reflexivity. Qed.

Lemma prime_size_default : prime_size Bn254 = 254.
Proof. vm_compute. reflexivity. Qed.

(* ------------------------------------------------------------------ *)
(* Num2Bits / Bits2Num                                                  *)
(* ------------------------------------------------------------------ *)
Lemma nonstrict_active_iff : forall c d, nonstrict_active c d = true <-> c = Bn254 /\ d = DTemplate.
Proof.
  intros c d. destruct c, d; vm_compute; split; try discriminate; try (intros [? ?]; discriminate); auto.
Qed.

Lemma num2bits_guard_exact : forall tname n,
  In tname ["Num2Bits"; "Bits2Num"]%string ->
  (num2bits_flagged Bn254 tname (VField n) = Some false <-> n < 254).
Proof.
  intros tname n Hin. unfold num2bits_flagged.
  replace (nonstrict_active Bn254 DTemplate) with true by (vm_compute; reflexivity).
  rewrite prime_size_default.
  destruct Hin as [<-|[<-|[]]]; cbn -[Z.ltb Z.add];
    change (254 + 0) with 254;
    destruct (n <? 254) eqn:E; simpl;
    (apply Z.ltb_lt in E || apply Z.ltb_ge in E); split; intro H; try reflexivity; try lia; try discriminate.
Qed.

Lemma non_constant_size_flagged : forall tname a,
  In tname ["Num2Bits"; "Bits2Num"]%string -> (forall v, a <> VField v) ->
  num2bits_flagged Bn254 tname a = Some true.
Proof.
  intros tname a Hin Ha. unfold num2bits_flagged.
  replace (nonstrict_active Bn254 DTemplate) with true by (vm_compute; reflexivity).
  rewrite prime_size_default.
  destruct a as [v|b|]; [exfalso; apply (Ha v); reflexivity| |];
    destruct Hin as [<-|[<-|[]]]; reflexivity.
Qed.

Lemma nonstrict_only_default_curve : forall c d prog,
  (c <> Bn254 \/ d <> DTemplate) -> nonstrict_reports c d prog = Ok (map (fun _ => 0%nat) prog).
Proof.
  intros c d prog H. unfold nonstrict_reports.
  destruct (nonstrict_active c d) eqn:E; [|reflexivity].
  apply nonstrict_active_iff in E. destruct E. destruct H; contradiction.
Qed.

(* the whole pass, statement by statement: one report exactly for a component
   instantiated from Num2Bits / Bits2Num with a single argument that is not a
   known field element below 254; never a panic *)
Definition conv_call (cl : call) : bool :=
  (String.eqb (cname cl) "Num2Bits" || String.eqb (cname cl) "Bits2Num") && Nat.eqb (length (cargs cl)) 1.
Definition known_small (cl : call) : bool :=
  match cargs cl with [VField v] => v <? 254 | _ => false end.
Definition nonstrict_expected (s : stmt) : nat :=
  match s with
  | SAssign k _ _ (RCall cl) => if negb (tk_exits k) && conv_call cl && negb (known_small cl) then 1%nat else 0%nat
  | _ => 0%nat
  end.

Lemma nonstrict_call_spec : forall cl,
  nonstrict_call 254 nonstrict_guards cl = Ok (if conv_call cl && negb (known_small cl) then 1%nat else 0%nat).
Proof.
  intros [name args]. unfold nonstrict_guards, conv_call, known_small. cbn [nonstrict_call cname cargs].
  destruct args as [|a [|b r]].
  - cbn. rewrite !andb_false_r. reflexivity.
  - cbn -[Z.ltb String.eqb]. change (254 + 0) with 254.
    destruct (String.eqb name "Num2Bits") eqn:E1.
    + apply String.eqb_eq in E1. subst name. cbn -[Z.ltb].
      destruct a as [v| |]; cbn -[Z.ltb]; [destruct (v <? 254)|..]; reflexivity.
    + destruct (String.eqb name "Bits2Num") eqn:E2; cbn -[Z.ltb].
      * destruct a as [v| |]; cbn -[Z.ltb]; [destruct (v <? 254)|..]; reflexivity.
      * reflexivity.
  - assert (H : (Z.of_nat (length (a :: b :: r)) =? 1) = false) by (apply Z.eqb_neq; simpl length; lia).
    rewrite H. rewrite ?andb_false_r. cbn. rewrite ?andb_false_r. reflexivity.
Qed.

Lemma nonstrict_visit_spec : forall s, nonstrict_visit Bn254 s = Ok (nonstrict_expected s).
Proof.
  intro s. destruct s as [k var acc r| |]; try reflexivity. destruct r as [cl|]; try reflexivity.
  unfold nonstrict_visit, nonstrict_expected. rewrite prime_size_default.
  destruct (tk_exits k); [reflexivity|]. rewrite nonstrict_call_spec. reflexivity.
Qed.

Lemma nonstrict_reports_exact : forall prog,
  nonstrict_reports Bn254 DTemplate prog = Ok (map nonstrict_expected prog).
Proof.
  intro prog. unfold nonstrict_reports.
  replace (nonstrict_active Bn254 DTemplate) with true by (vm_compute; reflexivity).
  induction prog as [|s prog IH]; [reflexivity|].
  cbn [mapM map]. rewrite nonstrict_visit_spec. cbn [bind]. rewrite IH. reflexivity.
Qed.

(* ------------------------------------------------------------------ *)
(* LessThan                                                             *)
(* ------------------------------------------------------------------ *)
Lemma pow_threshold : forall h t k,
  0 <= t -> 2 ^ t - 1 <= h -> h < 2 ^ (t + 1) - 1 ->
  ((k <? t + 1) = true <-> 2 ^ k - 1 <= h).
Proof.
  intros h t k Ht Hlo Hhi.
  destruct (Z_lt_ge_dec k 0) as [Hneg|Hk].
  { (* a negative size: 2^k = 0 in Z, and the guard holds as well *)
    assert (0 < 2 ^ t) by (apply Z.pow_pos_nonneg; lia).
    split; intro H0; [rewrite Z.pow_neg_r by lia; lia | apply Z.ltb_lt; lia]. }
  assert (Hk' : 0 <= k) by lia. clear Hk.
  split; intro H.
  - apply Z.ltb_lt in H.
    assert (2 ^ k <= 2 ^ t) by (apply Z.pow_le_mono_r; lia). lia.
  - apply Z.ltb_lt. destruct (Z_lt_ge_dec k (t + 1)) as [L|G]; [exact L|exfalso].
    assert (2 ^ (t + 1) <= 2 ^ k) by (apply Z.pow_le_mono_r; lia). lia.
Qed.

Lemma lessthan_guard_exact : forall c k,
  (lessthan_range_checked c k = true <-> kbit_values_nonnegative c k).
Proof.
  intros c k. unfold lessthan_range_checked, lt_guard, kbit_values_nonnegative.
  destruct c.
  - replace (prime_size Bn254) with 254 by (vm_compute; reflexivity).
    cbn [lessthan_guard fst snd cmp_eval]. change (254 + -1) with (252 + 1).
    apply pow_threshold; try lia.
    + apply Z.leb_le. vm_compute. reflexivity.
    + apply Z.ltb_lt. vm_compute. reflexivity.
  - replace (prime_size Bls12_381) with 255 by (vm_compute; reflexivity).
    cbn [lessthan_guard fst snd cmp_eval]. change (255 + -1) with (253 + 1).
    apply pow_threshold; try lia.
    + apply Z.leb_le. vm_compute. reflexivity.
    + apply Z.ltb_lt. vm_compute. reflexivity.
  - replace (prime_size Goldilocks) with 64 by (vm_compute; reflexivity).
    cbn [lessthan_guard fst snd cmp_eval]. change (64 + -1) with (62 + 1).
    apply pow_threshold; try lia.
    + apply Z.leb_le. vm_compute. reflexivity.
    + apply Z.ltb_lt. vm_compute. reflexivity.
Qed.

Lemma lessthan_non_constant_not_checked : forall c size,
  (forall k, size <> VField k) -> lt_guard c size = false.
Proof. intros c size H. destruct size as [k| |]; [exfalso; apply (H k)|..]; reflexivity. Qed.

Lemma components_never_panic : forall s, components_panic s = false.
Proof.
  intro s. destruct s as [k var acc r| |]; try reflexivity. destruct r as [cl|]; try reflexivity.
  simpl. destruct (cargs cl) eqn:E; simpl.
  - replace (0 =? snd rangecheck_template) with false by reflexivity.
    rewrite !andb_false_r. reflexivity.
  - rewrite !andb_false_r. reflexivity.
Qed.

Lemma sizes_of_In : forall v size inputs, In size (sizes_of v inputs) <-> In (INum2Bits v size) inputs.
Proof.
  intros v size inputs. unfold sizes_of. rewrite in_flat_map. split.
  - intros [i [Hi Hs]]. destruct i as [|v' s]; [destruct Hs|].
    destruct (String.eqb v v') eqn:E; [|destruct Hs]. apply String.eqb_eq in E. subst.
    destruct Hs as [<-|[]]. exact Hi.
  - intro H. exists (INum2Bits v size). split; [exact H|]. rewrite String.eqb_refl. left. reflexivity.
Qed.

Lemma is_lt_input_In : forall v inputs, existsb (is_lt_input v) inputs = true <-> In (ILessThan v) inputs.
Proof.
  intros v inputs. rewrite existsb_exists. split.
  - intros [i [Hi H]]. destruct i as [v'|]; [|discriminate]. simpl in H. apply String.eqb_eq in H. subst. exact Hi.
  - intro H. exists (ILessThan v). split; [exact H|]. simpl. apply String.eqb_refl.
Qed.

(* the values reported: inputs of LessThan without a sufficient range check *)
Lemma lessthan_reports_exact : forall c prog,
  exists vs, lessthan_reports c prog = Ok vs /\
  forall v, In v vs <->
    (In (ILessThan v) (collected_inputs prog) /\
     forall k, In (INum2Bits v (VField k)) (collected_inputs prog) -> ~ kbit_values_nonnegative c k).
Proof.
  intros c prog. unfold lessthan_reports.
  assert (Hp : existsb components_panic prog = false).
  { destruct (existsb components_panic prog) eqn:E; [|reflexivity].
    apply existsb_exists in E. destruct E as [s [_ Hs]]. rewrite components_never_panic in Hs. discriminate. }
  rewrite Hp.
  replace (prime_size c + snd lessthan_guard <? 0) with false by (destruct c; vm_compute; reflexivity).
  eexists. split; [reflexivity|].
  intro v. unfold lessthan_values. rewrite filter_In, nodup_In, andb_true_iff, negb_true_iff, is_lt_input_In.
  set (I := collected_inputs prog) in *.
  split.
  - intros [_ [Hlt Hg]]. split; [exact Hlt|]. intros k Hin Hk.
    assert (E : existsb (lt_guard c) (sizes_of v I) = true).
    { apply existsb_exists. exists (VField k). split; [apply sizes_of_In; exact Hin|].
      apply (lessthan_guard_exact c k). exact Hk. }
    congruence.
  - intros [Hlt Hall]. split; [|split; [exact Hlt|]].
    + apply in_map_iff. exists (ILessThan v). split; [reflexivity|exact Hlt].
    + destruct (existsb (lt_guard c) (sizes_of v I)) eqn:E; [exfalso|reflexivity].
      apply existsb_exists in E. destruct E as [size [Hs Hg]].
      apply sizes_of_In in Hs. destruct size as [k| |]; try discriminate.
      apply (Hall k Hs). apply (lessthan_guard_exact c k). exact Hg.
Qed.

(* ------------------------------------------------------------------ *)
(* curve names                                                          *)
(* ------------------------------------------------------------------ *)
Definition all_ascii : list ascii := map ascii_of_nat (seq 0 256).

Lemma all_ascii_complete : forall a, In a all_ascii.
Proof.
  intro a. unfold all_ascii. apply in_map_iff. exists (nat_of_ascii a). split.
  - apply ascii_nat_embedding.
  - apply in_seq. pose proof (nat_ascii_bounded a). lia.
Qed.

Lemma same_letter_upper_table :
  forallb (fun a => forallb (fun b =>
    implb (negb (is_lower b)) (Bool.eqb (same_letter a b) (Ascii.eqb (upper_ascii a) b))) all_ascii) all_ascii = true.
Proof. vm_compute. reflexivity. Qed.

Lemma same_letter_upper : forall a b, is_lower b = false -> same_letter a b = Ascii.eqb (upper_ascii a) b.
Proof.
  intros a b Hb. pose proof same_letter_upper_table as T.
  rewrite forallb_forall in T. specialize (T a (all_ascii_complete a)).
  rewrite forallb_forall in T. specialize (T b (all_ascii_complete b)).
  rewrite Hb in T. simpl in T. apply Bool.eqb_prop in T. exact T.
Qed.

Fixpoint upper_form (t : string) : bool :=
  match t with EmptyString => true | String b r => negb (is_lower b) && upper_form r end.

Lemma same_ignoring_case_upper : forall s t, upper_form t = true ->
  same_ignoring_case s t = String.eqb (upper s) t.
Proof.
  induction s as [|a s IH]; intros t Ht; destruct t as [|b t]; try reflexivity.
  simpl in Ht. apply andb_true_iff in Ht. destruct Ht as [Hb Ht]. apply negb_true_iff in Hb.
  simpl. rewrite (same_letter_upper a b Hb). rewrite (IH t Ht).
  destruct (Ascii.eqb (upper_ascii a) b) eqn:E; reflexivity.
Qed.

(* the normaliser of the current tree is the ASCII one: parse_curve is, for
   EVERY string (bytes >= 128 included), the look-up of its ASCII upper-casing *)
Lemma parse_curve_current : forall s,
  parse_curve s = match assoc (upper s) from_str_arms with
                  | Some v => match curve_of_variant v with Some c => Accepted c | None => Unmodelled end
                  | None => Rejected
                  end.
Proof.
  intro s. unfold parse_curve, normalise.
  replace (String.eqb from_str_normaliser "to_ascii_uppercase") with true by reflexivity.
  reflexivity.
Qed.

Lemma curve_names_case_insensitive : forall s c,
  parse_curve s = Accepted c <-> same_ignoring_case s (curve_doc_name c) = true.
Proof.
  intros s c. rewrite parse_curve_current.
  rewrite same_ignoring_case_upper by (destruct c; reflexivity).
  unfold from_str_arms. cbn [assoc].
  destruct (String.eqb (upper s) "BN254") eqn:E1.
  { apply String.eqb_eq in E1. rewrite E1. destruct c; vm_compute; split; congruence. }
  destruct (String.eqb (upper s) "BLS12_381") eqn:E2.
  { apply String.eqb_eq in E2. rewrite E2. destruct c; vm_compute; split; congruence. }
  destruct (String.eqb (upper s) "GOLDILOCKS") eqn:E3.
  { apply String.eqb_eq in E3. rewrite E3. destruct c; vm_compute; split; congruence. }
  destruct c; cbn [curve_doc_name]; rewrite ?E1, ?E2, ?E3; split; discriminate.
Qed.

Lemma parse_curve_in_model : forall s, parse_curve s <> Unmodelled.
Proof.
  intro s. rewrite parse_curve_current. unfold from_str_arms. cbn [assoc].
  destruct (String.eqb (upper s) "BN254"); [vm_compute; discriminate|].
  destruct (String.eqb (upper s) "BLS12_381"); [vm_compute; discriminate|].
  destruct (String.eqb (upper s) "GOLDILOCKS"); [vm_compute; discriminate|].
  discriminate.
Qed.

Lemma nothing_else_accepted : forall s,
  parse_curve s = Rejected <-> forall c, same_ignoring_case s (curve_doc_name c) = false.
Proof.
  intro s. split.
  - intros H c. destruct (same_ignoring_case s (curve_doc_name c)) eqn:E; [|reflexivity].
    apply (curve_names_case_insensitive s c) in E. congruence.
  - intro H. destruct (parse_curve s) as [c| |] eqn:E; [| reflexivity |].
    + apply (curve_names_case_insensitive s c) in E. rewrite H in E. discriminate.
    + exfalso. exact (parse_curve_in_model s E).
Qed.

(* a spelling with a byte >= 128 is never a curve name: no documented name has one *)
Lemma same_letter_ascii_table :
  forallb (fun a => forallb (fun b =>
    implb (same_letter a b && (N_of_ascii b <? 128)%N) (N_of_ascii a <? 128)%N) all_ascii) all_ascii = true.
Proof. vm_compute. reflexivity. Qed.

Lemma same_ignoring_case_ascii : forall s t, ascii_only t = true -> same_ignoring_case s t = true -> ascii_only s = true.
Proof.
  induction s as [|a s IH]; intros t Ht H; [reflexivity|].
  destruct t as [|b t]; [discriminate|]. simpl in *.
  apply andb_true_iff in Ht. destruct Ht as [Hb Ht]. apply andb_true_iff in H. destruct H as [Hab H].
  pose proof same_letter_ascii_table as T.
  rewrite forallb_forall in T. specialize (T a (all_ascii_complete a)).
  rewrite forallb_forall in T. specialize (T b (all_ascii_complete b)).
  rewrite Hab, Hb in T. simpl in T. rewrite T. simpl. exact (IH t Ht H).
Qed.

Lemma non_ascii_rejected : forall s, ascii_only s = false -> parse_curve s = Rejected.
Proof.
  intros s Hs. apply nothing_else_accepted. intro c.
  destruct (same_ignoring_case s (curve_doc_name c)) eqn:E; [|reflexivity].
  apply same_ignoring_case_ascii in E; [congruence|]. destruct c; reflexivity.
Qed.

(* the defect repaired in /repo (third audit): under the previous normaliser,
   str::to_uppercase, spellings that are NOT case variants were accepted - the
   model of that normaliser accepts them (dotless i, long s), the model of the
   current one rejects them *)
Lemma unicode_normaliser_accepts_more :
  parse_curve_unicode "goldılocks" = Accepted Goldilocks /\
  parse_curve_unicode "blſ12_381" = Accepted Bls12_381 /\
  parse_curve_unicode "goldilockſ" = Accepted Goldilocks /\
  parse_curve "goldılocks" = Rejected /\
  parse_curve "blſ12_381" = Rejected /\
  parse_curve "goldilockſ" = Rejected.
Proof. vm_compute. repeat split; reflexivity. Qed.

(* ------------------------------------------------------------------ *)
(* the model of str::to_uppercase (fourth audit: it is compared with the  *)
(* executed str::to_uppercase on every spelling of every run, and it is   *)
(* the subject of a quantified statement): on ASCII text it is [upper]    *)
(* ------------------------------------------------------------------ *)
Definition code (a : ascii) : Z := Z.of_N (N_of_ascii a).

Lemma utf8_decode_ascii : forall s, ascii_only s = true ->
  utf8_decode s O 0 0 = Some (map code (list_ascii_of_string s)).
Proof.
  induction s as [|a s IH]; intro H; [reflexivity|].
  simpl in H. apply andb_true_iff in H. destruct H as [Ha Hs].
  cbn [utf8_decode list_ascii_of_string map].
  assert (E : (Z.of_N (N_of_ascii a) <? 128) = true).
  { apply Z.ltb_lt. apply N.ltb_lt in Ha. lia. }
  rewrite E. rewrite (IH Hs). reflexivity.
Qed.

Lemma upper_chars_ascii : forall s, ascii_only s = true ->
  upper_chars (map code (list_ascii_of_string s)) = Some (upper s).
Proof.
  induction s as [|a s IH]; intro H; [reflexivity|].
  simpl in H. apply andb_true_iff in H. destruct H as [Ha Hs].
  cbn [list_ascii_of_string map upper_chars upper]. rewrite (IH Hs).
  unfold upper_char, code.
  assert (E : (Z.of_N (N_of_ascii a) <? 128) = true).
  { apply Z.ltb_lt. apply N.ltb_lt in Ha. lia. }
  rewrite E. rewrite N2Z.id. rewrite ascii_N_embedding. reflexivity.
Qed.

Lemma unicode_upper_ascii_agrees : forall s, ascii_only s = true -> unicode_upper s = Some (upper s).
Proof.
  intros s H. unfold unicode_upper. rewrite (utf8_decode_ascii s H). apply upper_chars_ascii. exact H.
Qed.

(* the repair of the normaliser changed nothing for ASCII spellings *)
Lemma normalisers_agree_on_ascii : forall s, ascii_only s = true -> parse_curve_unicode s = parse_curve s.
Proof.
  intros s H. rewrite parse_curve_current. unfold parse_curve_unicode.
  rewrite (unicode_upper_ascii_agrees s H). reflexivity.
Qed.

(* the accept/reject table obtained by executing Curve::from_str *)
Definition decode_result (r : option string) : parse_result :=
  match r with
  | None => Rejected
  | Some v => match curve_of_variant v with Some c => Accepted c | None => Unmodelled end
  end.

Definition parse_result_eqb (a b : parse_result) : bool :=
  match a, b with
  | Accepted c, Accepted d => curve_eqb c d
  | Rejected, Rejected => true
  | _, _ => false
  end.

Lemma parse_result_eqb_eq : forall a b, parse_result_eqb a b = true -> a = b.
Proof. intros [[]| |] [[]| |]; simpl; congruence. Qed.

Lemma curve_name_table_check :
  forallb (fun e => parse_result_eqb (parse_curve (fst e)) (decode_result (snd e))) curve_name_table = true.
Proof. vm_compute. reflexivity. Qed.

Lemma curve_name_table_agrees : forall s r, In (s, r) curve_name_table -> parse_curve s = decode_result r.
Proof.
  intros s r H. pose proof curve_name_table_check as T. rewrite forallb_forall in T.
  specialize (T (s, r) H). simpl in T. apply parse_result_eqb_eq. exact T.
Qed.

(* the executed table covers every case variant of the three names *)
Fixpoint case_variants (s : string) : list string :=
  match s with
  | EmptyString => [EmptyString]
  | String a r =>
    let rest := case_variants r in
    if is_upper a then map (String a) rest ++ map (String (ascii_of_N (N_of_ascii a + 32))) rest
    else map (String a) rest
  end.

Lemma curve_name_table_covers_case_variants : forall c,
  incl_b (case_variants (curve_doc_name c)) (map fst curve_name_table) = true.
Proof. intro c. destruct c; vm_compute; reflexivity. Qed.

Lemma cli_help_and_default :
  cli_help_names = map curve_doc_name all_curves /\ parse_curve cli_default_curve = Accepted Bn254.
Proof. split; vm_compute; reflexivity. Qed.
