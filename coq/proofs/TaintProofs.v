(* Proofs for C09, part 1:
   - ni_generic: non-interference over the abstract transition system of Spec.NiSpec;
   - the closure computed by the mirror of multi_step_taint / multi_step_constraint is exactly
     the reflexive-transitive / transitive closure of the single-step relation;
   - the fuel given to the loops suffices;
   - canon yields a set representation independent of the order of its input. *)
From Coq Require Import ZArith NArith List Bool Relations Lia Permutation.
Require Import Model.Base Model.Ir Model.VarUse Model.Taint Spec.NiSpec.
Import ListNotations.

(* ------------------------------------------------------------------ *)
(* ni_generic                                                          *)
(* ------------------------------------------------------------------ *)

Section NIProof.
  Variables (N V P : Type).
  Variable N_eq_dec : forall a b : N, {a = b} + {a <> b}.
  Variable T : N -> N -> Prop.
  Variable S : N -> Prop.

  Notation Rel := (Rel N T S).
  Notation prog := (prog N V P).
  Notation store := (store N V).

  Definition agreeR (s s' : store) : Prop := forall y, Rel y -> s y = s' y.

  Lemma Rel_sink y : S y -> Rel y.
  Proof. intro H. exists y. split; [assumption | apply rt_refl]. Qed.

  Lemma Rel_back r y : T r y -> Rel y -> Rel r.
  Proof.
    intros Hry [s [Hs Hys]]. exists s. split; [assumption|].
    eapply rt_trans; [apply rt_step; eassumption | assumption].
  Qed.

  Lemma map_agree (rs : list N) (s s' : store) :
    (forall r, In r rs -> s r = s' r) -> map s rs = map s' rs.
  Proof. intro H. apply map_ext_in. assumption. Qed.

  Lemma ni_run (pr pr' : prog) (x : N) :
    wf N V P pr ->
    (forall r y, data_edge N V P pr r y -> T r y) ->
    (forall s, required_sink N V P pr s -> S s) ->
    ~ Rel x ->
    perturbed N V P x pr pr' ->
    forall n h pc s s', agreeR s s' ->
      run N V P N_eq_dec pr n (h, pc, s) = run N V P N_eq_dec pr' n (h, pc, s').
  Proof.
    intros Hwf HT HS Hx Hp n. induction n as [|n IH]; intros h pc s s' Hag; [reflexivity|].
    cbn [run step].
    specialize (Hwf pc). destruct (Hp pc) as [Heq | Hpert].
    - (* same instruction *)
      rewrite Heq. destruct (pr pc) as [y rs f obs nx | rs c pt pf | rs obs nx | ] eqn:Hi.
      + (* assignment *)
        destruct obs.
        * (* observable: target and reads are sinks *)
          assert (Hy : Rel y).
          { apply Rel_sink, HS. right; right. exists pc, rs, f, nx. assumption. }
          assert (Hrs : forall r, In r rs -> s r = s' r).
          { intros r Hr. apply Hag. eapply Rel_back; [|exact Hy].
            apply HT. exists pc, rs, f, true, nx. split; assumption. }
          rewrite (Hwf h s s' Hrs), (map_agree rs s s' Hrs).
          f_equal. apply IH.
          intros z Hz. unfold upd. destruct (N_eq_dec z y); [reflexivity | apply Hag; assumption].
        * cbn [app]. apply IH.
          intros z Hz. unfold upd. destruct (N_eq_dec z y) as [->|Hne]; [|apply Hag; assumption].
          apply Hwf. intros r Hr. apply Hag. eapply Rel_back; [|exact Hz].
          apply HT. exists pc, rs, f, false, nx. split; assumption.
      + (* branch: reads are sinks *)
        assert (Hrs : forall r, In r rs -> s r = s' r).
        { intros r Hr. apply Hag, Rel_sink, HS. left. exists pc, rs, c, pt, pf. split; assumption. }
        rewrite (Hwf h s s' Hrs), (map_agree rs s s' Hrs).
        f_equal. apply IH. assumption.
      + destruct obs.
        * assert (Hrs : forall r, In r rs -> s r = s' r).
          { intros r Hr. apply Hag, Rel_sink, HS. right; left. exists pc, rs, nx. split; assumption. }
          rewrite (map_agree rs s s' Hrs). f_equal. apply IH. assumption.
        * cbn [app]. apply IH. assumption.
      + reflexivity.
    - (* the perturbed assignment to x *)
      destruct Hpert as (rs & f & f' & obs & nx & Hi & Hi'). rewrite Hi, Hi'.
      destruct obs.
      + exfalso. apply Hx, Rel_sink, HS. right; right. exists pc, rs, f, nx. assumption.
      + cbn [app]. apply IH.
        intros z Hz. unfold upd. destruct (N_eq_dec z x) as [->|Hne]; [contradiction | apply Hag; assumption].
  Qed.

  Theorem ni_generic (pr : prog) :
    wf N V P pr ->
    (forall r y, data_edge N V P pr r y -> T r y) ->
    (forall s, required_sink N V P pr s -> S s) ->
    forall x, ~ Rel x -> noninterference N V P N_eq_dec pr x.
  Proof.
    intros Hwf HT HS x Hx pr' Hp s s' Hoff h pc n.
    eapply ni_run; try eassumption.
    intros y Hy. apply Hoff. intros ->. contradiction.
  Qed.
End NIProof.

(* ------------------------------------------------------------------ *)
(* closure = reflexive-transitive closure; fuel                         *)
(* ------------------------------------------------------------------ *)

Section ClosureProofs.
  Variable A : Type.
  Variable eqb : A -> A -> bool.
  Hypothesis eqb_spec : forall a b, eqb a b = true <-> a = b.

  Lemma mem_In x l : mem eqb x l = true <-> In x l.
  Proof.
    unfold mem. rewrite existsb_exists. split.
    - intros [y [Hy He]]. apply eqb_spec in He. subst. assumption.
    - intro H. exists x. split; [assumption | apply eqb_spec; reflexivity].
  Qed.

  Lemma mem_false x l : mem eqb x l = false <-> ~ In x l.
  Proof. rewrite <- mem_In. destruct (mem eqb x l); split; congruence. Qed.

  Lemma subset_incl l1 l2 : subset eqb l1 l2 = true <-> incl l1 l2.
  Proof.
    unfold subset. rewrite forallb_forall. unfold incl.
    split; intros H x Hx; apply mem_In; apply H; assumption.
  Qed.

  Lemma In_dedup x l : In x (dedup eqb l) <-> In x l.
  Proof.
    induction l as [|y r IH]; cbn [dedup]; [tauto|].
    destruct (mem eqb y r) eqn:Hm.
    - rewrite IH. cbn. apply mem_In in Hm. split; [tauto|]. intros [->|H]; assumption.
    - cbn. rewrite IH. tauto.
  Qed.

  Lemma In_extend x result update : In x (extend eqb result update) <-> In x update \/ In x result.
  Proof.
    unfold extend. revert x. induction update as [|y r IH]; intro x; cbn [fold_right]; [cbn; tauto|].
    destruct (mem eqb y _) eqn:Hm.
    - rewrite IH. cbn. apply mem_In in Hm. apply IH in Hm. split; [tauto|].
      intros [[->|H]|H]; tauto.
    - cbn. rewrite IH. tauto.
  Qed.

  Definition edge (m : list (A * A)) (a b : A) : Prop := In (a, b) m.

  Lemma In_single_step m a b : In b (single_step eqb m a) <-> edge m a b.
  Proof.
    unfold single_step, edge. rewrite In_dedup, in_map_iff. split.
    - intros [[a' b'] [Hb Hf]]. cbn in Hb. subst. apply filter_In in Hf. destruct Hf as [Hin He].
      cbn in He. apply eqb_spec in He. subst. assumption.
    - intro H. exists (a, b). split; [reflexivity|]. apply filter_In. split; [assumption|].
      cbn. apply eqb_spec. reflexivity.
  Qed.

  Lemma In_next m update b :
    In b (dedup eqb (flat_map (single_step eqb m) update)) <-> exists u, In u update /\ edge m u b.
  Proof.
    rewrite In_dedup, in_flat_map. split; intros [u [Hu H]]; exists u; (split; [assumption|]); apply In_single_step; assumption.
  Qed.

  Notation reach m := (clos_refl_trans A (edge m)).

  (* what the loop returns, from any state in which [result] is closed up to [update] *)
  Lemma closure_loop_exact m : forall fuel result update r,
    (forall a b, In a result -> edge m a b -> In b result \/ In b update) ->
    closure_loop eqb fuel m result update = Ok r ->
    forall y, In y r <-> (In y result \/ exists u, In u update /\ reach m u y).
  Proof.
    induction fuel as [|fuel IH]; intros result update r Hinv Hrun y; cbn [closure_loop] in Hrun.
    - destruct (subset eqb update result) eqn:Hs; [|discriminate].
      injection Hrun as <-. apply subset_incl in Hs.
      split; [tauto|]. intros [H|[u [Hu Hr]]]; [assumption|].
      apply Hs in Hu. apply clos_rt_rt1n in Hr. induction Hr as [|a b c Hab _ IHr]; [assumption|].
      apply IHr. destruct (Hinv a b Hu Hab) as [H|H]; [assumption | apply Hs; assumption].
    - destruct (subset eqb update result) eqn:Hs.
      + injection Hrun as <-. apply subset_incl in Hs.
        split; [tauto|]. intros [H|[u [Hu Hr]]]; [assumption|].
        apply Hs in Hu. apply clos_rt_rt1n in Hr. induction Hr as [|a b c Hab _ IHr]; [assumption|].
        apply IHr. destruct (Hinv a b Hu Hab) as [H|H]; [assumption | apply Hs; assumption].
      + specialize (IH (extend eqb result update) (dedup eqb (flat_map (single_step eqb m) update)) r).
        rewrite IH; [| |assumption].
        * rewrite In_extend. split.
          -- intros [[H|H]|[u' [Hu' Hr]]].
             ++ right. exists y. split; [assumption | apply rt_refl].
             ++ left. assumption.
             ++ apply In_next in Hu'. destruct Hu' as [u [Hu He]]. right. exists u. split; [assumption|].
                eapply rt_trans; [apply rt_step; eassumption | assumption].
          -- intros [H|[u [Hu Hr]]]; [tauto|].
             apply clos_rt_rt1n in Hr. destruct Hr as [|w z Huw Hwz].
             ++ left. left. assumption.
             ++ right. exists w. split; [apply In_next; exists u; split; assumption | apply clos_rt1n_rt; assumption].
        * intros a b Ha Hab. apply In_extend in Ha. rewrite In_extend. destruct Ha as [Ha|Ha].
          -- right. apply In_next. exists a. split; assumption.
          -- destruct (Hinv a b Ha Hab); tauto.
  Qed.

  (* multi_step_taint: zero or more steps *)
  Theorem closure_exact_refl m x r :
    multi_step_refl eqb m x = Ok r -> forall y, In y r <-> reach m x y.
  Proof.
    unfold multi_step_refl. intros H y.
    rewrite (closure_loop_exact m _ _ _ _ (fun a b (Ha : In a []) _ => match Ha with end) H y).
    split.
    - intros [[]|[u [[<-|[]] Hr]]]. assumption.
    - intro Hr. right. exists x. split; [left; reflexivity | assumption].
  Qed.

  (* multi_step_constraint: one or more steps *)
  Theorem closure_exact_trans m x r :
    multi_step_trans eqb m x = Ok r -> forall y, In y r <-> clos_trans A (edge m) x y.
  Proof.
    unfold multi_step_trans. intros H y.
    rewrite (closure_loop_exact m _ _ _ _ (fun a b (Ha : In a []) _ => match Ha with end) H y).
    split.
    - intros [[]|[u [Hu Hr]]]. apply In_single_step in Hu.
      apply clos_rt_rtn1 in Hr. induction Hr as [|b c Hbc _ IHr]; [apply t_step; assumption|].
      eapply t_trans; [exact IHr | apply t_step; assumption].
    - intro Ht. right. apply clos_trans_t1n in Ht. destruct Ht as [b Hxb | b c Hxb Hbc].
      + exists b. split; [apply In_single_step; assumption | apply rt_refl].
      + exists b. split; [apply In_single_step; assumption|]. apply clos_t1n_trans in Hbc.
        clear -Hbc. induction Hbc; [apply rt_step; assumption | eapply rt_trans; eassumption].
  Qed.

  (* ---- fuel ---- *)

  Lemma filter_length_le (f f' : A -> bool) l :
    (forall y, f' y = true -> f y = true) -> length (filter f' l) <= length (filter f l).
  Proof.
    intro H. induction l as [|a l IH]; cbn; [lia|].
    destruct (f' a) eqn:E'; [rewrite (H a E'); cbn; lia|]. destruct (f a); cbn; lia.
  Qed.

  Lemma filter_length_lt (f f' : A -> bool) l u :
    (forall y, f' y = true -> f y = true) -> In u l -> f u = true -> f' u = false ->
    length (filter f' l) < length (filter f l).
  Proof.
    intros H Hu Hf Hf'. induction l as [|a l IH]; [destruct Hu|].
    cbn. destruct Hu as [->|Hu].
    - rewrite Hf, Hf'. cbn. pose proof (filter_length_le f f' l H). lia.
    - specialize (IH Hu). destruct (f' a) eqn:E'; [rewrite (H a E'); cbn; lia|]. destruct (f a); cbn; lia.
  Qed.

  Definition missing (U result : list A) : list A := filter (fun u => negb (mem eqb u result)) U.

  Lemma closure_loop_fuel m U : (forall a b, edge m a b -> In b U) ->
    forall fuel result update, incl update U -> length (missing U result) < fuel ->
    exists r, closure_loop eqb fuel m result update = Ok r.
  Proof.
    intros HU. induction fuel as [|fuel IH]; intros result update Hup Hlt; [lia|].
    cbn [closure_loop]. destruct (subset eqb update result) eqn:Hs; [eexists; reflexivity|].
    apply IH.
    - intros b Hb. apply In_next in Hb. destruct Hb as [u [_ He]]. eapply HU; eassumption.
    - assert (Hex : exists u, In u update /\ ~ In u result).
      { destruct (existsb (fun u => negb (mem eqb u result)) update) eqn:He.
        - apply existsb_exists in He. destruct He as [u [Hu Hn]]. exists u. split; [assumption|].
          apply mem_false. destruct (mem eqb u result); [discriminate | reflexivity].
        - exfalso. assert (subset eqb update result = true); [|congruence].
          unfold subset. apply forallb_forall. intros u Hu.
          destruct (mem eqb u result) eqn:Hm; [reflexivity|].
          assert (existsb (fun u => negb (mem eqb u result)) update = true); [|congruence].
          apply existsb_exists. exists u. rewrite Hm. split; [assumption | reflexivity]. }
      destruct Hex as [u [Hu Hnr]].
      enough (length (missing U (extend eqb result update)) < length (missing U result)) by lia.
      unfold missing. apply filter_length_lt with (u := u).
      + intros y Hy. destruct (mem eqb y result) eqn:Hm; [|reflexivity].
        apply mem_In in Hm. assert (Hx : mem eqb y (extend eqb result update) = true).
        { apply mem_In, In_extend. tauto. }
        rewrite Hx in Hy. discriminate.
      + apply Hup. assumption.
      + apply mem_false in Hnr. rewrite Hnr. reflexivity.
      + assert (mem eqb u (extend eqb result update) = true) as ->; [|reflexivity].
        apply mem_In, In_extend. tauto.
  Qed.

  Lemma missing_length U result : length (missing U result) <= length U.
  Proof. unfold missing. induction U as [|a l IH]; cbn; [lia|]. destruct (negb _); cbn; lia. Qed.

  Theorem fuel_suffices_refl m x : exists r, multi_step_refl eqb m x = Ok r.
  Proof.
    unfold multi_step_refl, closure_fuel.
    apply closure_loop_fuel with (U := x :: map snd m).
    - intros a b He. right. apply in_map_iff. exists (a, b). split; [reflexivity | assumption].
    - intros u [<-|[]]. left. reflexivity.
    - pose proof (missing_length (x :: map snd m) []). cbn [length] in H. rewrite map_length in H. lia.
  Qed.

  Theorem fuel_suffices_trans m x : exists r, multi_step_trans eqb m x = Ok r.
  Proof.
    unfold multi_step_trans, closure_fuel.
    apply closure_loop_fuel with (U := map snd m).
    - intros a b He. apply in_map_iff. exists (a, b). split; [reflexivity | assumption].
    - intros u Hu. apply In_single_step in Hu. apply in_map_iff. exists (x, u). split; [reflexivity | assumption].
    - pose proof (missing_length (map snd m) []). rewrite map_length in H. lia.
  Qed.
End ClosureProofs.

(* ------------------------------------------------------------------ *)
(* names                                                               *)
(* ------------------------------------------------------------------ *)

Lemma ident_eqb_eq a b : ident_eqb a b = true <-> a = b.
Proof. unfold ident_eqb. destruct (list_eq_dec N.eq_dec a b); split; congruence. Qed.

Lemma opt_eqb_eq {A} (eqb : A -> A -> bool) :
  (forall a b, eqb a b = true <-> a = b) -> forall a b, opt_eqb eqb a b = true <-> a = b.
Proof.
  intros H [x|] [y|]; cbn; try (split; congruence).
  rewrite H. split; congruence.
Qed.

Lemma vname_eqb_eq a b : vname_eqb a b = true <-> a = b.
Proof.
  unfold vname_eqb. rewrite !andb_true_iff, ident_eqb_eq, (opt_eqb_eq ident_eqb ident_eqb_eq),
    (opt_eqb_eq N.eqb N.eqb_eq).
  destruct a, b; cbn. split; [intros [[-> ->] ->]; reflexivity | intro H; injection H; auto].
Qed.

Definition tedge (m : edges) (a b : vname) : Prop := In (a, b) m.

Theorem taint_closure_exact m x r :
  multi_step_taint m x = Ok r -> forall y, In y r <-> clos_refl_trans vname (tedge m) x y.
Proof. apply (closure_exact_refl vname vname_eqb vname_eqb_eq). Qed.

Theorem constraint_closure_exact m x r :
  multi_step_constraint m x = Ok r -> forall y, In y r <-> clos_trans vname (tedge m) x y.
Proof. apply (closure_exact_trans vname vname_eqb vname_eqb_eq). Qed.

Theorem taint_fuel_suffices m x :
  (exists r, multi_step_taint m x = Ok r) /\ (exists r, multi_step_constraint m x = Ok r).
Proof.
  split; [apply (fuel_suffices_refl vname vname_eqb vname_eqb_eq) | apply (fuel_suffices_trans vname vname_eqb vname_eqb_eq)].
Qed.

Lemma single_step_taint_spec m a b : In b (single_step_taint m a) <-> tedge m a b.
Proof. apply (In_single_step vname vname_eqb vname_eqb_eq). Qed.
