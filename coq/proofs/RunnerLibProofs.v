(* Proofs about Model.RunnerLib (the name maps built from the parsed files in
   FileID order, first definition of a name kept): the order in which the
   HashMap<FileID, Vec<Definition>> is iterated is irrelevant, duplicated
   names included. *)
From Coq Require Import ZArith List Bool Permutation Lia.
Require Import Model.Base Gen.Category Model.Runner Model.RunnerLib Spec.RunnerSpec Proofs.RunnerProofs.
Import ListNotations.
Local Open Scope Z_scope.

(* ---- the sort has one result on distinct keys ------------------------------- *)

Lemma insert_entry_comm : forall x y s, fst x <> fst y ->
  insert_entry x (insert_entry y s) = insert_entry y (insert_entry x s).
Proof.
  intros x y s Hxy. induction s as [|a s IH]; simpl.
  - destruct (fst x <=? fst y) eqn:A; destruct (fst y <=? fst x) eqn:B; try reflexivity;
      apply Z.leb_le in A || apply Z.leb_gt in A; apply Z.leb_le in B || apply Z.leb_gt in B; lia.
  - destruct (fst y <=? fst a) eqn:Ya; destruct (fst x <=? fst a) eqn:Xa; simpl;
      destruct (fst x <=? fst y) eqn:A; destruct (fst y <=? fst x) eqn:B; simpl;
      rewrite ?Ya, ?Xa; try reflexivity;
      try (rewrite IH; reflexivity);
      repeat match goal with
             | H : (_ <=? _) = true |- _ => apply Z.leb_le in H
             | H : (_ <=? _) = false |- _ => apply Z.leb_gt in H
             end; lia.
Qed.

Theorem sort_entries_order_irrelevant : forall es1 es2,
  NoDup (map fst es1) -> Permutation es1 es2 -> sort_entries es1 = sort_entries es2.
Proof.
  intros es1 es2 Hnd Hp. induction Hp as [|x l l' Hp IH|x y l|l l' l'' Hp1 IH1 Hp2 IH2].
  - reflexivity.
  - simpl. rewrite IH; auto. simpl in Hnd. inversion Hnd; assumption.
  - simpl. apply insert_entry_comm. simpl in Hnd. inversion Hnd as [|? ? Hn _]; subst.
    intro E. apply Hn. left. symmetry. exact E.
  - rewrite IH1; auto. apply IH2. eapply Permutation_NoDup; [apply Permutation_map; exact Hp1 | exact Hnd].
Qed.

Lemma insert_entry_perm : forall e l, Permutation (e :: l) (insert_entry e l).
Proof.
  intros e l. induction l as [|a l IH]; simpl; auto.
  destruct (fst e <=? fst a); auto.
  eapply Permutation_trans. apply perm_swap. apply perm_skip. exact IH.
Qed.

Lemma sort_entries_perm : forall es, Permutation es (sort_entries es).
Proof.
  induction es as [|e es IH]; simpl; auto.
  eapply Permutation_trans. apply perm_skip. exact IH. apply insert_entry_perm.
Qed.

(* the result IS sorted by FileID (so "first" below means: smallest file id,
   then source order inside the file) *)
Inductive sorted_ids : list entry -> Prop :=
| sorted_nil : sorted_ids []
| sorted_cons : forall e l, (forall e', In e' l -> fst e <= fst e') -> sorted_ids l -> sorted_ids (e :: l).

Lemma insert_entry_sorted : forall e l, sorted_ids l -> sorted_ids (insert_entry e l).
Proof.
  intros e l H. induction H as [|a l Ha Hs IH]; simpl.
  - constructor. intros ? []. constructor.
  - destruct (fst e <=? fst a) eqn:E.
    + apply Z.leb_le in E. constructor.
      * intros e' [<-|Hin]; auto. specialize (Ha e' Hin). lia.
      * constructor; assumption.
    + apply Z.leb_gt in E. constructor; auto.
      intros e' Hin. eapply Permutation_in in Hin; [|apply Permutation_sym, insert_entry_perm].
      destruct Hin as [<-|Hin]; [lia | auto].
Qed.

Theorem sort_entries_sorted : forall es, sorted_ids (sort_entries es).
Proof. induction es as [|e es IH]; simpl. constructor. apply insert_entry_sorted. exact IH. Qed.

(* ---- the library --------------------------------------------------------------- *)

Theorem library_order_irrelevant : forall es1 es2,
  NoDup (map fst es1) -> Permutation es1 es2 ->
  library_of es1 = library_of es2 /\ duplicates_of es1 = duplicates_of es2.
Proof.
  intros es1 es2 Hnd Hp. unfold library_of, duplicates_of, definitions_in_file_order.
  rewrite (sort_entries_order_irrelevant es1 es2 Hnd Hp). split; reflexivity.
Qed.

Lemma first_named_app : forall n a b,
  first_named n (a ++ b) = match first_named n a with Some d => Some d | None => first_named n b end.
Proof.
  intros n a b. unfold first_named. induction a as [|x a IH]; simpl; auto.
  destruct (d_name x =? n); auto.
Qed.

Lemma first_named_none : forall n m, first_named n m = None <-> ~ In n (map d_name m).
Proof.
  intros n m. unfold first_named. induction m as [|x m IH]; simpl.
  - split; auto.
  - destruct (d_name x =? n) eqn:E.
    + apply Z.eqb_eq in E. split; [discriminate | intros H; exfalso; apply H; left; exact E].
    + apply Z.eqb_neq in E. rewrite IH. split; [intros H [H'|H']; auto | intros H H'; apply H; right; exact H'].
Qed.

Lemma nodup_snoc : forall (l : list Z) x, NoDup l -> ~ In x l -> NoDup (l ++ [x]).
Proof.
  intros l x Hn Hx. eapply Permutation_NoDup. apply Permutation_cons_append. constructor; assumption.
Qed.

Lemma lib_fold_names_nodup : forall l m, NoDup (map d_name m) -> NoDup (map d_name (fold_left lib_add l m)).
Proof.
  induction l as [|d l IH]; simpl; intros m H; auto.
  apply IH. unfold lib_add, name_used. destruct (first_named (d_name d) m) eqn:E; auto.
  rewrite map_app. simpl. apply first_named_none in E. apply nodup_snoc; assumption.
Qed.

(* a name is held by at most one definition, function or template *)
Theorem library_names_distinct : forall es, NoDup (map d_name (library_of es)).
Proof. intros es. unfold library_of. apply lib_fold_names_nodup. constructor. Qed.

Lemma names_nodup_keys_nodup : forall ds, NoDup (map d_name ds) -> NoDup (map d_key ds).
Proof.
  induction ds as [|d ds IH]; simpl; intros H. constructor.
  inversion H as [|? ? Hn Hr]; subst. constructor; auto.
  intro Hin. apply Hn. apply in_map_iff in Hin. destruct Hin as [d' [E Hd']].
  apply in_map_iff. exists d'. split; auto. unfold d_key in E. congruence.
Qed.

(* ... hence the hypothesis [wf_project] of the runner theorems holds for every
   project the tool can build, duplicated names or not *)
Theorem library_wf : forall parse es user, wf_project (mkProject parse (library_of es) user).
Proof. intros. unfold wf_project. simpl. apply names_nodup_keys_nodup, library_names_distinct. Qed.

(* which definition a name denotes: the FIRST one in file-id order *)
Lemma lib_fold_first : forall n l m,
  first_named n (fold_left lib_add l m) = match first_named n m with Some d => Some d | None => first_named n l end.
Proof.
  intros n. induction l as [|d l IH]; simpl; intros m.
  - destruct (first_named n m); reflexivity.
  - rewrite IH. unfold lib_add, name_used. destruct (first_named (d_name d) m) eqn:E.
    + destruct (first_named n m) eqn:F; auto.
      unfold first_named at 2. simpl. destruct (d_name d =? n) eqn:G; auto.
      apply Z.eqb_eq in G. rewrite G in E. congruence.
    + rewrite first_named_app. destruct (first_named n m) eqn:F; auto.
      unfold first_named at 1 3. simpl. destruct (d_name d =? n); auto.
Qed.

Theorem library_keeps_first_definition : forall es n,
  first_named n (library_of es) = first_named n (definitions_in_file_order es).
Proof. intros. unfold library_of. rewrite lib_fold_first. reflexivity. Qed.

(* every definition of the library is a parsed definition, and every parsed
   name is in the library *)
Theorem library_covers_names : forall es n,
  In n (map d_name (library_of es)) <-> In n (map d_name (definitions_in_file_order es)).
Proof.
  intros es n. pose proof (library_keeps_first_definition es n) as H.
  destruct (first_named n (library_of es)) eqn:A; destruct (first_named n (definitions_in_file_order es)) eqn:B;
    try discriminate.
  - split; intros _.
    + destruct (in_dec Z.eq_dec n (map d_name (definitions_in_file_order es))) as [|N]; auto.
      apply first_named_none in N. congruence.
    + destruct (in_dec Z.eq_dec n (map d_name (library_of es))) as [|N]; auto.
      apply first_named_none in N. congruence.
  - apply first_named_none in A. apply first_named_none in B. tauto.
Qed.

(* ---- whole runs ----------------------------------------------------------------- *)

Theorem file_order_irrelevant_lib : forall parse1 parse2 es1 es2 user o order1 order2,
  NoDup (map fst es1) -> Permutation es1 es2 -> Permutation parse1 parse2 ->
  let p1 := mkProject parse1 (library_of es1) user in
  let p2 := mkProject parse2 (library_of es2) user in
  analysis_order p1 order1 -> analysis_order p2 order2 ->
  Permutation (res_shown (run_keys p1 o order1)) (res_shown (run_keys p2 o order2)) /\
  res_exit (run_keys p1 o order1) = res_exit (run_keys p2 o order2) /\
  duplicates_of es1 = duplicates_of es2.
Proof.
  intros parse1 parse2 es1 es2 user o order1 order2 Hnd Hes Hp p1 p2 H1 H2.
  destruct (library_order_irrelevant es1 es2 Hnd Hes) as [EL ED].
  assert (W1 : wf_project p1) by apply library_wf.
  assert (W2 : wf_project p2) by apply library_wf.
  assert (HP : Permutation (res_shown (run_keys p1 o order1)) (res_shown (run_keys p2 o order2))).
  { eapply Permutation_trans. apply conservation; auto.
    eapply Permutation_trans. 2: { apply Permutation_sym. apply conservation; auto. }
    unfold p1, p2. simpl. apply Permutation_filter'. rewrite EL. apply produced_perm; auto. }
  split; auto. split; auto.
  destruct (run_keys_spec p1 o order1 (analysis_order_ok p1 order1 W1 H1)) as [A1 [_ [C1 _]]].
  destruct (run_keys_spec p2 o order2 (analysis_order_ok p2 order2 W2 H2)) as [A2 [_ [C2 _]]].
  pose proof (Permutation_length HP) as HL. rewrite A1, A2 in HL. rewrite C1, C2, HL. reflexivity.
Qed.

(* two files define T (and a function is called like a template of the other
   file): the library and the blamed definitions are the same for both
   iteration orders of the map, and the FIRST file's definitions are kept *)
Definition ex_r : report := mkReport Warning 5 5 [1%Z] 1.
Definition ex_a : def := mkDef KTemplate 7 0 [] None [] [].
Definition ex_b : def := mkDef KTemplate 7 1 [] None [ex_r] [].
Definition ex_f : def := mkDef KFunction 8 0 [] None [] [].
Definition ex_g : def := mkDef KTemplate 8 1 [] None [] [].

Example duplicates_first_file_kept :
  library_of [(1, [ex_b; ex_g]); (0, [ex_a; ex_f])] = [ex_a; ex_f] /\
  library_of [(0, [ex_a; ex_f]); (1, [ex_b; ex_g])] = [ex_a; ex_f] /\
  duplicates_of [(1, [ex_b; ex_g]); (0, [ex_a; ex_f])] = [(ex_b, ex_a); (ex_g, ex_f)].
Proof. vm_compute. repeat split; reflexivity. Qed.
