(* Proofs for C09, part 3: location faithfulness.  The location carried by a finding of the mirror
   of run_side_effect_analysis about a variable is the location of the statement that defines that
   SSA name: the last non-phi assignment in visiting order (HashMap::insert semantics of the
   definitions map), which under the unique-definition property established by the verified SSA
   validator (Proofs.SsaProofs.ssa_check_unique_defs) is the ONLY assignment to that name. *)
From Coq Require Import ZArith NArith List Bool Lia.
Require Import Model.Base Model.Ir Model.VarUse Model.Taint Model.SideEffect Spec.DefSite
  Proofs.TaintProofs Proofs.SideEffectProofs.
Require Model.SsaCheck Proofs.SsaProofs.
Import ListNotations.

(* ------------------------------------------------------------------ *)
(* the definitions map as a fold over the statements                    *)
(* ------------------------------------------------------------------ *)

Definition def_of (s : stmt) : option duse :=
  match s with
  | SSubst m v _ rhe _ (Some _) => if is_phi rhe then None else Some (mkD v m (rhe_has_access rhe))
  | _ => None
  end.

Definition defs_step (defs : list duse) (s : stmt) : list duse :=
  match def_of s with Some d => dmap_insert defs d | None => defs end.

Lemma t_defs_taint_stmt D bs br bi st s :
  t_defs (taint_stmt D bs br bi st s) = defs_step (t_defs st) s.
Proof.
  destruct s as [m names t dims|m c t f|m e|m v op rhe sv stype|m l r|m args|m e]; try reflexivity.
  - (* SDecl *)
    unfold defs_step; cbn [def_of taint_stmt].
    apply (fold_left_inv _ (fun st' => t_defs st' = t_defs st)); [|reflexivity].
    intros a b H. exact H.
  - (* SIf *)
    unfold defs_step; cbn [def_of taint_stmt].
    destruct (expr_val c); [reflexivity|].
    apply (fold_left_inv _ (fun st' => t_defs st' = t_defs st)); [|reflexivity].
    intros a i H. destruct (get_block bs i); [|exact H].
    apply (fold_left_inv _ (fun st' => t_defs st' = t_defs st)); [|exact H].
    intros a' b' H'. exact H'.
  - (* SSubst *)
    unfold defs_step. cbn [def_of taint_stmt].
    unfold stmt_writes_w.
    destruct stype as [[]|]; cbn [stmt_uses s_lw s_sw s_cw app fold_left t_defs w_name w_meta w_acc];
      destruct (is_phi rhe); reflexivity.
Qed.

Lemma t_defs_fold_stmts D bs br bi ss : forall st,
  t_defs (fold_left (taint_stmt D bs br bi) ss st) = fold_left defs_step ss (t_defs st).
Proof.
  induction ss as [|s ss IH]; intro st; [reflexivity|].
  cbn [fold_left]. rewrite IH, t_defs_taint_stmt. reflexivity.
Qed.

Lemma t_defs_fold_blocks D bs br l : forall st,
  t_defs (fold_left (taint_block D bs br) l st) = fold_left defs_step (flat_map b_stmts l) (t_defs st).
Proof.
  induction l as [|b l IH]; intro st; [reflexivity|].
  cbn [fold_left flat_map]. rewrite fold_left_app, IH. unfold taint_block.
  rewrite t_defs_fold_stmts. reflexivity.
Qed.

Lemma t_defs_run g br :
  t_defs (run_taint_analysis g br)
  = fold_left defs_step (cfg_stmts g) (t_defs (taint_init (c_params g))).
Proof. unfold run_taint_analysis, cfg_stmts. apply t_defs_fold_blocks. Qed.

(* ------------------------------------------------------------------ *)
(* HashMap::insert: keys stay distinct, the last insertion wins         *)
(* ------------------------------------------------------------------ *)

Lemma dmap_insert_In l d x : In x (dmap_insert l d) -> x = d \/ In x l.
Proof.
  induction l as [|y l IH]; cbn.
  - intros [H|[]]. left. symmetry. exact H.
  - destruct (vname_eqb (d_name y) (d_name d)).
    + intros [H|H]; [left; symmetry; exact H | right; right; exact H].
    + intros [H|H]; [right; left; exact H|]. destruct (IH H) as [H'|H']; [left; exact H' | right; right; exact H'].
Qed.

Lemma dmap_insert_keys_in l d k :
  In k (map d_name (dmap_insert l d)) -> k = d_name d \/ In k (map d_name l).
Proof.
  intro H. apply in_map_iff in H. destruct H as [x [<- Hx]].
  apply dmap_insert_In in Hx. destruct Hx as [->|Hx]; [left; reflexivity | right; apply in_map; exact Hx].
Qed.

Lemma dmap_insert_nodup l d : NoDup (map d_name l) -> NoDup (map d_name (dmap_insert l d)).
Proof.
  induction l as [|y l IH]; cbn; intro H.
  - constructor; [intros [] | constructor].
  - inversion H as [|? ? Hy Hl]; subst.
    destruct (vname_eqb (d_name y) (d_name d)) eqn:E; cbn.
    + apply vname_eqb_eq in E. rewrite <- E. exact H.
    + constructor; [|apply IH; exact Hl].
      intro Hin. apply dmap_insert_keys_in in Hin. destruct Hin as [Hin|Hin]; [|exact (Hy Hin)].
      rewrite <- Hin in E.
      assert (vname_eqb (d_name y) (d_name y) = true) by (apply vname_eqb_eq; reflexivity). congruence.
Qed.

Lemma dmap_insert_In_strong l d x :
  NoDup (map d_name l) -> In x (dmap_insert l d) -> x = d \/ (In x l /\ d_name x <> d_name d).
Proof.
  induction l as [|y l IH]; cbn; intros H Hin.
  - destruct Hin as [Hin|[]]. left. symmetry. exact Hin.
  - inversion H as [|? ? Hy Hl]; subst.
    destruct (vname_eqb (d_name y) (d_name d)) eqn:E.
    + apply vname_eqb_eq in E. destruct Hin as [Hin|Hin]; [left; symmetry; exact Hin|].
      right. split; [right; exact Hin|]. intro Heq. apply Hy. rewrite E, <- Heq. apply in_map. exact Hin.
    + destruct Hin as [Hin|Hin].
      * right. subst x. split; [left; reflexivity|]. intro Heq. rewrite Heq in E.
        assert (vname_eqb (d_name d) (d_name d) = true) by (apply vname_eqb_eq; reflexivity). congruence.
      * destruct (IH Hl Hin) as [Hx|[Hx Hne]]; [left; exact Hx | right; split; [right; exact Hx | exact Hne]].
Qed.

Lemma defs_step_nodup defs s : NoDup (map d_name defs) -> NoDup (map d_name (defs_step defs s)).
Proof. unfold defs_step. destruct (def_of s); [apply dmap_insert_nodup | trivial]. Qed.

(* an entry of the final map comes from the LAST statement that defines its key, or from the initial
   map if no statement defines the key *)
Lemma defs_fold_last L : forall defs0 d,
  NoDup (map d_name defs0) -> In d (fold_left defs_step L defs0) ->
  (exists pre s post, L = pre ++ s :: post /\ def_of s = Some d /\
      forall s' d', In s' post -> def_of s' = Some d' -> d_name d' <> d_name d)
  \/ (In d defs0 /\ forall s' d', In s' L -> def_of s' = Some d' -> d_name d' <> d_name d).
Proof.
  induction L as [|s L IH]; intros defs0 d Hnd Hin.
  - right. split; [exact Hin | intros s' d' []].
  - cbn [fold_left] in Hin.
    destruct (IH _ _ (defs_step_nodup defs0 s Hnd) Hin) as [(pre & s0 & post & -> & Hd & Hpost) | [Hin0 Hnone]].
    + left. exists (s :: pre), s0, post. split; [reflexivity | split; assumption].
    + unfold defs_step in Hin0. destruct (def_of s) as [d0|] eqn:Es.
      * destruct (dmap_insert_In_strong _ _ _ Hnd Hin0) as [->|[Hin1 Hne]].
        -- left. exists [], s, L. split; [reflexivity | split; [exact Es | exact Hnone]].
        -- right. split; [exact Hin1|]. intros s' d' [<-|Hs'] Hd'; [|eapply Hnone; eassumption].
           rewrite Es in Hd'. injection Hd' as <-. intro Heq. apply Hne. symmetry. exact Heq.
      * right. split; [exact Hin0|]. intros s' d' [<-|Hs'] Hd'; [congruence | eapply Hnone; eassumption].
Qed.

(* TaintAnalysis::new: one entry per parameter, with the location of the parameter list *)
Lemma taint_init_fold ps : forall l acc,
  (forall p, In p l -> In p ps) ->
  NoDup (map d_name acc) /\ (forall d, In d acc -> In (d_name d) ps /\ d_meta d = meta0) ->
  let r := fold_left (fun acc p => dmap_insert acc (mkD p meta0 false)) l acc in
  NoDup (map d_name r) /\ (forall d, In d r -> In (d_name d) ps /\ d_meta d = meta0).
Proof.
  induction l as [|p l IH]; intros acc Hl [Hnd Hacc]; cbn [fold_left]; [split; assumption|].
  apply IH; [intros q Hq; apply Hl; right; exact Hq|]. split; [apply dmap_insert_nodup; exact Hnd|].
  intros d Hd. apply dmap_insert_In in Hd. destruct Hd as [->|Hd]; [|apply Hacc; exact Hd].
  cbn. split; [apply Hl; left; reflexivity | reflexivity].
Qed.

Lemma taint_init_defs ps :
  NoDup (map d_name (t_defs (taint_init ps))) /\
  (forall d, In d (t_defs (taint_init ps)) -> In (d_name d) ps /\ d_meta d = meta0).
Proof.
  unfold taint_init. cbn [t_defs]. apply (taint_init_fold ps ps []); [auto|].
  split; [constructor | intros d []].
Qed.

(* ------------------------------------------------------------------ *)
(* def_of against the specification predicate                           *)
(* ------------------------------------------------------------------ *)

Lemma def_of_shape s d : def_of s = Some d ->
  exists op rhe sv t, s = SSubst (d_meta d) (d_name d) op rhe sv (Some t) /\ is_phi_expr rhe = false.
Proof.
  destruct s as [m names t dims|m c t f|m e|m v op rhe sv [t|]|m l r|m args|m e]; cbn; try discriminate.
  destruct (is_phi rhe) eqn:E; [discriminate|]. intro H. injection H as <-. cbn.
  exists op, rhe, sv, t. split; [reflexivity | exact E].
Qed.

Lemma def_of_none_is_def_of x s :
  (forall d', def_of s = Some d' -> d_name d' <> x) -> is_def_of x s = false.
Proof.
  destruct s as [m names t dims|m c t f|m e|m v op rhe sv [t|]|m l r|m args|m e]; cbn; try reflexivity.
  change (is_phi_expr rhe) with (is_phi rhe).
  destruct (is_phi rhe); [intros _; apply andb_false_r|].
  intro H. rewrite andb_true_r. destruct (vname_eqb v x) eqn:E; [|reflexivity].
  apply vname_eqb_eq in E. exfalso. eapply H; [reflexivity | exact E].
Qed.

(* ------------------------------------------------------------------ *)
(* findings                                                             *)
(* ------------------------------------------------------------------ *)

Lemma definition_finding_loc g tm read snk d f :
  definition_finding g tm read snk d = Ok (Some f) -> f_var f = d_name d /\ f_meta f = d_meta d.
Proof.
  unfold definition_finding.
  destruct (displays_underscore (d_name d) (d_acc d)); [discriminate|].
  destruct (negb (vmem (d_name d) read)).
  - intro H. injection H as <-. split; reflexivity.
  - intro H. apply bind_Ok in H. destruct H as [t [_ H]]. destruct t; [discriminate|].
    injection H as <-. split; reflexivity.
Qed.

Lemma variable_claim_from_definitions g br res f :
  run_side_effect_analysis g br = Ok res -> In f (r_findings res) -> is_variable_claim f = true ->
  exists d, In d (t_defs (run_taint_analysis g br)) /\ f_var f = d_name d /\ f_meta f = d_meta d.
Proof.
  intros Hrun Hf Hk.
  unfold run_side_effect_analysis, run_side_effect_analysis_with in Hrun.
  apply bind_Ok in Hrun. destruct Hrun as [snk [Hsnk Hrun]].
  apply bind_Ok in Hrun. destruct Hrun as [fs1 [Hfs1 Hrun]].
  apply bind_Ok in Hrun. destruct Hrun as [fs2 [Hfs2 Hrun]].
  injection Hrun as <-. cbn [r_findings] in Hf. apply in_app_or in Hf. destruct Hf as [Hf|Hf].
  - apply In_somes in Hf. destruct (mapM_Ok_In_rev _ _ _ Hfs1 _ Hf) as [d [Hd Hdf]].
    exists d. split; [exact Hd | eapply definition_finding_loc; exact Hdf].
  - exfalso. apply In_somes in Hf. destruct (mapM_Ok_In_rev _ _ _ Hfs2 _ Hf) as [kt [_ Hkt]].
    apply signal_finding_kind in Hkt. unfold is_variable_claim in Hk.
    destruct Hkt as [H|H]; rewrite H in Hk; discriminate.
Qed.

(* The location of a claim about a variable is the location of the last assignment to the flagged
   name in visiting order; only a parameter that no statement assigns carries the (absent)
   location of the parameter list.  No hypothesis on the graph. *)
Theorem finding_location_last_definition g br res f :
  run_side_effect_analysis g br = Ok res ->
  In f (r_findings res) ->
  is_variable_claim f = true ->
  (exists pre post op rhe sv t,
      cfg_stmts g = pre ++ SSubst (f_meta f) (f_var f) op rhe sv (Some t) :: post /\
      is_phi_expr rhe = false /\
      forall s', In s' post -> is_def_of (f_var f) s' = false)
  \/ (In (f_var f) (c_params g) /\ f_meta f = meta0 /\
      forall s', In s' (cfg_stmts g) -> is_def_of (f_var f) s' = false).
Proof.
  intros Hrun Hf Hk.
  destruct (variable_claim_from_definitions _ _ _ _ Hrun Hf Hk) as [d [Hd [Hv Hm]]].
  rewrite t_defs_run in Hd. destruct (taint_init_defs (c_params g)) as [Hnd Hinit].
  destruct (defs_fold_last _ _ _ Hnd Hd) as [(pre & s & post & HL & Hs & Hpost) | [Hin0 Hnone]].
  - left. destruct (def_of_shape _ _ Hs) as (op & rhe & sv & t & -> & Hphi).
    exists pre, post, op, rhe, sv, t. rewrite Hv, Hm. split; [exact HL | split; [exact Hphi|]].
    intros s' Hs'. apply def_of_none_is_def_of. intros d' Hd'. eapply Hpost; eassumption.
  - right. destruct (Hinit _ Hin0) as [Hp Hm0]. rewrite Hv, Hm. split; [exact Hp | split; [exact Hm0|]].
    intros s' Hs'. apply def_of_none_is_def_of. intros d' Hd'. eapply Hnone; eassumption.
Qed.

(* ------------------------------------------------------------------ *)
(* with unique definitions (SSA validator): the ONLY assignment         *)
(* ------------------------------------------------------------------ *)

Definition def_list (s : stmt) : list vname :=
  match SsaCheck.stmt_def s with Some x => [x] | None => [] end.

Lemma all_defs_flat g : SsaCheck.all_defs g = flat_map def_list (cfg_stmts g).
Proof.
  unfold SsaCheck.all_defs, cfg_stmts. induction (c_blocks g) as [|b l IH]; [reflexivity|].
  cbn [flat_map]. rewrite flat_map_app, IH. reflexivity.
Qed.

Lemma in_def_list_flat x l : In x (flat_map def_list l) <-> exists s, In s l /\ SsaCheck.stmt_def s = Some x.
Proof.
  rewrite in_flat_map. split; intros [s [Hs H]]; exists s; (split; [exact Hs|]).
  - unfold def_list in H. destruct (SsaCheck.stmt_def s); [destruct H as [->|[]]; reflexivity | destruct H].
  - unfold def_list. rewrite H. left. reflexivity.
Qed.

Lemma unique_def_of_nodup g pre m x op rhe sv st post :
  NoDup (SsaCheck.all_defs g) ->
  cfg_stmts g = pre ++ SSubst m x op rhe sv st :: post ->
  vn_version x <> None ->
  forall s', In s' (pre ++ post) -> SsaCheck.stmt_def s' <> Some x.
Proof.
  intros Hnd HL Hver s' Hs' Hdef.
  rewrite all_defs_flat, HL, flat_map_app in Hnd. cbn [flat_map] in Hnd.
  assert (Hx : def_list (SSubst m x op rhe sv st) = [x]).
  { unfold def_list. cbn. destruct (vn_version x); [reflexivity | contradiction]. }
  rewrite Hx in Hnd. cbn [app] in Hnd. apply NoDup_remove_2 in Hnd. apply Hnd.
  rewrite <- flat_map_app. apply in_def_list_flat. exists s'. split; assumption.
Qed.

Theorem finding_location_unique_definition_nodup g br res f :
  NoDup (SsaCheck.all_defs g) ->
  run_side_effect_analysis g br = Ok res ->
  In f (r_findings res) ->
  is_variable_claim f = true ->
  vn_version (f_var f) <> None ->
  (exists pre post op rhe sv t,
      cfg_stmts g = pre ++ SSubst (f_meta f) (f_var f) op rhe sv (Some t) :: post /\
      is_phi_expr rhe = false /\
      forall s', In s' (pre ++ post) -> SsaCheck.stmt_def s' <> Some (f_var f))
  \/ (In (f_var f) (c_params g) /\ f_meta f = meta0 /\
      forall s', In s' (cfg_stmts g) -> is_def_of (f_var f) s' = false).
Proof.
  intros Hnd Hrun Hf Hk Hver.
  destruct (finding_location_last_definition _ _ _ _ Hrun Hf Hk)
    as [(pre & post & op & rhe & sv & t & HL & Hphi & _) | H]; [left | right; exact H].
  exists pre, post, op, rhe, sv, t. split; [exact HL | split; [exact Hphi|]].
  eapply unique_def_of_nodup; eassumption.
Qed.

Theorem finding_location_unique_definition g idom br res f :
  SsaCheck.ssa_check g idom = true ->
  run_side_effect_analysis g br = Ok res ->
  In f (r_findings res) ->
  is_variable_claim f = true ->
  vn_version (f_var f) <> None ->
  (exists pre post op rhe sv t,
      cfg_stmts g = pre ++ SSubst (f_meta f) (f_var f) op rhe sv (Some t) :: post /\
      is_phi_expr rhe = false /\
      forall s', In s' (pre ++ post) -> SsaCheck.stmt_def s' <> Some (f_var f))
  \/ (In (f_var f) (c_params g) /\ f_meta f = meta0 /\
      forall s', In s' (cfg_stmts g) -> is_def_of (f_var f) s' = false).
Proof.
  intro Hchk. apply finding_location_unique_definition_nodup.
  eapply SsaProofs.ssa_check_unique_defs. exact Hchk.
Qed.

(* at most one claim of the definitions loop per name: the keys of the definitions map are distinct *)
Lemma defs_fold_nodup L : forall defs0, NoDup (map d_name defs0) -> NoDup (map d_name (fold_left defs_step L defs0)).
Proof.
  induction L as [|s L IH]; intros defs0 H; [exact H|]. cbn [fold_left]. apply IH, defs_step_nodup, H.
Qed.

Theorem definitions_keys_distinct g br : NoDup (map d_name (t_defs (run_taint_analysis g br))).
Proof. rewrite t_defs_run. apply defs_fold_nodup, taint_init_defs. Qed.

(* the decidable form of the one conjunct of ssa_check that is used *)
Theorem finding_location_unique_definition_nodup_b g br res f :
  SsaCheck.nodup_v (SsaCheck.all_defs g) = true ->
  run_side_effect_analysis g br = Ok res ->
  In f (r_findings res) ->
  is_variable_claim f = true ->
  vn_version (f_var f) <> None ->
  (exists pre post op rhe sv t,
      cfg_stmts g = pre ++ SSubst (f_meta f) (f_var f) op rhe sv (Some t) :: post /\
      is_phi_expr rhe = false /\
      forall s', In s' (pre ++ post) -> SsaCheck.stmt_def s' <> Some (f_var f))
  \/ (In (f_var f) (c_params g) /\ f_meta f = meta0 /\
      forall s', In s' (cfg_stmts g) -> is_def_of (f_var f) s' = false).
Proof.
  intro H. apply finding_location_unique_definition_nodup. apply SsaProofs.nodup_v_NoDup. exact H.
Qed.
