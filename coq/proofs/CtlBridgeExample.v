(* C07: the hypotheses of Proofs.CtlBridge.lifted_split_decides are satisfiable - the
   diamond `if (a == 1) {x.1 = 1} else {x.2 = 2}; x.3 = phi(x.1, x.2); b <-- x.3` (a phi
   under a signal-dependent branch) has the edges of the lifted skeleton
   `if (c1) {s2} else {s3}; s4`; block 0 can change the edge along which the join 3 is
   entered, and the table walk names its condition. *)
From Coq Require Import ZArith Lia.
From stdpp Require Import list list_numbers sets.
Require Model.Base Model.Ir Model.Lift Model.Dom Model.DegGraph Model.DegJustify.
Require Spec.CfgSpec Spec.CtlSpec Spec.DegSem.
Require Proofs.MirrorsDom Proofs.CtlStructure Proofs.CtlBridge.
Import Model.Ir.

Definition exb_k (d : option drange) : know := {| kval := None; kdeg := d |}.
Definition exb_cc : option drange := Some (DConst, DConst).
Definition exb_m : meta := {| m_start := 0%N; m_end := 0%N; m_file := None |}.
Definition exb_x (n : N) : vname := {| vn_name := [120%N]; vn_suffix := None; vn_version := Some n |}.
Definition exb_a : vname := {| vn_name := [97%N]; vn_suffix := None; vn_version := None |}.
Definition exb_b : vname := {| vn_name := [98%N]; vn_suffix := None; vn_version := None |}.
Definition exb_cond : expr :=
  EInfix IEq (EVar exb_a (exb_k (Some (DLin, DLin)))) (ENum 1 (exb_k exb_cc)) (exb_k (Some (DNonQuad, DNonQuad))).
Definition exb_claim : option drange := Some (DConst, DNonQuad).
Definition exb_join : block :=
  {| b_index := 3%N; b_depth := 0%N; b_preds := [1%N; 2%N]; b_succs := [];
     b_stmts := [ SSubst exb_m (exb_x 3) OpVar (EPhi [exb_x 1; exb_x 2] (exb_k exb_claim)) None (Some TLocal);
                  SSubst exb_m exb_b OpSig (EVar (exb_x 3) (exb_k exb_claim)) None (Some TSigOut) ] |}.
Definition exb_graph : cfg :=
  {| c_kind := KTemplate; c_params := [];
     c_decls := [(exb_x 1, TLocal); (exb_x 2, TLocal); (exb_x 3, TLocal); (exb_a, TSigIn); (exb_b, TSigOut)];
     c_blocks :=
       [ {| b_index := 0%N; b_depth := 0%N; b_preds := []; b_succs := [1%N; 2%N];
            b_stmts := [ SIf exb_m exb_cond 1%N (Some 2%N) ] |};
         {| b_index := 1%N; b_depth := 0%N; b_preds := [0%N]; b_succs := [3%N];
            b_stmts := [ SSubst exb_m (exb_x 1) OpVar (ENum 1 (exb_k exb_cc)) None (Some TLocal) ] |};
         {| b_index := 2%N; b_depth := 0%N; b_preds := [0%N]; b_succs := [3%N];
            b_stmts := [ SSubst exb_m (exb_x 2) OpVar (ENum 2 (exb_k exb_cc)) None (Some TLocal) ] |};
         exb_join ] |}.
Definition exb_idom : list (option N) := [None; Some 0%N; Some 0%N; Some 0%N].

Definition exb_body : Lift.sk :=
  Lift.SBlock [Lift.SIf 1 (Lift.SBlock [Lift.SLeaf 2 false]) (Some (Lift.SBlock [Lift.SLeaf 3 false])); Lift.SLeaf 4 false].

Definition exb_skel : list Lift.block :=
  [Lift.Block 0 0 [Lift.IBranch 1 1 (Some 2)] [] [1; 2]; Lift.Block 1 0 [Lift.ILeaf 2] [0] [3];
   Lift.Block 2 0 [Lift.ILeaf 3] [0] [3]; Lift.Block 3 0 [Lift.ILeaf 4] [1; 2] []].

Lemma bridge_example :
  Lift.lift exb_body = Base.Ok exb_skel ∧
  DegGraph.dom_graph_of exb_graph = MirrorsDom.to_dom exb_skel ∧
  DegGraph.graph_consistent exb_graph = true ∧
  DegGraph.idom_is_dominator_table exb_graph exb_idom = true ∧
  DegJustify.djust_cfg exb_graph exb_idom = true ∧
  CtlSpec.can_split exb_skel 0 3 ∧ CtlSpec.is_join exb_skel 3 ∧
  DegSem.decides exb_graph exb_idom exb_join exb_cond.
Proof.
  assert (Hl : Lift.lift exb_body = Base.Ok exb_skel) by (vm_compute; reflexivity).
  assert (Hs : DegGraph.dom_graph_of exb_graph = MirrorsDom.to_dom exb_skel) by (vm_compute; reflexivity).
  assert (Hgc : DegGraph.graph_consistent exb_graph = true) by (vm_compute; reflexivity).
  assert (Htab : DegGraph.idom_is_dominator_table exb_graph exb_idom = true) by (vm_compute; reflexivity).
  assert (Hv : DegJustify.djust_cfg exb_graph exb_idom = true) by (vm_compute; reflexivity).
  assert (Hj : CtlSpec.is_join exb_skel 3) by (eexists; split; [vm_compute; reflexivity|simpl; lia]).
  assert (Hc : CtlSpec.can_split exb_skel 0 3).
  { exists [1], [2]. split; [|split; [|split]].
    - split; [|split; CtlStructure.ex_nin].
      eapply CfgSpec.path_cons; [eexists; split; [vm_compute; reflexivity|set_solver]|].
      eapply CfgSpec.path_cons; [eexists; split; [vm_compute; reflexivity|set_solver]|].
      apply CfgSpec.path_nil. vm_compute. lia.
    - split; [|split; CtlStructure.ex_nin].
      eapply CfgSpec.path_cons; [eexists; split; [vm_compute; reflexivity|set_solver]|].
      eapply CfgSpec.path_cons; [eexists; split; [vm_compute; reflexivity|set_solver]|].
      apply CfgSpec.path_nil. vm_compute. lia.
    - intros x H1 H2. rewrite ?elem_of_cons, ?elem_of_nil in H1, H2. lia.
    - by left. }
  repeat (split; [assumption|]).
  assert (Hshape : DegJustify.idom_shape exb_graph exb_idom = true) by (vm_compute; reflexivity).
  eapply (CtlBridge.lifted_split_decides exb_graph exb_idom exb_skel Hs Hgc Htab Hshape exb_body Hl 3 exb_join 0 _ exb_m exb_cond 1%N (Some 2%N));
    [reflexivity|reflexivity|exact Hc|exact Hj|reflexivity].
Qed.
