(* Meta provenance of the desugarer (C18 / C04): every predicate on metas that
   holds for all metas of the input holds for all metas of the output; hence
   every meta of the output occurs in the input. *)
From Coq Require Import ZArith NArith List Bool String Lia.
Require Import Model.Ast Model.Desugar Spec.ExpandSpec Proofs.DesugarProofs.
Import ListNotations.
Local Open Scope list_scope.


Definition allP {A} (R : A -> Prop) :=
  fix go (l : list A) : Prop := match l with [] => True | x :: r => R x /\ go r end.

Lemma allP_Forall : forall {A} (R : A -> Prop) l, allP R l <-> Forall R l.
Proof.
  induction l as [|x l IH]; simpl.
  - split; auto.
  - rewrite IH. split; [intros [? ?]; constructor; auto | intros H; inversion H; auto].
Qed.

Section MetaPred.
  Variable Q : meta -> Prop.

  Fixpoint ME (e : expression) : Prop :=
    Q (expr_meta e) /\
    match e with
    | InfixOp _ l _ r => ME l /\ ME r
    | PrefixOp _ _ r => ME r
    | InlineSwitchOp _ c t f => ME c /\ ME t /\ ME f
    | ParallelOp _ r => ME r
    | Variable_ _ _ acc => allP (fun a => match a with ArrayAccess i => ME i | ComponentAccess _ => True end) acc
    | Number _ _ => True
    | Call _ _ args => allP ME args
    | AnonymousComponent _ _ _ ps ss _ => allP ME ps /\ allP ME ss
    | ArrayInLine _ vs => allP ME vs
    | Tuple _ vs => allP ME vs
    end.

  Definition MA (a : access) : Prop := match a with ArrayAccess i => ME i | ComponentAccess _ => True end.
  Definition ML (a : log_argument) : Prop := match a with LogExp e => ME e | LogStr _ => True end.

  Fixpoint MS (s : statement) : Prop :=
    Q (stmt_meta s) /\
    match s with
    | IfThenElse _ c i e => ME c /\ MS i /\ match e with Some e => MS e | None => True end
    | While _ c b => ME c /\ MS b
    | Return _ v => ME v
    | InitializationBlock _ _ l => allP MS l
    | Declaration _ _ _ d _ => allP ME d
    | Substitution _ _ acc _ r => allP MA acc /\ ME r
    | MultiSubstitution _ l _ r => ME l /\ ME r
    | ConstraintEquality _ l r => ME l /\ ME r
    | LogCall _ args => allP ML args
    | Block _ l => allP MS l
    | Assert _ a => ME a
    end.

  Lemma Forall_map_flat_map : forall {A B C} (f : B -> C) (g : A -> list B) (R : C -> Prop) l,
    Forall R (map f (flat_map g l)) <-> Forall (fun x => Forall R (map f (g x))) l.
  Proof.
    induction l as [|x l IH]; simpl.
    - split; constructor.
    - rewrite map_app, Forall_app, IH. split; [intros [? ?]; constructor; auto | intros H; inversion H; auto].
  Qed.

  Lemma Forall_iff_ext : forall {A} (R S : A -> Prop) l,
    Forall (fun x => R x <-> S x) l -> (Forall R l <-> Forall S l).
  Proof.
    induction 1; split; intros H1; try constructor; inversion H1; subst; try constructor; try tauto.
  Qed.

  Lemma ME_iff : forall e, ME e <-> Forall Q (expr_metas e).
  Proof.
    unfold expr_metas.
    induction e using expression_ind'; simpl; rewrite Forall_cons_iff, ?map_app, ?Forall_app, ?allP_Forall, ?Forall_map_flat_map.
    - tauto.
    - tauto.
    - tauto.
    - tauto.
    - apply and_iff_compat_l. apply Forall_iff_ext. eapply Forall_impl; [|exact H].
      intros [?|i]; simpl; [split; auto; constructor | auto].
    - split; intros [? _]; split; auto.
    - apply and_iff_compat_l. apply Forall_iff_ext. exact H.
    - apply and_iff_compat_l. rewrite (Forall_iff_ext _ _ _ H), (Forall_iff_ext _ _ _ H0). tauto.
    - apply and_iff_compat_l. apply Forall_iff_ext. exact H.
    - apply and_iff_compat_l. apply Forall_iff_ext. exact H.
  Qed.

  Lemma Forall_split_iff : forall {A} (R S T : A -> Prop) l,
    Forall (fun x => R x <-> (S x /\ T x)) l -> (Forall R l <-> Forall S l /\ Forall T l).
  Proof.
    induction 1.
    - split; [intros _; split; constructor | constructor].
    - split.
      + intros H1; inversion H1; subst. split; constructor; tauto.
      + intros [H1 H2]; inversion H1; inversion H2; subst. constructor; tauto.
  Qed.

  Lemma ML_iff : forall args,
    Forall ML args <->
    Forall Q (map expr_meta (flat_map (fun a => match a with LogExp e => sub_exprs e | LogStr _ => [] end) args)).
  Proof.
    intros. rewrite Forall_map_flat_map. apply Forall_iff_ext. apply Forall_forall.
    intros [?|e] _; simpl; [split; auto; constructor | apply ME_iff].
  Qed.

  Lemma MAcc_iff : forall acc, Forall MA acc <-> Forall Q (map expr_meta (access_exprs acc)).
  Proof.
    intros. unfold access_exprs. rewrite Forall_map_flat_map. apply Forall_iff_ext. apply Forall_forall.
    intros [?|e] _; simpl; [split; auto; constructor | apply ME_iff].
  Qed.

  Lemma MEs_iff : forall l, Forall ME l <-> Forall Q (map expr_meta (flat_map sub_exprs l)).
  Proof.
    intros. rewrite Forall_map_flat_map. apply Forall_iff_ext. apply Forall_forall. intros e _. apply ME_iff.
  Qed.

  Lemma MS_iff : forall s, MS s <-> Forall Q (stmt_metas s).
  Proof.
    unfold stmt_metas.
    induction s using statement_ind'; simpl;
      rewrite ?map_app, ?Forall_app, ?Forall_cons_iff, ?Forall_app, ?allP_Forall;
      try (pose proof (ME_iff c) as Hc); try (pose proof (ME_iff v) as Hv);
      try (pose proof (ME_iff l) as Hl); try (pose proof (ME_iff r) as Hr);
      try (pose proof (ME_iff a) as Ha); unfold expr_metas in *.
    - destruct e as [e'|]; simpl.
      + pose proof (H e' eq_refl) as He. rewrite ?map_app, ?Forall_app in *. tauto.
      + rewrite ?app_nil_r. simpl. assert (Forall Q []) by constructor. rewrite Forall_app in IHs. tauto.
    - rewrite Forall_app in IHs. tauto.
    - assert (Forall Q []) by constructor. tauto.
    - rewrite !Forall_map_flat_map.
      assert (E : Forall MS l <-> Forall (fun x => Forall Q (map expr_meta (stmt_exprs x))) l /\
                                  Forall (fun x => Forall Q (map stmt_meta (sub_stmts x))) l).
      { apply Forall_split_iff. eapply Forall_impl; [|exact H]. intros x Hx. cbv beta in Hx. rewrite Forall_app in Hx. exact Hx. }
      tauto.
    - rewrite MEs_iff. assert (Forall Q []) by constructor. tauto.
    - rewrite MAcc_iff. assert (Forall Q []) by constructor. tauto.
    - assert (Forall Q []) by constructor. tauto.
    - assert (Forall Q []) by constructor. tauto.
    - rewrite ML_iff. assert (Forall Q []) by constructor. tauto.
    - rewrite !Forall_map_flat_map.
      assert (E : Forall MS l <-> Forall (fun x => Forall Q (map expr_meta (stmt_exprs x))) l /\
                                  Forall (fun x => Forall Q (map stmt_meta (sub_stmts x))) l).
      { apply Forall_split_iff. eapply Forall_impl; [|exact H]. intros x Hx. cbv beta in Hx. rewrite Forall_app in Hx. exact Hx. }
      tauto.
    - assert (Forall Q []) by constructor. tauto.
  Qed.
End MetaPred.


Section Preserve.
  Variable Q : meta -> Prop.
  Notation ME := (ME Q).
  Notation MS := (MS Q).
  Notation MA := (MA Q).
  Notation ML := (ML Q).

  Definition va_M (va : option expression) : Prop := match va with Some v => ME v | None => True end.

  Definition rae_M (r : dres (list statement * list statement * expression)) : Prop :=
    forall ss ds e', r = DOk (ss, ds, e') -> ME e' /\ Forall MS ss /\ Forall MS ds.

  Lemma acc_prefix_M : forall va, va_M va -> Forall MA (acc_prefix va).
  Proof. intros [v|] H; simpl; constructor; simpl; auto. Qed.

  Lemma acc_M : forall va s, va_M va -> allP MA (acc_prefix va ++ [ComponentAccess s]).
  Proof.
    intros. apply allP_Forall. apply Forall_app. split; [apply acc_prefix_M; auto | constructor; simpl; auto].
  Qed.

  Lemma assign_inputs_M : forall va m id results sel inputs i ss ds ss' ds',
    va_M va -> Q m -> Forall rae_M results -> Forall MS ss -> Forall MS ds ->
    assign_inputs va m id results sel inputs i ss ds = DOk (ss', ds') ->
    Forall MS ss' /\ Forall MS ds'.
  Proof.
    intros va m id results sel inputs. induction inputs as [|inp rest IH];
      intros i ss ds ss' ds' Hva Hm Hres Hss Hds H; simpl in H.
    - inv_ok. auto.
    - destruct (nth_error sel i) as [[pos o]|]; [|discriminate].
      destruct (nth_error results pos) as [r|] eqn:Hr; [|discriminate].
      apply nth_error_In in Hr. pose proof (proj1 (Forall_forall _ _) Hres _ Hr) as Hr'.
      inv_ok. destruct (contains_anon e) eqn:Hc; inv_ok.
      destruct (Hr' _ _ _ Ha) as (He & Hl & Hl0).
      eapply IH; [exact Hva | exact Hm | exact Hres | | | exact H].
      + rewrite !Forall_app. repeat split; auto. constructor; auto.
        simpl. repeat split; auto. apply acc_M; auto.
      + rewrite Forall_app. auto.
  Qed.

  Lemma out_exp_M : forall va m id o, va_M va -> Q m ->
    ME (Variable_ m id (acc_prefix va ++ [ComponentAccess o])).
  Proof. intros. simpl. split; auto. apply acc_M; auto. Qed.

  Lemma tuple_out_M : forall va m id (outs : list (string * nat)), va_M va -> Q m ->
    ME (Tuple m (map (fun o => Variable_ m id (acc_prefix va ++ [ComponentAccess (fst o)])) outs)).
  Proof.
    intros. change (Q m /\ allP ME (map (fun o => Variable_ m id (acc_prefix va ++ [ComponentAccess (fst o)])) outs)).
    split; auto. apply allP_Forall. apply Forall_map. apply Forall_forall. intros. apply out_exp_M; auto.
  Qed.

  Lemma anon_component_M : forall env lib va m id par ps ss names results,
    va_M va -> Q m -> Forall ME ps -> Forall rae_M results ->
    rae_M (anon_component env lib va m id par ps ss names results).
  Proof.
    intros env lib va m id par ps ss names results Hva Hm Hps Hres stmts decls e' H.
    unfold anon_component in H.
    destruct (lookup_template id env) as [template|]; [|inv_ok].
    inv_ok. destruct (contains_anon (Call m id ps)) eqn:Hcall; inv_ok.
    match type of H with (if ?c then _ else _) = _ => destruct c end; inv_ok.
    assert (Hcallm : ME (Call m id ps)) by (simpl; split; auto; apply allP_Forall; auto).
    eapply assign_inputs_M in Ha1; eauto.
    - destruct Ha1 as [H1 H2].
      assert (Hb : Forall MS [Block m l]) by (constructor; auto; simpl; split; auto; apply allP_Forall; auto).
      destruct (ti_outputs template) as [|o [|o2 outs]]; inv_ok; (split; [|split]); auto;
        first [ apply out_exp_M; auto
              | apply (tuple_out_M va m a []); auto
              | apply (tuple_out_M va m a (o :: o2 :: outs)); auto
              | match goal with
                | |- _ (Tuple _ (Variable_ _ _ (_ ++ [ComponentAccess (fst ?x)]) ::
                                 Variable_ _ _ (_ ++ [ComponentAccess (fst ?y)]) :: map _ ?r)) =>
                    apply (tuple_out_M va m a (x :: y :: r)); auto
                end ].
    - constructor; auto.
      change (Q m /\ allP MA (acc_prefix va) /\ ME (if par then ParallelOp m (Call m id ps) else Call m id ps)).
      split; auto. split; [apply allP_Forall; apply acc_prefix_M; auto|].
      destruct par; auto. split; auto.
    - destruct va as [v|]; constructor; auto; simpl; auto.
  Qed.

  Lemma collect_tuple_M : forall results ss ds vs ss' ds' vs',
    Forall rae_M results -> Forall MS ss -> Forall MS ds -> Forall ME vs ->
    collect_tuple results ss ds vs = DOk (ss', ds', vs') ->
    Forall MS ss' /\ Forall MS ds' /\ Forall ME vs'.
  Proof.
    induction results as [|r rest IH]; intros ss ds vs ss' ds' vs' Hres Hss Hds Hvs H; simpl in H.
    - inv_ok. auto.
    - inversion Hres; subst. inv_ok. destruct (H2 _ _ _ Ha) as (?&?&?).
      eapply IH; [exact H3 | | | | exact H]; rewrite Forall_app; auto.
  Qed.

  Definition rae_PM env lib va (e : expression) : Prop :=
    ME e ->
    rae_M (remove_anonymous_from_expression env lib va e) /\
    match e with
    | AnonymousComponent _ _ _ _ ss _ =>
        Forall rae_M (map (remove_anonymous_from_expression env lib va) ss)
    | _ => True
    end.

  Ltac plain_case :=
    let E := fresh "E" in
    intros ? ? ? E;
    repeat match type of E with
           | (if ?c then _ else _) = _ => destruct c
           | match ?c with Some _ => _ | None => _ end = _ => destruct c
           end; inv_ok; auto.

  Lemma rae_M_strong : forall env lib va e, va_M va -> rae_PM env lib va e.
  Proof.
    intros env lib va e Hva. induction e using expression_ind'; intros Hme; (split; [|try exact I]);
      cbn [remove_anonymous_from_expression]; unfold first_such; try solve [plain_case].
    - (* ParallelOp *)
      pose proof Hme as Hall. destruct Hme as [Hm Hr].
      destruct (negb (is_call e) && negb (is_anonymous_component e) && contains_anon e); [plain_case|].
      destruct (is_call e && contains_anon e); [plain_case|].
      destruct e; try solve [plain_case].
      simpl in Hr. destruct Hr as (Hm0 & Hps & Hss).
      apply anon_component_M; auto; [apply allP_Forall; auto|].
      apply (IHe (conj Hm0 (conj Hps Hss))).
    - (* Anon *)
      simpl in Hme. destruct Hme as (Hm & Hps & Hss).
      apply anon_component_M; auto; [apply allP_Forall; auto|].
      apply Forall_map. apply allP_Forall in Hss. rewrite Forall_forall in *. intros x Hx. apply H0; auto.
    - simpl in Hme. destruct Hme as (Hm & Hps & Hss).
      apply Forall_map. apply allP_Forall in Hss. rewrite Forall_forall in *. intros x Hx. apply H0; auto.
    - (* Tuple *)
      simpl in Hme. destruct Hme as (Hm & Hvs). apply allP_Forall in Hvs.
      intros ss ds e' E. inv_ok.
      eapply collect_tuple_M in Ha; eauto.
      + destruct Ha as (?&?&?). repeat split; auto. apply allP_Forall; auto.
      + apply Forall_map. rewrite Forall_forall in *. intros x Hx. apply H; auto.
  Qed.

  Lemma rae_M_ok : forall env lib va e, va_M va -> ME e ->
    rae_M (remove_anonymous_from_expression env lib va e).
  Proof. intros. apply rae_M_strong; auto. Qed.
End Preserve.


Section Preserve2.
  Variable Q : meta -> Prop.
  Notation ME := (ME Q).
  Notation MS := (MS Q).
  Notation MA := (MA Q).
  Notation ML := (ML Q).
  Notation va_M := (va_M Q).

  Definition ras_M (r : dres (statement * list statement)) : Prop :=
    forall s' d, r = DOk (s', d) -> MS s' /\ Forall MS d.

  Lemma ras_list_M : forall (f : statement -> dres (statement * list statement)) l ns ds ns' ds',
    Forall (fun s => ras_M (f s)) l -> Forall MS ns -> Forall MS ds ->
    ras_list f l ns ds = DOk (ns', ds') -> Forall MS ns' /\ Forall MS ds'.
  Proof.
    intros f. induction l as [|s rest IH]; intros ns ds ns' ds' Hl Hns Hds H; simpl in H.
    - inv_ok. auto.
    - inversion Hl; subst. inv_ok. destruct (H2 _ _ Ha) as [? ?].
      eapply IH; [exact H3 | | | exact H]; rewrite Forall_app; auto.
  Qed.

  Lemma build_log_args_M : forall args v,
    build_log_args args = DOk v -> Forall ML args -> Forall ML v.
  Proof. intros args v H Hall. exact (build_log_args_all ME args v H Hall). Qed.

  Lemma seq_M : forall m (pre : list statement) s,
    Q m -> Forall MS pre -> MS s -> MS (Block m (pre ++ [s])).
  Proof. intros. simpl. split; auto. apply allP_Forall. apply Forall_app. auto. Qed.

  Lemma ras_M_ok : forall env lib s va, va_M va -> MS s ->
    ras_M (remove_anonymous_from_statement env lib va s).
  Proof.
    intros env lib. induction s using statement_ind'; intros va Hva Hms s1 d1 Hr;
      cbn [remove_anonymous_from_statement] in Hr; simpl in Hms.
    - (* IfThenElse *)
      destruct Hms as (Hm & Hc & Hi & He).
      destruct (contains_anon c); inv_ok.
      destruct (IHs va Hva Hi _ _ Ha) as [? ?].
      destruct e as [e'|]; inv_ok.
      + destruct (H e' eq_refl va Hva He _ _ Ha0) as [? ?]. split; [|apply Forall_app; auto].
        simpl. auto.
      + split; auto. simpl. auto.
    - (* While *)
      destruct Hms as (Hm & Hc & Hb).
      destruct (contains_anon c); inv_ok.
      assert (Hva' : va_M (Some (Variable_ m a []))) by (simpl; auto).
      destruct (IHs _ Hva' Hb _ _ Ha0) as [? ?].
      destruct (existsb (decl_uses_counter a) l); inv_ok.
      + split.
        * simpl. repeat split; auto.
        * repeat constructor; simpl; auto.
      + split; auto. simpl. auto.
    - destruct (contains_anon v); inv_ok. split; auto.
    - destruct Hms as (Hm & Hl). apply allP_Forall in Hl.
      inv_ok. eapply ras_list_M in Ha; eauto.
      + destruct Ha. split; auto. simpl. split; auto. apply allP_Forall; auto.
      + rewrite Forall_forall in *. intros x Hx. apply H; auto.
    - unfold first_such in Hr. destruct (find contains_anon d); inv_ok. split; auto.
    - (* Substitution *)
      destruct Hms as (Hm & Hacc & Hrhe).
      destruct (access_first_such contains_anon a); inv_ok.
      destruct (rae_M_ok Q env lib va r Hva Hrhe _ _ _ Ha) as (He & Hl & Hl0).
      assert (Hsub : MS (Substitution m v a o e)) by (simpl; auto).
      destruct (is_nil l); inv_ok; split; auto. apply seq_M; auto.
    - (* MultiSubstitution *)
      destruct Hms as (Hm & Hlhe & Hrhe).
      destruct (contains_anon l); inv_ok.
      destruct (rae_M_ok Q env lib va r Hva Hrhe _ _ _ Ha) as (He & Hl & Hl0).
      assert (Hsub : MS (MultiSubstitution m l o e)) by (simpl; auto).
      destruct (is_nil l0); inv_ok; split; auto. apply seq_M; auto.
    - destruct (contains_anon l || contains_anon r); inv_ok. split; auto.
    - (* LogCall *)
      destruct Hms as (Hm & Hargs). apply allP_Forall in Hargs.
      destruct (existsb (log_arg_contains is_anonymous_component) a); inv_ok.
      unfold build_log_call in Ha. inv_ok. split; auto.
      simpl. split; auto. apply allP_Forall. eapply build_log_args_M; eauto.
    - destruct Hms as (Hm & Hl). apply allP_Forall in Hl.
      inv_ok. eapply ras_list_M in Ha; eauto.
      + destruct Ha. split; auto. simpl. split; auto. apply allP_Forall; auto.
      + rewrite Forall_forall in *. intros x Hx. apply H; auto.
    - destruct (contains_anon a); inv_ok. split; auto.
  Qed.

  (* ---- pass 2 ---- *)

  Lemma unfold_values_M : forall results acc acc',
    Forall (fun r => forall v, r = DOk v -> ME v) results -> Forall ME acc ->
    unfold_values results acc = DOk acc' -> Forall ME acc'.
  Proof.
    induction results as [|r rest IH]; intros acc acc' Hres Hacc H; simpl in H.
    - inv_ok. auto.
    - inversion Hres; subst. inv_ok. pose proof (H2 _ Ha) as Hv.
      destruct a; try (eapply IH; [exact H3 | | exact H]; apply Forall_app; split; auto; fail).
      eapply IH; [exact H3 | | exact H]. apply Forall_app. split; auto.
      simpl in Hv. destruct Hv as [_ Hv]. apply allP_Forall in Hv. exact Hv.
  Qed.

  Lemma rte_M : forall e e', ME e -> remove_tuple_from_expression e = DOk e' -> ME e'.
  Proof.
    induction e using expression_ind'; intros e' Hme Hr;
      try (apply rte_nontuple in Hr; [|reflexivity]; destruct Hr as [-> _]; exact Hme).
    cbn [remove_tuple_from_expression] in Hr. inv_ok. simpl in Hme. destruct Hme as [Hm Hvs].
    apply allP_Forall in Hvs. simpl. split; auto. apply allP_Forall.
    eapply unfold_values_M; [| constructor | exact Ha].
    apply Forall_map. rewrite Forall_forall in *. intros x Hx v Hv. eapply H; eauto.
  Qed.

  Lemma tuple_substs_M : forall m o ls rs acc acc',
    Forall ME ls -> Forall ME rs -> Forall MS acc ->
    tuple_substs m o ls rs acc = DOk acc' -> Forall MS acc'.
  Proof.
    intros m o. induction ls as [|l ls IH]; intros rs acc acc' Hl Hr Hacc H; simpl in H.
    - inv_ok. auto.
    - apply Forall_cons_iff in Hl. destruct Hl as [Hl1 Hl].
      destruct l; try (exfalso; exact (fail_not_ok _ _ _ _ H)).
      destruct rs as [|r rs]; [discriminate|].
      apply Forall_cons_iff in Hr. destruct Hr as [Hr1 Hr].
      eapply IH; [exact Hl | exact Hr | | exact H].
      destruct (String.eqb name "_"); auto. apply Forall_app. split; auto. constructor; auto.
      simpl in Hl1. simpl. tauto.
  Qed.

  Lemma sep_log_M : forall e, ME e -> Forall ML (sep_log e).
  Proof.
    induction e using expression_ind'; intros Hme; simpl sep_log;
      try (constructor; [exact Hme | constructor]).
    simpl in Hme. destruct Hme as [_ Hvs]. apply allP_Forall in Hvs.
    constructor; [exact I|]. apply Forall_app. split; [|constructor; [exact I | constructor]].
    induction vs as [|x vs IHvs]; simpl; [constructor|].
    inversion H; inversion Hvs; subst. apply Forall_app. split; auto.
  Qed.

  Lemma log_new_args_M : forall args acc acc',
    Forall ML args -> Forall ML acc -> log_new_args args acc = DOk acc' -> Forall ML acc'.
  Proof.
    induction args as [|a rest IH]; intros acc acc' Hargs Hacc H; simpl in H.
    - inv_ok. auto.
    - inversion Hargs; subst. destruct a as [s|x].
      + eapply IH; [exact H3 | | exact H]. apply Forall_app; split; auto.
      + inv_ok. eapply IH; [exact H3 | | exact H]. apply Forall_app; split; auto.
        unfold separate_tuple_for_log_call. simpl. rewrite app_nil_r. apply sep_log_M; auto.
  Qed.

  Lemma rts_list_M : forall (f : statement -> dres statement) l acc acc',
    Forall (fun s => forall s', f s = DOk s' -> MS s') l -> Forall MS acc ->
    rts_list f l acc = DOk acc' -> Forall MS acc'.
  Proof.
    intros f. induction l as [|s rest IH]; intros acc acc' Hl Hacc H; simpl in H.
    - inv_ok. auto.
    - inversion Hl; subst. inv_ok. eapply IH; [exact H3 | | exact H]. apply Forall_app. split; auto.
  Qed.

  Lemma rts_M : forall s s', MS s -> remove_tuples_from_statement s = DOk s' -> MS s'.
  Proof.
    induction s using statement_ind'; intros s' Hms Hr; cbn [remove_tuples_from_statement] in Hr; simpl in Hms.
    - destruct Hms as (Hm & Hc & Hi & He).
      destruct (contains_tuple c); inv_ok.
      pose proof (IHs _ Hi Ha).
      destruct e as [e'|]; inv_ok; simpl; auto.
      pose proof (H e' eq_refl _ He Ha0). auto.
    - destruct Hms as (Hm & Hc & Hb).
      destruct (contains_tuple c); inv_ok. simpl. auto.
    - destruct (contains_tuple v); inv_ok. auto.
    - destruct Hms as (Hm & Hl). apply allP_Forall in Hl. inv_ok. simpl. split; auto. apply allP_Forall.
      eapply rts_list_M; [| constructor | exact Ha].
      rewrite Forall_forall in *. intros x Hx s0 Hs0. eapply H; eauto.
    - destruct (existsb contains_tuple d); inv_ok. simpl. auto.
    - destruct Hms as (Hm & Hacc & Hrhe). inv_ok.
      pose proof (rte_M _ _ Hrhe Ha).
      destruct (is_tuple a0); inv_ok.
      destruct (access_first_such contains_tuple a); inv_ok.
      destruct (negb (String.eqb v "_")); inv_ok; simpl; auto.
    - destruct Hms as (Hm & Hl & Hrhe). inv_ok.
      pose proof (rte_M _ _ Hl Ha) as Hl'. pose proof (rte_M _ _ Hrhe Ha0) as Hr'.
      destruct a as [| | | | | | | | |ml lvals];
        try solve [match type of Hr with (if ?c then _ else _) = _ => destruct c end; inv_ok].
      destruct a0 as [| | | | | | | | |mr rvals];
        try solve [match type of Hr with (if ?c then _ else _) = _ => destruct c end; inv_ok].
      destruct (Nat.eqb (List.length lvals) (List.length rvals)).
      + inv_ok. simpl. split; auto. apply allP_Forall.
        simpl in Hl', Hr'. destruct Hl' as [_ Hl']. destruct Hr' as [_ Hr']. apply allP_Forall in Hl', Hr'.
        eapply tuple_substs_M; [exact Hl' | exact Hr' | constructor | exact Ha1].
      + destruct (negb (is_nil lvals)); inv_ok.
    - destruct (contains_tuple l || contains_tuple r); inv_ok. auto.
    - destruct Hms as (Hm & Hargs). apply allP_Forall in Hargs. inv_ok.
      unfold build_log_call in Hr. inv_ok. simpl. split; auto. apply allP_Forall.
      eapply build_log_args_M; [exact Ha0|]. eapply log_new_args_M; [exact Hargs | constructor | exact Ha].
    - destruct Hms as (Hm & Hl). apply allP_Forall in Hl. inv_ok. simpl. split; auto. apply allP_Forall.
      eapply rts_list_M; [| constructor | exact Ha].
      rewrite Forall_forall in *. intros x Hx s0 Hs0. eapply H; eauto.
    - destruct (contains_tuple a); inv_ok. auto.
  Qed.

  Theorem desugar_template_M : forall env lib body body',
    MS body -> desugar_template env lib body = DOk body' -> MS body'.
  Proof.
    intros env lib body body' Hms H. unfold desugar_template in H. inv_ok.
    destruct (ras_M_ok env lib body None I Hms _ _ Ha) as [Hs Hd].
    destruct s; try discriminate H. inv_ok.
    eapply (separate_declarations_forall MS) in Ha0; eauto. destruct Ha0 as (Hc & Hv & Hsub).
    eapply rts_M; [|exact H]. simpl in Hs. destruct Hs as [Hm Hst]. apply allP_Forall in Hst.
    simpl. split; auto. split; [split; auto; apply allP_Forall; auto|].
    apply allP_Forall. apply Forall_app. split; auto.
    constructor; auto. simpl. split; auto. apply allP_Forall; auto.
  Qed.
End Preserve2.

(* every meta of the output occurs in the input *)
Theorem desugar_metas_from_input : forall env lib body body',
  desugar_template env lib body = DOk body' ->
  forall m, In m (stmt_metas body') -> In m (stmt_metas body).
Proof.
  intros env lib body body' H.
  apply Forall_forall. apply MS_iff.
  eapply desugar_template_M; [|exact H]. apply MS_iff. apply Forall_forall. auto.
Qed.

(* any property of metas is inherited by the output *)
Theorem desugar_meta_property_inherited : forall (Q : meta -> Prop) env lib body body',
  Forall Q (stmt_metas body) -> desugar_template env lib body = DOk body' -> Forall Q (stmt_metas body').
Proof.
  intros Q env lib body body' H1 H2. apply MS_iff. eapply desugar_template_M; [|exact H2]. apply MS_iff. exact H1.
Qed.
