(* C15, third audit: the rootedness tests are exact.
   - rooted_b_complete      : rooted g -> rooted_b g = true (the filter of the
                              exhaustive sweep drops no graph of the property's
                              domain; soundness is Proofs.DomOracle.rooted_b_sound)
   - rooted_fast_b_sound    : rooted_fast_b g = true -> rooted g
   - rooted_fast_b_complete : rooted g -> rooted_fast_b g = true *)
From Coq Require Import ZArith Lia.
From stdpp Require Import list list_numbers sets.
Require Import Model.Dom Spec.DomSpec Spec.DomFast Proofs.DomProofs Proofs.DomOracle.

Lemma mem_succ_mask g a b : mem b (succ_mask g a) = true ↔ b ∈ succs_of g a.
Proof.
  unfold succ_mask. induction (succs_of g a) as [|x l IH]; cbn [foldr].
  - rewrite mem_0. split; [done|by intros ?%elem_of_nil].
  - rewrite mem_ins, orb_true_iff, bool_decide_eq_true, IH, elem_of_cons. done.
Qed.

Lemma mem_fold_succ g l vis v :
  mem v (foldr (λ a acc, N.lor (succ_mask g a) acc) vis l) = true ↔
  mem v vis = true ∨ ∃ u, u ∈ l ∧ v ∈ succs_of g u.
Proof.
  induction l as [|x l IH]; cbn [foldr].
  - split; [by left|]. intros [?|(u & ?%elem_of_nil & _)]; done.
  - rewrite mem_lor, orb_true_iff, IH, mem_succ_mask. setoid_rewrite elem_of_cons.
    split.
    + intros [?|[?|(u & ? & ?)]]; [right; exists x; auto|by left|right; exists u; auto].
    + intros [?|(u & [->|?] & ?)]; [right; by left|by left|right; right; eauto].
Qed.

Lemma mem_expand_m g vis v :
  mem v (expand_m g vis) = true ↔ mem v vis = true ∨ ∃ u, mem u vis = true ∧ v ∈ succs_of g u.
Proof.
  unfold expand_m. rewrite mem_fold_succ. setoid_rewrite elem_of_members. done.
Qed.

Lemma mem_singleton_0 v : mem v (ins 0 0%N) = true ↔ v = 0.
Proof. rewrite mem_ins, mem_0, orb_false_r, bool_decide_eq_true. done. Qed.

(* every member of the mask is reachable *)
Lemma reach_m_sound g :
  0 < length g → (∀ a x b, g !! a = Some x → b ∈ succs x → b < length g) →
  ∀ v, mem v (reach_m g) = true → ∃ l, path g 0 v l.
Proof.
  intros Hn Hs. unfold reach_m. generalize (length g) at 1. intros k.
  induction k as [|k IH]; intros v; simpl.
  - intros ->%mem_singleton_0. exists [0]. by constructor.
  - intros [?|(u & Hu & Hv)]%mem_expand_m; [by apply IH|].
    destruct (IH u Hu) as (l & Hl). apply succs_of_edge in Hv.
    exists (l ++ [v]). eapply path_snoc; [done|done|].
    destruct Hv as (x & ? & ?). by eapply Hs.
Qed.

(* the first four conjuncts, shared by the two tests *)
Definition rooted_local_b (g : graph) : bool :=
  let n := length g in
  bool_decide (0 < n) &&
  forallb (λ x, forallb (λ b, bool_decide (b < n)) (succs x) &&
                forallb (λ b, bool_decide (b < n)) (preds x)) g &&
  forallb (λ a, forallb (λ b, bool_decide ((b ∈ succs_of g a) ↔ (a ∈ preds_of g b))) (seq 0 n)) (seq 0 n) &&
  bool_decide (preds_of g 0 = []).

Lemma rooted_b_split g :
  rooted_b g = rooted_local_b g && forallb (λ j, bool_decide (j ∈ reach_avoiding g (length g))) (seq 0 (length g)).
Proof. reflexivity. Qed.

Lemma rooted_fast_b_split g :
  rooted_fast_b g = rooted_local_b g && forallb (λ j, mem j (reach_m g)) (seq 0 (length g)).
Proof. reflexivity. Qed.

Lemma rooted_local_complete g : rooted g → rooted_local_b g = true.
Proof.
  intros Hg. unfold rooted_local_b.
  rewrite !andb_true_iff, !bool_decide_eq_true, !forallb_elem_of.
  split; [split; [split|]|].
  - apply (rooted_nonempty g Hg).
  - intros x Hx. apply elem_of_list_lookup_1 in Hx as [a Ha].
    rewrite andb_true_iff, !forallb_elem_of. split; intros b Hb; apply bool_decide_eq_true.
    + by eapply (rooted_succs g Hg).
    + by eapply (rooted_preds g Hg).
  - intros a Ha. apply forallb_elem_of. intros b Hb. apply bool_decide_eq_true.
    apply elem_of_seq in Ha, Hb.
    destruct (lookup_lt_is_Some_2 g a) as [xa Hxa]; [lia|].
    destruct (lookup_lt_is_Some_2 g b) as [xb Hxb]; [lia|].
    unfold succs_of, preds_of. rewrite Hxa, Hxb. by eapply (rooted_mirror g Hg).
  - unfold preds_of. destruct (g !! 0) as [x|] eqn:Hx; [|done]. by eapply (rooted_entry g Hg).
Qed.

Lemma rooted_reach_list g j : rooted g → j < length g → j ∈ reach_avoiding g (length g).
Proof.
  intros Hg Hj. pose proof (rooted_nonempty g Hg) as Hn.
  destruct (rooted_reach g Hg j Hj) as [l Hl].
  apply reach_complete; [done|lia|]. exists l. split; [done|].
  intros Hin. apply (path_elem_lt _ _ _ _ _ Hl) in Hin. lia.
Qed.

Theorem rooted_b_complete g : rooted g → rooted_b g = true.
Proof.
  intros Hg. rewrite rooted_b_split, andb_true_iff. split; [by apply rooted_local_complete|].
  apply forallb_elem_of. intros j Hj%elem_of_seq. apply bool_decide_eq_true.
  apply rooted_reach_list; [done|lia].
Qed.

Theorem rooted_fast_b_sound g : rooted_fast_b g = true → rooted g.
Proof.
  rewrite rooted_fast_b_split, andb_true_iff. intros [Hloc Hreach].
  (* a graph passing the local conjuncts and in which every node is reachable
     passes rooted_b as soon as the list reachability agrees; we rebuild
     [rooted] directly instead *)
  unfold rooted_local_b in Hloc.
  rewrite !andb_true_iff, !bool_decide_eq_true, !forallb_elem_of in Hloc.
  destruct Hloc as (((Hn & Hrange) & Hmirror) & Hentry).
  assert (∀ a x b, g !! a = Some x → b ∈ succs x → b < length g) as Hs.
  { intros a x b Ha Hb. apply elem_of_list_lookup_2 in Ha. apply Hrange in Ha.
    rewrite andb_true_iff, !forallb_elem_of in Ha. destruct Ha as [Ha _].
    apply Ha in Hb. by apply bool_decide_eq_true in Hb. }
  split; [done|done| | | |].
  - intros a x b Ha Hb. apply elem_of_list_lookup_2 in Ha. apply Hrange in Ha.
    rewrite andb_true_iff, !forallb_elem_of in Ha. destruct Ha as [_ Ha].
    apply Ha in Hb. by apply bool_decide_eq_true in Hb.
  - intros a b xa xb Ha Hb.
    assert (a ∈ seq 0 (length g)) as Ha' by (apply elem_of_seq; apply lookup_lt_Some in Ha; lia).
    assert (b ∈ seq 0 (length g)) as Hb' by (apply elem_of_seq; apply lookup_lt_Some in Hb; lia).
    apply Hmirror in Ha'. rewrite forallb_elem_of in Ha'. apply Ha' in Hb'.
    apply bool_decide_eq_true in Hb'. unfold succs_of, preds_of in Hb'. by rewrite Ha, Hb in Hb'.
  - intros x Hx. unfold preds_of in Hentry. by rewrite Hx in Hentry.
  - intros j Hj. rewrite forallb_elem_of in Hreach.
    apply (reach_m_sound g Hn Hs). apply Hreach. apply elem_of_seq. lia.
Qed.

(* the mask rounds contain the list rounds *)
Lemma reach_m_contains g (Hg : rooted g) k v :
  v ∈ Nat.iter k (expand g (length g)) (if decide (length g = 0) then [] else [0]) →
  mem v (Nat.iter k (expand_m g) (ins 0 0%N)) = true.
Proof.
  revert v. induction k as [|k IH]; intros v; simpl.
  - case_decide; [by intros ?%elem_of_nil|]. intros ->%elem_of_list_singleton. by apply mem_singleton_0.
  - rewrite elem_of_expand, mem_expand_m.
    intros [?|(_ & u & Hu & He)]; [left; by apply IH|].
    right. exists u. split; [by apply IH|]. by apply succs_of_edge.
Qed.

Theorem rooted_fast_b_complete g : rooted g → rooted_fast_b g = true.
Proof.
  intros Hg. rewrite rooted_fast_b_split, andb_true_iff. split; [by apply rooted_local_complete|].
  apply forallb_elem_of. intros j Hj%elem_of_seq.
  apply (reach_m_contains g Hg). apply (rooted_reach_list g j Hg). lia.
Qed.

(* the two tests agree on every graph *)
Corollary rooted_fast_b_iff g : rooted_fast_b g = true ↔ rooted g.
Proof. split; [apply rooted_fast_b_sound|apply rooted_fast_b_complete]. Qed.

Corollary rooted_b_iff g : rooted_b g = true ↔ rooted g.
Proof. split; [apply rooted_b_sound|apply rooted_b_complete]. Qed.

(* ------------------------------------------------------------------ *)
(* the children sets hold block indices only, so the statement that    *)
(* the children invert the immediate dominators needs no bound on the  *)
(* member                                                              *)
(* ------------------------------------------------------------------ *)
Lemma idom_loop_ch_range ord D bound : ∀ is idom ch idom' ch',
  idom_loop ord D is idom ch = Ok (idom', ch') →
  (∀ i, i ∈ is → i < bound) →
  (∀ c x, c ∈ ch → mem x c = true → x < bound) →
  (∀ c x, c ∈ ch' → mem x c = true → x < bound).
Proof.
  induction is as [|i is IH]; intros idom ch idom' ch' H His Hch; cbn [idom_loop] in H.
  - by injection H as <- <-.
  - destruct (idom_candidates ord D i) as [cands| | |]; cbn [Base.bind] in H; try discriminate.
    destruct (members cands) as [|j ?].
    + eapply IH; [exact H|set_solver|done].
    + destruct (get site_idom_index idom i); cbn [Base.bind] in H; try discriminate.
      destruct (get site_succ_index ch j) as [cj| | |] eqn:Hcj; cbn [Base.bind] in H; try discriminate.
      eapply IH; [exact H|set_solver|].
      intros c x [k Hk]%elem_of_list_lookup_1 Hx.
      apply list_lookup_insert_Some in Hk as [(<- & <- & _)|(_ & Hk)].
      * rewrite mem_ins, orb_true_iff, bool_decide_eq_true in Hx. destruct Hx as [->|Hx]; [set_solver|].
        eapply (Hch cj); [|done]. unfold get in Hcj.
        destruct (ch !! j) as [y|] eqn:E; [|discriminate]. injection Hcj as ->. by eapply elem_of_list_lookup_2.
      * eapply Hch; [|done]. by eapply elem_of_list_lookup_2.
Qed.

Theorem children_in_range g ord t j cj i :
  dominator_tree (dom_fuel g) ord g = Ok t →
  dt_children t !! j = Some cj → mem i cj = true → i < length g.
Proof.
  intros Ht Hj Hm. unfold dominator_tree in Ht.
  destruct (compute_dominators (dom_fuel g) g) as [D| | |]; cbn [Base.bind] in Ht; try discriminate.
  destruct (compute_immediate_dominators ord g D) as [[idom ch]| | |] eqn:Hic; cbn [Base.bind fst snd] in Ht; try discriminate.
  destruct (compute_dominance_frontier (dom_fuel g) g idom) as [DF| | |]; cbn [Base.bind] in Ht; try discriminate.
  destruct (get site_entry_assert idom 0) as [o| | |]; cbn [Base.bind] in Ht; try discriminate.
  destruct o; try discriminate. injection Ht as <-. cbn [dt_children] in Hj.
  unfold compute_immediate_dominators in Hic.
  eapply (idom_loop_ch_range ord D (length g) _ _ _ _ _ Hic); [| |by eapply elem_of_list_lookup_2|exact Hm].
  - intros x ?%elem_of_seq. lia.
  - intros c x [-> _]%elem_of_replicate. by rewrite mem_0.
Qed.

Theorem children_invert_idom_all g ord t j cj i :
  rooted g → order_ok ord → dominator_tree (dom_fuel g) ord g = Ok t →
  dt_children t !! j = Some cj →
  (mem i cj = true ↔ dt_idom t !! i = Some (Some j)).
Proof.
  intros Hg Hord Ht Hj. split.
  - intros Hm. apply (children_invert_idom g ord t Hg Hord Ht j cj i Hj); [|done].
    by eapply children_in_range.
  - intros Hi. apply (children_invert_idom g ord t Hg Hord Ht j cj i Hj); [|done].
    destruct (dominator_tree_no_panic g ord Hg Hord) as (t' & Ht' & _ & Hlen & _).
    assert (t' = t) as -> by congruence. rewrite <- Hlen. by eapply lookup_lt_Some.
Qed.

(* every node other than the entry is the child of exactly one node *)
Theorem children_partition g ord t i :
  rooted g → order_ok ord → dominator_tree (dom_fuel g) ord g = Ok t →
  0 < i < length g →
  ∃ j cj, dt_children t !! j = Some cj ∧ mem i cj = true ∧
    ∀ j' cj', dt_children t !! j' = Some cj' → mem i cj' = true → j' = j.
Proof.
  intros Hg Hord Ht Hi.
  destruct (dominator_tree_no_panic g ord Hg Hord) as (t' & Ht' & _ & Hlen & Hclen & _).
  assert (t' = t) as -> by congruence.
  destruct (lookup_lt_is_Some_2 (dt_idom t) i) as [o Ho]; [lia|].
  destruct o as [j|]; [|pose proof (proj1 (idom_total g ord t Hg Hord Ht i None Ho) eq_refl); lia].
  assert (idom_spec g j i) as Hspec by (by apply (idom_exact g ord t Hg Hord Ht i (Some j) j Ho)).
  assert (j < length g) as Hjlt.
  { destruct Hspec as [[Hd _] _]. eapply (dom_lt g Hg); [|exact Hd]. lia. }
  destruct (lookup_lt_is_Some_2 (dt_children t) j) as [cj Hcj]; [lia|].
  exists j, cj. split_and!; [done|by apply (children_invert_idom_all g ord t j cj i Hg Hord Ht Hcj)|].
  intros j' cj' Hcj' Hm. apply (children_invert_idom_all g ord t j' cj' i Hg Hord Ht Hcj') in Hm. congruence.
Qed.
