(* C01, bridge between C18 (desugaring) and lifting: the body that the desugarer
   hands on has the shape that Proofs.LiftTotalFlat needs.

   1. The specified expansion (Spec.ExpandSpec.expand_spec, which the two passes
      equal by C18_desugar_refines_expand) keeps "every entry of an initialisation
      block is a statement without control flow" ([ast_init_ok]): a substitution
      becomes a substitution or a block [pre ++ [substitution]] where [pre] consists
      of blocks of substitutions, a tuple assignment becomes a block of
      substitutions, and the two initialisation blocks that expand_spec itself builds
      hold declarations only.
   2. [ast_init_ok] is LiftFull.ast_init_flat (a clause of LiftFull.definition_wf), which
      LiftFull.skel sends to [init_flat], and a block to a block: [desugared_shape]. *)
From Coq Require Import ZArith NArith List Bool String Lia.
Require Import Model.Ast Model.Desugar Spec.ExpandSpec Proofs.DesugarProofs Proofs.DesugarRefine Proofs.DesugarAlpha.
Require Model.PipelineMirrors Model.Lift Model.LiftFull Model.Ir Proofs.LiftTotalFlat Proofs.LiftFullTotal.
Import ListNotations.
Local Open Scope list_scope.

Module PM := Model.PipelineMirrors.

Lemma forallb_app' {A} (f : A -> bool) l r : forallb f (l ++ r) = forallb f l && forallb f r.
Proof. induction l as [|x l IH]; simpl; [reflexivity|]. rewrite IH. apply andb_assoc. Qed.

Lemma forallb_Forall {A} (f : A -> bool) l : forallb f l = true <-> Forall (fun x => f x = true) l.
Proof. rewrite forallb_forall, Forall_forall. reflexivity. Qed.

Lemma forallb_flat_map {A B} (f : B -> bool) (g : A -> list B) l :
  Forall (fun x => forallb f (g x) = true) l -> forallb f (flat_map g l) = true.
Proof. induction 1 as [|x l Hx _ IH]; simpl; [reflexivity|]. rewrite forallb_app', Hx, IH. reflexivity. Qed.

Lemma all_some_Forall {A B} (R : B -> Prop) (g : A -> option B) : forall l ys,
  all_some (map g l) = Some ys -> Forall (fun x => forall y, g x = Some y -> R y) l -> Forall R ys.
Proof.
  induction l as [|x l IH]; simpl; intros ys H HF.
  - inversion H. constructor.
  - inversion HF as [|? ? Hx Hl]; subst. destruct (g x) as [y|] eqn:E; [|discriminate].
    destruct (all_some (map g l)) as [ys'|] eqn:E'; [|discriminate]. simpl in H. inversion H. subst.
    constructor; [apply Hx; reflexivity|]. apply IH; [reflexivity|exact Hl].
Qed.

Lemma flat_init_ok : forall s, PM.ast_flat s = true -> PM.ast_init_ok s = true.
Proof.
  apply (statement_ind' (fun s => PM.ast_flat s = true -> PM.ast_init_ok s = true)); simpl; try (intros; reflexivity);
    try (intros; discriminate).
  - intros m t l _ H. exact H.
  - intros m l IH H. rewrite forallb_Forall in *. rewrite Forall_forall in *. intros x Hx. apply IH; [exact Hx|]. apply H. exact Hx.
Qed.

Section Expand.
  Variable sig_of : string -> option (list string * list string).
  Variable comp_name : string -> meta -> option string.
  Variable counter_name : meta -> option string.

  Notation xv := (xvals sig_of comp_name).
  Notation xs := (xstmt sig_of comp_name counter_name).

  Definition flat_res (r : option (list statement * list statement * list expression)) : Prop :=
    forall p d v, r = Some (p, d, v) -> forallb PM.ast_flat p = true.

  Lemma is_single_some e r p d v : is_single e r = Some (p, d, v) -> r = Some (p, d, [v]).
  Proof.
    unfold is_single. destruct e; try discriminate;
      destruct r as [[[p' d'] [|v' [|? ?]]]|]; try discriminate; intros [= -> -> ->]; reflexivity.
  Qed.

  Lemma xanon_flat ix m id par ps args names argres :
    Forall flat_res argres -> flat_res (xanon sig_of comp_name ix m id par ps args names argres).
  Proof.
    intros HF p d v. unfold xanon.
    destruct (sig_of id) as [[ins outs]|]; [|discriminate]. destruct (comp_name id m) as [c|]; [|discriminate].
    match goal with |- context [if ?b then _ else _] => destruct b end; [|discriminate].
    match goal with |- context [all_some (map ?g ?l)] => set (feed := g); set (L := l) end.
    destruct (all_some (map feed L)) as [fed|] eqn:E; [|discriminate].
    intros [= <- _ _]. cbn [forallb PM.ast_flat]. rewrite andb_true_r.
    apply forallb_flat_map.
    apply (all_some_Forall (fun y => forallb PM.ast_flat (fst y) = true) feed L fed E).
    apply Forall_forall. intros [k input] _ y. unfold feed.
    destruct (argument_of names k input) as [[j o]|]; [|discriminate].
    destruct (nth_error args j) as [a|]; [|discriminate].
    destruct (nth_error argres j) as [r|] eqn:Er; [|discriminate].
    destruct (is_single a r) as [[[p1 d1] v1]|] eqn:Es; [|discriminate].
    cbn [option_map]. intros [= <-]. cbn [fst].
    apply is_single_some in Es. subst r.
    rewrite forallb_app'. rewrite Forall_forall in HF.
    rewrite (HF _ (nth_error_In _ _ Er) p1 d1 [v1] eq_refl). reflexivity.
  Qed.

  Definition Qe (e : expression) : Prop := forall ix, flat_res (xv ix e).
  Definition Pe (e : expression) : Prop := Qe e /\ forall m, Qe (ParallelOp m e).

  Lemma plain_res_flat (b : bool) e : flat_res (if b then Some ([], [], [e]) else None).
  Proof. intros p d v. destruct b; [|discriminate]. intros [= <- _ _]. reflexivity. Qed.

  Lemma xvals_flat_all : forall e, Pe e.
  Proof.
    apply expression_ind'; unfold Pe, Qe.
    - intros; split; intros; cbn [xvals]; apply plain_res_flat.
    - intros; split; intros; cbn [xvals]; apply plain_res_flat.
    - intros; split; intros; cbn [xvals]; apply plain_res_flat.
    - (* ParallelOp *)
      intros m r [_ IH]. split; [apply IH|]. intros m' ix. cbn [xvals]. apply plain_res_flat.
    - intros; split; intros; cbn [xvals]; apply plain_res_flat.
    - intros; split; intros; cbn [xvals]; apply plain_res_flat.
    - intros; split; intros; cbn [xvals]; apply plain_res_flat.
    - (* AnonymousComponent *)
      intros m id par ps ss names _ IHs.
      assert (HF : forall ix, Forall flat_res (map (xv ix) ss)).
      { intros ix. apply Forall_forall. intros r Hr. apply in_map_iff in Hr. destruct Hr as (a & <- & Ha).
        rewrite Forall_forall in IHs. exact (proj1 (IHs a Ha) ix). }
      split; [intros ix|intros m' ix]; cbn [xvals]; apply xanon_flat; apply HF.
    - intros; split; intros; cbn [xvals]; apply plain_res_flat.
    - (* Tuple *)
      intros m vs IH. split; [|intros m' ix; cbn [xvals]; apply plain_res_flat].
      intros ix p d v. cbn [xvals]. unfold xconcat.
      destruct (all_some (map (xv ix) vs)) as [rs|] eqn:E; [|discriminate].
      cbn [option_map]. intros [= <- _ _].
      apply forallb_flat_map.
      apply (all_some_Forall (fun r => forallb PM.ast_flat (fst (fst r)) = true) (xv ix) vs rs E).
      apply Forall_forall. intros a Ha [[p1 d1] v1] Hy. cbn [fst].
      rewrite Forall_forall in IH. exact (proj1 (IH a Ha) ix p1 d1 v1 Hy).
  Qed.

  Lemma xvals_flat ix e p d v : xv ix e = Some (p, d, v) -> forallb PM.ast_flat p = true.
  Proof. apply (proj1 (xvals_flat_all e) ix). Qed.

  Lemma seq_block_flat m pre s : forallb PM.ast_flat pre = true -> PM.ast_flat s = true ->
    PM.ast_flat (seq_block m pre s) = true.
  Proof.
    intros Hp Hs. unfold seq_block. destruct pre as [|x pre]; [exact Hs|].
    cbn [PM.ast_flat]. rewrite forallb_app', Hp. simpl. rewrite Hs. reflexivity.
  Qed.

  Lemma assignments_flat o ls rs : forallb PM.ast_flat (assignments o ls rs) = true.
  Proof.
    unfold assignments. apply forallb_flat_map. apply Forall_forall. intros [l r] _.
    destruct l; try reflexivity. destruct (String.eqb name "_"); reflexivity.
  Qed.

  Definition Ps (s : statement) : Prop := forall ix s' d, xs ix s = Some (s', d) ->
    (PM.ast_flat s = true -> PM.ast_flat s' = true) /\ (PM.ast_init_ok s = true -> PM.ast_init_ok s' = true).

  Lemma leaf_case (s s' : statement) :
    PM.ast_flat s' = true -> (PM.ast_flat s = true -> PM.ast_flat s' = true) /\ (PM.ast_init_ok s = true -> PM.ast_init_ok s' = true).
  Proof. intros H. split; intros _; [exact H|apply flat_init_ok; exact H]. Qed.

  Lemma mapO_parts : forall l rs ix, Forall Ps l -> mapO (xs ix) l = Some rs ->
    (forallb PM.ast_flat l = true -> forallb PM.ast_flat (map fst rs) = true) /\
    (forallb PM.ast_init_ok l = true -> forallb PM.ast_init_ok (map fst rs) = true).
  Proof.
    unfold mapO. induction l as [|x l IH]; simpl; intros rs ix HF H.
    - inversion H. simpl. auto.
    - inversion HF as [|? ? Hx Hl]; subst.
      destruct (xs ix x) as [[x' dx]|] eqn:Ex; [|discriminate].
      destruct (all_some (map (xs ix) l)) as [rs'|] eqn:El; [|discriminate].
      simpl in H. inversion H. subst. simpl.
      destruct (Hx ix x' dx Ex) as [F1 F2]. destruct (IH rs' ix Hl El) as [G1 G2].
      split; intros HH; apply andb_prop in HH; destruct HH as [H1 H2]; apply andb_true_intro; auto.
  Qed.

  Lemma xstmt_shape_all : forall s, Ps s.
  Proof.
    apply statement_ind'; unfold Ps.
    - (* IfThenElse *)
      intros m c i e IHi IHe ix s' d. cbn [xstmt]. destruct (plain c); [|discriminate].
      destruct (xs ix i) as [[i' di]|] eqn:Ei; [|discriminate].
      destruct e as [e'|].
      + destruct (xs ix e') as [[e2 d2]|] eqn:Ee; [|discriminate]. intros [= <- _].
        split; [intros; discriminate|]. cbn [PM.ast_init_ok]. intros H. apply andb_prop in H. destruct H as [H1 H2].
        rewrite (proj2 (IHi ix i' di Ei) H1), (proj2 (IHe e' eq_refl ix e2 d2 Ee) H2). reflexivity.
      + intros [= <- _]. split; [intros; discriminate|]. cbn [PM.ast_init_ok]. intros H. apply andb_prop in H. destruct H as [H1 _].
        rewrite (proj2 (IHi ix i' di Ei) H1). reflexivity.
    - (* While *)
      intros m c b IHb ix s' d. cbn [xstmt]. destruct (plain c); [|discriminate].
      destruct (counter_name m) as [k|]; [|discriminate].
      destruct (xs [ArrayAccess (Variable_ m k [])] b) as [[b' db]|] eqn:Eb; [|discriminate].
      pose proof (proj2 (IHb _ b' db Eb)) as Hb.
      destruct (existsb (counted_by k) db); intros [= <- _]; (split; [intros; discriminate|]); cbn [PM.ast_init_ok forallb]; intros H.
      + rewrite (Hb H). reflexivity.
      + apply Hb. exact H.
    - (* Return *)
      intros m v ix s' d. cbn [xstmt]. destruct (plain v); [|discriminate]. intros [= <- _]. apply leaf_case. reflexivity.
    - (* InitializationBlock *)
      intros m t l IH ix s' d. rewrite xstmt_init_gen.
      destruct (mapO (xs ix) l) as [rs|] eqn:E; [|discriminate]. cbn [option_map]. intros [= <- _].
      destruct (mapO_parts l rs ix IH E) as [F1 _]. cbn [PM.ast_flat PM.ast_init_ok]. split; exact F1.
    - (* Declaration *)
      intros m t n dims c ix s' d. cbn [xstmt]. destruct (forallb plain dims); [|discriminate]. intros [= <- _].
      apply leaf_case. reflexivity.
    - (* Substitution *)
      intros m v acc o rhe ix s' d. cbn [xstmt]. destruct (acc_plain acc); [|discriminate].
      destruct (is_single rhe (xv ix rhe)) as [[[pre dec] value]|] eqn:Es; [|discriminate]. intros [= <- _].
      apply leaf_case. apply is_single_some in Es. apply seq_block_flat; [exact (xvals_flat _ _ _ _ _ Es)|].
      destruct (String.eqb v "_"); reflexivity.
    - (* MultiSubstitution *)
      intros m lhe o rhe ix s' d. cbn [xstmt].
      destruct lhe; try discriminate. destruct (lvalues _) as [ls|]; [|discriminate].
      destruct (tuple_valued sig_of rhe); [|discriminate].
      destruct (xv ix rhe) as [[[pre dec] rs]|] eqn:Ex; [|discriminate].
      destruct (Nat.eqb _ _); [|discriminate]. intros [= <- _].
      apply leaf_case. apply seq_block_flat; [exact (xvals_flat _ _ _ _ _ Ex)|].
      cbn [PM.ast_flat]. apply assignments_flat.
    - (* ConstraintEquality *)
      intros m l r ix s' d. cbn [xstmt]. destruct (plain l && plain r); [|discriminate]. intros [= <- _].
      apply leaf_case. reflexivity.
    - (* LogCall *)
      intros m a ix s' d. cbn [xstmt]. destruct (all_some (map xlog a)) as [l|]; [|discriminate]. cbn [option_map].
      intros [= <- _]. apply leaf_case. reflexivity.
    - (* Block *)
      intros m l IH ix s' d. rewrite xstmt_block_gen.
      destruct (mapO (xs ix) l) as [rs|] eqn:E; [|discriminate]. cbn [option_map]. intros [= <- _].
      destruct (mapO_parts l rs ix IH E) as [F1 F2]. cbn [PM.ast_flat PM.ast_init_ok]. split; assumption.
    - (* Assert *)
      intros m a ix s' d. cbn [xstmt]. destruct (plain a); [|discriminate]. intros [= <- _]. apply leaf_case. reflexivity.
  Qed.

  Lemma filter_decl_flat (p : variable_type -> bool) decls :
    forallb PM.ast_flat (filter (is_decl_of p) decls) = true.
  Proof.
    apply forallb_forall. intros x Hx. apply filter_In in Hx. destruct Hx as [_ Hx].
    destruct x; try discriminate. reflexivity.
  Qed.

  Lemma filter_subst_init_ok decls :
    forallb PM.ast_init_ok (filter (fun s => match s with Substitution _ _ _ _ _ => true | _ => false end) decls) = true.
  Proof.
    apply forallb_forall. intros x Hx. apply filter_In in Hx. destruct Hx as [_ Hx].
    destruct x; try discriminate. reflexivity.
  Qed.

  (* the expansion of a body with well-shaped initialisation blocks is a block with
     well-shaped initialisation blocks *)
  Theorem expand_spec_shape body body' :
    PM.ast_init_ok body = true -> expand_spec sig_of comp_name counter_name body = Some body' ->
    (exists m l, body' = Block m l) /\ PM.ast_init_ok body' = true.
  Proof.
    intros Hok. unfold expand_spec.
    destruct (xs [] body) as [[b1 decls]|] eqn:E; [|discriminate].
    destruct b1 as [| | | | | | | | |m stmts|]; try discriminate. intros [= <-].
    split; [eauto|].
    pose proof (proj2 (xstmt_shape_all body [] _ _ E) Hok) as H1. cbn [PM.ast_init_ok] in H1.
    cbn [forallb PM.ast_init_ok]. rewrite !forallb_app'. cbn [forallb PM.ast_init_ok].
    rewrite !filter_decl_flat, filter_subst_init_ok, H1. reflexivity.
  Qed.
End Expand.

(* ------------------------------------------------------------------------ *)
(* the shape on the syntax tree is the shape of the skeleton                  *)
(* ------------------------------------------------------------------------ *)
(* PM.ast_flat / PM.ast_init_ok are LiftFull.ast_flat / LiftFull.ast_init_flat (the
   clause of LiftFull.definition_wf) *)
Lemma ast_flat_eq : forall s, PM.ast_flat s = LiftFull.ast_flat s.
Proof. reflexivity. Qed.   (* the two fixpoints have the same body *)

Lemma ast_init_ok_flat : forall s, PM.ast_init_ok s = LiftFull.ast_init_flat s.
Proof. reflexivity. Qed.

(* a block with well-shaped initialisation blocks has a skeleton of the shape
   Proofs.LiftTotalFlat asks for, whatever function of the metas names the leaves *)
Theorem skel_desugared_shape (key : Ir.meta -> nat) body :
  LiftFull.is_block body = true -> LiftFull.ast_init_flat body = true ->
  LiftTotalFlat.desugared_shape (LiftFull.skel key body).
Proof.
  intros Hb H. destruct body; try discriminate Hb. split.
  - cbn [LiftFull.skel]. eauto.
  - rewrite LiftFullTotal.skel_init_flat. exact H.
Qed.

(* what C18 hands on: the answer of the two passes is the specified expansion
   (C18_desugar_refines_expand), whose shape is the one above: two of the four
   clauses of LiftFull.definition_wf, and the shape of the skeleton *)
Theorem desugar_output_shape (lib : file_library) ts m l body' :
  Forall wf_node (stmt_exprs (Block m l)) ->
  Forall short_node (sub_stmts (Block m l)) ->
  PM.ast_init_ok (Block m l) = true ->
  desugar_template (env_of ts) lib (Block m l) = DOk body' ->
  LiftFull.is_block body' = true /\ LiftFull.ast_init_flat body' = true /\
  forall key : Ir.meta -> nat, LiftTotalFlat.desugared_shape (LiftFull.skel key body').
Proof.
  intros Hw Hs Hok Hd.
  pose proof (desugar_refines_expand lib ts m l body' Hw Hs Hd) as He.
  destruct (expand_spec_shape _ _ _ _ _ Hok He) as [(m' & l' & ->) Hi].
  rewrite ast_init_ok_flat in Hi.
  split; [reflexivity|]. split; [exact Hi|]. intros key. apply skel_desugared_shape; [reflexivity|exact Hi].
Qed.

(* ------------------------------------------------------------------------ *)
(* C18's sugar-freeness is the clause of LiftFull.definition_wf               *)
(* ------------------------------------------------------------------------ *)
(* Spec.ExpandSpec.sugar_free_stmt (what C18_desugar_output_sugar_free and
   C18_function_kept_iff prove of a body handed on) says: no tuple and no anonymous
   component among ALL expression nodes, no multi-substitution among all statements.
   LiftFull.stmt_sugar_free is the boolean over the expressions lifting lifts. *)
Definition no_sugar (x : expression) : Prop := is_tuple x = false /\ is_anonymous_component x = false.

Lemma expr_sugar_free_of_spec : forall e,
  (forall x, In x (sub_exprs e) -> no_sugar x) -> LiftFull.expr_sugar_free e = true.
Proof.
  apply (expression_ind' (fun e => (forall x, In x (sub_exprs e) -> no_sugar x) -> LiftFull.expr_sugar_free e = true)).
  - intros m l o r IHl IHr H. cbn [LiftFull.expr_sugar_free]. rewrite IHl, IHr; [reflexivity| |];
      intros x Hx; apply H; cbn [sub_exprs]; right; apply in_or_app; auto.
  - intros m o r IHr H. cbn [LiftFull.expr_sugar_free]. apply IHr. intros x Hx. apply H. cbn [sub_exprs]. right. exact Hx.
  - intros m c t f IHc IHt IHf H. cbn [LiftFull.expr_sugar_free]. rewrite IHc, IHt, IHf; [reflexivity| | |];
      intros x Hx; apply H; cbn [sub_exprs]; right; apply in_or_app; [right; apply in_or_app; right|right; apply in_or_app; left|left]; exact Hx.
  - intros m r IHr H. cbn [LiftFull.expr_sugar_free]. apply IHr. intros x Hx. apply H. cbn [sub_exprs]. right. exact Hx.
  - intros m n acc IH H. change (LiftFull.expr_sugar_free (Variable_ m n acc)) with (forallb LiftFull.access_sugar_free acc).
    apply forallb_forall. intros a Ha. rewrite Forall_forall in IH. specialize (IH a Ha).
    destruct a as [nm|i]; [reflexivity|]. cbn [access_all] in IH. cbn [LiftFull.access_sugar_free]. apply IH.
    intros x Hx. apply H. cbn [sub_exprs]. right. apply in_flat_map. exists (ArrayAccess i). split; [exact Ha|exact Hx].
  - intros; reflexivity.
  - intros m id args IH H. cbn [LiftFull.expr_sugar_free]. apply forallb_forall. intros a Ha.
    rewrite Forall_forall in IH. apply (IH a Ha). intros x Hx. apply H. cbn [sub_exprs]. right.
    apply in_flat_map. exists a. split; assumption.
  - intros m id par ps ss names _ _ H. destruct (H _ (or_introl eq_refl)) as [_ H2]. discriminate H2.
  - intros m vs IH H. cbn [LiftFull.expr_sugar_free]. apply forallb_forall. intros a Ha.
    rewrite Forall_forall in IH. apply (IH a Ha). intros x Hx. apply H. cbn [sub_exprs]. right.
    apply in_flat_map. exists a. split; assumption.
  - intros m vs _ H. destruct (H _ (or_introl eq_refl)) as [H1 _]. discriminate H1.
Qed.

Lemma exprs_sugar_free_of_spec l :
  (forall x, In x (flat_map sub_exprs l) -> no_sugar x) -> forallb LiftFull.expr_sugar_free l = true.
Proof.
  intros H. apply forallb_forall. intros e He. apply expr_sugar_free_of_spec. intros x Hx. apply H.
  apply in_flat_map. exists e. split; assumption.
Qed.

Theorem stmt_sugar_free_of_spec : forall s, sugar_free_stmt s -> LiftFull.stmt_sugar_free s = true.
Proof.
  unfold sugar_free_stmt.
  apply (statement_ind' (fun s =>
    (forall x, In x (stmt_exprs s) -> no_sugar x) /\ (forall t, In t (sub_stmts s) -> is_multi_substitution t = false) ->
    LiftFull.stmt_sugar_free s = true)).
  - intros m c i e IHi IHe [He Hs]. cbn [LiftFull.stmt_sugar_free]. rewrite expr_sugar_free_of_spec, IHi.
    + destruct e as [e'|]; [|reflexivity]. apply (IHe e' eq_refl). split.
      * intros x Hx. apply He. cbn [stmt_exprs]. apply in_or_app. right. apply in_or_app. right. exact Hx.
      * intros t Ht. apply Hs. cbn [sub_stmts]. right. apply in_or_app. right. exact Ht.
    + split.
      * intros x Hx. apply He. cbn [stmt_exprs]. apply in_or_app. right. apply in_or_app. left. exact Hx.
      * intros t Ht. apply Hs. cbn [sub_stmts]. right. apply in_or_app. left. exact Ht.
    + intros x Hx. apply He. cbn [stmt_exprs]. apply in_or_app. left. exact Hx.
  - intros m c b IHb [He Hs]. cbn [LiftFull.stmt_sugar_free]. rewrite expr_sugar_free_of_spec, IHb; [reflexivity| |].
    + split.
      * intros x Hx. apply He. cbn [stmt_exprs]. apply in_or_app. right. exact Hx.
      * intros t Ht. apply Hs. cbn [sub_stmts]. right. exact Ht.
    + intros x Hx. apply He. cbn [stmt_exprs]. apply in_or_app. left. exact Hx.
  - intros m v [He _]. cbn [LiftFull.stmt_sugar_free]. apply expr_sugar_free_of_spec. exact He.
  - intros m t l IH [He Hs]. cbn [LiftFull.stmt_sugar_free]. apply forallb_forall. intros x Hx.
    rewrite Forall_forall in IH. apply (IH x Hx). split.
    + intros y Hy. apply He. cbn [stmt_exprs]. apply in_flat_map. exists x. split; assumption.
    + intros y Hy. apply Hs. cbn [sub_stmts]. right. apply in_flat_map. exists x. split; assumption.
  - intros m t n dims c [He _]. cbn [LiftFull.stmt_sugar_free]. apply exprs_sugar_free_of_spec. exact He.
  - intros m v acc o r [He _]. cbn [LiftFull.stmt_sugar_free]. rewrite expr_sugar_free_of_spec.
    + rewrite andb_true_r. apply forallb_forall. intros a Ha. destruct a as [nm|i]; [reflexivity|].
      cbn [LiftFull.access_sugar_free]. apply expr_sugar_free_of_spec. intros x Hx. apply He. cbn [stmt_exprs].
      apply in_or_app. left. unfold access_exprs. apply in_flat_map. exists (ArrayAccess i). split; assumption.
    + intros x Hx. apply He. cbn [stmt_exprs]. apply in_or_app. right. exact Hx.
  - intros m l o r [_ Hs]. specialize (Hs _ (or_introl eq_refl)). discriminate Hs.
  - intros m l r [He _]. cbn [LiftFull.stmt_sugar_free]. rewrite !expr_sugar_free_of_spec; [reflexivity| |];
      intros x Hx; apply He; cbn [stmt_exprs]; apply in_or_app; auto.
  - intros m args [He _]. cbn [LiftFull.stmt_sugar_free]. apply forallb_forall. intros a Ha.
    destruct a as [str|e]; [reflexivity|]. cbn [LiftFull.logarg_sugar_free]. apply expr_sugar_free_of_spec.
    intros x Hx. apply He. cbn [stmt_exprs]. apply in_flat_map. exists (LogExp e). split; assumption.
  - intros m l IH [He Hs]. cbn [LiftFull.stmt_sugar_free]. apply forallb_forall. intros x Hx.
    rewrite Forall_forall in IH. apply (IH x Hx). split.
    + intros y Hy. apply He. cbn [stmt_exprs]. apply in_flat_map. exists x. split; assumption.
    + intros y Hy. apply Hs. cbn [sub_stmts]. right. apply in_flat_map. exists x. split; assumption.
  - intros m a [He _]. cbn [LiftFull.stmt_sugar_free]. apply expr_sugar_free_of_spec. exact He.
Qed.
