(* C01, bridge between C18 (desugaring) and lifting: the body that the desugarer
   hands on has the shape that Proofs.LiftTotalFlat needs.

   1. The specified expansion (Spec.ExpandSpec.expand_spec, which the two passes
      equal by C18_desugar_refines_expand) keeps "every entry of an initialisation
      block is a statement without control flow" ([ast_init_ok]): a substitution
      becomes a substitution or a block [pre ++ [substitution]] where [pre] consists
      of blocks of substitutions, a tuple assignment becomes a block of
      substitutions, and the two initialisation blocks that expand_spec itself builds
      hold declarations only.
   2. The adapter [skel] sends [ast_init_ok] to [init_flat] and a block to a block,
      which is [desugared_shape]. *)
From Coq Require Import ZArith NArith List Bool String Lia.
Require Import Model.Ast Model.Desugar Spec.ExpandSpec Proofs.DesugarProofs Proofs.DesugarRefine Proofs.DesugarAlpha.
Require Model.PipelineMirrors Model.Lift Proofs.LiftTotalFlat.
Import ListNotations.
Local Open Scope list_scope.

Module PM := Model.PipelineMirrors.

Lemma forallb_app' {A} (f : A -> bool) l r : forallb f (l ++ r) = forallb f l && forallb f r.
Proof. induction l as [|x l IH]; simpl; [reflexivity|]. rewrite IH. apply andb_assoc. Qed.

Lemma forallb_Forall {A} (f : A -> bool) l : forallb f l = true <-> Forall (fun x => f x = true) l.
Proof. rewrite forallb_forall, Forall_forall. reflexivity. Qed.

Lemma forallb_flat_map {A B} (f : B -> bool) (g : A -> list B) l :
  Forall (fun x => forallb f (g x) = true) l -> forallb f (flat_map g l) = true.
Proof. induction 1 as [|x l Hx _ IH]; simpl; [reflexivity|]. rewrite forallb_app', Hx, IH. reflexivity. Qed.

Lemma all_some_Forall {A B} (R : B -> Prop) (g : A -> option B) : forall l ys,
  all_some (map g l) = Some ys -> Forall (fun x => forall y, g x = Some y -> R y) l -> Forall R ys.
Proof.
  induction l as [|x l IH]; simpl; intros ys H HF.
  - inversion H. constructor.
  - inversion HF as [|? ? Hx Hl]; subst. destruct (g x) as [y|] eqn:E; [|discriminate].
    destruct (all_some (map g l)) as [ys'|] eqn:E'; [|discriminate]. simpl in H. inversion H. subst.
    constructor; [apply Hx; reflexivity|]. apply IH; [reflexivity|exact Hl].
Qed.

Lemma flat_init_ok : forall s, PM.ast_flat s = true -> PM.ast_init_ok s = true.
Proof.
  apply (statement_ind' (fun s => PM.ast_flat s = true -> PM.ast_init_ok s = true)); simpl; try (intros; reflexivity);
    try (intros; discriminate).
  - intros m t l _ H. exact H.
  - intros m l IH H. rewrite forallb_Forall in *. rewrite Forall_forall in *. intros x Hx. apply IH; [exact Hx|]. apply H. exact Hx.
Qed.

Section Expand.
  Variable sig_of : string -> option (list string * list string).
  Variable comp_name : string -> meta -> option string.
  Variable counter_name : meta -> option string.

  Notation xv := (xvals sig_of comp_name).
  Notation xs := (xstmt sig_of comp_name counter_name).

  Definition flat_res (r : option (list statement * list statement * list expression)) : Prop :=
    forall p d v, r = Some (p, d, v) -> forallb PM.ast_flat p = true.

  Lemma is_single_some e r p d v : is_single e r = Some (p, d, v) -> r = Some (p, d, [v]).
  Proof.
    unfold is_single. destruct e; try discriminate;
      destruct r as [[[p' d'] [|v' [|? ?]]]|]; try discriminate; intros [= -> -> ->]; reflexivity.
  Qed.

  Lemma xanon_flat ix m id par ps args names argres :
    Forall flat_res argres -> flat_res (xanon sig_of comp_name ix m id par ps args names argres).
  Proof.
    intros HF p d v. unfold xanon.
    destruct (sig_of id) as [[ins outs]|]; [|discriminate]. destruct (comp_name id m) as [c|]; [|discriminate].
    match goal with |- context [if ?b then _ else _] => destruct b end; [|discriminate].
    match goal with |- context [all_some (map ?g ?l)] => set (feed := g); set (L := l) end.
    destruct (all_some (map feed L)) as [fed|] eqn:E; [|discriminate].
    intros [= <- _ _]. cbn [forallb PM.ast_flat]. rewrite andb_true_r.
    apply forallb_flat_map.
    apply (all_some_Forall (fun y => forallb PM.ast_flat (fst y) = true) feed L fed E).
    apply Forall_forall. intros [k input] _ y. unfold feed.
    destruct (argument_of names k input) as [[j o]|]; [|discriminate].
    destruct (nth_error args j) as [a|]; [|discriminate].
    destruct (nth_error argres j) as [r|] eqn:Er; [|discriminate].
    destruct (is_single a r) as [[[p1 d1] v1]|] eqn:Es; [|discriminate].
    cbn [option_map]. intros [= <-]. cbn [fst].
    apply is_single_some in Es. subst r.
    rewrite forallb_app'. rewrite Forall_forall in HF.
    rewrite (HF _ (nth_error_In _ _ Er) p1 d1 [v1] eq_refl). reflexivity.
  Qed.

  Definition Qe (e : expression) : Prop := forall ix, flat_res (xv ix e).
  Definition Pe (e : expression) : Prop := Qe e /\ forall m, Qe (ParallelOp m e).

  Lemma plain_res_flat (b : bool) e : flat_res (if b then Some ([], [], [e]) else None).
  Proof. intros p d v. destruct b; [|discriminate]. intros [= <- _ _]. reflexivity. Qed.

  Lemma xvals_flat_all : forall e, Pe e.
  Proof.
    apply expression_ind'; unfold Pe, Qe.
    - intros; split; intros; cbn [xvals]; apply plain_res_flat.
    - intros; split; intros; cbn [xvals]; apply plain_res_flat.
    - intros; split; intros; cbn [xvals]; apply plain_res_flat.
    - (* ParallelOp *)
      intros m r [_ IH]. split; [apply IH|]. intros m' ix. cbn [xvals]. apply plain_res_flat.
    - intros; split; intros; cbn [xvals]; apply plain_res_flat.
    - intros; split; intros; cbn [xvals]; apply plain_res_flat.
    - intros; split; intros; cbn [xvals]; apply plain_res_flat.
    - (* AnonymousComponent *)
      intros m id par ps ss names _ IHs.
      assert (HF : forall ix, Forall flat_res (map (xv ix) ss)).
      { intros ix. apply Forall_forall. intros r Hr. apply in_map_iff in Hr. destruct Hr as (a & <- & Ha).
        rewrite Forall_forall in IHs. exact (proj1 (IHs a Ha) ix). }
      split; [intros ix|intros m' ix]; cbn [xvals]; apply xanon_flat; apply HF.
    - intros; split; intros; cbn [xvals]; apply plain_res_flat.
    - (* Tuple *)
      intros m vs IH. split; [|intros m' ix; cbn [xvals]; apply plain_res_flat].
      intros ix p d v. cbn [xvals]. unfold xconcat.
      destruct (all_some (map (xv ix) vs)) as [rs|] eqn:E; [|discriminate].
      cbn [option_map]. intros [= <- _ _].
      apply forallb_flat_map.
      apply (all_some_Forall (fun r => forallb PM.ast_flat (fst (fst r)) = true) (xv ix) vs rs E).
      apply Forall_forall. intros a Ha [[p1 d1] v1] Hy. cbn [fst].
      rewrite Forall_forall in IH. exact (proj1 (IH a Ha) ix p1 d1 v1 Hy).
  Qed.

  Lemma xvals_flat ix e p d v : xv ix e = Some (p, d, v) -> forallb PM.ast_flat p = true.
  Proof. apply (proj1 (xvals_flat_all e) ix). Qed.

  Lemma seq_block_flat m pre s : forallb PM.ast_flat pre = true -> PM.ast_flat s = true ->
    PM.ast_flat (seq_block m pre s) = true.
  Proof.
    intros Hp Hs. unfold seq_block. destruct pre as [|x pre]; [exact Hs|].
    cbn [PM.ast_flat]. rewrite forallb_app', Hp. simpl. rewrite Hs. reflexivity.
  Qed.

  Lemma assignments_flat o ls rs : forallb PM.ast_flat (assignments o ls rs) = true.
  Proof.
    unfold assignments. apply forallb_flat_map. apply Forall_forall. intros [l r] _.
    destruct l; try reflexivity. destruct (String.eqb name "_"); reflexivity.
  Qed.

  Definition Ps (s : statement) : Prop := forall ix s' d, xs ix s = Some (s', d) ->
    (PM.ast_flat s = true -> PM.ast_flat s' = true) /\ (PM.ast_init_ok s = true -> PM.ast_init_ok s' = true).

  Lemma leaf_case (s s' : statement) :
    PM.ast_flat s' = true -> (PM.ast_flat s = true -> PM.ast_flat s' = true) /\ (PM.ast_init_ok s = true -> PM.ast_init_ok s' = true).
  Proof. intros H. split; intros _; [exact H|apply flat_init_ok; exact H]. Qed.

  Lemma mapO_parts : forall l rs ix, Forall Ps l -> mapO (xs ix) l = Some rs ->
    (forallb PM.ast_flat l = true -> forallb PM.ast_flat (map fst rs) = true) /\
    (forallb PM.ast_init_ok l = true -> forallb PM.ast_init_ok (map fst rs) = true).
  Proof.
    unfold mapO. induction l as [|x l IH]; simpl; intros rs ix HF H.
    - inversion H. simpl. auto.
    - inversion HF as [|? ? Hx Hl]; subst.
      destruct (xs ix x) as [[x' dx]|] eqn:Ex; [|discriminate].
      destruct (all_some (map (xs ix) l)) as [rs'|] eqn:El; [|discriminate].
      simpl in H. inversion H. subst. simpl.
      destruct (Hx ix x' dx Ex) as [F1 F2]. destruct (IH rs' ix Hl El) as [G1 G2].
      split; intros HH; apply andb_prop in HH; destruct HH as [H1 H2]; apply andb_true_intro; auto.
  Qed.

  Lemma xstmt_shape_all : forall s, Ps s.
  Proof.
    apply statement_ind'; unfold Ps.
    - (* IfThenElse *)
      intros m c i e IHi IHe ix s' d. cbn [xstmt]. destruct (plain c); [|discriminate].
      destruct (xs ix i) as [[i' di]|] eqn:Ei; [|discriminate].
      destruct e as [e'|].
      + destruct (xs ix e') as [[e2 d2]|] eqn:Ee; [|discriminate]. intros [= <- _].
        split; [intros; discriminate|]. cbn [PM.ast_init_ok]. intros H. apply andb_prop in H. destruct H as [H1 H2].
        rewrite (proj2 (IHi ix i' di Ei) H1), (proj2 (IHe e' eq_refl ix e2 d2 Ee) H2). reflexivity.
      + intros [= <- _]. split; [intros; discriminate|]. cbn [PM.ast_init_ok]. intros H. apply andb_prop in H. destruct H as [H1 _].
        rewrite (proj2 (IHi ix i' di Ei) H1). reflexivity.
    - (* While *)
      intros m c b IHb ix s' d. cbn [xstmt]. destruct (plain c); [|discriminate].
      destruct (counter_name m) as [k|]; [|discriminate].
      destruct (xs [ArrayAccess (Variable_ m k [])] b) as [[b' db]|] eqn:Eb; [|discriminate].
      pose proof (proj2 (IHb _ b' db Eb)) as Hb.
      destruct db as [|d0 db]; intros [= <- _]; (split; [intros; discriminate|]); cbn [PM.ast_init_ok forallb]; intros H.
      + apply Hb. exact H.
      + rewrite (Hb H). reflexivity.
    - (* Return *)
      intros m v ix s' d. cbn [xstmt]. destruct (plain v); [|discriminate]. intros [= <- _]. apply leaf_case. reflexivity.
    - (* InitializationBlock *)
      intros m t l IH ix s' d. rewrite xstmt_init_gen.
      destruct (mapO (xs ix) l) as [rs|] eqn:E; [|discriminate]. cbn [option_map]. intros [= <- _].
      destruct (mapO_parts l rs ix IH E) as [F1 _]. cbn [PM.ast_flat PM.ast_init_ok]. split; exact F1.
    - (* Declaration *)
      intros m t n dims c ix s' d. cbn [xstmt]. destruct (forallb plain dims); [|discriminate]. intros [= <- _].
      apply leaf_case. reflexivity.
    - (* Substitution *)
      intros m v acc o rhe ix s' d. cbn [xstmt]. destruct (acc_plain acc); [|discriminate].
      destruct (is_single rhe (xv ix rhe)) as [[[pre dec] value]|] eqn:Es; [|discriminate]. intros [= <- _].
      apply leaf_case. apply is_single_some in Es. apply seq_block_flat; [exact (xvals_flat _ _ _ _ _ Es)|].
      destruct (String.eqb v "_"); reflexivity.
    - (* MultiSubstitution *)
      intros m lhe o rhe ix s' d. cbn [xstmt].
      destruct lhe; try discriminate. destruct (lvalues _) as [ls|]; [|discriminate].
      destruct (tuple_valued sig_of rhe); [|discriminate].
      destruct (xv ix rhe) as [[[pre dec] rs]|] eqn:Ex; [|discriminate].
      destruct (Nat.eqb _ _); [|discriminate]. intros [= <- _].
      apply leaf_case. apply seq_block_flat; [exact (xvals_flat _ _ _ _ _ Ex)|].
      cbn [PM.ast_flat]. apply assignments_flat.
    - (* ConstraintEquality *)
      intros m l r ix s' d. cbn [xstmt]. destruct (plain l && plain r); [|discriminate]. intros [= <- _].
      apply leaf_case. reflexivity.
    - (* LogCall *)
      intros m a ix s' d. cbn [xstmt]. destruct (all_some (map xlog a)) as [l|]; [|discriminate]. cbn [option_map].
      intros [= <- _]. apply leaf_case. reflexivity.
    - (* Block *)
      intros m l IH ix s' d. rewrite xstmt_block_gen.
      destruct (mapO (xs ix) l) as [rs|] eqn:E; [|discriminate]. cbn [option_map]. intros [= <- _].
      destruct (mapO_parts l rs ix IH E) as [F1 F2]. cbn [PM.ast_flat PM.ast_init_ok]. split; assumption.
    - (* Assert *)
      intros m a ix s' d. cbn [xstmt]. destruct (plain a); [|discriminate]. intros [= <- _]. apply leaf_case. reflexivity.
  Qed.

  Lemma filter_decl_flat (p : variable_type -> bool) decls :
    forallb PM.ast_flat (filter (is_decl_of p) decls) = true.
  Proof.
    apply forallb_forall. intros x Hx. apply filter_In in Hx. destruct Hx as [_ Hx].
    destruct x; try discriminate. reflexivity.
  Qed.

  Lemma filter_subst_init_ok decls :
    forallb PM.ast_init_ok (filter (fun s => match s with Substitution _ _ _ _ _ => true | _ => false end) decls) = true.
  Proof.
    apply forallb_forall. intros x Hx. apply filter_In in Hx. destruct Hx as [_ Hx].
    destruct x; try discriminate. reflexivity.
  Qed.

  (* the expansion of a body with well-shaped initialisation blocks is a block with
     well-shaped initialisation blocks *)
  Theorem expand_spec_shape body body' :
    PM.ast_init_ok body = true -> expand_spec sig_of comp_name counter_name body = Some body' ->
    (exists m l, body' = Block m l) /\ PM.ast_init_ok body' = true.
  Proof.
    intros Hok. unfold expand_spec.
    destruct (xs [] body) as [[b1 decls]|] eqn:E; [|discriminate].
    destruct b1 as [| | | | | | | | |m stmts|]; try discriminate. intros [= <-].
    split; [eauto|].
    pose proof (proj2 (xstmt_shape_all body [] _ _ E) Hok) as H1. cbn [PM.ast_init_ok] in H1.
    cbn [forallb PM.ast_init_ok]. rewrite !forallb_app'. cbn [forallb PM.ast_init_ok].
    rewrite !filter_decl_flat, filter_subst_init_ok, H1. reflexivity.
  Qed.
End Expand.

(* ------------------------------------------------------------------------ *)
(* the adapter                                                               *)
(* ------------------------------------------------------------------------ *)
Fixpoint skel_list (l : list statement) (n : nat) : list Lift.sk :=
  match l with
  | [] => []
  | x :: r => PM.skel x n :: skel_list r (n + PM.size x)
  end.

Lemma skel_block m l n : PM.skel (Block m l) n = Lift.SBlock (skel_list l n).
Proof.
  reflexivity.
Qed.

Lemma skel_init m t l n : PM.skel (InitializationBlock m t l) n = Lift.SInit (skel_list l n).
Proof.
  reflexivity.
Qed.

Lemma skel_list_forallb (f : statement -> bool) (g : Lift.sk -> bool) : forall l,
  Forall (fun s => f s = true -> forall n, g (PM.skel s n) = true) l ->
  forallb f l = true -> forall n, forallb g (skel_list l n) = true.
Proof.
  induction 1 as [|x r Hx _ IH]; simpl; intros H n; [reflexivity|].
  apply andb_prop in H. destruct H as [H1 H2]. rewrite (Hx H1 n), (IH H2). reflexivity.
Qed.

Lemma skel_flat : forall s, PM.ast_flat s = true -> forall n, LiftTotalFlat.flat (PM.skel s n) = true.
Proof.
  apply (statement_ind' (fun s => PM.ast_flat s = true -> forall n, LiftTotalFlat.flat (PM.skel s n) = true));
    try (intros; reflexivity); try (simpl; intros; discriminate).
  - intros m t l IH H n. rewrite skel_init. cbn [LiftTotalFlat.flat]. cbn [PM.ast_flat] in H.
    apply (skel_list_forallb PM.ast_flat LiftTotalFlat.flat l IH H).
  - intros m l IH H n. rewrite skel_block. cbn [LiftTotalFlat.flat]. cbn [PM.ast_flat] in H.
    apply (skel_list_forallb PM.ast_flat LiftTotalFlat.flat l IH H).
Qed.

Lemma skel_init_flat : forall s, PM.ast_init_ok s = true -> forall n, LiftTotalFlat.init_flat (PM.skel s n) = true.
Proof.
  apply (statement_ind' (fun s => PM.ast_init_ok s = true -> forall n, LiftTotalFlat.init_flat (PM.skel s n) = true));
    try (intros; reflexivity).
  - intros m c i e IHi IHe H n. cbn [PM.ast_init_ok] in H. apply andb_prop in H. destruct H as [H1 H2].
    cbn [PM.skel LiftTotalFlat.init_flat]. rewrite (IHi H1). destruct e as [e'|]; [|reflexivity].
    rewrite (IHe e' eq_refl H2). reflexivity.
  - intros m c b IHb H n. cbn [PM.skel LiftTotalFlat.init_flat]. apply IHb. exact H.
  - intros m t l _ H n. rewrite skel_init. cbn [LiftTotalFlat.init_flat]. cbn [PM.ast_init_ok] in H.
    apply (skel_list_forallb PM.ast_flat LiftTotalFlat.flat l); [|exact H].
    apply Forall_forall. intros x _. apply skel_flat.
  - intros m l IH H n. rewrite skel_block. cbn [LiftTotalFlat.init_flat]. cbn [PM.ast_init_ok] in H.
    apply (skel_list_forallb PM.ast_init_ok LiftTotalFlat.init_flat l IH H).
Qed.

Theorem skel_desugared_shape body n :
  (exists m l, body = Block m l) -> PM.ast_init_ok body = true ->
  LiftTotalFlat.desugared_shape (PM.skel body n).
Proof.
  intros (m & l & ->) H. split.
  - rewrite skel_block. eauto.
  - apply skel_init_flat. exact H.
Qed.

(* what C18 hands on: the answer of the two passes is the specified expansion
   (C18_desugar_refines_expand), whose shape is the one above *)
Theorem desugar_output_shape (lib : file_library) ts m l body' :
  Forall wf_node (stmt_exprs (Block m l)) ->
  Forall short_node (sub_stmts (Block m l)) ->
  PM.ast_init_ok (Block m l) = true ->
  desugar_template (env_of ts) lib (Block m l) = DOk body' ->
  LiftTotalFlat.desugared_shape (PM.skel body' 0).
Proof.
  intros Hw Hs Hok Hd.
  pose proof (desugar_refines_expand lib ts m l body' Hw Hs Hd) as He.
  destruct (expand_spec_shape _ _ _ _ _ Hok He) as [Hb Hi].
  apply skel_desugared_shape; assumption.
Qed.
