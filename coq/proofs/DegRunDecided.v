(* C07: the assumption [picks_decided] of Proofs.DegRunBranch DERIVED for loop-free graphs
   that (a) pass the SSA validator of C14 (Model.SsaCheck.infos_ok: then the version that
   arrives at a block is a function of the incoming edge), (b) have the predecessor and
   successor lists of a lifted skeleton, are consistent and come with their true
   immediate-dominator table (then the block where two runs part is named by
   Spec.DegSem.decides: Proofs.CtlBridge), (c) are in single-assignment form (then the
   condition the runs parted on still has, in the stores with which they enter the join,
   the value it branched on). *)
From Coq Require Import ZArith NArith List Bool Arith Lia Sorting.Sorted.
Require Import Model.Base Model.Ir Model.SsaCheck Model.Propagate Model.Justify Model.DegJustify.
Require Import Spec.PolyDeg Spec.SsaSpec Spec.DegSem Spec.DegRun Proofs.IrInd Proofs.IrFacts Proofs.ValueProofs Proofs.SsaProofs Proofs.DegRunProofs Proofs.DegRunBranch.
Import ListNotations.
Local Open Scope Z_scope.

(* ---------- (a) the arriving version is a function of the incoming edge ---------- *)
Lemma body_run_fold ss : forall m m', body_run m ss = Some m' -> m' = fold_left track ss m.
Proof.
  induction ss as [|s tl IH]; intros m m'; cbn [body_run fold_left]; [congruence|].
  destruct (body_stmt_ok m s); [apply IH|discriminate].
Qed.

Lemma enter_block_vmap L b L' : enter_block L b = Some L' -> L' = block_vmap L b.
Proof.
  unfold enter_block, block_vmap. destruct (leading_phis (b_stmts b)) as [phis body].
  destruct (forallb (phi_read_ok L) phis); [apply body_run_fold|discriminate].
Qed.

Lemma last_cons_cons {A} (s : A) tl p : last (s :: tl) p = last tl s.
Proof.
  revert s p. induction tl as [|y tl IH]; intros s p; [reflexivity|].
  change (last (s :: y :: tl) p) with (last (y :: tl) p). rewrite (IH y p), (IH y s). reflexivity.
Qed.

Section Ssa.
Variable c : cfg.
Variable infos : list binfo.
Hypothesis Hok : infos_ok infos c = true.
Hypothesis Hidx : forall i b, nth_error (c_blocks c) i = Some b -> b_index b = N.of_nat i.

Lemma walk_meq : forall pi p ip L,
  nth_error infos p = Some ip -> meq L (bi_out ip) -> is_walk c p pi ->
  exists il, nth_error infos (last pi p) = Some il /\ meq (vmap_after c L pi) (bi_out il).
Proof.
  induction pi as [|s tl IH]; intros p ip L Hip HL Hw.
  - exists ip. split; [exact Hip|exact HL].
  - cbn [is_walk] in Hw. destruct Hw as [(bp & Hbp & Hin) Hw].
    pose proof (edge_facts c infos Hok p bp s Hbp Hin (Hidx _ _ Hbp)) as He.
    assert (Hs : exists bs_, nth_error (c_blocks c) s = Some bs_).
    { unfold edge_ok in He. destruct (nth_error infos p); [|discriminate].
      destruct (nth_error infos s); [|discriminate].
      destruct (nth_error (c_blocks c) s) as [bq|]; [eauto|discriminate]. }
    destruct Hs as [bs_ Hbs].
    destruct (block_facts c infos Hok s bs_ Hbs) as (is_ & His & Hblk).
    destruct (enter_step c infos p s ip is_ bs_ L Hip His Hbs He Hblk HL) as (L' & HL' & Hm).
    rewrite last_cons_cons. unfold vmap_after. cbn [fold_left]. rewrite Hbs.
    rewrite <- (enter_block_vmap L bs_ L' HL'). exact (IH s is_ L' His Hm Hw).
Qed.

Lemma entry_walk_meq tl : is_walk c 0 tl ->
  exists il, nth_error infos (last tl 0%nat) = Some il /\
             meq (vmap_after c (params_map (c_params c)) (0%nat :: tl)) (bi_out il).
Proof.
  intros Hw. destruct (entry_facts c infos Hok Hidx) as (i0 & b0 & Hi0 & Hb0 & Hin0 & Hnophi).
  destruct (block_facts c infos Hok 0 b0 Hb0) as (i0' & Hi0' & Hblk).
  rewrite Hi0 in Hi0'. injection Hi0' as <-.
  unfold vmap_after. cbn [fold_left]. rewrite Hb0.
  assert (E : block_vmap (params_map (c_params c)) b0 = bi_out i0).
  { unfold block_ok in Hblk. unfold block_vmap.
    destruct (leading_phis (b_stmts b0)) as [phis body]. cbn [fst] in Hnophi. subst phis.
    apply andb_true_iff in Hblk as [_ Hbody]. rewrite Hin0 in Hbody.
    destruct (body_run (params_map (c_params c)) body) as [o|] eqn:Ebr; [|discriminate].
    apply vmap_eqb_eq in Hbody. subst o. cbn [apply_phis fold_left]. symmetry. apply body_run_fold. exact Ebr. }
  rewrite E. exact (walk_meq tl 0%nat i0 (bi_out i0) Hi0 (meq_refl _) Hw).
Qed.
End Ssa.

(* ---------- runs are walks ---------- *)
Section Walks.
Variable p : Z.
Variable sem2 : infix_op -> Z -> Z -> Z.
Variable sem1 : prefix_op -> Z -> Z.
Variable call_sem : ident -> list Z -> Z.
Variable name_code : ident -> Z.
Variable c : cfg.
Notation cexec_path := (cexec_path p sem2 sem1 call_sem name_code).

Lemma branch_okb_succ s b j : branch_okb p sem2 sem1 call_sem name_code s b j = true -> In (N.of_nat j) (b_succs b).
Proof.
  unfold branch_okb. intros H. apply andb_true_iff in H as [H _]. apply existsb_exists in H.
  destruct H as (x & Hx & E). apply N.eqb_eq in E. subst x. exact Hx.
Qed.

Lemma cexec_path_walk pi : forall L s i s', cexec_path c L s (i :: pi) = Some s' -> is_walk c i pi.
Proof.
  induction pi as [|j tl IH]; intros L s i s' H; [exact I|].
  cbn [DegRun.cexec_path] in H. destruct (nth_error (c_blocks c) i) as [b|] eqn:Eb; [|discriminate].
  destruct (cexec_block p sem2 sem1 call_sem name_code c L s b) as [s1|]; [|discriminate].
  destruct (branch_okb p sem2 sem1 call_sem name_code s1 b j) eqn:Ebr; [|discriminate].
  cbn [is_walk]. split.
  - exists b. split; [exact Eb|]. eapply branch_okb_succ; eauto.
  - eapply IH. exact H.
Qed.

Lemma is_walk_app l1 : forall i l2, is_walk c i (l1 ++ l2) -> is_walk c i l1.
Proof. induction l1 as [|x l1 IH]; intros i l2; cbn [app is_walk]; [auto|]. intros [H1 H2]. split; [exact H1|eapply IH; eauto]. Qed.
End Walks.

(* ---------- (c) concrete stores only grow; values are kept ---------- *)
Section Grow.
Variable p : Z.
Variable sem2 : infix_op -> Z -> Z -> Z.
Variable sem1 : prefix_op -> Z -> Z.
Variable call_sem : ident -> list Z -> Z.
Variable name_code : ident -> Z.
Notation cval := (cval p sem2 sem1 call_sem name_code).

Definition csub (s s' : cstore) : Prop := forall x v, s x = Some v -> s' x = Some v.
Lemma csub_refl s : csub s s. Proof. intros x v H. exact H. Qed.
Lemma csub_trans s1 s2 s3 : csub s1 s2 -> csub s2 s3 -> csub s1 s3.
Proof. intros H1 H2 x v H. apply H2, H1, H. Qed.
Lemma csub_upd s x v : s x = None -> csub s (cupd s x (Some v)).
Proof.
  intros Hn y w Hy. unfold cupd. destruct (vname_eqb x y) eqn:E; [|exact Hy].
  apply vname_eqb_eq in E. subst y. congruence.
Qed.

Section One.
Variables s s' : cstore.
Hypothesis Hsub : csub s s'.

Lemma cval_list_csub (es : list expr) : Forall (fun e => forall v, cval s e = Some v -> cval s' e = Some v) es ->
  forall vs,
  (fix cval_list (es : list expr) : option (list cell) :=
     match es with
     | [] => Some []
     | x :: tl => match cval s x, cval_list tl with
                  | Some v, Some vs => Some (v :: vs)
                  | _, _ => None
                  end
     end) es = Some vs ->
  (fix cval_list (es : list expr) : option (list cell) :=
     match es with
     | [] => Some []
     | x :: tl => match cval s' x, cval_list tl with
                  | Some v, Some vs => Some (v :: vs)
                  | _, _ => None
                  end
     end) es = Some vs.
Proof.
  induction 1 as [|e tl He _ IH]; intros vs; [auto|]. simpl.
  destruct (cval s e) as [v|] eqn:Ee; [|discriminate]. rewrite (He v eq_refl).
  match goal with |- match ?t with Some _ => _ | None => _ end = _ -> _ => destruct t as [vs0|] eqn:Et; [|discriminate] end.
  rewrite (IH vs0 eq_refl). auto.
Qed.

Lemma cval_acc_csub (acc : list (access expr)) :
  Forall (fun e => forall v, cval s e = Some v -> cval s' e = Some v) (acc_exprs acc) ->
  forall idx,
  (fix cval_acc (acc : list (access expr)) : option (list Z) :=
     match acc with
     | [] => Some []
     | AIdx x :: tl => match cval s x, cval_acc tl with
                       | Some v, Some idx => Some (v [] :: idx)
                       | _, _ => None
                       end
     | AComp n :: tl => match cval_acc tl with
                        | Some idx => Some (name_code n :: idx)
                        | None => None
                        end
     end) acc = Some idx ->
  (fix cval_acc (acc : list (access expr)) : option (list Z) :=
     match acc with
     | [] => Some []
     | AIdx x :: tl => match cval s' x, cval_acc tl with
                       | Some v, Some idx => Some (v [] :: idx)
                       | _, _ => None
                       end
     | AComp n :: tl => match cval_acc tl with
                        | Some idx => Some (name_code n :: idx)
                        | None => None
                        end
     end) acc = Some idx.
Proof.
  induction acc as [|a tl IH]; intros Hall idx; [auto|].
  destruct a as [e|n]; cbn [acc_exprs flat_map app] in Hall; simpl.
  - apply Forall_cons_iff in Hall as [He Ht]. specialize (IH Ht).
    destruct (cval s e) as [v|] eqn:Ee; [|discriminate]. rewrite (He v eq_refl).
    match goal with |- match ?t with Some _ => _ | None => _ end = _ -> _ => destruct t as [i0|] eqn:Et; [|discriminate] end.
    rewrite (IH i0 eq_refl). auto.
  - specialize (IH Hall).
    match goal with |- match ?t with Some _ => _ | None => _ end = _ -> _ => destruct t as [i0|] eqn:Et; [|discriminate] end.
    rewrite (IH i0 eq_refl). auto.
Qed.

Lemma cval_csub : forall e v, cval s e = Some v -> cval s' e = Some v.
Proof.
  induction e as [z k|x k|op l r k IHl IHr|op e k IHe|cd t f k IHc IHt IHf|n args k IHargs|vs k IHvs
                  |x acc k IHacc|x acc rhe k IHacc IHrhe|args k] using expr_ind';
    cbn [DegRun.cval]; intros v Hd.
  - exact Hd.
  - apply Hsub. exact Hd.
  - destruct (cval s l) as [a|] eqn:El; [|discriminate]. destruct (cval s r) as [b|] eqn:Er; [|discriminate].
    rewrite (IHl a eq_refl), (IHr b eq_refl). exact Hd.
  - destruct (cval s e) as [a|] eqn:Ee; [|discriminate]. rewrite (IHe a eq_refl). exact Hd.
  - destruct (cval s cd) as [a|] eqn:Ec; [|discriminate]. destruct (cval s t) as [b|] eqn:Et; [|discriminate].
    destruct (cval s f) as [d|] eqn:Ef; [|discriminate].
    rewrite (IHc a eq_refl), (IHt b eq_refl), (IHf d eq_refl). exact Hd.
  - match type of Hd with match ?t with Some _ => _ | None => _ end = _ => destruct t as [ws|] eqn:El; [|discriminate] end.
    rewrite (cval_list_csub args IHargs ws El). exact Hd.
  - match type of Hd with match ?t with Some _ => _ | None => _ end = _ => destruct t as [ws|] eqn:El; [|discriminate] end.
    rewrite (cval_list_csub vs IHvs ws El). exact Hd.
  - destruct (s x) as [A|] eqn:Ev; [|discriminate]. rewrite (Hsub x A Ev).
    match type of Hd with match ?t with Some _ => _ | None => _ end = _ => destruct t as [i0|] eqn:Ea; [|discriminate] end.
    rewrite (cval_acc_csub acc IHacc i0 Ea). exact Hd.
  - destruct (s x) as [A|] eqn:Ev; [|discriminate]. rewrite (Hsub x A Ev).
    match type of Hd with match ?t with Some _ => _ | None => _ end = _ => destruct t as [i0|] eqn:Ea; [|discriminate] end.
    rewrite (cval_acc_csub acc IHacc i0 Ea).
    destruct (cval s rhe) as [R|] eqn:Er; [|discriminate]. rewrite (IHrhe R eq_refl). exact Hd.
  - discriminate.
Qed.
End One.

(* a block only adds cells for its local targets *)
Variable c : cfg.
Notation cexec_stmt := (cexec_stmt p sem2 sem1 call_sem name_code).
Notation cexec_body := (cexec_body p sem2 sem1 call_sem name_code).
Notation cexec_block := (cexec_block p sem2 sem1 call_sem name_code).
Notation local_targets := (local_targets c).

Definition grows (ss : list stmt) (s s' : cstore) : Prop :=
  csub s s' /\ forall y, s' y <> None -> s y <> None \/ In y (local_targets ss).

Lemma grows_body ss : forall s s', cexec_body c s ss = Some s' ->
  (forall x, In x (local_targets ss) -> s x = None) -> NoDup (local_targets ss) -> grows ss s s'.
Proof.
  induction ss as [|st tl IH]; intros s s' H Hfresh Hnd; cbn [DegRun.cexec_body] in H.
  - injection H as <-. split; [apply csub_refl|auto].
  - destruct (cexec_stmt c s st) as [s1|] eqn:E1; [|discriminate].
    assert (Happ : local_targets (st :: tl) = local_targets [st] ++ local_targets tl) by (cbn; rewrite app_nil_r; reflexivity).
    assert (Hstep : grows [st] s s1).
    { destruct st; cbn [DegRun.cexec_stmt] in E1; try (injection E1 as <-; split; [apply csub_refl|auto]).
      destruct (stores_local c v) eqn:El; [|injection E1 as <-; split; [apply csub_refl|auto]].
      destruct (cval s rhe) as [w|]; [|discriminate]. injection E1 as <-.
      assert (Hv : s v = None) by (apply Hfresh; cbn; rewrite El; left; reflexivity).
      split; [apply csub_upd; exact Hv|].
      intros y Hy. unfold cupd in Hy. destruct (vname_eqb v y) eqn:E; [|left; exact Hy].
      apply vname_eqb_eq in E. subst y. right. cbn. rewrite El. left. reflexivity. }
    rewrite Happ in Hnd.
    destruct (IH s1 s' H) as [Hc Hd].
    + intros x Hx. destruct (s1 x) as [w|] eqn:Es; [|reflexivity]. exfalso.
      destruct (proj2 Hstep x) as [H1|H1]; [congruence| |].
      * apply H1. apply Hfresh. rewrite Happ. apply in_or_app. right. exact Hx.
      * exact (NoDup_app_disj _ _ Hnd x H1 Hx).
    + exact (NoDup_app_r _ _ Hnd).
    + split; [eapply csub_trans; [apply Hstep|exact Hc]|].
      intros y Hy. rewrite Happ. destruct (Hd y Hy) as [H1|H1].
      * destruct (proj2 Hstep y H1) as [H2|H2]; [left; exact H2|right; apply in_or_app; left; exact H2].
      * right. apply in_or_app. right. exact H1.
Qed.

Lemma grows_phis L phis : forall s s', cexec_phis c L s phis = Some s' ->
  (forall x, In x (local_targets phis) -> s x = None) -> NoDup (local_targets phis) -> grows phis s s'.
Proof.
  induction phis as [|st tl IH]; intros s s' H Hfresh Hnd; cbn [DegRun.cexec_phis] in H.
  - injection H as <-. split; [apply csub_refl|auto].
  - destruct (cexec_phi c L s st) as [s1|] eqn:E1; [|discriminate].
    assert (Happ : local_targets (st :: tl) = local_targets [st] ++ local_targets tl) by (cbn; rewrite app_nil_r; reflexivity).
    assert (Hstep : grows [st] s s1).
    { destruct st; cbn [DegRun.cexec_phi] in E1; try (injection E1 as <-; split; [apply csub_refl|auto]).
      destruct rhe; try (injection E1 as <-; split; [apply csub_refl|auto]).
      destruct (stores_local c v) eqn:El; [|injection E1 as <-; split; [apply csub_refl|auto]].
      destruct (vget L (key_of v)) as [n|]; [|discriminate]. destruct (phi_arg v n args) as [a|]; [|discriminate].
      destruct (s a) as [w|]; [|discriminate]. injection E1 as <-.
      assert (Hv : s v = None) by (apply Hfresh; cbn; rewrite El; left; reflexivity).
      split; [apply csub_upd; exact Hv|].
      intros y Hy. unfold cupd in Hy. destruct (vname_eqb v y) eqn:E; [|left; exact Hy].
      apply vname_eqb_eq in E. subst y. right. cbn. rewrite El. left. reflexivity. }
    rewrite Happ in Hnd.
    destruct (IH s1 s' H) as [Hc Hd].
    + intros x Hx. destruct (s1 x) as [w|] eqn:Es; [|reflexivity]. exfalso.
      destruct (proj2 Hstep x) as [H1|H1]; [congruence| |].
      * apply H1. apply Hfresh. rewrite Happ. apply in_or_app. right. exact Hx.
      * exact (NoDup_app_disj _ _ Hnd x H1 Hx).
    + exact (NoDup_app_r _ _ Hnd).
    + split; [eapply csub_trans; [apply Hstep|exact Hc]|].
      intros y Hy. rewrite Happ. destruct (Hd y Hy) as [H1|H1].
      * destruct (proj2 Hstep y H1) as [H2|H2]; [left; exact H2|right; apply in_or_app; left; exact H2].
      * right. apply in_or_app. right. exact H1.
Qed.

Lemma grows_block L b s s' : cexec_block c L s b = Some s' ->
  (forall x, In x (local_targets (b_stmts b)) -> s x = None) -> NoDup (local_targets (b_stmts b)) -> grows (b_stmts b) s s'.
Proof.
  unfold DegRun.cexec_block. destruct (leading_phis (b_stmts b)) as [phis body] eqn:Elp.
  pose proof (leading_phis_app _ _ _ Elp) as Hpb. rewrite Hpb.
  assert (Happ : local_targets (phis ++ body) = local_targets phis ++ local_targets body)
    by (unfold DegRunBranch.local_targets; apply flat_map_app).
  unfold grows. rewrite Happ. intros H Hfresh Hnd.
  destruct (cexec_phis c L s phis) as [s1|] eqn:E1; [|discriminate].
  destruct (grows_phis L phis s s1 E1) as [Hc1 Hd1].
  { intros x Hx. apply Hfresh. apply in_or_app. left. exact Hx. }
  { exact (NoDup_app_l _ _ Hnd). }
  destruct (grows_body body s1 s' H) as [Hc2 Hd2].
  { intros x Hx. destruct (s1 x) as [w|] eqn:Es; [|reflexivity]. exfalso.
    destruct (Hd1 x) as [H1|H1]; [congruence| |].
    - apply H1. apply Hfresh. apply in_or_app. right. exact Hx.
    - exact (NoDup_app_disj _ _ Hnd x H1 Hx). }
  { exact (NoDup_app_r _ _ Hnd). }
  split; [eapply csub_trans; eauto|].
  intros y Hy. destruct (Hd2 y Hy) as [H1|H1].
  - destruct (Hd1 y H1) as [H2|H2]; [left; exact H2|right; apply in_or_app; left; exact H2].
  - right. apply in_or_app. right. exact H1.
Qed.
End Grow.

(* ---------- sorted lists ---------- *)
Lemma sorted_app_lt (l1 l2 : list nat) : StronglySorted lt (l1 ++ l2) ->
  (forall x y, In x l1 -> In y l2 -> (x < y)%nat) /\ StronglySorted lt l1 /\ StronglySorted lt l2.
Proof.
  induction l1 as [|a l1 IH]; cbn [app]; intros H.
  - split; [intros x y []|]. split; [constructor|exact H].
  - apply StronglySorted_inv in H as [Hs Ha]. destruct (IH Hs) as (H1 & H2 & H3).
    split; [|split; [|exact H3]].
    + intros x y [<-|Hx] Hy; [|auto]. rewrite Forall_forall in Ha. apply Ha. apply in_or_app. right. exact Hy.
    + constructor; [exact H2|]. rewrite Forall_forall in Ha |- *. intros x Hx. apply Ha. apply in_or_app. left. exact Hx.
Qed.

Lemma below_keep a l : (forall x, In x l -> (x < a)%nat) -> below a l = l.
Proof. apply below_all. Qed.

Lemma below_app a l1 l2 : below a (l1 ++ l2) = below a l1 ++ below a l2.
Proof. unfold below. apply filter_app. Qed.

Lemma below_S_split pre q rest : StronglySorted lt (pre ++ q :: rest) -> below (S q) (pre ++ q :: rest) = pre ++ [q].
Proof.
  intros H. destruct (sorted_app_lt _ _ H) as (H1 & _ & H3). apply StronglySorted_inv in H3 as [_ Hq].
  rewrite below_app. rewrite (below_keep (S q) pre).
  - f_equal. cbn [below filter]. assert (E : (q <? S q)%nat = true) by (apply Nat.ltb_lt; lia). rewrite E. f_equal.
    apply below_none. eapply Forall_impl; [|exact Hq]. cbn. intros; lia.
  - intros x Hx. specialize (H1 x q Hx (or_introl eq_refl)). lia.
Qed.

(* ---------- along one run: the stores only grow, the branch test at every step ---------- *)
Section Run.
Variable V : Type.
Variable p : Z.
Variable sem2 : infix_op -> Z -> Z -> Z.
Variable sem1 : prefix_op -> Z -> Z.
Variable call_sem : ident -> list Z -> Z.
Variable name_code : ident -> Z.
Variable c : cfg.
Variable L0 : vmap.
Variable pth : V -> list nat.
Variable s0 : V -> cstore.
Notation n := (length (c_blocks c)).
Notation cval := (cval p sem2 sem1 call_sem name_code).
Notation cexec_path := (cexec_path p sem2 sem1 call_sem name_code).
Notation cexec_nocheck := (cexec_nocheck p sem2 sem1 call_sem name_code c).
Notation ent := (ent V p sem2 sem1 call_sem name_code c L0 pth s0).
Notation E := (E V p sem2 sem1 call_sem name_code c L0 pth s0).
Notation Lat := (Lat V c L0 pth).
Notation visits := (visits V pth).
Notation local_targets := (local_targets c).

Hypothesis Hsorted : forall rho, StronglySorted lt (pth rho).
Hypothesis Hrun : forall rho, cexec_nocheck L0 (s0 rho) (pth rho) <> None.
Hypothesis Hsa : NoDup (local_targets (all_stmts (c_blocks c))).
Hypothesis Hs0 : forall rho x, In x (local_targets (all_stmts (c_blocks c))) -> s0 rho x = None.

Lemma targets_firstn_S a b : nth_error (c_blocks c) a = Some b ->
  local_targets (all_stmts (firstn (S a) (c_blocks c))) =
  local_targets (all_stmts (firstn a (c_blocks c))) ++ local_targets (b_stmts b).
Proof.
  intros Hb. assert (E1 : firstn (S a) (c_blocks c) = firstn a (c_blocks c) ++ [b]).
  { revert a Hb. generalize (c_blocks c). induction l as [|y l IH]; intros [|a] Hb; cbn in *; try discriminate.
    - injection Hb as ->. reflexivity.
    - f_equal. apply IH. exact Hb. }
  rewrite E1. unfold all_stmts. rewrite flat_map_app. cbn [flat_map]. rewrite app_nil_r.
  unfold DegRunBranch.local_targets. apply flat_map_app.
Qed.

Lemma targets_split a b : nth_error (c_blocks c) a = Some b ->
  exists rest, local_targets (all_stmts (c_blocks c)) =
               (local_targets (all_stmts (firstn a (c_blocks c))) ++ local_targets (b_stmts b)) ++ rest.
Proof.
  intros Hb. exists (local_targets (all_stmts (skipn (S a) (c_blocks c)))).
  rewrite <- (targets_firstn_S a b Hb).
  rewrite <- (firstn_skipn (S a) (c_blocks c)) at 1. unfold all_stmts. rewrite flat_map_app.
  unfold DegRunBranch.local_targets. apply flat_map_app.
Qed.

(* what a run has defined after the blocks below a: initial cells and targets of those blocks *)
Lemma ent_dom rho : forall a, (a <= n)%nat -> forall y, ent rho a y <> None ->
  s0 rho y <> None \/ In y (local_targets (all_stmts (firstn a (c_blocks c)))).
Proof.
  induction a as [|a IH]; intros Ha y Hy.
  - left. unfold DegRunBranch.ent, DegRunBranch.E in Hy. rewrite below_none in Hy; [exact Hy|]. apply Forall_forall. intros; lia.
  - destruct (nth_error (c_blocks c) a) as [b|] eqn:Eb; [|apply nth_error_None in Eb; lia].
    rewrite (targets_firstn_S a b Eb).
    destruct (visits rho a) eqn:Ev.
    + pose proof (E_step_in V p sem2 sem1 call_sem name_code c L0 pth s0 Hsorted Hrun rho a b Ev Eb) as Hst.
      rewrite (E_ent V p sem2 sem1 call_sem name_code c L0 pth s0 Hsorted Hrun) in Hst. symmetry in Hst.
      destruct (targets_split a b Eb) as (rest & Hsp).
      pose proof Hsa as Hnd. rewrite Hsp in Hnd. apply NoDup_app_l in Hnd.
      destruct (grows_block p sem2 sem1 call_sem name_code c (Lat rho a) b (ent rho a) (ent rho (S a)) Hst) as [_ Hd].
      * intros x Hx. destruct (ent rho a x) as [w|] eqn:Ex; [|reflexivity]. exfalso.
        destruct (IH (ltac:(lia)) x) as [H1|H1]; [congruence| |].
        -- apply H1. apply Hs0. rewrite Hsp. apply in_or_app. left. apply in_or_app. right. exact Hx.
        -- exact (NoDup_app_disj _ _ Hnd x H1 Hx).
      * exact (NoDup_app_r _ _ Hnd).
      * destruct (Hd y Hy) as [H1|H1].
        -- destruct (IH (ltac:(lia)) y H1) as [H2|H2]; [left; exact H2|right; apply in_or_app; left; exact H2].
        -- right. apply in_or_app. right. exact H1.
    + rewrite (E_step_out V p sem2 sem1 call_sem name_code c L0 pth s0 rho a Ev) in Hy.
      destruct (IH (ltac:(lia)) y Hy) as [H2|H2]; [left; exact H2|right; apply in_or_app; left; exact H2].
Qed.

Lemma ent_grow_step rho a : (a < n)%nat -> csub (ent rho a) (ent rho (S a)).
Proof.
  intros Ha. destruct (nth_error (c_blocks c) a) as [b|] eqn:Eb; [|apply nth_error_None in Eb; lia].
  destruct (visits rho a) eqn:Ev.
  - pose proof (E_step_in V p sem2 sem1 call_sem name_code c L0 pth s0 Hsorted Hrun rho a b Ev Eb) as Hst.
    rewrite (E_ent V p sem2 sem1 call_sem name_code c L0 pth s0 Hsorted Hrun) in Hst. symmetry in Hst.
    destruct (targets_split a b Eb) as (rest & Hsp).
    pose proof Hsa as Hnd. rewrite Hsp in Hnd. apply NoDup_app_l in Hnd.
    apply (grows_block p sem2 sem1 call_sem name_code c (Lat rho a) b (ent rho a) (ent rho (S a)) Hst).
    + intros x Hx. destruct (ent rho a x) as [w|] eqn:Ex; [|reflexivity]. exfalso.
      destruct (ent_dom rho a (ltac:(lia)) x) as [H1|H1]; [congruence| |].
      * apply H1. apply Hs0. rewrite Hsp. apply in_or_app. left. apply in_or_app. right. exact Hx.
      * exact (NoDup_app_disj _ _ Hnd x H1 Hx).
    + exact (NoDup_app_r _ _ Hnd).
  - rewrite (E_step_out V p sem2 sem1 call_sem name_code c L0 pth s0 rho a Ev). apply csub_refl.
Qed.

Lemma ent_grow rho q : forall a, (q <= a)%nat -> (a <= n)%nat -> csub (ent rho q) (ent rho a).
Proof.
  induction a as [|a IH]; intros Hq Ha.
  - assert (q = 0)%nat by lia. subst q. apply csub_refl.
  - destruct (Nat.eq_dec q (S a)) as [->|Hne]; [apply csub_refl|].
    eapply csub_trans; [apply IH; lia|]. apply ent_grow_step. lia.
Qed.

(* the branch test at the step q -> nxt of a run *)
Lemma path_branch pre : forall L s s' q nxt post,
  cexec_path c L s (pre ++ q :: nxt :: post) = Some s' ->
  exists bq sq, nth_error (c_blocks c) q = Some bq /\ cexec_nocheck L s (pre ++ [q]) = Some sq /\
                branch_okb p sem2 sem1 call_sem name_code sq bq nxt = true.
Proof.
  induction pre as [|i pre IH]; intros L s s' q nxt post H; cbn [app] in H |- *.
  - cbn [DegRun.cexec_path] in H. cbn [DegRunBranch.cexec_nocheck].
    destruct (nth_error (c_blocks c) q) as [bq|]; [|discriminate].
    destruct (cexec_block p sem2 sem1 call_sem name_code c L s bq) as [s1|]; [|discriminate].
    destruct (branch_okb p sem2 sem1 call_sem name_code s1 bq nxt) eqn:Eb; [|discriminate].
    exists bq, s1. auto.
  - cbn [DegRun.cexec_path] in H. cbn [DegRunBranch.cexec_nocheck].
    destruct (nth_error (c_blocks c) i) as [b|]; [|discriminate].
    destruct (cexec_block p sem2 sem1 call_sem name_code c L s b) as [s1|]; [|discriminate].
    destruct (match pre ++ q :: nxt :: post with [] => true | j :: _ => branch_okb p sem2 sem1 call_sem name_code s1 b j end); [|discriminate].
    exact (IH _ _ _ _ _ _ H).
Qed.
End Run.

(* ---------- where two walks from a common block part for the last time ---------- *)
Lemma last_app_cons {A} (l1 : list A) x l2 : forall d, last (l1 ++ x :: l2) d = last l2 x.
Proof.
  induction l1 as [|y l1 IH]; intros d; cbn [app]; [apply last_cons_cons|].
  rewrite last_cons_cons. apply IH.
Qed.

Lemma parting_block (a : nat) : forall k (d : nat) tl1 tl2, (length tl1 <= k)%nat ->
  ~ In a tl1 -> ~ In a tl2 -> last tl1 d <> last tl2 d ->
  exists q h1 t1 h2 t2, d :: tl1 = h1 ++ q :: t1 /\ d :: tl2 = h2 ++ q :: t2 /\
    (forall x, In x t1 -> ~ In x t2) /\ hd a t1 <> hd a t2.
Proof.
  induction k as [|k IH]; intros d tl1 tl2 Hk Ha1 Ha2 Hlast.
  - destruct tl1; [|cbn in Hk; lia]. exists d, [], [], [], tl2. split; [reflexivity|]. split; [reflexivity|].
    split; [intros x []|]. destruct tl2 as [|y tl2]; [cbn in Hlast; congruence|].
    cbn [hd]. intros ->. apply Ha2. left. reflexivity.
  - destruct (find (fun x => existsb (Nat.eqb x) tl2) tl1) as [x|] eqn:Ef.
    + apply find_some in Ef as [Hx1 Hx2]. apply existsb_exists in Hx2 as (x' & Hx2 & E). apply Nat.eqb_eq in E. subst x'.
      apply in_split in Hx1 as (u1 & w1 & ->). apply in_split in Hx2 as (u2 & w2 & ->).
      destruct (IH x w1 w2) as (q & h1 & t1 & h2 & t2 & E1 & E2 & Hd & Hh).
      * rewrite app_length in Hk. cbn [length] in Hk. lia.
      * intros H. apply Ha1. apply in_or_app. right. right. exact H.
      * intros H. apply Ha2. apply in_or_app. right. right. exact H.
      * rewrite !last_app_cons in Hlast. exact Hlast.
      * exists q, ((d :: u1) ++ h1), t1, ((d :: u2) ++ h2), t2.
        split; [rewrite <- app_assoc, <- E1; reflexivity|]. split; [rewrite <- app_assoc, <- E2; reflexivity|]. auto.
    + exists d, [], tl1, [], tl2. split; [reflexivity|]. split; [reflexivity|].
      assert (Hdis : forall x, In x tl1 -> ~ In x tl2).
      { intros x Hx1 Hx2. pose proof (find_none _ _ Ef x Hx1) as Hn. cbn in Hn.
        assert (existsb (Nat.eqb x) tl2 = true) by (apply existsb_exists; exists x; split; [exact Hx2|apply Nat.eqb_refl]). congruence. }
      split; [exact Hdis|].
      destruct tl1 as [|y1 tl1], tl2 as [|y2 tl2]; cbn [hd].
      * cbn in Hlast. congruence.
      * intros ->. apply Ha2. left. reflexivity.
      * intros ->. apply Ha1. left. reflexivity.
      * intros ->. apply (Hdis y2); left; reflexivity.
Qed.

(* ---------- small facts for the assembly ---------- *)
Lemma below_split_at pre a post : StronglySorted lt (pre ++ a :: post) -> below a (pre ++ a :: post) = pre.
Proof.
  intros H. destruct (sorted_app_lt _ _ H) as (H1 & _ & H3). apply StronglySorted_inv in H3 as [_ Hq].
  rewrite below_app, (below_keep a pre).
  - cbn [below filter]. rewrite Nat.ltb_irrefl. fold (below a post). rewrite below_none; [apply app_nil_r|].
    eapply Forall_impl; [|exact Hq]. cbn. intros; lia.
  - intros x Hx. exact (H1 x a Hx (or_introl eq_refl)).
Qed.

Lemma is_walk_suffix c l1 : forall i x l2, is_walk c i (l1 ++ x :: l2) -> is_walk c x l2.
Proof. induction l1 as [|y l1 IH]; intros i x l2; cbn [app is_walk]; intros [_ H]; [exact H|eapply IH; eauto]. Qed.

Lemma walk_edge_at c l1 : forall i x l2, is_walk c i (l1 ++ x :: l2) -> Spec.SsaDomSpec.cedge c (last l1 i) x.
Proof.
  induction l1 as [|y l1 IH]; intros i x l2; cbn [app is_walk].
  - intros [H _]. exact H.
  - intros [_ H]. rewrite last_cons_cons. eapply IH; eauto.
Qed.

Lemma two_distinct_length {A} (l : list A) x y : In x l -> In y l -> x <> y -> (2 <= length l)%nat.
Proof.
  destruct l as [|a [|b l]]; cbn; intros Hx Hy Hne; try contradiction; [|lia].
  destruct Hx as [<-|[]], Hy as [<-|[]]. congruence.
Qed.

Section BranchDiffer.
Variable p : Z.
Variable sem2 : infix_op -> Z -> Z -> Z.
Variable sem1 : prefix_op -> Z -> Z.
Variable call_sem : ident -> list Z -> Z.
Variable name_code : ident -> Z.

(* two runs that leave a block by different successors evaluated its condition differently *)
Lemma branch_differ s1 s2 bq n1 n2 :
  branch_okb p sem2 sem1 call_sem name_code s1 bq n1 = true ->
  branch_okb p sem2 sem1 call_sem name_code s2 bq n2 = true -> n1 <> n2 ->
  exists m cond t f v1 v2,
    last (b_stmts bq) (SLog m []) = SIf m cond t f /\
    cval p sem2 sem1 call_sem name_code s1 cond = Some v1 /\ cval p sem2 sem1 call_sem name_code s2 cond = Some v2 /\
    v1 [] <> v2 [].
Proof.
  unfold branch_okb. intros H1 H2 Hne.
  apply andb_true_iff in H1 as [Hs1 H1]. apply andb_true_iff in H2 as [Hs2 H2].
  assert (Hinj : forall x y : nat, N.of_nat x = N.of_nat y -> x = y) by (intros; lia).
  destruct (last (b_stmts bq) (SLog {| m_start := 0%N; m_end := 0%N; m_file := None |} [])) as [| m cond t f | | | | |] eqn:El;
    try (exfalso; destruct (b_succs bq) as [|x0 [|? ?]]; try discriminate;
         cbn in Hs1, Hs2; rewrite orb_false_r in Hs1, Hs2; apply N.eqb_eq in Hs1, Hs2; apply Hne, Hinj; congruence).
  destruct (cval p sem2 sem1 call_sem name_code s1 cond) as [v1|] eqn:E1; [|discriminate].
  destruct (cval p sem2 sem1 call_sem name_code s2 cond) as [v2|] eqn:E2; [|discriminate].
  exists m, cond, t, f, v1, v2.
  split.
  { (* the default of [last] only matters for an empty block, which does not end with a condition *)
    destruct (b_stmts bq) as [|s0 tl] eqn:Es; [cbn in El; discriminate|].
    rewrite <- El. clear. revert s0. induction tl as [|y tl IH]; intros s0; [reflexivity|]. cbn [last]. apply IH. }
  split; [exact E1|]. split; [exact E2|].
  intros Hv. rewrite Hv in H1. apply Hne, Hinj.
  destruct (v2 [] =? 0).
  - destruct f as [fi|].
    + apply N.eqb_eq in H1, H2. congruence.
    + destruct (b_succs bq) as [|x0 [|y0 [|? ?]]]; try discriminate. apply N.eqb_eq in H1, H2. congruence.
  - apply N.eqb_eq in H1, H2. congruence.
Qed.
End BranchDiffer.

(* ---------- the assembly ---------- *)
Require Model.Lift Model.DegGraph Spec.CtlSpec Proofs.MirrorsDom Proofs.DegGraphRooted Proofs.CtlBridge Proofs.CtlSplitWalks.

Section Decided.
Variable V : Type.
Variable p : Z.
Variable sem2 : infix_op -> Z -> Z -> Z.
Variable sem1 : prefix_op -> Z -> Z.
Variable call_sem : ident -> list Z -> Z.
Variable name_code : ident -> Z.
Variable c : cfg.
Variable idom : list (option N).
Variable pth : V -> list nat.
Variable s0 s : V -> cstore.
Variable infos : list binfo.
Variable g : list Lift.block.
Variable body : Lift.sk.
Notation L0 := (params_map (c_params c)).
Notation n := (length (c_blocks c)).
Notation cval := (cval p sem2 sem1 call_sem name_code).
Notation cexec_path := (cexec_path p sem2 sem1 call_sem name_code).
Notation cexec_nocheck := (cexec_nocheck p sem2 sem1 call_sem name_code c).
Notation ent := (ent V p sem2 sem1 call_sem name_code c L0 pth s0).
Notation Lat := (Lat V c L0 pth).
Notation visits := (visits V pth).

Hypothesis Hsorted : forall rho, StronglySorted lt (pth rho).
Hypothesis Hlt : forall rho i, In i (pth rho) -> (i < n)%nat.
Hypothesis Hentry : forall rho, exists tl, pth rho = 0%nat :: tl.
Hypothesis Hrunp : forall rho, cexec_path c L0 (s0 rho) (pth rho) = Some (s rho).
Hypothesis Hsa : NoDup (local_targets c (all_stmts (c_blocks c))).
Hypothesis Hs0 : forall rho x, In x (local_targets c (all_stmts (c_blocks c))) -> s0 rho x = None.
Hypothesis Hok : infos_ok infos c = true.
Hypothesis Hgc : DegGraph.graph_consistent c = true.
Hypothesis Htab : DegGraph.idom_is_dominator_table c idom = true.
Hypothesis Hshape : idom_shape c idom = true.
Hypothesis Hsame : DegGraph.dom_graph_of c = MirrorsDom.to_dom g.
Hypothesis Hlift : Lift.lift body = Ok g.

Lemma Hrun : forall rho, cexec_nocheck L0 (s0 rho) (pth rho) <> None.
Proof. intros rho. rewrite (cexec_path_nocheck p sem2 sem1 call_sem name_code c _ _ _ _ (Hrunp rho)). discriminate. Qed.

Theorem picks_decided_holds : picks_decided V p sem2 sem1 call_sem name_code c idom L0 pth s0.
Proof.
  intros a b Hb m x op args k sv stt Hin Hloc r1 r2 Hv1 Hv2 Hne.
  pose proof (DegGraphRooted.consistent_index c Hgc) as Hidx.
  assert (Han : (a < n)%nat) by (apply nth_error_Some; congruence).
  (* the shape of a visiting path *)
  assert (Hshape_of : forall r, visits r a = true ->
            exists pre post, pth r = pre ++ a :: post /\ below a (pth r) = pre).
  { intros r Hv. apply (visits_in V pth) in Hv. apply in_split in Hv as (pre & post & E).
    exists pre, post. split; [exact E|]. rewrite E. apply below_split_at. rewrite <- E. apply Hsorted. }
  destruct (Hshape_of r1 Hv1) as (pre1 & post1 & E1 & B1). destruct (Hshape_of r2 Hv2) as (pre2 & post2 & E2 & B2).
  assert (Harg : forall r, arg_of V (fun rho => Lat rho a) x args r =
                           match vget (vmap_after c L0 (below a (pth r))) (key_of x) with Some n0 => phi_arg x n0 args | None => None end)
    by reflexivity.
  (* the prefixes are not empty *)
  destruct (Hentry r1) as (tl01 & T1). destruct (Hentry r2) as (tl02 & T2).
  destruct pre1 as [|d1 tl1].
  { exfalso. rewrite T1 in E1. cbn [app] in E1. injection E1 as <- _.
    assert (B2' : below 0 (pth r2) = []) by (apply below_none; apply Forall_forall; intros; lia).
    apply Hne. rewrite !Harg, B1, B2'. reflexivity. }
  destruct pre2 as [|d2 tl2].
  { exfalso. rewrite T2 in E2. cbn [app] in E2. injection E2 as <- _.
    assert (B1' : below 0 (pth r1) = []) by (apply below_none; apply Forall_forall; intros; lia).
    apply Hne. rewrite !Harg, B1', B2. reflexivity. }
  assert (d1 = 0%nat) by (rewrite T1 in E1; cbn [app] in E1; congruence). subst d1.
  assert (d2 = 0%nat) by (rewrite T2 in E2; cbn [app] in E2; congruence). subst d2.
  (* the runs are walks from the entry block *)
  assert (W1 : is_walk c 0 (tl1 ++ a :: post1)).
  { apply (cexec_path_walk p sem2 sem1 call_sem name_code c _ L0 (s0 r1) 0%nat (s r1)). rewrite <- app_comm_cons in E1. rewrite <- E1. apply Hrunp. }
  assert (W2 : is_walk c 0 (tl2 ++ a :: post2)).
  { apply (cexec_path_walk p sem2 sem1 call_sem name_code c _ L0 (s0 r2) 0%nat (s r2)). rewrite <- app_comm_cons in E2. rewrite <- E2. apply Hrunp. }
  (* (a) different arriving versions: different incoming edges *)
  destruct (entry_walk_meq c infos Hok Hidx tl1 (is_walk_app c tl1 0%nat _ W1)) as (il1 & Hil1 & Hm1).
  destruct (entry_walk_meq c infos Hok Hidx tl2 (is_walk_app c tl2 0%nat _ W2)) as (il2 & Hil2 & Hm2).
  assert (Hlast : last tl1 0%nat <> last tl2 0%nat).
  { intros El. rewrite El in Hil1. rewrite Hil1 in Hil2. injection Hil2 as <-.
    apply Hne. rewrite !Harg, B1, B2. rewrite (Hm1 (key_of x)), (Hm2 (key_of x)). reflexivity. }
  (* bounds from sortedness *)
  pose proof (Hsorted r1) as S1. rewrite E1 in S1. pose proof (Hsorted r2) as S2. rewrite E2 in S2.
  destruct (sorted_app_lt _ _ S1) as (Hb1 & Sp1 & _). destruct (sorted_app_lt _ _ S2) as (Hb2 & Sp2 & _).
  assert (Ha1 : ~ In a tl1) by (intros H; specialize (Hb1 a a (or_intror H) (or_introl eq_refl)); lia).
  assert (Ha2 : ~ In a tl2) by (intros H; specialize (Hb2 a a (or_intror H) (or_introl eq_refl)); lia).
  (* the block where the two runs part for the last time *)
  destruct (parting_block a (length tl1) 0%nat tl1 tl2 (le_n _) Ha1 Ha2 Hlast) as (q & h1 & t1 & h2 & t2 & D1 & D2 & Hdis & Hhd).
  assert (P1 : pth r1 = h1 ++ q :: (t1 ++ a :: post1)) by (rewrite E1, D1, <- app_assoc; reflexivity).
  assert (P2 : pth r2 = h2 ++ q :: (t2 ++ a :: post2)) by (rewrite E2, D2, <- app_assoc; reflexivity).
  assert (Hqa : (q < a)%nat) by (apply (Hb1 q a); [rewrite D1; apply in_or_app; right; left; reflexivity|left; reflexivity]).
  pose proof (Hsorted r1) as S1'. rewrite P1 in S1'. pose proof (Hsorted r2) as S2'. rewrite P2 in S2'.
  destruct (sorted_app_lt _ _ S1') as (_ & _ & Sq1). destruct (sorted_app_lt _ _ S2') as (_ & _ & Sq2).
  apply StronglySorted_inv in Sq1 as [_ Fq1]. apply StronglySorted_inv in Sq2 as [_ Fq2].
  rewrite Forall_forall in Fq1, Fq2.
  assert (Hq1 : ~ In q t1) by (intros H; specialize (Fq1 q (in_or_app _ _ _ (or_introl H))); lia).
  assert (Hq2 : ~ In q t2) by (intros H; specialize (Fq2 q (in_or_app _ _ _ (or_introl H))); lia).
  assert (Hat1 : ~ In a t1).
  { intros H. apply Ha1. assert (In a (0%nat :: tl1)) by (rewrite D1; apply in_or_app; right; right; exact H).
    destruct H0 as [<-|H0]; [lia|exact H0]. }
  assert (Hat2 : ~ In a t2).
  { intros H. apply Ha2. assert (In a (0%nat :: tl2)) by (rewrite D2; apply in_or_app; right; right; exact H).
    destruct H0 as [<-|H0]; [lia|exact H0]. }
  (* the branch tests at q *)
  assert (N1 : exists rest1, t1 ++ a :: post1 = hd a t1 :: rest1) by (destruct t1; cbn; eauto).
  assert (N2 : exists rest2, t2 ++ a :: post2 = hd a t2 :: rest2) by (destruct t2; cbn; eauto).
  destruct N1 as (rest1 & N1). destruct N2 as (rest2 & N2).
  pose proof (Hrunp r1) as R1. rewrite P1, N1 in R1. pose proof (Hrunp r2) as R2. rewrite P2, N2 in R2.
  destruct (path_branch p sem2 sem1 call_sem name_code c h1 _ _ _ _ _ _ R1) as (bq & sq1 & Hbq & Hsq1 & Br1).
  destruct (path_branch p sem2 sem1 call_sem name_code c h2 _ _ _ _ _ _ R2) as (bq' & sq2 & Hbq' & Hsq2 & Br2).
  rewrite Hbq in Hbq'. injection Hbq' as <-.
  destruct (branch_differ p sem2 sem1 call_sem name_code sq1 sq2 bq _ _ Br1 Br2 Hhd) as (mm & cond & t & f & v1 & v2 & Hl & Hc1 & Hc2 & Hdiff).
  (* the stores after q are the stores of the schedule *)
  assert (Bq1 : below (S q) (pth r1) = h1 ++ [q]) by (rewrite P1; apply below_S_split; rewrite <- P1; apply Hsorted).
  assert (Bq2 : below (S q) (pth r2) = h2 ++ [q]) by (rewrite P2; apply below_S_split; rewrite <- P2; apply Hsorted).
  assert (Ent1 : ent r1 (S q) = sq1) by (unfold DegRunBranch.ent, DegRunBranch.E; rewrite Bq1, Hsq1; reflexivity).
  assert (Ent2 : ent r2 (S q) = sq2) by (unfold DegRunBranch.ent, DegRunBranch.E; rewrite Bq2, Hsq2; reflexivity).
  (* (c) the condition keeps its value until the join is entered *)
  assert (G1 : csub (ent r1 (S q)) (ent r1 a))
    by (apply (ent_grow V p sem2 sem1 call_sem name_code c L0 pth s0 Hsorted Hrun Hsa Hs0 r1 (S q) a); lia).
  assert (G2 : csub (ent r2 (S q)) (ent r2 a))
    by (apply (ent_grow V p sem2 sem1 call_sem name_code c L0 pth s0 Hsorted Hrun Hsa Hs0 r2 (S q) a); lia).
  rewrite Ent1 in G1. rewrite Ent2 in G2.
  pose proof (cval_csub p sem2 sem1 call_sem name_code sq1 (ent r1 a) G1 cond v1 Hc1) as Hc1'.
  pose proof (cval_csub p sem2 sem1 call_sem name_code sq2 (ent r2 a) G2 cond v2 Hc2) as Hc2'.
  (* the two incoming edges: the block is a join *)
  pose proof (walk_edge_at c tl1 0%nat a post1 W1) as Ed1. pose proof (walk_edge_at c tl2 0%nat a post2 W2) as Ed2.
  pose proof (DegGraphRooted.edge_is_pred c Hgc a b _ Hb Ed1) as Pr1.
  pose proof (DegGraphRooted.edge_is_pred c Hgc a b _ Hb Ed2) as Pr2.
  assert (Hjoin : (2 <= length (b_preds b))%nat).
  { apply (two_distinct_length _ _ _ Pr1 Pr2). intros E. apply Hlast. lia. }
  split; [exact Hjoin|].
  exists cond, v1, v2. split; [|split; [exact Hc1'|split; [exact Hc2'|exact Hdiff]]].
  (* (b) the parting block is named by the table walk *)
  assert (Hqg : (q < length g)%nat) by (rewrite (CtlSplitWalks.same_length c g Hsame); lia).
  assert (Wq1 : is_walk c q (t1 ++ [a])).
  { assert (H : is_walk c q ((t1 ++ [a]) ++ post1)).
    { rewrite <- app_assoc. cbn [app].
      destruct h1 as [|d h1]; cbn [app] in D1; injection D1 as Hd D1.
      - subst q. rewrite D1 in W1. exact W1.
      - rewrite D1, <- app_assoc in W1. cbn [app] in W1. eapply is_walk_suffix; eauto. }
    eapply is_walk_app; eauto. }
  assert (Wq2 : is_walk c q (t2 ++ [a])).
  { assert (H : is_walk c q ((t2 ++ [a]) ++ post2)).
    { rewrite <- app_assoc. cbn [app].
      destruct h2 as [|d h2]; cbn [app] in D2; injection D2 as Hd D2.
      - subst q. rewrite D2 in W2. exact W2.
      - rewrite D2, <- app_assoc in W2. cbn [app] in W2. eapply is_walk_suffix; eauto. }
    eapply is_walk_app; eauto. }
  pose proof (CtlSplitWalks.can_split_of_walks c g Hsame Hgc q a t1 t2 Hqg Wq1 Wq2 Hq1 Hat1 Hq2 Hat2 Hdis Hhd) as Hcs.
  pose proof (CtlSplitWalks.is_join_of c g Hsame a b Hb Hjoin) as Hj.
  exact (CtlBridge.lifted_split_decides c idom g Hsame Hgc Htab Hshape body Hlift a b q bq mm cond t f Hb Hbq Hcs Hj Hl).
Qed.
End Decided.

(* ---------- THE THEOREMS FOR LOOP-FREE GRAPHS, no assumption about the family left ---------- *)
Section LoopFree.
Variable V : Type.
Variable line : V -> V -> Z -> V.
Variable p : Z.
Variable sem2 : infix_op -> Z -> Z -> Z.
Variable sem1 : prefix_op -> Z -> Z.
Variable call_sem : ident -> list Z -> Z.
Variable name_code : ident -> Z.

Lemma start_undefined_concrete (c : cfg) (S0 : fstore V) (s0 : V -> cstore) :
  targets_start_undefined V c S0 -> (forall rho, rel_store V rho (s0 rho) S0) ->
  forall rho x, In x (local_targets c (all_stmts (c_blocks c))) -> s0 rho x = None.
Proof.
  intros Ht H0 rho x Hx. specialize (H0 rho x). rewrite (Ht x Hx) in H0. destruct (s0 rho x); [contradiction|reflexivity].
Qed.

Theorem loop_free_runs_represented (c : cfg) (idom : list (option N)) (infos : list binfo)
    (g : list Lift.block) (body : Lift.sk) (S0 : fstore V)
    (pth : V -> list nat) (s0 s : V -> cstore) (reps : list V) :
  infos_ok infos c = true ->
  DegGraph.graph_consistent c = true -> DegGraph.idom_is_dominator_table c idom = true -> idom_shape c idom = true ->
  DegGraph.dom_graph_of c = MirrorsDom.to_dom g -> Lift.lift body = Ok g ->
  single_assignment c -> targets_start_undefined V c S0 ->
  (forall rho, StronglySorted lt (pth rho)) ->
  (forall rho i, In i (pth rho) -> (i < length (c_blocks c))%nat) ->
  (forall rho, exists tl, pth rho = 0%nat :: tl) ->
  (forall rho, exists r, In r reps /\ pth r = pth rho) ->
  (forall rho, rel_store V rho (s0 rho) S0) ->
  (forall rho, cexec_path p sem2 sem1 call_sem name_code c (params_map (c_params c)) (s0 rho) (pth rho) = Some (s rho)) ->
  exists S, freachable V p sem2 sem1 call_sem name_code c idom S0 S /\ forall rho, sub_store V rho (s rho) S.
Proof.
  intros Hok Hgc Htab Hshape Hsame Hlift Hsa Hinit Hsorted Hlt Hentry Hreps H0 Hrun.
  apply (diverging_runs_represented V p sem2 sem1 call_sem name_code c idom S0 (params_map (c_params c)) pth s0 s reps); auto.
  apply (picks_decided_holds V p sem2 sem1 call_sem name_code c idom pth s0 s infos g body); auto.
  exact (start_undefined_concrete c S0 s0 Hinit H0).
Qed.

Hypothesis Hsem2 : forall op, Proofs.DegreeProofs.op_den p op (sem2 op).
Hypothesis Hsem1 : forall op, Proofs.DegreeProofs.prefix_den p op (sem1 op).

Theorem loop_free_runs_claims_true (c : cfg) (idom : list (option N)) (infos : list binfo)
    (g : list Lift.block) (body : Lift.sk) (S0 : fstore V)
    (pth : V -> list nat) (s0 s : V -> cstore) (reps : list V) :
  djust_cfg c idom = true -> Proofs.DegGraphProofs.finit_ok V line p c S0 ->
  infos_ok infos c = true ->
  DegGraph.graph_consistent c = true -> DegGraph.idom_is_dominator_table c idom = true ->
  DegGraph.dom_graph_of c = MirrorsDom.to_dom g -> Lift.lift body = Ok g ->
  single_assignment c -> targets_start_undefined V c S0 ->
  (forall rho, StronglySorted lt (pth rho)) ->
  (forall rho i, In i (pth rho) -> (i < length (c_blocks c))%nat) ->
  (forall rho, exists tl, pth rho = 0%nat :: tl) ->
  (forall rho, exists r, In r reps /\ pth r = pth rho) ->
  (forall rho, rel_store V rho (s0 rho) S0) ->
  (forall rho, cexec_path p sem2 sem1 call_sem name_code c (params_map (c_params c)) (s0 rho) (pth rho) = Some (s rho)) ->
  forall e r (val : V -> cell),
  djust_expr c e = true -> expr_deg e = Some r ->
  (forall rho, cval p sem2 sem1 call_sem name_code (s rho) e = Some (val rho)) ->
  forall i, SemDeg V line p (snd r) (fun rho => val rho i).
Proof.
  intros Hv Hi Hok Hgc Htab Hsame Hlift Hsa Hinit Hsorted Hlt Hentry Hreps H0 Hrun.
  assert (Hshape : idom_shape c idom = true) by (unfold djust_cfg in Hv; apply andb_true_iff in Hv; apply Hv).
  apply (diverging_runs_claims_true V line p sem2 sem1 call_sem name_code Hsem2 Hsem1 c idom S0 (params_map (c_params c)) pth s0 s reps); auto.
  apply (picks_decided_holds V p sem2 sem1 call_sem name_code c idom pth s0 s infos g body); auto.
  exact (start_undefined_concrete c S0 s0 Hinit H0).
Qed.
End LoopFree.

(* ---------- the hypotheses about the family that follow from decidable ones about the graph ---------- *)
Lemma nodup_vnames_sound l : DegGraph.nodup_vnames l = true -> NoDup l.
Proof.
  induction l as [|x tl IH]; cbn [DegGraph.nodup_vnames]; intros H; [constructor|].
  apply andb_true_iff in H as [H1 H2]. constructor; [|auto].
  intros Hin. apply negb_true_iff in H1.
  assert (existsb (vname_eqb x) tl = true) by (apply existsb_exists; exists x; split; [exact Hin|apply vname_eqb_refl]). congruence.
Qed.

Lemma single_assignment_b_sound c : DegGraph.single_assignment_b c = true -> single_assignment c.
Proof. intros H. apply nodup_vnames_sound in H. exact H. Qed.

Lemma forward_edge c : DegGraph.forward_b c = true ->
  forall i b s, nth_error (c_blocks c) i = Some b -> In (N.of_nat s) (b_succs b) -> (i < s)%nat.
Proof.
  unfold DegGraph.forward_b. intros H i b s Hb Hs. rewrite forallb_forall in H.
  pose proof (Proofs.DegGraphProofs.combine_seq_nth (c_blocks c) 0 i b Hb) as Hin. cbn [Nat.add] in Hin.
  specialize (H _ Hin). cbn [fst snd] in H. rewrite forallb_forall in H. specialize (H _ Hs).
  apply Nat.ltb_lt in H. lia.
Qed.

Lemma forward_sorted c : DegGraph.forward_b c = true -> forall l i, is_walk c i l -> StronglySorted lt (i :: l).
Proof.
  intros Hf. induction l as [|s l IH]; intros i Hw; [repeat constructor|].
  cbn [is_walk] in Hw. destruct Hw as [(b & Hb & Hs) Hw].
  pose proof (forward_edge c Hf i b s Hb Hs) as Hlt. specialize (IH s Hw).
  constructor; [exact IH|]. apply StronglySorted_inv in IH as [_ Hall].
  constructor; [exact Hlt|]. eapply Forall_impl; [|exact Hall]. cbn. intros; lia.
Qed.

Section Valid.
Variable p : Z.
Variable sem2 : infix_op -> Z -> Z -> Z.
Variable sem1 : prefix_op -> Z -> Z.
Variable call_sem : ident -> list Z -> Z.
Variable name_code : ident -> Z.
Variable c : cfg.

Lemma cexec_path_indices pi : forall L s s', cexec_path p sem2 sem1 call_sem name_code c L s pi = Some s' ->
  forall i, In i pi -> (i < length (c_blocks c))%nat.
Proof.
  induction pi as [|j tl IH]; intros L s s' H i Hi; [contradiction|].
  cbn [DegRun.cexec_path] in H. destruct (nth_error (c_blocks c) j) as [b|] eqn:Eb; [|discriminate].
  destruct (cexec_block p sem2 sem1 call_sem name_code c L s b) as [s1|]; [|discriminate].
  destruct (match tl with [] => true | j0 :: _ => branch_okb p sem2 sem1 call_sem name_code s1 b j0 end); [|discriminate].
  destruct Hi as [<-|Hi]; [apply nth_error_Some; congruence|eapply IH; eauto].
Qed.
End Valid.

Lemma finit_targets_undefined V line p c (S0 : fstore V) :
  Proofs.DegGraphProofs.finit_ok V line p c S0 -> targets_start_undefined V c S0.
Proof.
  intros Hi x Hx. destruct (S0 x) as [F|] eqn:E; [|reflexivity]. exfalso.
  unfold DegRunBranch.local_targets in Hx. apply in_flat_map in Hx as (st & Hst & Hx).
  destruct st as [| | |m y op rhe sv stt| | |]; try contradiction.
  destruct (stores_local c y) eqn:El; [|contradiction]. destruct Hx as [<-|[]].
  destruct (stores_local_spec c y El) as [Hd Hp].
  destruct (Hi y F E) as [[Hp' _]|[(_ & (t & Ht & Hnl) & _)|[Hu _]]].
  - congruence.
  - rewrite Hd in Ht. injection Ht as <-. congruence.
  - unfold unassigned in Hu.
    assert (Hex : existsb (defines y) (all_stmts (c_blocks c)) = true).
    { apply existsb_exists. eexists. split; [exact Hst|]. cbn [defines]. apply vname_eqb_refl. }
    rewrite Hex in Hu. discriminate.
Qed.

(* THE THEOREM WITH DECIDABLE GRAPH HYPOTHESES ONLY: what is asked of the family is that there
   are finitely many path classes, that the runs start at the entry block with the initial
   family taken at their valuation, and that they complete *)
Theorem loop_free_graph_claims_true
  (V : Type) (line : V -> V -> Z -> V) (p : Z)
  (sem2 : infix_op -> Z -> Z -> Z) (sem1 : prefix_op -> Z -> Z) (call_sem : ident -> list Z -> Z) (name_code : ident -> Z) :
  (forall op, Proofs.DegreeProofs.op_den p op (sem2 op)) -> (forall op, Proofs.DegreeProofs.prefix_den p op (sem1 op)) ->
  forall (c : cfg) (idom : list (option N)) (infos : list binfo) (g : list Lift.block) (body : Lift.sk)
         (S0 : fstore V) (pth : V -> list nat) (s0 s : V -> cstore) (reps : list V),
  djust_cfg c idom = true -> infos_ok infos c = true ->
  DegGraph.deg_graph_ok c idom = true -> DegGraph.loop_free_ok c = true ->
  DegGraph.dom_graph_of c = MirrorsDom.to_dom g -> Lift.lift body = Ok g ->
  Proofs.DegGraphProofs.finit_ok V line p c S0 ->
  (forall rho, exists tl, pth rho = 0%nat :: tl) ->
  (forall rho, exists r, In r reps /\ pth r = pth rho) ->
  (forall rho, rel_store V rho (s0 rho) S0) ->
  (forall rho, cexec_path p sem2 sem1 call_sem name_code c (params_map (c_params c)) (s0 rho) (pth rho) = Some (s rho)) ->
  forall e r (val : V -> cell),
  djust_expr c e = true -> expr_deg e = Some r ->
  (forall rho, cval p sem2 sem1 call_sem name_code (s rho) e = Some (val rho)) ->
  forall i, SemDeg V line p (snd r) (fun rho => val rho i).
Proof.
  intros H2 H1 c idom infos g body S0 pth s0 s reps Hv Hok Hdg Hlf Hsame Hlift Hi Hentry Hreps H0 Hrun.
  unfold DegGraph.deg_graph_ok in Hdg. apply andb_true_iff in Hdg as [Hgc Htab].
  unfold DegGraph.loop_free_ok in Hlf. apply andb_true_iff in Hlf as [Hsab Hfw].
  apply (loop_free_runs_claims_true V line p sem2 sem1 call_sem name_code H2 H1 c idom infos g body S0 pth s0 s reps); auto.
  - apply single_assignment_b_sound. exact Hsab.
  - eapply finit_targets_undefined; eauto.
  - intros rho. destruct (Hentry rho) as (tl & E). rewrite E. apply (forward_sorted c Hfw).
    apply (cexec_path_walk p sem2 sem1 call_sem name_code c tl (params_map (c_params c)) (s0 rho) 0%nat (s rho)).
    rewrite <- E. apply Hrun.
  - intros rho. eapply cexec_path_indices. apply Hrun.
Qed.
