(* The recursion fuel of the structured semantics (Spec.CfgSpec.run) is never
   exhausted: every loop iteration consumes a decision. *)
From stdpp Require Import list.
Require Import Model.Lift Spec.CfgSpec Proofs.LiftProofs Proofs.LiftSim.

Definition shrinks (s : sk) : Prop :=
  forall ds tr ds' st, run s ds = (tr, ds', st) -> length ds' <= length ds /\ st <> Diverged.

Lemma run_seq_shrinks ss : Forall shrinks ss ->
  forall ds tr ds' st, run_seq ss ds = (tr, ds', st) -> length ds' <= length ds /\ st <> Diverged.
Proof.
  induction 1 as [|s r Hs _ IH]; intros ds tr ds' st Hr; simpl in Hr.
  - injection Hr as <- <- <-. done.
  - destruct (run s ds) as [[tr1 ds1] st1] eqn:E. destruct (Hs _ _ _ _ E) as [H1 H2].
    destruct st1; try (injection Hr as <- <- <-; done).
    destruct (run_seq r ds1) as [[tr2 ds2] st2] eqn:E2. injection Hr as <- <- <-.
    destruct (IH _ _ _ _ E2). split; [lia|done].
Qed.

Lemma run_loop_shrinks c body : shrinks body ->
  forall fuel ds tr ds' st, length ds < fuel -> run_loop c (run body) fuel ds = (tr, ds', st) ->
  length ds' <= length ds /\ st <> Diverged.
Proof.
  intros Hb. induction fuel as [|fuel IH]; intros ds tr ds' st Hlt Hr; [exfalso; lia|]. simpl in Hr.
  destruct ds as [|[] ds1]; simpl in *.
  - injection Hr as <- <- <-. done.
  - destruct (run body ds1) as [[tr1 ds2] st1] eqn:E. destruct (Hb _ _ _ _ E) as [H1 H2].
    destruct st1; try (injection Hr as <- <- <-; split; [lia|done]).
    destruct (run_loop c (run body) fuel ds2) as [[tr2 ds3] st2] eqn:E2. injection Hr as <- <- <-.
    assert (Hf : length ds2 < fuel) by lia.
    destruct (IH _ _ _ _ Hf E2). split; [lia|done].
  - injection Hr as <- <- <-. split; [lia|done].
Qed.

Theorem run_shrinks s : shrinks s.
Proof.
  induction s as [id r|ss IH|ss IH|c body IH|c t e IHt IHe] using sk_ind'; intros ds tr ds' st Hr.
  - simpl in Hr. injection Hr as <- <- <-. split; [done|]. by destruct r.
  - rewrite run_init in Hr. by eapply run_seq_shrinks.
  - rewrite run_block in Hr. by eapply run_seq_shrinks.
  - rewrite run_while in Hr. eapply run_loop_shrinks; [done| |done]. lia.
  - simpl in Hr. destruct ds as [|[] ds1].
    + injection Hr as <- <- <-. done.
    + destruct (run t ds1) as [[tr1 ds2] st1] eqn:E. injection Hr as <- <- <-.
      destruct (IHt _ _ _ _ E). simpl. split; [lia|done].
    + destruct e as [e|].
      * destruct (run e ds1) as [[tr1 ds2] st1] eqn:E. injection Hr as <- <- <-.
        destruct (IHe e eq_refl _ _ _ _ E). simpl. split; [lia|done].
      * injection Hr as <- <- <-. simpl. split; [lia|done].
Qed.

Theorem run_never_diverges s ds : final_status s ds <> Diverged.
Proof.
  unfold final_status. destruct (run s ds) as [[tr ds'] st] eqn:E. simpl.
  by destruct (run_shrinks s _ _ _ _ E).
Qed.
